(* Examples.v - concrete items used by the non-vacuity examples of the property files. *)
From DW Require Export Render.

Definition cfg_default := mkCfg false false false false.
Definition cfg_safe := mkCfg true false false false.
Definition cfg_nightly := mkCfg false true false false.
Definition cfg_zeroize := mkCfg false false true false.
Definition cfg_zod := mkCfg false false true true.

Definition pid (s : string) : path := mkPath false [s].
Definition dw_of (traits : list string) (gens : option (list generic_raw)) : item_attr :=
  IADw (DAList (map (fun t => M1Path (pid t)) traits) gens).
Definition sub_of (opts : list string) : field_attr := FADw (SAList (Some (map (fun t => M1Path (pid t)) opts))).
Definition skip_groups (name : string) (gs : list string) : field_attr :=
  FADw (SAList (Some [M1List (pid name) (Some (map (fun g => M2Path (pid g)) gs))])).
Definition fld (name : string) (ty : toks) (attrs : list field_attr) : raw_field := mkRawField attrs [] (Some name) ty.
Definition ufld (ty : toks) (attrs : list field_attr) : raw_field := mkRawField attrs [] None ty.
Definition gen_T : generics := mkGenerics [GPType "T" [] []] false None.

(* #[derive_where(Clone, Debug, Default, Eq, Hash, Ord, PartialEq, PartialOrd)]
   enum E<T> { A { a: T, #[derive_where(skip(EqHashOrd))] b: u8 }, #[derive_where(default)] B(T), C } *)
Definition all8 := ["Clone"; "Debug"; "Default"; "Eq"; "Hash"; "Ord"; "PartialEq"; "PartialOrd"].
Definition ex_enum : raw_item :=
  mkRawItem [dw_of all8 None] [] "E" gen_T
    (KEnum [mkRawVariant [] "A" RNamed [fld "a" ["T"] []; fld "b" ["u8"] [skip_groups "skip" ["EqHashOrd"]]] None;
            mkRawVariant [sub_of ["default"]] "B" RUnnamed [ufld ["T"] []] None;
            mkRawVariant [] "C" RUnit [] None]).

(* #[derive_where(PartialEq, PartialOrd, Clone, Debug, Hash)]
   enum I<T> { A(T), #[derive_where(incomparable)] B, C(T, #[derive_where(skip)] u8) } *)
Definition ex_inc : raw_item :=
  mkRawItem [dw_of ["PartialEq"; "PartialOrd"; "Clone"; "Debug"; "Hash"] None] [] "I" gen_T
    (KEnum [mkRawVariant [] "A" RUnnamed [ufld ["T"] []] None;
            mkRawVariant [sub_of ["incomparable"]] "B" RUnit [] None;
            mkRawVariant [] "C" RUnnamed [ufld ["T"] []; ufld ["u8"] [sub_of ["skip"]]] None]).

(* #[repr(u8)] #[derive_where(PartialOrd, Ord, PartialEq, Eq)] enum R<T> { A(T) = 5, B, C = 2 } *)
Definition ex_repr : raw_item :=
  mkRawItem [IARepr (ReprIdents ["u8"]); dw_of ["PartialOrd"; "Ord"; "PartialEq"; "Eq"] None] [] "R" gen_T
    (KEnum [mkRawVariant [] "A" RUnnamed [ufld ["T"] []] (Some (["5"], 5%Z));
            mkRawVariant [] "B" RUnit [] None;
            mkRawVariant [] "C" RUnit [] (Some (["2"], 2%Z))]).

(* #[derive_where(Clone, Copy; T)] union U<T, V> { a: T, b: V }  (not accepted by rustc for other reasons; used for headers) *)
Definition ex_struct : raw_item :=
  mkRawItem [dw_of ["Clone"; "Debug"; "PartialEq"; "Hash"; "Default"] (Some [GRType ["T"]])] [] "S"
    (mkGenerics [GPType "T" [] []; GPType "U" [] []] false None)
    (KStruct RNamed [fld "a" ["T"] []; fld "b" ["U"] [sub_of ["skip"]]]).

Definition parsed (c : cfg) (r : raw_item) : option input :=
  match from_input c r with Ok i => Some i | _ => None end.
