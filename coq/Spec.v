(* Spec.v - the REFERENCE meaning of each derived trait, written from the
   documentation and from the standard derives, independently of Gen.v:
   documented skip table, structural equality, discriminant-then-lexicographic
   order, hash transcript, clone, default, Debug builder trace, zeroize set,
   and Rust's own rules for discriminant numbering, tag types and enum casts. *)
From DW Require Export Sem Frontend.

(* ---- the documented skip table (README "Skipping fields") ---- *)
Definition group_selects (g : group) (t : trait) : bool :=
  match g, t with
  | GDebug, Debug => true
  | GEqHashOrd, (Eq | Hash | Ord | PartialEq | PartialOrd) => true
  | GHash, Hash => true
  | GZeroize, (Zeroize | ZeroizeOnDrop) => true
  | _, _ => false
  end.

Definition skippable (t : trait) : bool :=
  match t with Clone | Copy | Default => false | _ => true end.

Definition selects (s : skip) (t : trait) : bool :=
  match s with
  | SkipNone => false
  | SkipAll => skippable t
  | SkipTraits gs => existsb (fun g => group_selects g t) gs
  end.

(* a field takes part in trait t iff neither its own marker nor its parent's skip_inner selects t *)
Definition visible (d : data) (t : trait) (f : field) : bool :=
  negb (selects (f_skip f) t) && negb (selects (d_skip_inner d) t).

Definition visible_positions (d : data) (t : trait) : list nat :=
  map fst (filter (fun p => visible d t (snd p)) (indexed (d_fields d))).

(* ---- well-formedness of parsed items and of values ---- *)
Definition wf_data (d : data) : Prop :=
  d_shape d = ShUnit -> d_fields d = [].

Definition wf_item (it : item) : Prop :=
  Forall wf_data (item_variants it) /\
  match it with
  | IEnum _ _ _ vs => Forall (fun d => d_shape d <> ShUnion /\ d_is_variant d = true) vs
  | IItem d => d_is_variant d = false
  end.

Definition item_inc_flag (it : item) : bool :=
  match it with IEnum _ _ inc _ => inc | IItem d => d_incomparable d end.

Section Spec.
Variable fval : Type.
Variable hval : Type.
Variable feq : fval -> fval -> bool.
Variable fpcmp : fval -> fval -> option comparison.
Variable fcmp : fval -> fval -> comparison.
Variable fhash : fval -> hval.
Variable fclone : fval -> fval.
Variable fdefault : toks -> fval.

Notation value := (value fval).

Definition wf_value (it : item) (v : value) : Prop :=
  exists d, nth_error (item_variants it) (v_idx v) = Some d /\ length (v_fields v) = length (d_fields d).

(* the values of the fields that matter for trait t *)
Definition project (d : data) (t : trait) (v : value) : list fval :=
  map snd (filter (fun p => visible d t (fst p)) (combine (d_fields d) (v_fields v))).

Definition variant_of (it : item) (v : value) : option data := nth_error (item_variants it) (v_idx v).

Definition incomparable_value (it : item) (v : value) : bool :=
  item_inc_flag it || match variant_of it v with Some d => d_incomparable d | None => false end.

(* ---- PartialEq: structural equality ---- *)
Definition spec_eq (it : item) (a b : value) : bool :=
  match variant_of it a with
  | Some d =>
      Nat.eqb (v_idx a) (v_idx b) && negb (incomparable_value it a)
      && forallb2 feq (project d PartialEq a) (project d PartialEq b)
  | None => false
  end.

(* what the standard derive computes on a type without the skipped fields *)
Definition std_eq (a b : nat * list fval) : bool :=
  Nat.eqb (fst a) (fst b) && forallb2 feq (snd a) (snd b).

(* ---- PartialOrd / Ord ---- *)
Definition disc_of (re : rust_enum) (v : value) : Z := nth (v_idx v) (re_discs re) 0%Z.

Definition spec_pcmp (it : item) (re : rust_enum) (a b : value) : option comparison :=
  if incomparable_value it a || incomparable_value it b then None
  else if Nat.eqb (v_idx a) (v_idx b) then
    match variant_of it a with
    | Some d => lex_p fpcmp (project d PartialOrd a) (project d PartialOrd b)
    | None => Some Datatypes.Eq
    end
  else Some (Z.compare (disc_of re a) (disc_of re b)).

Definition spec_cmp (it : item) (re : rust_enum) (a b : value) : comparison :=
  if Nat.eqb (v_idx a) (v_idx b) then
    match variant_of it a with
    | Some d => lex_t fcmp (project d Ord a) (project d Ord b)
    | None => Datatypes.Eq
    end
  else Z.compare (disc_of re a) (disc_of re b).

(* ---- Hash ---- *)
Definition spec_hash (it : item) (a : value) : list (hevent hval) :=
  match variant_of it a with
  | Some d => (if item_is_enum it then [HDisc (v_idx a)] else []) ++ map (fun x => HField (fhash x)) (project d Hash a)
  | None => []
  end.

(* ---- Clone ---- *)
Definition spec_clone (a : value) : value * list nat :=
  (mkValue (v_idx a) (map fclone (v_fields a)), seq 0 (length (v_fields a))).

(* ---- Default ---- *)
Definition default_index (it : item) : option nat :=
  match it with
  | IItem _ => Some 0
  | IEnum _ _ _ vs => match filter (fun p => d_default (snd p)) (indexed vs) with [(i, _)] => Some i | _ => None end
  end.

Definition spec_default (it : item) : option value :=
  match default_index it with
  | Some i => match nth_error (item_variants it) i with
              | Some d => Some (mkValue i (map (fun f => fdefault (f_ty f)) (d_fields d)))
              | None => None
              end
  | None => None
  end.

(* ---- Debug: the calls into core::fmt's builders made by the standard derive on the
        item with the skipped fields removed ---- *)
Definition spec_debug (it : item) (a : value) : option (dbg_trace fval) :=
  match variant_of it a with
  | Some d =>
      let shown := filter (fun p => visible d Debug (fst p)) (combine (d_fields d) (v_fields a)) in
      let omitted := negb (Nat.eqb (length shown) (length (d_fields d))) in
      let name := unraw (d_ident d) in
      match d_shape d with
      | ShStruct => Some (mkTrace DbgStruct name (map (fun p => (Some (member_display (f_member (fst p))), snd p)) shown) omitted)
      | ShTuple => Some (mkTrace DbgTuple name (map (fun p => (None, snd p)) shown) false)
      | ShUnit => Some (mkTrace DbgUnit name [] false)
      | ShUnion => None
      end
  | None => None
  end.

(* ---- Zeroize ---- *)
Definition spec_zeroize (it : item) (a : value) : list zevent :=
  match variant_of it a with
  | Some d => map (fun p : nat * field => if f_fqs (snd p) then ZFqs (fst p) else ZMethod (fst p))
                  (filter (fun p => visible d Zeroize (snd p)) (indexed (d_fields d)))
  | None => []
  end.

Definition zeroized_positions (evs : list zevent) : list nat :=
  flat_map (fun e => match e with ZMethod p | ZFqs p | ZOrOnDrop p => [p] | ZDelegate => [] end) evs.

End Spec.

(* ---- Rust's rules about enums (Reference: "Custom discriminant values",
        "Primitive representations", "Casting") ---- *)
Fixpoint rust_discs (ds : list (option Z)) (prev : option Z) : list Z :=
  match ds with
  | [] => []
  | Some z :: r => z :: rust_discs r (Some z)
  | None :: r =>
      let z := match prev with Some p => (p + 1)%Z | None => 0%Z end in
      z :: rust_discs r (Some z)
  end.

Definition repr_ints (attrs : list item_attr) : list repr :=
  flat_map (fun a => match a with
                     | IARepr (ReprIdents ids) =>
                         flat_map (fun i => match repr_parse i with Some r => [r] | None => [] end) ids
                     | _ => [] end) attrs.

(* the tag type of an enum: the integer type named by its #[repr], if any *)
Definition rust_tag (attrs : list item_attr) : option repr :=
  match repr_ints attrs with [] => None | r :: _ => Some r end.

(* rustc rejects conflicting integer representation hints (E0566) *)
Definition consistent_reprs (attrs : list item_attr) : bool :=
  match repr_ints attrs with [] => true | r :: rest => forallb (repr_beq r) rest end.

(* `enum as int` is allowed for unit-only enums, and for field-less enums without explicit discriminants *)
Definition rust_castable (vs : list raw_variant) : bool :=
  forallb (fun v => match rv_shape v with RUnit => true | _ => false end) vs
  || (forallb variant_fields_empty vs && forallb (fun v => negb (isSome (rv_disc v))) vs).

Definition raw_variants (r : raw_item) : list raw_variant :=
  match ri_kind r with KEnum vs => vs | _ => [] end.

Definition rust_enum_of (r : raw_item) : rust_enum :=
  mkRustEnum (rust_tag (ri_attrs r))
             (rust_discs (map (fun v => option_map snd (rv_disc v)) (raw_variants r)) None)
             (rust_castable (raw_variants r)).

(* what rustc itself enforces about the enum: consistent hints, every discriminant fits the tag type *)
Definition valid_rust_enum (r : raw_item) : Prop :=
  consistent_reprs (ri_attrs r) = true /\
  Forall (fun z => in_range (ty_or_isize (rust_tag (ri_attrs r))) z = true) (re_discs (rust_enum_of r)).

Arguments wf_value {fval}. Arguments project {fval}. Arguments variant_of {fval}.
Arguments incomparable_value {fval}. Arguments spec_eq {fval}. Arguments std_eq {fval}.
Arguments disc_of {fval}. Arguments spec_pcmp {fval}. Arguments spec_cmp {fval}.
Arguments spec_hash {fval hval}. Arguments spec_clone {fval}. Arguments spec_default {fval}.
Arguments spec_debug {fval}. Arguments spec_zeroize {fval}.
