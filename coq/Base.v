(* Base.v - outcomes, result monad, generic list helpers.  No proofs here. *)
From Coq Require Export String Ascii DecimalString.
From Coq Require Export Bool Arith ZArith NArith Lia List.
Export ListNotations.
Open Scope string_scope.
Open Scope list_scope.
Infix "+++" := String.append (at level 60, right associativity).
Notation length := List.length.

(* result of the front end *)
Inductive result (E A : Type) := Ok (a : A) | Err (e : E) | Panic (site : string).
Arguments Ok {E A}. Arguments Err {E A}. Arguments Panic {E A}.

Definition bind {E A B} (r : result E A) (f : A -> result E B) : result E B :=
  match r with Ok a => f a | Err e => Err e | Panic s => Panic s end.
Notation "'do' x <- r ; k" := (bind r (fun x => k)) (at level 200, x pattern, r at level 100, k at level 200, right associativity).

Fixpoint mapM {E A B} (f : A -> result E B) (l : list A) : result E (list B) :=
  match l with
  | [] => Ok []
  | x :: xs => do y <- f x; do ys <- mapM f xs; Ok (y :: ys)
  end.

Fixpoint foldM {E A S} (f : S -> A -> result E S) (l : list A) (s : S) : result E S :=
  match l with
  | [] => Ok s
  | x :: xs => do s' <- f s x; foldM f xs s'
  end.

Definition is_ok {E A} (r : result E A) : bool := match r with Ok _ => true | _ => false end.
Definition is_err {E A} (r : result E A) : bool := match r with Err _ => true | _ => false end.
Definition is_panic {E A} (r : result E A) : bool := match r with Panic _ => true | _ => false end.

(* outcome of evaluating generated code *)
Inductive outcome (A : Type) := Val (a : A) | UB | PanicO | Stuck.
Arguments Val {A}. Arguments UB {A}. Arguments PanicO {A}. Arguments Stuck {A}.

Definition obind {A B} (o : outcome A) (f : A -> outcome B) : outcome B :=
  match o with Val a => f a | UB => UB | PanicO => PanicO | Stuck => Stuck end.

(* list helpers *)
Fixpoint intersperse {A} (sep : A) (l : list A) : list A :=
  match l with
  | [] => []
  | [x] => [x]
  | x :: xs => x :: sep :: intersperse sep xs
  end.

Fixpoint intercalate {A} (sep : list A) (l : list (list A)) : list A :=
  match l with
  | [] => []
  | [x] => x
  | x :: xs => x ++ sep ++ intercalate sep xs
  end.

Fixpoint list_eqb {A} (eqb : A -> A -> bool) (l1 l2 : list A) : bool :=
  match l1, l2 with
  | [], [] => true
  | x :: xs, y :: ys => eqb x y && list_eqb eqb xs ys
  | _, _ => false
  end.

Definition option_eqb {A} (eqb : A -> A -> bool) (o1 o2 : option A) : bool :=
  match o1, o2 with
  | None, None => true
  | Some x, Some y => eqb x y
  | _, _ => false
  end.

Definition isSome {A} (o : option A) : bool := match o with Some _ => true | None => false end.

Fixpoint catOptions {A} (l : list (option A)) : list A :=
  match l with [] => [] | Some x :: r => x :: catOptions r | None :: r => catOptions r end.

(* positions *)
Fixpoint indexed_from {A} (n : nat) (l : list A) : list (nat * A) :=
  match l with [] => [] | x :: r => (n, x) :: indexed_from (S n) r end.
Definition indexed {A} (l : list A) := indexed_from 0 l.

(* arms aligned with a variant list; only the emitted ones exist in the code *)
Fixpoint emitted_from {B} (n : nat) (es : list (option B)) : list (nat * B) :=
  match es with
  | [] => []
  | Some b :: es' => (n, b) :: emitted_from (S n) es'
  | None :: es' => emitted_from (S n) es'
  end.
Definition emitted {B} (es : list (option B)) := emitted_from 0 es.

Definition string_of_nat (n : nat) : string := DecimalString.NilZero.string_of_uint (Nat.to_uint n).
