(* StageA.v - model of the attribute macro `derive_where` (src/lib.rs: derive_where_internal)
   and of input_without_derive_where_attributes, including the printing of the item itself
   (syn's ToTokens for DeriveInput), so that "the item stays defined" can be compared token for token. *)
From DW Require Export Render.

(* the source tokens inside `#[ ... ]` of every attribute, parallel to the attribute lists of the raw item *)
Record variant_src := mkVariantSrc { vs_attrs : list toks; vs_fields : list (list toks) }.
Record item_src := mkItemSrc {
  is_attrs : list toks;
  is_fields : list (list toks);          (* struct / union fields *)
  is_variants : list variant_src }.

Definition is_dw_item_attr (a : item_attr) : bool := match a with IADw _ => true | _ => false end.
Definition is_dw_field_attr (a : field_attr) : bool := match a with FADw _ => true | _ => false end.

(* ---- the `crate` option (first loop of derive_where_internal) ---- *)
Definition crate_of_attr (a : item_attr) (cur : option path) : res (option path) :=
  match a with
  | IADw (DAList elems semi) =>
      match comma_view elems semi with
      | Some [m] =>
          match m with
          | M1NameValue p e =>
              if is_ident p "crate" then
                do q <- parse_crate_value e;
                if path_eqb q (path_from_strs ["derive_where"]) then Err EPathUnnecessary
                else match cur with Some _ => Err EOptionDuplicate | None => Ok (Some q) end
              else Ok cur
          | M1Path p | M1List p _ => if is_ident p "crate" then Err EOptionSyntax else Ok cur
          | M1Bad _ => Ok cur
          end
      | _ => Ok cur
      end
  | _ => Ok cur
  end.

Definition attr_path (a : item_attr) : option path :=
  match a with
  | IADw _ => Some (mkPath false ["derive_where"])
  | IARepr _ => Some (mkPath false ["repr"])
  | IAOther p _ => Some p
  end.

(* ---- printing (syn) ---- *)
Definition print_attr (ts : toks) : toks := ["#"; "["] ++ ts ++ ["]"].

Fixpoint print_attrs {A} (keep : A -> bool) (attrs : list A) (src : list toks) : toks :=
  match attrs, src with
  | a :: attrs', ts :: src' => (if keep a then print_attr ts else []) ++ print_attrs keep attrs' src'
  | _, _ => []
  end.

Definition gparam_full (p : gparam) : toks :=
  match p with
  | GPLifetime n b => ["'"; n] ++ (match b with [] => [] | _ => ":" :: b end)
  | GPType n b d => n :: (match b with [] => [] | _ => ":" :: b end) ++ (match d with [] => [] | _ => "=" :: d end)
  | GPConst n ty d => ["const"; n; ":"] ++ ty ++ (match d with [] => [] | _ => "=" :: d end)
  end.

Definition full_generics (g : generics) : toks := angle g gparam_full.

Definition print_field (keep : field_attr -> bool) (f : raw_field) (src : list toks) : toks :=
  print_attrs keep (rf_attrs f) src ++ rf_vis f ++
  (match rf_name f with Some n => [n; ":"] | None => [] end) ++ rf_ty f.

Fixpoint print_fields_list (keep : field_attr -> bool) (fs : list raw_field) (src : list (list toks)) : list toks :=
  match fs, src with
  | f :: fs', s :: src' => print_field keep f s :: print_fields_list keep fs' src'
  | _, _ => []
  end.

(* a field without attribute tokens (none were supplied) still prints *)
Fixpoint pad {A} (n : nat) (l : list (list A)) : list (list A) :=
  match n with
  | 0 => []
  | S n' => match l with [] => [] :: pad n' [] | x :: r => x :: pad n' r end
  end.

Definition print_fields (keep : field_attr -> bool) (sh : rshape) (fs : list raw_field) (src : list (list toks)) : toks :=
  let body := intercalate [","] (print_fields_list keep fs (pad (length fs) src)) in
  match sh with
  | RNamed => ["{"] ++ body ++ ["}"]
  | RUnnamed => ["("] ++ body ++ [")"]
  | RUnit => []
  end.

Definition print_variant (keep : field_attr -> bool) (v : raw_variant) (s : variant_src) : toks :=
  print_attrs keep (rv_attrs v) (vs_attrs s) ++ [rv_name v] ++ print_fields keep (rv_shape v) (rv_fields v) (vs_fields s) ++
  (match rv_disc v with Some (ts, _) => "=" :: ts | None => [] end).

Fixpoint print_variants_list (keep : field_attr -> bool) (vs : list raw_variant) (src : list variant_src) : list toks :=
  match vs, src with
  | v :: vs', s :: src' => print_variant keep v s :: print_variants_list keep vs' src'
  | v :: vs', [] => print_variant keep v (mkVariantSrc [] []) :: print_variants_list keep vs' []
  | [], _ => []
  end.

Definition print_item (keep_i : item_attr -> bool) (keep_f : field_attr -> bool) (extra_attr : toks)
           (r : raw_item) (s : item_src) : toks :=
  print_attrs keep_i (ri_attrs r) (is_attrs s) ++ extra_attr ++ ri_vis r ++
  match ri_kind r with
  | KStruct sh fs =>
      ["struct"; ri_name r] ++ full_generics (ri_generics r) ++
      match sh with
      | RNamed => item_where (ri_generics r) ++ print_fields keep_f RNamed fs (is_fields s)
      | RUnnamed => print_fields keep_f RUnnamed fs (is_fields s) ++ item_where (ri_generics r) ++ [";"]
      | RUnit => item_where (ri_generics r) ++ [";"]
      end
  | KEnum vs =>
      ["enum"; ri_name r] ++ full_generics (ri_generics r) ++ item_where (ri_generics r) ++
      ["{"] ++ intercalate [","] (print_variants_list keep_f vs (is_variants s)) ++ ["}"]
  | KUnion fs =>
      ["union"; ri_name r] ++ full_generics (ri_generics r) ++ item_where (ri_generics r) ++
      print_fields keep_f RNamed fs (is_fields s)
  end.

(* ---- derive_where_internal ---- *)
Definition stage_a (r : raw_item) (s : item_src) : res toks :=
  do cr <- foldM (fun cur a => crate_of_attr a cur) (ri_attrs r) None;
  let crate_ := match cr with Some p => p | None => path_from_strs ["derive_where"] end in
  let visited := path_from_root_and_strs crate_ ["derive_where_visited"] in
  if existsb (fun a => match attr_path a with Some p => path_eqb p visited | None => false end) (ri_attrs r)
  then Err EVisited
  else
    Ok (["#"; "["; "derive"; "("] ++ path_toks (path_from_root_and_strs crate_ ["DeriveWhere"]) ++ [")"; "]"] ++
        print_item (fun _ => true) (fun _ => true) (print_attr (path_toks visited)) r s).

(* ---- input_without_derive_where_attributes ---- *)
Definition strip_item (r : raw_item) (s : item_src) : toks :=
  print_item (fun a => negb (is_dw_item_attr a)) (fun a => negb (is_dw_field_attr a)) [] r s.

Definition strip_field (f : raw_field) : raw_field :=
  mkRawField (filter (fun a => negb (is_dw_field_attr a)) (rf_attrs f)) (rf_vis f) (rf_name f) (rf_ty f).
Definition strip_variant (v : raw_variant) : raw_variant :=
  mkRawVariant (filter (fun a => negb (is_dw_field_attr a)) (rv_attrs v)) (rv_name v) (rv_shape v)
               (map strip_field (rv_fields v)) (rv_disc v).
Definition strip_raw (r : raw_item) : raw_item :=
  mkRawItem (filter (fun a => negb (is_dw_item_attr a)) (ri_attrs r)) (ri_vis r) (ri_name r) (ri_generics r)
            (match ri_kind r with
             | KStruct sh fs => KStruct sh (map strip_field fs)
             | KEnum vs => KEnum (map strip_variant vs)
             | KUnion fs => KUnion (map strip_field fs)
             end).
