(* Render.v - the exact tokens of every quote! template of src/lib.rs and
   src/trait_/*.rs, as a function of the parsed item and the IR.
   Tokens are strings; multi-character punctuation is split into single
   characters by [flatten] at the end, which is how proc_macro2 presents it. *)
From DW Require Export Gen.

(* ---- paths ---- *)
Definition path_toks (p : path) : toks :=
  (if p_lead p then ["::"] else []) ++ intersperse "::" (p_segs p).

Definition core_path (segs : list string) : toks := path_toks (path_from_strs ("core" :: segs)).

Definition trait_crate (dt : derive_trait) : path :=
  match dt_trait dt with
  | Zeroize | ZeroizeOnDrop =>
      match dt_crate dt with Some p => p | None => path_from_strs ["zeroize"] end
  | _ => path_from_strs ["core"]
  end.

Definition trait_path (dt : derive_trait) : path :=
  path_from_root_and_strs (trait_crate dt)
    match dt_trait dt with
    | Clone => ["clone"; "Clone"] | Copy => ["marker"; "Copy"] | Debug => ["fmt"; "Debug"]
    | Default => ["default"; "Default"] | Eq => ["cmp"; "Eq"] | Hash => ["hash"; "Hash"]
    | Ord => ["cmp"; "Ord"] | PartialEq => ["cmp"; "PartialEq"] | PartialOrd => ["cmp"; "PartialOrd"]
    | Zeroize => ["Zeroize"] | ZeroizeOnDrop => ["ZeroizeOnDrop"]
    end.

Definition std_path (t : trait) : toks := path_toks (trait_path (mkDT t None)).

Definition impl_path (dt : derive_trait) : path :=
  match dt_trait dt with
  | ZeroizeOnDrop => path_from_strs ["core"; "ops"; "Drop"]
  | _ => trait_path dt
  end.

(* ---- generics (syn's ImplGenerics / TypeGenerics / WhereClause printing) ---- *)
Definition is_lifetime (p : gparam) : bool := match p with GPLifetime _ _ => true | _ => false end.

Definition gparam_impl (p : gparam) : toks :=
  match p with
  | GPLifetime n b => ["'"; n] ++ (match b with [] => [] | _ => ":" :: b end)
  | GPType n b _ => n :: (match b with [] => [] | _ => ":" :: b end)
  | GPConst n ty _ => ["const"; n; ":"] ++ ty
  end.

Definition gparam_ty (p : gparam) : toks :=
  match p with
  | GPLifetime n _ => ["'"; n]
  | GPType n _ _ => [n]
  | GPConst n _ _ => [n]
  end.

Definition ordered_params (g : generics) : list gparam :=
  filter is_lifetime (g_params g) ++ filter (fun p => negb (is_lifetime p)) (g_params g).

Definition angle (g : generics) (f : gparam -> toks) : toks :=
  match g_params g with
  | [] => []
  | _ => ["<"] ++ intercalate [","] (map f (ordered_params g)) ++ (if g_trailing g then [","] else []) ++ [">"]
  end.

Definition impl_generics (g : generics) : toks := angle g gparam_impl.
Definition ty_generics (g : generics) : toks := angle g gparam_ty.

(* a Punctuated<WherePredicate, ,> as (predicates, trailing comma) *)
Definition print_preds (ps : list toks) (trailing : bool) : toks :=
  match ps with
  | [] => []
  | _ => "where" :: intercalate [","] ps ++ (if trailing then [","] else [])
  end.

Definition item_where (g : generics) : toks :=
  match g_where g with Some (ps, tr) => print_preds ps tr | None => [] end.

(* DeriveTrait::where_bounds *)
Definition where_bounds (it : item) (dt : derive_trait) : toks :=
  path_toks (trait_path dt) ++
  (if trait_beq (dt_trait dt) Clone && item_is_union it then "+" :: std_path Copy else []).

Definition generic_pred (it : item) (dt : derive_trait) (g : generic) : toks :=
  match g with
  | GCustom ts => ts
  | GNoBound ts => ts ++ [":"] ++ where_bounds it dt
  end.

(* DeriveWhere::where_clause: Punctuated::push adds a separating comma, never a trailing one *)
Definition where_preds (g : generics) (it : item) (w : dw) (dt : derive_trait) : list toks * bool :=
  let '(ps, tr) := match g_where g with Some x => x | None => ([], false) end in
  match dw_generics w with
  | [] => (ps, tr)
  | gs => (ps ++ map (generic_pred it dt) gs, false)
  end.

Definition where_clause (g : generics) (it : item) (w : dw) (dt : derive_trait) : toks :=
  let '(ps, tr) := where_preds g it w dt in print_preds ps tr.

(* ---- patterns (src/data/fields.rs) ---- *)
Definition dpath (d : data) : toks := intersperse "::" (d_path d).

Definition binding (mutb : bool) (name : tok) : toks := "ref" :: (if mutb then ["mut"] else []) ++ [name].

Definition pattern_gen (mutb : bool) (name_of : field -> tok) (d : data) : toks :=
  match d_shape d with
  | ShStruct | ShUnion =>
      dpath d ++ ["{"] ++
      intercalate [","] (map (fun f => [member_tok (f_member f); ":"] ++ binding mutb (name_of f)) (d_fields d))
      ++ ["}"]
  | ShTuple =>
      dpath d ++ ["("] ++ intercalate [","] (map (fun f => binding mutb (name_of f)) (d_fields d)) ++ [")"]
  | ShUnit => dpath d
  end.

Definition self_pattern := pattern_gen false self_ident.
Definition other_pattern := pattern_gen false other_ident.
Definition self_pattern_mut := pattern_gen true self_ident.

Definition field_at (d : data) (i : nat) : field :=
  nth i (d_fields d) (mkField SkipNone false (MUnnamed i) []).

Definition self_id (d : data) (i : nat) : tok := self_ident (field_at d i).
Definition other_id (d : data) (i : nat) : tok := other_ident (field_at d i).

Definition str_lit (s : string) : tok := """" +++ s +++ """".

(* zip variants with aligned arms, dropping the variants without arm *)
Fixpoint with_arms {A} (vs : list data) (arms : list (option A)) : list (data * A) :=
  match vs, arms with
  | v :: vs', Some a :: arms' => (v, a) :: with_arms vs' arms'
  | _ :: vs', None :: arms' => with_arms vs' arms'
  | _, _ => []
  end.

Fixpoint with_all {A} (vs : list data) (arms : list A) : list (data * A) :=
  match vs, arms with
  | v :: vs', a :: arms' => (v, a) :: with_all vs' arms'
  | _, _ => []
  end.

(* ---- incomparable pattern (common_ord.rs build_incomparable_pattern) ---- *)
Definition inc_pat (d : data) : toks :=
  match d_shape d with
  | ShStruct => dpath d ++ ["{"; ".."; "}"]
  | ShTuple => dpath d ++ ["("; ".."; ")"]
  | _ => dpath d
  end.

Definition inc_pattern (vs : list data) (inc : list bool) : option toks :=
  match map (fun p => inc_pat (fst p)) (filter snd (with_all vs inc)) with
  | [] => None
  | ps => Some (intercalate ["|"] ps)
  end.

Definition matches_ (what : tok) (pat : toks) : toks :=
  ["::"; "core"; "::"; "matches"; "!"; "("; what; ","] ++ pat ++ [")"].

Definition disc_of (what : tok) : toks := core_path ["mem"; "discriminant"] ++ ["("; what; ")"].

Definition render_rest (r : rest) (equal : toks) : toks :=
  match r with
  | RTrue => ["true"]
  | REqual => equal
  | RUnreachableUnchecked => ["unsafe"; "{"] ++ core_path ["hint"; "unreachable_unchecked"] ++ ["("; ")"; "}"]
  | RUnreachablePanic =>
      ["::"; "core"; "::"; "unreachable"; "!"; "("; str_lit "comparing variants yielded unexpected results"; ")"]
  end.

(* ---- Clone ---- *)
Definition render_clone_arm (p : data * arm) : toks :=
  let '(d, a) := p in
  match d_shape d with
  | ShStruct | ShUnion =>
      self_pattern d ++ ["=>"] ++ dpath d ++ ["{"] ++
      intercalate [","] (map (fun i => [member_tok (f_member (field_at d i)); ":"] ++ std_path Clone ++ ["::"; "clone"; "("; self_id d i; ")"]) a)
      ++ ["}"; ","]
  | ShTuple =>
      self_pattern d ++ ["=>"] ++ dpath d ++ ["("] ++
      intercalate [","] (map (fun i => std_path Clone ++ ["::"; "clone"; "("; self_id d i; ")"]) a)
      ++ [")"; ","]
  | ShUnit => dpath d ++ ["=>"] ++ dpath d ++ [","]
  end.

Definition clone_sig (inner : toks) : toks :=
  ["#"; "["; "inline"; "]"; "fn"; "clone"; "("; "&"; "self"; ")"; "->"; "Self"; "{"] ++ inner ++ ["}"].

Definition assert_struct (name : tok) (bound : toks) : toks :=
  ["struct"; name; "<"; "__T"; ":"] ++ bound ++ ["+"; "?"] ++ core_path ["marker"; "Sized"] ++
  [">"; "("] ++ core_path ["marker"; "PhantomData"] ++ ["<"; "__T"; ">"; ")"; ";"].

Definition render_clone (vs : list data) (b : clone_body) : toks :=
  match b with
  | CCopy => clone_sig ["*"; "self"]
  | CUnion =>
      clone_sig (assert_struct "__AssertCopy" (std_path Copy) ++
                 ["let"; "_"; ":"; "__AssertCopy"; "<"; "Self"; ">"; ";"; "*"; "self"])
  | CMatch arms => clone_sig (["match"; "self"; "{"] ++ flat_map render_clone_arm (with_arms vs arms) ++ ["}"])
  end.

(* ---- Debug ---- *)
Definition fmt_path (segs : list string) : toks := core_path ("fmt" :: segs).

Definition render_debug_arm (p : data * dbg_arm) : toks :=
  let '(d, a) := p in
  let name := str_lit (unraw (d_ident d)) in
  match d_shape d with
  | ShStruct | ShUnion =>
      self_pattern d ++ ["=>"; "{"; "let"; "mut"; "__builder"; "="] ++ fmt_path ["Formatter"; "debug_struct"] ++
      ["("; "__f"; ","; name; ")"; ";"] ++
      flat_map (fun i => fmt_path ["DebugStruct"; "field"] ++
                         ["("; "&"; "mut"; "__builder"; ","; str_lit (member_display (f_member (field_at d i))); ","; self_id d i; ")"; ";"])
               (da_fields a) ++
      fmt_path ["DebugStruct"; if da_non_exhaustive a then "finish_non_exhaustive" else "finish"] ++
      ["("; "&"; "mut"; "__builder"; ")"; "}"]
  | ShTuple =>
      self_pattern d ++ ["=>"; "{"; "let"; "mut"; "__builder"; "="] ++ fmt_path ["Formatter"; "debug_tuple"] ++
      ["("; "__f"; ","; name; ")"; ";"] ++
      flat_map (fun i => fmt_path ["DebugTuple"; "field"] ++ ["("; "&"; "mut"; "__builder"; ","; self_id d i; ")"; ";"])
               (da_fields a) ++
      fmt_path ["DebugTuple"; "finish"] ++ ["("; "&"; "mut"; "__builder"; ")"; "}"]
  | ShUnit =>
      dpath d ++ ["=>"] ++ fmt_path ["Formatter"; "write_str"] ++ ["("; "__f"; ","; name; ")"; ","]
  end.

Definition render_debug (vs : list data) (arms : list dbg_arm) : toks :=
  ["fn"; "fmt"; "("; "&"; "self"; ","; "__f"; ":"; "&"; "mut"] ++ fmt_path ["Formatter"] ++ ["<"; "'"; "_"; ">"; ")"; "->"] ++
  fmt_path ["Result"] ++ ["{"; "match"; "self"; "{"] ++ flat_map render_debug_arm (with_all vs arms) ++ ["}"; "}"].

(* ---- Default ---- *)
Definition default_call : toks := std_path Default ++ ["::"; "default"; "("; ")"].

Definition render_default_ctor (p : data * arm) : toks :=
  let '(d, a) := p in
  match d_shape d with
  | ShStruct | ShUnion =>
      dpath d ++ ["{"] ++
      intercalate [","] (map (fun i => [member_tok (f_member (field_at d i)); ":"] ++ default_call) a) ++ ["}"]
  | ShTuple => dpath d ++ ["("] ++ intercalate [","] (map (fun _ => default_call) a) ++ [")"]
  | ShUnit => dpath d
  end.

Definition render_default (vs : list data) (ctors : list (option arm)) : toks :=
  ["fn"; "default"; "("; ")"; "->"; "Self"; "{"] ++ flat_map render_default_ctor (with_arms vs ctors) ++ ["}"].

(* ---- Eq ---- *)
Definition render_eq_asserts (vs : list data) (asserts : list arm) : toks :=
  ["#"; "["; "inline"; "]"; "fn"; "assert_receiver_is_total_eq"; "("; "&"; "self"; ")"; "{"] ++
  assert_struct "__AssertEq" (std_path Eq) ++
  flat_map (fun p => flat_map (fun i => ["let"; "_"; ":"; "__AssertEq"; "<"] ++ f_ty (field_at (fst p) i) ++ [">"; ";"]) (snd p))
           (with_all vs asserts) ++
  ["}"].

(* ---- Hash ---- *)
Definition hash_call (arg : toks) : toks := std_path Hash ++ ["::"; "hash"; "("] ++ arg ++ [","; "__state"; ")"; ";"].

Definition render_hash_arm (p : data * hash_arm) : toks :=
  let '(d, a) := p in
  self_pattern d ++ ["=>"; "{"] ++
  (if ha_disc a then hash_call ("&" :: disc_of "self") else []) ++
  flat_map (fun i => hash_call [self_id d i]) (ha_fields a) ++ ["}"].

Definition render_hash (vs : list data) (arms : list hash_arm) : toks :=
  ["fn"; "hash"; "<"; "__H"; ":"] ++ core_path ["hash"; "Hasher"] ++
  [">"; "("; "&"; "self"; ","; "__state"; ":"; "&"; "mut"; "__H"; ")"; "{"; "match"; "self"; "{"] ++
  flat_map render_hash_arm (with_all vs arms) ++ ["}"; "}"].

(* ---- PartialEq ---- *)
Definition render_eq_arm (p : data * arm) : toks :=
  let '(d, a) := p in
  ["("] ++ self_pattern d ++ [","] ++ other_pattern d ++ [")"; "=>"; "true"] ++
  flat_map (fun i => ["&&"] ++ std_path PartialEq ++ ["::"; "eq"; "("; self_id d i; ","; other_id d i; ")"]) a ++ [","].

Definition disc_test : toks := ["if"] ++ disc_of "self" ++ ["=="] ++ disc_of "__other".

Definition render_partial_eq (vs : list data) (b : eq_body) : toks :=
  ["#"; "["; "inline"; "]"; "fn"; "eq"; "("; "&"; "self"; ","; "__other"; ":"; "&"; "Self"; ")"; "->"; "bool"; "{"] ++
  match b with
  | EqFalse => ["false"]
  | EqTrue => ["true"]
  | EqDisc arms inc r =>
      disc_test ++ ["{"; "match"; "("; "self"; ","; "__other"; ")"; "{"] ++
      flat_map render_eq_arm (with_arms vs arms) ++
      (match inc_pattern vs inc with Some p => ["("] ++ p ++ [","; ".."; ")"; "=>"; "false"; ","] | None => [] end) ++
      ["_"; "=>"] ++ render_rest r [] ++ [","; "}"; "}"; "else"; "{"; "false"; "}"]
  | EqDiscAllEmpty inc =>
      disc_test ++ ["{"] ++
      (match inc_pattern vs inc with
       | Some p => ["if"] ++ matches_ "self" p ++ ["{"; "return"; "false"; ";"; "}"]
       | None => [] end) ++
      ["true"; "}"; "else"; "{"; "false"; "}"]
  | EqMatch arms =>
      ["match"; "("; "self"; ","; "__other"; ")"; "{"] ++ flat_map render_eq_arm (with_arms vs arms) ++ ["}"]
  end ++ ["}"].

(* ---- PartialOrd / Ord ---- *)
Definition ordering_equal : toks := core_path ["cmp"; "Ordering"; "Equal"].
Definition option_some (x : toks) : toks := core_path ["option"; "Option"; "Some"] ++ ["("] ++ x ++ [")"].
Definition option_none : toks := core_path ["option"; "Option"; "None"].

Definition equal_of (t : trait) : toks :=
  match t with PartialOrd => option_some ordering_equal | _ => ordering_equal end.
Definition method_of (t : trait) : tok := match t with PartialOrd => "partial_cmp" | _ => "cmp" end.

(* build_ord_body: nested from the last field backwards *)
Fixpoint render_ord_fields (t : trait) (d : data) (a : arm) : toks :=
  match a with
  | [] => equal_of t
  | i :: rest =>
      ["match"] ++ std_path t ++ ["::"; method_of t; "("; self_id d i; ","; other_id d i; ")"; "{"] ++
      equal_of t ++ ["=>"] ++ render_ord_fields t d rest ++ [","; "__cmp"; "=>"; "__cmp"; ","; "}"]
  end.

Definition render_ord_arm (t : trait) (p : data * arm) : toks :=
  let '(d, a) := p in
  ["("] ++ self_pattern d ++ [","] ++ other_pattern d ++ [")"; "=>"] ++ render_ord_fields t d a ++ [","].

Definition render_ord_match (t : trait) (vs : list data) (m : ord_match) : toks :=
  ["match"; "("; "self"; ","; "__other"; ")"; "{"] ++ flat_map (render_ord_arm t) (with_arms vs (om_arms m)) ++
  ["_"; "=>"] ++ render_rest (om_rest m) (equal_of t) ++ [","; "}"].

Definition render_dexpr (e : dexpr) : toks :=
  match e with
  | DExplicit ts _ => ts
  | DPlus ts _ k => ["("] ++ ts ++ [")"; "+"; string_of_nat k]
  | DLit k => [string_of_nat k]
  end.

Definition validate_name (d : data) : tok := "__VALIDATE_ISIZE_" +++ unraw (d_ident d).

Definition render_validate (vs : list data) (table : list dexpr) : toks :=
  flat_map (fun p => ["const"; validate_name (fst p); ":"; "isize"; "="] ++ render_dexpr (snd p) ++ [";"]) (with_all vs table).

Definition repr_tok (ty : option repr) : tok := match ty with Some r => repr_name r | None => "isize" end.

Definition cmp_call (t : trait) (a b : toks) (trailing : bool) : toks :=
  std_path t ++ ["::"; method_of t; "("; "&"] ++ a ++ [","; "&"] ++ b ++ (if trailing then [","] else []) ++ [")"].

Definition render_strategy (t : trait) (g : generics) (it : item) (vs : list data) (s : strategy) : toks :=
  match s with
  | SCast via ty validate =>
      let cast what :=
        match via with
        | ViaCopy => ["("; "*"; what; "as"; repr_tok ty; ")"]
        | ViaClone => ["("] ++ std_path Clone ++ ["::"; "clone"; "("; what; ")"; "as"; repr_tok ty; ")"]
        end in
      (match validate with Some table => render_validate vs table | None => [] end) ++
      cmp_call t (cast "self") (cast "__other") false
  | SConstFn ty validate table =>
      ["const"; "fn"; "__discriminant"] ++ impl_generics g ++ ["("; "__this"; ":"; "&"; item_ident it] ++ ty_generics g ++
      [")"; "->"; repr_tok ty] ++ item_where g ++ ["{"] ++
      (if validate then render_validate vs table else []) ++
      ["match"; "__this"; "{"] ++
      intercalate [","] (map (fun p => self_pattern (fst p) ++ ["=>"] ++
                                       (if validate then [validate_name (fst p)] else render_dexpr (snd p)))
                             (with_all vs table)) ++
      ["}"; "}"] ++
      cmp_call t ["__discriminant"; "("; "self"; ")"] ["__discriminant"; "("; "__other"; ")"] false
  | SPtrRead r =>
      let rd what := ["unsafe"; "{"; "*"; "<"; "*"; "const"; "_"; ">"; "::"; "from"; "("; what; ")"; "."; "cast"; "::"; "<"; repr_name r; ">"; "("; ")"; "}"] in
      cmp_call t (rd "self") (rd "__other") true
  | SIntrinsic =>
      let dv what := core_path ["intrinsics"; "discriminant_value"] ++ ["("; what; ")"] in
      cmp_call t (dv "self") (dv "__other") true
  end.

Definition inc_guard (vs : list data) (inc : list bool) (then_ : toks) : toks :=
  match inc_pattern vs inc with
  | Some p => ["if"] ++ matches_ "self" p ++ ["||"] ++ matches_ "__other" p ++ ["{"] ++ then_ ++ ["}"]
  | None => []
  end.

Definition render_ord_body (c : cfg) (t : trait) (g : generics) (it : item) (b : ord_body) : toks :=
  let vs := item_variants it in
  match b with
  | ONone => option_none
  | OViaOrd => option_some (std_path Ord ++ ["::"; "cmp"; "("; "self"; ","; "__other"; ")"])
  | OEqual => equal_of t
  | OMatch arms =>
      ["match"; "("; "self"; ","; "__other"; ")"; "{"] ++ flat_map (render_ord_arm t) (with_arms vs arms) ++ ["}"]
  | OSingle inc eq =>
      inc_guard vs inc option_none ++ ["else"; "{"] ++
      (match eq with Some m => render_ord_match t vs m | None => equal_of t end) ++ ["}"]
  | OMulti inc body_equal s =>
      inc_guard vs inc (["return"] ++ option_none ++ [";"]) ++
      match body_equal with
      | Some m =>
          let dv what := if c_nightly c then core_path ["intrinsics"; "discriminant_value"] ++ ["("; what; ")"]
                         else disc_of what in
          ["let"; "__self_disc"; "="] ++ dv "self" ++ [";"; "let"; "__other_disc"; "="] ++ dv "__other" ++
          [";"; "if"; "__self_disc"; "=="; "__other_disc"; "{"] ++ render_ord_match t vs m ++ ["}"; "else"; "{"] ++
          (if c_nightly c then cmp_call t ["__self_disc"] ["__other_disc"] false
           else render_strategy t g it vs s) ++ ["}"]
      | None => render_strategy t g it vs s
      end
  end.

Definition render_partial_ord (c : cfg) (g : generics) (it : item) (b : ord_body) : toks :=
  ["#"; "["; "inline"; "]"; "fn"; "partial_cmp"; "("; "&"; "self"; ","; "__other"; ":"; "&"; "Self"; ")"; "->"] ++
  core_path ["option"; "Option"] ++ ["<"] ++ core_path ["cmp"; "Ordering"] ++ [">"; "{"] ++
  render_ord_body c PartialOrd g it b ++ ["}"].

Definition render_ord (c : cfg) (g : generics) (it : item) (b : ord_body) : toks :=
  ["#"; "["; "inline"; "]"; "fn"; "cmp"; "("; "&"; "self"; ","; "__other"; ":"; "&"; "Self"; ")"; "->"] ++
  core_path ["cmp"; "Ordering"] ++ ["{"] ++ render_ord_body c Ord g it b ++ ["}"].

(* ---- Zeroize / ZeroizeOnDrop ---- *)
Definition wild_arm (d : data) : toks := inc_pat d ++ ["=>"; "{"; "}"].

Definition render_zeroize_arm (dt : derive_trait) (p : data * zarm) : toks :=
  let '(d, a) := p in
  match a with
  | ZWild => wild_arm d
  | ZFields fs =>
      self_pattern_mut d ++ ["=>"; "{"] ++
      flat_map (fun q : nat * bool =>
                  if snd q then path_toks (trait_path dt) ++ ["::"; "zeroize"; "("; self_id d (fst q); ")"; ";"]
                  else [self_id d (fst q); "."; "zeroize"; "("; ")"; ";"]) fs ++ ["}"]
  end.

Definition render_zeroize (dt : derive_trait) (vs : list data) (b : zeroize_body) : toks :=
  ["fn"; "zeroize"; "("; "&"; "mut"; "self"; ")"; "{"] ++
  match b with
  | ZEmpty => []
  | ZMatch arms =>
      ["use"] ++ path_toks (trait_path dt) ++ [";"; "match"; "self"; "{"] ++
      flat_map (render_zeroize_arm dt) (with_all vs arms) ++ ["}"]
  end ++ ["}"].

Definition render_drop_arm (p : data * darm) : toks :=
  let '(d, a) := p in
  match a with
  | DWild => wild_arm d
  | DFields fs =>
      self_pattern_mut d ++ ["=>"; "{"] ++
      flat_map (fun i => [self_id d i; "."; "zeroize_or_on_drop"; "("; ")"; ";"]) fs ++ ["}"]
  end.

Definition render_drop (dt : derive_trait) (vs : list data) (b : drop_body) : toks :=
  ["fn"; "drop"; "("; "&"; "mut"; "self"; ")"; "{"] ++
  match b with
  | DrEmpty => []
  | DrDelegate arms =>
      flat_map (fun e : bool => if e then path_toks (path_from_root_and_strs (trait_crate dt) ["Zeroize"]) ++
                                          ["::"; "zeroize"; "("; "self"; ")"; ";"] else []) arms
  | DrMatch arms =>
      ["use"] ++ path_toks (path_from_root_and_strs (trait_crate dt) ["__internal"; "AssertZeroize"]) ++
      [";"; "use"] ++ path_toks (path_from_root_and_strs (trait_crate dt) ["__internal"; "AssertZeroizeOnDrop"]) ++
      [";"; "match"; "self"; "{"] ++ flat_map render_drop_arm (with_all vs arms) ++ ["}"]
  end ++ ["}"].

(* ---- generate_impl ---- *)
Definition render_body (c : cfg) (g : generics) (it : item) (dt : derive_trait) (b : body) : toks :=
  let vs := item_variants it in
  match b with
  | BClone b => render_clone vs b
  | BCopy => []
  | BDebug arms => render_debug vs arms
  | BDefault ctors => render_default vs ctors
  | BEq asserts => render_eq_asserts vs asserts
  | BHash arms => render_hash vs arms
  | BPartialEq b => render_partial_eq vs b
  | BPartialOrd b => render_partial_ord c g it b
  | BOrd b => render_ord c g it b
  | BZeroize b => render_zeroize dt vs b
  | BDrop b => render_drop dt vs b
  | BPanic _ => ["<panic>"%string]
  end.

Definition impl_header (g : generics) (it : item) (w : dw) (dt : derive_trait) (p : path) : toks :=
  ["#"; "["; "automatically_derived"; "]"; "impl"] ++ impl_generics g ++ path_toks p ++
  ["for"; item_ident it] ++ ty_generics g ++ where_clause g it w dt.

Record impl_out := mkImpl { io_trait : trait; io_header : toks; io_body : toks; io_extra : toks }.

Definition render_impl (c : cfg) (i : input) (w : dw) (dt : derive_trait) : impl_out :=
  let g := in_generics i in
  let it := in_item i in
  mkImpl (dt_trait dt)
         (impl_header g it w dt (impl_path dt))
         (render_body c g it dt (gen_body c it w dt))
         (if trait_beq (dt_trait dt) ZeroizeOnDrop && c_zod c
          then impl_header g it w dt (trait_path dt) ++ ["{"; "}"] else []).

Definition impl_toks (o : impl_out) : toks :=
  io_header o ++ ["{"] ++ io_body o ++ ["}"] ++ io_extra o.

(* proc_macro2 presents `::`, `=>`, `&&`, `->`, `..`, `||`, `==` as single characters *)
Definition is_punct_char (a : ascii) : bool :=
  let n := N_of_ascii a in
  negb ((((48 <=? n) && (n <=? 57)) || ((65 <=? n) && (n <=? 90)) || ((97 <=? n) && (n <=? 122))
         || (n =? 95) || (n =? 34) || (128 <=? n))%N).

Fixpoint all_punct (s : string) : bool :=
  match s with EmptyString => true | String a r => is_punct_char a && all_punct r end.

Fixpoint chars (s : string) : list string :=
  match s with EmptyString => [] | String a r => String a EmptyString :: chars r end.

Definition flatten_tok (t : tok) : toks := if all_punct t then chars t else [t].
Definition flatten (ts : toks) : toks := flat_map flatten_tok ts.

(* the whole derive: Input::from_input, then one impl per (attribute, trait) *)
Definition expand_impls (c : cfg) (i : input) : list impl_out :=
  flat_map (fun w => map (render_impl c i w) (dw_traits w)) (in_dws i).

Definition impl_has_panic (c : cfg) (i : input) : bool :=
  existsb (fun w => existsb (fun dt => match gen_body c (in_item i) w dt with BPanic _ => true | _ => false end) (dw_traits w)) (in_dws i).

Definition expand (c : cfg) (r : raw_item) : res (list impl_out) :=
  do i <- from_input c r;
  if impl_has_panic c i then Panic "generate_body" else Ok (expand_impls c i).
