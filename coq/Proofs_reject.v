(* Proofs_reject.v - what every ACCEPTED item satisfies: the contrapositive of the documented
   rejection classes (C15). *)
From DW Require Export Proofs_nopanic.
Open Scope nat_scope.

Lemma foldM_ok_each {E A S} (f : S -> A -> result E S) l : forall s s',
  foldM f l s = Ok s' -> forall x, In x l -> exists s1 s2, f s1 x = Ok s2.
Proof.
  induction l as [|y l IH]; cbn; intros s s' H x Hx; [contradiction|].
  inv_bind H. destruct Hx as [<-|Hx]; [eauto | eapply IH; eauto].
Qed.

Lemma mapM_ok_each {E A B} (f : A -> result E B) l l' :
  mapM f l = Ok l' -> forall x, In x l -> exists y, f x = Ok y /\ In y l'.
Proof.
  intros H. apply mapM_Forall2 in H. induction H as [|a b l l' Hab H IH]; intros x Hx; [contradiction|].
  destruct Hx as [<-|Hx]; [exists b; split; [assumption | left; reflexivity]|].
  destruct (IH x Hx) as [y [Hy Hin]]. exists y. split; [assumption | right; assumption].
Qed.

(* ---------------- skip markers ---------------- *)
Definition group_derived (dws : list dw) (g : group) : Prop :=
  existsb (fun d => existsb (dw_contains d) (group_traits g)) dws = true.

Definition parent_skips (parent : option skip) (g : group) : bool :=
  match parent with Some s => group_skipped s g | None => false end.

Definition skip_ok (dws : list dw) (parent : option skip) (s : skip) : Prop :=
  match s with
  | SkipNone => True
  | SkipAll => existsb any_skip dws = true /\ parent <> Some SkipAll
  | SkipTraits gs => NoDup gs /\ forall g, In g gs -> group_derived dws g /\ parent_skips parent g = false
  end.

Lemma group_beq_true g h : group_beq g h = true -> g = h.
Proof. apply internal_group_dec_bl. Qed.

Lemma existsb_group_false g gs : existsb (group_beq g) gs = false -> ~ In g gs.
Proof.
  intros H Hin. assert (existsb (group_beq g) gs = true).
  { apply existsb_exists. exists g. split; [assumption | apply internal_group_dec_lb; reflexivity]. }
  congruence.
Qed.

Lemma NoDup_snoc {A} (l : list A) x : ~ In x l -> NoDup l -> NoDup (l ++ [x]).
Proof.
  induction l as [|y l IH]; cbn; intros Hn ND; [constructor; [intros []|constructor]|].
  inversion ND; subst. constructor.
  - intros Hin. apply in_app_or in Hin. destruct Hin as [Hin|[<-|[]]]; [contradiction | apply Hn; left; reflexivity].
  - apply IH; [intros Hx; apply Hn; right; assumption | assumption].
Qed.

Lemma skip_add_groups_ok c dws parent ms : forall gs gs',
  NoDup gs -> (forall g, In g gs -> group_derived dws g /\ parent_skips parent g = false) ->
  skip_add_groups c dws parent ms gs = Ok gs' ->
  NoDup gs' /\ forall g, In g gs' -> group_derived dws g /\ parent_skips parent g = false.
Proof.
  induction ms as [|m ms IH]; cbn; intros gs gs' ND Hall H.
  - inversion H; subst. auto.
  - destruct m as [p|p e|p ts]; try discriminate. inv_bind H.
    destruct (existsb (group_beq a) gs) eqn:Ed; [discriminate|].
    destruct (match parent with Some s => group_skipped s a | None => false end) eqn:Ep; [discriminate|].
    destruct (existsb (fun d => existsb (dw_contains d) (group_traits a)) dws) eqn:Eg; [|discriminate].
    apply (IH (gs ++ [a]) gs'); [| |assumption].
    + apply NoDup_snoc; [apply existsb_group_false; assumption | assumption].
    + intros g Hg. apply in_app_or in Hg. destruct Hg as [Hg|[<-|[]]]; [apply Hall; assumption|].
      split; [exact Eg | exact Ep].
Qed.

Lemma skip_add_attribute_ok c dws parent m self s' :
  skip_ok dws parent self -> skip_add_attribute c dws parent m self = Ok s' -> skip_ok dws parent s'.
Proof.
  intros Hs H. unfold skip_add_attribute in H. destruct m as [p|p e|p args|ts]; try discriminate.
  - destruct (skip_is_none self).
    + destruct parent as [[| |gs]|]; try discriminate;
        (destruct (existsb any_skip dws) eqn:E; [|discriminate]); inversion H; subst; cbn; split; try assumption; discriminate.
    + destruct (get_ident p); discriminate.
  - inv_bind H. destruct self as [| |gs0]; try discriminate.
    + inv_bind H. inversion H; subst. cbn. eapply skip_add_groups_ok; [constructor | intros g [] | eassumption].
    + inv_bind H. inversion H; subst. cbn. destruct Hs as [ND Hall]. eapply skip_add_groups_ok; eauto.
Qed.

(* ---------------- fields ---------------- *)
Lemma field_attr_skip_ok c dws parent attrs st :
  field_attr_from_attrs c dws parent attrs = Ok st -> skip_ok dws (Some parent) (fst st).
Proof.
  unfold field_attr_from_attrs. intros H.
  eapply (foldM_inv (fun st => skip_ok dws (Some parent) (fst st))); [| |exact H]; [exact I|].
  intros s a s' Hs Ha. unfold field_add_attr in Ha. destruct a as [sa|p ts]; [|inversion Ha; subst; assumption].
  inv_bind Ha. eapply (foldM_inv (fun st => skip_ok dws (Some parent) (fst st))); [exact Hs| |exact Ha].
  intros s1 m s1' Hs1 Hm. unfold field_add_meta in Hm.
  destruct (meta1_is m "skip").
  - inv_bind Hm. inversion Hm; subst; cbn. eapply skip_add_attribute_ok; eauto.
  - destruct (c_zeroize c && meta1_is m "Zeroize"); [|discriminate]. inv_bind Hm. inversion Hm; subst; cbn. assumption.
Qed.

Lemma fields_from_ok c dws parent named fs fl :
  fields_from c dws parent named fs = Ok fl -> Forall (fun f => skip_ok dws (Some parent) (f_skip f)) fl.
Proof.
  unfold fields_from. intros H. apply mapM_Forall2 in H.
  eapply Forall2_Forall_r; [exact H|]. intros [i rf] f Hf. unfold field_from in Hf. inv_bind Hf.
  apply field_attr_skip_ok in Hb. destruct named.
  - destruct (rf_name rf); [|discriminate]. inversion Hf; subst; cbn. assumption.
  - inversion Hf; subst; cbn. assumption.
Qed.

(* ---------------- variants ---------------- *)
Definition derives (dws : list dw) (t : trait) : Prop := existsb (fun d => dw_contains d t) dws = true.

Definition vattr_ok (dws : list dw) (v : raw_variant) (va : vattr) : Prop :=
  skip_ok dws None (va_skip_inner va) /\
  (variant_fields_empty v = true -> va_skip_inner va = SkipNone) /\
  (va_default va = true -> derives dws Default) /\
  (va_incomparable va = true -> (derives dws PartialEq \/ derives dws PartialOrd) /\ total_free dws).

Lemma incomparable_scan_cmp ts b : incomparable_scan ts b = Ok true -> b = true \/ exists dt, In dt ts /\ (dt_trait dt = PartialEq \/ dt_trait dt = PartialOrd).
Proof.
  revert b; induction ts as [|t ts IH]; cbn; intros b H; [inversion H; auto|].
  destruct (dt_trait t) eqn:E; try discriminate;
    try (destruct (IH _ H) as [Hb|[dt [Hin Hd]]]; [auto | right; exists dt; split; [right; assumption | assumption]]);
    right; exists t; split; try (left; reflexivity); auto.
Qed.

Lemma incomparable_add_derives dws m :
  incomparable_add dws m false = Ok true -> (derives dws PartialEq \/ derives dws PartialOrd) /\ total_free dws.
Proof.
  intros H. split.
  - unfold incomparable_add in H. destruct m; try discriminate. inv_bind H. destruct a; [|discriminate].
    apply incomparable_scan_cmp in Hb. destruct Hb as [Hb|[dt [Hin Hd]]]; [discriminate|].
    apply in_flat_map in Hin. destruct Hin as [w [Hw Hdt]].
    destruct Hd as [Hd|Hd]; [left | right]; unfold derives; apply existsb_exists; exists w; (split; [assumption|]);
      unfold dw_contains; apply existsb_exists; exists dt; (split; [assumption|]); rewrite Hd; reflexivity.
  - apply incomparable_add_true in H. destruct H as [H|H]; [discriminate | assumption].
Qed.

Lemma variant_attr_ok c dws v va :
  variant_attr_from_attrs c dws v = Ok va -> vattr_ok dws v va.
Proof.
  unfold variant_attr_from_attrs. intros H.
  eapply (foldM_inv (vattr_ok dws v)); [| |exact H].
  - repeat split; cbn; try discriminate; auto.
  - intros s a s' Hs Ha. unfold variant_add_attr in Ha. destruct a as [sa|p ts]; [|inversion Ha; subst; assumption].
    inv_bind Ha. eapply (foldM_inv (vattr_ok dws v)); [exact Hs| |exact Ha].
    intros s1 m s1' [K1 [K2 [K3 K4]]] Hm. unfold variant_add_meta in Hm.
    destruct (meta1_is m "skip_inner").
    { destruct (variant_fields_empty v) eqn:Ev; [discriminate|]. inv_bind Hm. inversion Hm; subst; cbn.
      unfold vattr_ok; cbn. split; [eapply skip_add_attribute_ok; eauto|]. split; [intros; congruence|]. split; assumption. }
    destruct (meta1_is m "default").
    { destruct (default_add dws m (va_default s1)) as [b| |] eqn:Hd; cbn [bind] in Hm; try discriminate.
      inversion Hm; subst; cbn. unfold vattr_ok; cbn. split; [assumption|]. split; [assumption|]. split; [|assumption].
      intros Ht. subst b. unfold default_add in Hd. destruct m; try discriminate. destruct (va_default s1); [discriminate|].
      destruct (existsb (fun d => dw_contains d Default) dws) eqn:E; [exact E | discriminate]. }
    destruct (meta1_is m "incomparable"); [|discriminate].
    destruct (incomparable_add dws m (va_incomparable s1)) as [b| |] eqn:Hd; cbn [bind] in Hm; try discriminate.
    inversion Hm; subst; cbn. unfold vattr_ok; cbn. split; [assumption|]. split; [assumption|]. split; [assumption|].
    intros Ht. subst b. destruct (va_incomparable s1) eqn:Es.
    + unfold incomparable_add in Hd. destruct m; discriminate.
    + apply incomparable_add_derives in Hd. assumption.
Qed.

Definition data_ok (dws : list dw) (d : data) : Prop :=
  skip_ok dws None (d_skip_inner d) /\
  Forall (fun f => skip_ok dws (Some (d_skip_inner d)) (f_skip f)) (d_fields d) /\
  (d_is_variant d = true -> d_fields d = [] -> d_skip_inner d = SkipNone) /\
  (d_default d = true -> derives dws Default) /\
  (d_is_variant d = true -> d_incomparable d = true -> (derives dws PartialEq \/ derives dws PartialOrd) /\ total_free dws).

Lemma indexed_from_length {A} (l : list A) n : length (indexed_from n l) = length l.
Proof. revert n; induction l as [|x l IH]; intros n; cbn; [reflexivity|]. rewrite IH. reflexivity. Qed.

Lemma fields_from_nil c dws parent named fs : fields_from c dws parent named fs = Ok [] -> fs = [].
Proof.
  unfold fields_from. intros H. apply mapM_Forall2 in H. apply Forall2_length' in H.
  unfold indexed in H. rewrite indexed_from_length in H. destruct fs; [reflexivity | discriminate].
Qed.

Lemma data_from_variant_ok c id dws v d : data_from_variant c id dws v = Ok d -> data_ok dws d.
Proof.
  unfold data_from_variant. intros H. inv_bind H. apply variant_attr_ok in Hb. destruct Hb as [K1 [K2 [K3 K4]]].
  assert (Fin : forall named fl, (rv_shape v = RNamed \/ rv_shape v = RUnnamed) ->
                fields_from c dws (va_skip_inner a) named (rv_fields v) = Ok fl ->
                data_ok dws (mkData (va_skip_inner a) (va_incomparable a) (rv_name v) [id; rv_name v]
                                    (if named then ShStruct else ShTuple) fl true (va_default a)
                                    (if c_nightly c then None else rv_disc v))).
  { intros named fl Hsh Hf. unfold data_ok; cbn. split; [assumption|]. split; [eapply fields_from_ok; eauto|].
    split; [|split; [assumption | intros _; assumption]].
    intros _ Hnil. subst fl. apply fields_from_nil in Hf. apply K2. unfold variant_fields_empty. rewrite Hf.
    destruct (rv_shape v); reflexivity. }
  destruct (rv_shape v) eqn:Es.
  - inv_bind H. inversion H; subst. apply (Fin true); auto.
  - inv_bind H. inversion H; subst. apply (Fin false); auto.
  - inversion H; subst. unfold data_ok; cbn. split; [assumption|]. split; [constructor|].
    split; [intros _ _; apply K2; unfold variant_fields_empty; rewrite Es; reflexivity|].
    split; [assumption | intros _; assumption].
Qed.

(* ---------------- the item attributes ---------------- *)
Lemma merge_into_nonempty cur rest : merge_into cur rest <> [].
Proof. revert cur; induction rest as [|x r IH]; intros cur; cbn; [discriminate|]. destruct (list_eqb generic_eqb (dw_generics x) (dw_generics cur)); [apply IH | discriminate]. Qed.

Lemma item_attrs_ok c e u attrs ia :
  item_attr_from_attrs c e u attrs = Ok ia ->
  it_dws ia <> [] /\
  (forall w, In w (it_dws ia) -> has_dup (dw_traits w) = false) /\ has_cross_dup (it_dws ia) = false /\
  skip_ok (it_dws ia) None (it_skip_inner ia) /\
  (e = true -> it_skip_inner ia = SkipNone) /\
  (it_incomparable ia = true -> (derives (it_dws ia) PartialEq \/ derives (it_dws ia) PartialOrd) /\ total_free (it_dws ia)).
Proof.
  unfold item_attr_from_attrs. intros H. inv_bind H.
  destruct (ia_dws a) as [|d0 dr] eqn:Edws; [discriminate|]. rewrite <- Edws in *.
  destruct (existsb (fun d => has_dup (dw_traits d)) (merge_dws (ia_dws a))) eqn:Ed; [discriminate|].
  destruct (has_cross_dup (merge_dws (ia_dws a))) eqn:Ec; [discriminate|].
  inv_bind H. inv_bind H. inversion H; subst; cbn.
  split; [rewrite Edws; apply merge_into_nonempty|].
  split; [intros w Hw; destruct (has_dup (dw_traits w)) eqn:Ew; [|reflexivity];
          assert (existsb (fun d => has_dup (dw_traits d)) (merge_dws (ia_dws a)) = true) by (apply existsb_exists; eauto); congruence|].
  split; [exact Ec|].
  split; [|split].
  - eapply (foldM_inv (skip_ok (merge_dws (ia_dws a)) None)); [| |exact Hb0]; [exact I|].
    intros s m s' Hs Hm. exact (skip_add_attribute_ok c _ None m s s' Hs Hm).
  - intros He. subst e.
    assert (Hsk : ia_skips a = []).
    { eapply (foldM_inv (fun st => ia_skips st = [])); [| |exact Hb]; [reflexivity|].
      intros s x s' Hs Hx. unfold item_add_attr in Hx. destruct x as [[ts|elems semi]|rp|p ts]; try (inversion Hx; subst; assumption); try discriminate.
      assert (Push : forall s'', (do d <- from_attr c u elems semi; Ok (mkIacc (ia_dws s ++ [d]) (ia_skips s) (ia_incs s))) = Ok s'' -> ia_skips s'' = []).
      { intros s'' Hp. inv_bind Hp. inversion Hp; subst; cbn. assumption. }
      destruct (comma_view elems semi) as [[|m [|m' ms]]|]; try (apply Push; assumption); try discriminate.
      destruct (meta1_is m "skip_inner"); [discriminate|].
      destruct (meta1_is m "incomparable"); [inversion Hx; subst; assumption|].
      destruct (meta1_is m "crate"); [inversion Hx; subst; assumption|]. apply Push; assumption. }
    rewrite Hsk in Hb0. cbn in Hb0. inversion Hb0; reflexivity.
  - intros Hi. subst a1.
    assert (G : forall l b r, foldM (fun i m => incomparable_add (merge_dws (ia_dws a)) m i) l b = Ok r -> r = true -> b = true \/
                ((derives (merge_dws (ia_dws a)) PartialEq \/ derives (merge_dws (ia_dws a)) PartialOrd) /\ total_free (merge_dws (ia_dws a)))).
    { induction l as [|m l IH]; cbn; intros b r Hf Hr; [inversion Hf; subst; auto|].
      inv_bind Hf. destruct (IH _ _ Hf Hr) as [Ha|Ha]; [|auto]. subst a1.
      destruct b; [auto|]. right. eapply incomparable_add_derives. eassumption. }
    destruct (G _ _ _ Hb1 eq_refl) as [X|X]; [discriminate | assumption].
Qed.

(* ---------------- raw-level: attributes that are always refused ---------------- *)
Definition bad_item_attr (is_enum : bool) (a : item_attr) : bool :=
  match a with
  | IADw (DANotList _) => true                                   (* #[derive_where] / #[derive_where = ..] *)
  | IADw (DAList [] None) => true                                (* #[derive_where()] *)
  | IADw (DAList [] (Some _)) => true                            (* no trait before the `;` *)
  | IADw (DAList elems (Some gens)) =>
      existsb (fun g => match g with GRLifetime _ | GRBad _ => true | _ => false end) gens   (* lifetime predicate / not a type *)
      && forallb (fun m => match m with M1Path _ => true | _ => false end) elems && false    (* (needs the traits to parse: stated separately) *)
  | IADw (DAList [m] None) => is_enum && meta1_is m "skip_inner" (* skip_inner on an enum item *)
  | _ => false
  end.

Lemma item_add_attr_bad c e u st a : bad_item_attr e a = true -> forall st', item_add_attr c e u st a <> Ok st'.
Proof.
  intros H st' Hx. unfold item_add_attr in Hx. destruct a as [[ts|elems semi]|r|p ts]; try discriminate.
  cbn in H. destruct elems as [|m [|m' ms]].
  - destruct semi; cbn in Hx; discriminate.
  - destruct semi as [gs|].
    + rewrite andb_false_r in H. discriminate.
    + apply andb_true_iff in H. destruct H as [He Hm]. subst e. unfold comma_view in Hx.
      destruct (existsb is_bad [m]) eqn:Eb.
      * cbn in Eb. rewrite orb_false_r in Eb. unfold meta1_is in Hm. destruct m; cbn in *; discriminate.
      * rewrite Hm in Hx. discriminate.
  - destruct semi; [rewrite andb_false_r in H|]; discriminate.
Qed.

Theorem accepted_no_bad_attr c r i a :
  from_input c r = Ok i -> In a (ri_attrs r) -> bad_item_attr (raw_is_enum r) a = false.
Proof.
  intros H Hin. destruct (bad_item_attr (raw_is_enum r) a) eqn:E; [|reflexivity]. exfalso.
  destruct (from_input_inv c r i H) as [ia [Hia _]]. unfold item_attr_from_attrs in Hia. inv_bind Hia.
  destruct (foldM_ok_each _ _ _ _ Hb a Hin) as [s1 [s2 Hs]]. eapply item_add_attr_bad; eauto.
Qed.

(* lifetime predicates and non-types after the `;` *)
Lemma from_attr_generics_ok c u elems gens w :
  from_attr c u elems (Some gens) = Ok w ->
  Forall (fun g => match g with GRLifetime _ | GRBad _ => False | _ => True end) gens.
Proof.
  unfold from_attr. destruct elems as [|e es]; [discriminate|]. intros H. inv_bind H. inv_bind H.
  apply mapM_Forall2 in Hb0. clear - Hb0. induction Hb0 as [|g y l l' Hg H IH]; constructor; [|assumption].
  destruct g; cbn in Hg; try discriminate; exact I.
Qed.

Theorem accepted_no_lifetime_predicate c r i elems gens :
  from_input c r = Ok i -> In (IADw (DAList elems (Some gens))) (ri_attrs r) ->
  Forall (fun g => match g with GRLifetime _ | GRBad _ => False | _ => True end) gens.
Proof.
  intros H Hin. destruct (from_input_inv c r i H) as [ia [Hia _]]. unfold item_attr_from_attrs in Hia. inv_bind Hia.
  destruct (foldM_ok_each _ _ _ _ Hb _ Hin) as [s1 [s2 Hs]]. unfold item_add_attr in Hs. cbn [comma_view] in Hs.
  inv_bind Hs. eapply from_attr_generics_ok; eauto.
Qed.

Lemma forallb_ext_r {A} (f g : A -> bool) l : (forall x, f x = g x) -> forallb f l = forallb g l.
Proof. intros H; induction l as [|x l IH]; cbn; [reflexivity|]. rewrite H, IH. reflexivity. Qed.

(* ---------------- everything an accepted item satisfies ---------------- *)
Definition no_item_variant_incomparable (it : item) : Prop :=
  match it with
  | IEnum _ _ inc vs => inc = true -> forall d, In d vs -> d_incomparable d = false
  | IItem _ => True
  end.

Lemma check_variants_facts inc vs fd0 fi0 fd fi :
  check_variants inc vs fd0 fi0 = Ok (fd, fi) -> (inc = true -> forall d, In d vs -> d_incomparable d = false).
Proof.
  revert fd0 fi0; induction vs as [|v vs IH]; cbn; intros fd0 fi0 H Hi d Hd; [contradiction|].
  destruct (d_default v && fd0); [discriminate|]. subst inc. cbn [andb] in H.
  destruct (d_incomparable v) eqn:E; [discriminate|]. destruct Hd as [<-|Hd]; [assumption|]. eapply IH; eauto.
Qed.

Definition not_empty_item (it : item) : Prop :=
  match it with
  | IItem d => d_fields d <> [] \/ d_incomparable d = true
  | IEnum _ _ inc vs => existsb (fun v => match d_fields v with [] => false | _ => true end) vs = true
                        \/ existsb d_default vs = true \/ inc = true \/ existsb d_incomparable vs = true
  end.

Lemma check_variants_found inc vs : forall fd0 fi0 fd fi,
  check_variants inc vs fd0 fi0 = Ok (fd, fi) -> fd = fd0 || existsb d_default vs /\ fi = fi0 || existsb d_incomparable vs.
Proof.
  induction vs as [|v vs IH]; cbn; intros fd0 fi0 fd fi H.
  - inversion H; subst. rewrite !orb_false_r. auto.
  - destruct (d_default v && fd0); [discriminate|]. destruct (inc && d_incomparable v); [discriminate|].
    apply IH in H. destruct H as [-> ->]. rewrite !orb_assoc. auto.
Qed.

Theorem accepted_invariants c r i :
  from_input c r = Ok i ->
  in_dws i <> [] /\
  (forall w, In w (in_dws i) -> has_dup (dw_traits w) = false) /\ has_cross_dup (in_dws i) = false /\
  Forall (data_ok (in_dws i)) (match in_item i with IEnum _ _ _ vs => vs | IItem _ => [] end) /\
  (forall d, in_item i = IItem d ->
      skip_ok (in_dws i) None (d_skip_inner d) /\
      Forall (fun f => skip_ok (in_dws i) (Some (d_skip_inner d)) (f_skip f)) (d_fields d) /\
      (d_incomparable d = true -> (derives (in_dws i) PartialEq \/ derives (in_dws i) PartialOrd) /\ total_free (in_dws i))) /\
  (item_inc_flag (in_item i) = true -> (derives (in_dws i) PartialEq \/ derives (in_dws i) PartialOrd) /\ total_free (in_dws i)) /\
  no_item_variant_incomparable (in_item i) /\
  not_empty_item (in_item i) /\
  use_case_ok c (in_generics i) (in_item i)
              (item_inc_flag (in_item i) || existsb d_incomparable (match in_item i with IEnum _ _ _ vs => vs | IItem _ => [] end)) (in_dws i) = true.
Proof.
  intros H. pose proof H as H0. destruct (from_input_inv c r i H) as [ia [Hia [Edws [Egen K]]]].
  destruct (item_attrs_ok _ _ _ _ _ Hia) as [A1 [A2 [A3 [A4 [A5 A6]]]]]. rewrite Edws.
  split; [assumption|]. split; [assumption|]. split; [assumption|].
  (* the use-case rule, re-read from from_input itself *)
  unfold from_input in H0. fold (raw_is_enum r) in H0. fold (raw_is_union r) in H0. rewrite Hia in H0. cbn [bind] in H0.
  destruct (ri_kind r) as [sh fs|rvs|fs].
  - destruct K as [d [Hd Eit]]. rewrite Eit. rewrite Hd in H0. cbn [bind] in H0.
    destruct (use_case_ok c (ri_generics r) (IItem d) (it_incomparable ia) (it_dws ia)) eqn:U; [|discriminate].
    assert (Hdi : d_incomparable d = it_incomparable ia /\ d_skip_inner d = it_skip_inner ia /\
                  Forall (fun f => skip_ok (it_dws ia) (Some (it_skip_inner ia)) (f_skip f)) (d_fields d) /\
                  (d_fields d <> [] \/ d_incomparable d = true)).
    { unfold data_from_struct in Hd. destruct sh.
      - destruct (match fs with [] => negb (it_incomparable ia) | _ => false end) eqn:Ee; [discriminate|]. inv_bind Hd. inversion Hd; subst; cbn.
        repeat split; [eapply fields_from_ok; eauto|].
        destruct fs; [right; destruct (it_incomparable ia); [reflexivity | discriminate]|]. left. intros X. subst a. apply fields_from_nil in Hb. discriminate.
      - destruct (match fs with [] => negb (it_incomparable ia) | _ => false end) eqn:Ee; [discriminate|]. inv_bind Hd. inversion Hd; subst; cbn.
        repeat split; [eapply fields_from_ok; eauto|].
        destruct fs; [right; destruct (it_incomparable ia); [reflexivity | discriminate]|]. left. intros X. subst a. apply fields_from_nil in Hb. discriminate.
      - destruct (it_incomparable ia); [|discriminate]. inversion Hd; subst; cbn. repeat split; [constructor | right; reflexivity]. }
    destruct Hdi as [D1 [D2 [D3 D4]]].
    split; [constructor|]. split.
    + intros d' Ed. inversion Ed; subst d'. rewrite D2, D1. auto.
    + cbn [item_inc_flag]. rewrite D1. split; [assumption|]. split; [exact I|]. split; [exact D4|].
      rewrite Egen. cbn. rewrite orb_false_r. exact U.
  - destruct K as [disc [pvs [fd [fi [Hvs [Hdisc [Hc [Hm [He Eit]]]]]]]]]. rewrite Eit.
    split; [apply mapM_Forall2 in Hvs; eapply Forall2_Forall_r; [exact Hvs|]; intros x y; apply data_from_variant_ok|].
    split; [intros d Ed; discriminate|]. cbn [item_inc_flag].
    split; [assumption|]. split; [cbn; eapply check_variants_facts; eauto|].
    destruct (check_variants_found _ _ _ _ _ _ Hc) as [Efd Efi]. cbn [orb] in Efd.
    split.
    + cbn. apply andb_false_iff in He. destruct He as [He|He].
      * apply andb_false_iff in He. destruct He as [He|He]; apply negb_false_iff in He.
        -- right. left. rewrite <- Efd. assumption.
        -- rewrite Efi in He. apply orb_true_iff in He. destruct He; auto.
      * left. rewrite existsb_negb_forallb'.
        replace (forallb (fun x : data => negb (match d_fields x with [] => false | _ :: _ => true end)) pvs)
          with (forallb (fun v : data => match d_fields v with [] => true | _ :: _ => false end) pvs)
          by (apply forallb_ext_r; intros v; destruct (d_fields v); reflexivity).
        rewrite He. reflexivity.
    + rewrite Hdisc in H0. cbn [bind] in H0. rewrite Hvs in H0. cbn [bind] in H0. rewrite Hc in H0. cbn [bind] in H0.
      rewrite Hm, He in H0. cbn [bind] in H0. rewrite Egen, <- Efi.
      destruct (use_case_ok c (ri_generics r) (IEnum disc (ri_name r) (it_incomparable ia) pvs) fi (it_dws ia)) eqn:U; [reflexivity | discriminate H0].
  - destruct K as [d [Hd Eit]]. rewrite Eit. rewrite Hd in H0. cbn [bind] in H0.
    destruct (use_case_ok c (ri_generics r) (IItem d) (it_incomparable ia) (it_dws ia)) eqn:U; [|discriminate].
    unfold data_from_union in Hd. destruct (match fs with [] => negb (it_incomparable ia) | _ => false end) eqn:Ee; [discriminate|].
    inv_bind Hd. inversion Hd; subst; cbn.
    split; [constructor|]. split.
    + intros d' Ed. inversion Ed; subst d'. cbn. split; [assumption|]. split; [eapply fields_from_ok; eauto | assumption].
    + split; [assumption|]. split; [exact I|]. split.
      * destruct fs; [right; destruct (it_incomparable ia); [reflexivity | discriminate]|]. left. intros X. subst a. apply fields_from_nil in Hb. discriminate.
      * rewrite Egen. cbn. rewrite orb_false_r. exact U.
Qed.

(* ---- each requested trait exactly once: no (trait, crate path) pair occurs twice in the whole impl list ---- *)
Lemma existsb_false_iff {A} (f : A -> bool) l : existsb f l = false <-> forall x, In x l -> f x = false.
Proof.
  induction l as [|a l IH]; cbn; [split; [intros _ x []|reflexivity]|].
  rewrite orb_false_iff, IH. split.
  - intros [Ha Hl] x [<-|Hx]; auto.
  - intros H. split; [apply H; left; reflexivity|]. intros x Hx. apply H. right. exact Hx.
Qed.

Lemma list_eqb_string_sym (l1 : list string) : forall l2, list_eqb String.eqb l1 l2 = list_eqb String.eqb l2 l1.
Proof.
  induction l1 as [|x xs IH]; intros [|y ys]; cbn; try reflexivity. rewrite IH, String.eqb_sym. reflexivity.
Qed.

Lemma path_eqb_sym p q : path_eqb p q = path_eqb q p.
Proof.
  unfold path_eqb. rewrite list_eqb_string_sym. f_equal. destruct (p_lead p), (p_lead q); reflexivity.
Qed.

Lemma derive_trait_eqb_sym a b : derive_trait_eqb a b = derive_trait_eqb b a.
Proof.
  unfold derive_trait_eqb. f_equal.
  - destruct (dt_trait a), (dt_trait b); reflexivity.
  - destruct (dt_crate a) as [p|], (dt_crate b) as [q|]; cbn; try reflexivity. apply path_eqb_sym.
Qed.

Lemma has_dup_app a b :
  has_dup (a ++ b) = false <->
  has_dup a = false /\ has_dup b = false /\ forall x y, In x a -> In y b -> derive_trait_eqb x y = false.
Proof.
  induction a as [|x a IH]; cbn [app has_dup].
  - split; [intros H; repeat split; auto; intros x y []|intros [_ [H _]]; exact H].
  - rewrite !orb_false_iff, existsb_app, orb_false_iff, IH, !existsb_false_iff. split.
    + intros [[Ha Hb] [Da [Db C]]]. repeat split; auto.
      intros x' y [<-|Hx] Hy; [apply Hb; exact Hy | apply C; assumption].
    + intros [[Ha Da] [Db C]]. repeat split; auto.
      * intros y Hy. apply C; [left; reflexivity | exact Hy].
      * intros x' y Hx Hy. apply C; [right; exact Hx | exact Hy].
Qed.

Lemma no_dup_overall dws :
  (forall w, In w dws -> has_dup (dw_traits w) = false) -> has_cross_dup dws = false ->
  has_dup (flat_map dw_traits dws) = false.
Proof.
  induction dws as [|d r IH]; cbn [flat_map has_cross_dup]; intros Hw Hc; [reflexivity|].
  apply orb_false_iff in Hc. destruct Hc as [Hc1 Hc2]. apply has_dup_app. split; [apply Hw; left; reflexivity|].
  split; [apply IH; [intros w Hin; apply Hw; right; exact Hin | exact Hc2]|].
  intros x y Hx Hy. apply in_flat_map in Hy. destruct Hy as [o [Ho Hy]].
  rewrite existsb_false_iff in Hc1. specialize (Hc1 o Ho). rewrite existsb_false_iff in Hc1. specialize (Hc1 y Hy).
  rewrite existsb_false_iff in Hc1. rewrite derive_trait_eqb_sym. apply Hc1. exact Hx.
Qed.

Theorem accepted_each_trait_once c r i :
  from_input c r = Ok i -> has_dup (flat_map dw_traits (in_dws i)) = false.
Proof.
  intros H. destruct (accepted_invariants c r i H) as [_ [A [B _]]]. apply no_dup_overall; assumption.
Qed.
