(* Syntax.v - the surface language: an item carrying #[derive_where(..)] attributes,
   as the macro receives it (after syn has parsed the item itself).  Opaque user
   material (types, predicates, expressions) is carried as token lists. *)
From DW Require Export Base.

Definition ident := string.      (* includes the r# prefix for raw identifiers *)
Definition tok := string.
Definition toks := list tok.

Record path := mkPath { p_lead : bool; p_segs : list ident }.

(* right-hand side of `name = value` *)
Inductive expr_raw :=
| EStr (lit : tok) (parsed : option path)  (* string literal; result of parsing its content as a path *)
| EPathE (p : path)
| EOther (ts : toks).

(* metas nested inside a meta list (never parsed deeper by the macro) *)
Inductive meta2 :=
| M2Path (p : path)
| M2NameValue (p : path) (e : expr_raw)
| M2List (p : path) (ts : toks).

(* elements of an attribute's argument list *)
Inductive meta1 :=
| M1Path (p : path)
| M1NameValue (p : path) (e : expr_raw)
| M1List (p : path) (args : option (list meta2))  (* None: arguments are not comma separated metas *)
| M1Bad (ts : toks).                               (* tokens that do not parse as a meta *)

(* entries after the `;` *)
Inductive generic_raw :=
| GRType (ts : toks)       (* a type, not a where-predicate *)
| GRPred (ts : toks)       (* a type predicate `ty : bounds` *)
| GRLifetime (ts : toks)   (* a lifetime predicate *)
| GRBad (ts : toks).       (* neither *)

(* #[derive_where ...] on the item *)
Inductive dw_attr :=
| DANotList (ts : toks)                                     (* #[derive_where] / #[derive_where = ..] *)
| DAList (elems : list meta1) (semi : option (list generic_raw)).

(* #[derive_where ...] on a variant or field *)
Inductive sub_attr :=
| SANotList (ts : toks)
| SAList (args : option (list meta1)).

Inductive repr_attr :=
| ReprIdents (ids : list ident)
| ReprUnparsable (ts : toks)    (* e.g. align(8), packed(2) *)
| ReprNotList.

Inductive item_attr :=
| IADw (a : dw_attr)
| IARepr (r : repr_attr)
| IAOther (p : path) (ts : toks).   (* any other attribute: #[p ts] *)

Inductive field_attr :=
| FADw (a : sub_attr)
| FAOther (p : path) (ts : toks).

Record raw_field := mkRawField {
  rf_attrs : list field_attr;
  rf_vis : toks;
  rf_name : option ident;
  rf_ty : toks }.

Inductive rshape := RNamed | RUnnamed | RUnit.

Record raw_variant := mkRawVariant {
  rv_attrs : list field_attr;
  rv_name : ident;
  rv_shape : rshape;
  rv_fields : list raw_field;
  rv_disc : option (toks * Z) }.   (* explicit discriminant: tokens and value *)

Inductive gparam :=
| GPLifetime (name : ident) (bounds : toks)
| GPType (name : ident) (bounds : toks) (default : toks)
| GPConst (name : ident) (ty : toks) (default : toks).

Record generics := mkGenerics {
  g_params : list gparam;
  g_trailing : bool;                        (* trailing comma inside < > *)
  g_where : option (list toks * bool) }.    (* where-clause predicates, trailing comma *)

Inductive kind :=
| KStruct (sh : rshape) (fs : list raw_field)
| KEnum (vs : list raw_variant)
| KUnion (fs : list raw_field).

Record raw_item := mkRawItem {
  ri_attrs : list item_attr;
  ri_vis : toks;
  ri_name : ident;
  ri_generics : generics;
  ri_kind : kind }.

(* feature configuration of the macro crate *)
Record cfg := mkCfg { c_safe : bool; c_nightly : bool; c_zeroize : bool; c_zod : bool }.

(* ---- helpers on identifiers and paths ---- *)
Definition unraw (i : ident) : string :=
  match i with
  | String "r" (String "#" rest) => rest
  | _ => i
  end.

Definition path_eqb (p q : path) : bool :=
  Bool.eqb (p_lead p) (p_lead q) && list_eqb String.eqb (p_segs p) (p_segs q).

Definition is_ident (p : path) (s : string) : bool :=
  negb (p_lead p) && match p_segs p with [x] => String.eqb x s | _ => false end.

Definition get_ident (p : path) : option ident :=
  if p_lead p then None else match p_segs p with [x] => Some x | _ => None end.

Definition path_from_strs (segs : list string) : path := mkPath true segs.
Definition path_from_root_and_strs (root : path) (segs : list string) : path :=
  mkPath (p_lead root) (p_segs root ++ segs).

Definition toks_eqb : toks -> toks -> bool := list_eqb String.eqb.

Definition meta1_path (m : meta1) : option path :=
  match m with
  | M1Path p | M1NameValue p _ | M1List p _ => Some p
  | M1Bad _ => None
  end.
Definition meta2_path (m : meta2) : path :=
  match m with M2Path p | M2NameValue p _ | M2List p _ => p end.
Definition is_bad (m : meta1) : bool := match m with M1Bad _ => true | _ => false end.
