(* Proofs_simple.v - Hash, Clone, Default, Debug, Eq asserts, Zeroize, Drop:
   the generated code computes the reference meaning (C08-C11, C17-C19). *)
From DW Require Export Proofs_eq.
Open Scope nat_scope.

(* ---- iter_fields, stated on the fields themselves ---- *)
Lemma iter_fields_visible d t : wf_data d ->
  iter_fields d t = filter (fun p => visible d t (snd p)) (indexed (d_fields d)).
Proof.
  intros W. unfold iter_fields, data_skip, visible.
  rewrite trait_skipped_selects.
  destruct (selects (d_skip_inner d) t) eqn:Hin; cbn [orb].
  - symmetry. apply filter_all_false. intros p _. rewrite andb_false_r. reflexivity.
  - destruct (has_fields d) eqn:Hf; cbn [andb].
    + destruct (forallb (fun f => field_skip f t) (d_fields d)) eqn:Hall.
      * symmetry. apply filter_all_false. intros p Hp.
        apply in_indexed_from in Hp. rewrite forallb_forall in Hall. specialize (Hall _ Hp).
        unfold field_skip in Hall. rewrite trait_skipped_selects in Hall. rewrite Hall. reflexivity.
      * apply filter_ext_in'. intros p _. unfold field_skip. rewrite trait_skipped_selects, andb_true_r. reflexivity.
    + unfold has_fields in Hf. destruct (d_shape d) eqn:Hs; try discriminate.
      rewrite (W Hs). reflexivity.
Qed.

Lemma list_eqb_nat_refl l : list_eqb Nat.eqb l l = true.
Proof. induction l as [|x l IH]; cbn; [reflexivity|]. rewrite Nat.eqb_refl, IH. reflexivity. Qed.

Lemma map_fst_indexed_from {A} (l : list A) n : map fst (indexed_from n l) = seq n (length l).
Proof. revert n; induction l as [|x l IH]; intros n; cbn; [reflexivity|]. rewrite IH. reflexivity. Qed.

Lemma filter_all_true {A} (f : A -> bool) l : (forall x, In x l -> f x = true) -> filter f l = l.
Proof. induction l as [|x l IH]; cbn; intros H; [reflexivity|]. rewrite (H x (or_introl eq_refl)). f_equal. apply IH; intros; apply H; right; assumption. Qed.

(* traits that can never be skipped see every field *)
Lemma selects_unskippable s t : skippable t = false -> selects s t = false.
Proof.
  intros H. destruct s as [| |gs]; cbn; [reflexivity | assumption |].
  induction gs as [|g gs IH]; cbn; [reflexivity|]. rewrite IH, orb_false_r. destruct g, t; try reflexivity; discriminate.
Qed.

Lemma visible_unskippable d t f : skippable t = false -> visible d t f = true.
Proof. intros H. unfold visible. rewrite !selects_unskippable by assumption. reflexivity. Qed.

Lemma positions_all d t : wf_data d -> skippable t = false -> positions d t = seq 0 (length (d_fields d)).
Proof.
  intros W H. rewrite positions_visible by assumption. unfold visible_positions.
  rewrite filter_all_true by (intros; apply visible_unskippable; assumption).
  apply map_fst_indexed_from.
Qed.

Lemma getfs_seq_from {A} (l pre : list A) : getfs (pre ++ l) (seq (length pre) (length l)) = Some l.
Proof.
  revert pre; induction l as [|x l IH]; intros pre; cbn; [reflexivity|].
  rewrite nth_error_app2 by lia. rewrite Nat.sub_diag. cbn.
  replace (pre ++ x :: l) with ((pre ++ [x]) ++ l) by (rewrite <- app_assoc; reflexivity).
  replace (S (length pre)) with (length (pre ++ [x])) by (rewrite app_length; cbn; lia).
  rewrite IH. reflexivity.
Qed.

Lemma getfs_seq {A} (l : list A) : getfs l (seq 0 (length l)) = Some l.
Proof. apply (getfs_seq_from l []). Qed.

Section Simple.
Context {fval hval : Type}.
Variable fhash : fval -> hval.
Variable fclone : fval -> fval.
Variable fdefault : toks -> fval.
Notation value := (value fval).

(* ---------------- Hash ---------------- *)
Theorem gen_hash_correct it (a : value) :
  wf_item it -> wf_value it a ->
  eval_hash fhash (map hash_arm_of (item_variants it)) a = Val (spec_hash fhash it a).
Proof.
  intros W [da [Hda La]].
  assert (Wda : wf_data da) by (eapply wf_item_data; eauto using nth_error_In).
  unfold eval_hash, spec_hash, variant_of. rewrite nth_error_map', Hda. cbn [option_map hash_arm_of ha_fields ha_disc].
  rewrite positions_visible by assumption. rewrite (getfs_visible da Hash a La).
  assert (Hv : d_is_variant da = item_is_enum it).
  { destruct W as [_ W]. destruct it as [d0|disc id inc vs]; cbn in *.
    - assert (v_idx a = 0) by (destruct (v_idx a) as [|[|k]]; cbn in Hda; try discriminate; reflexivity).
      rewrite H in Hda. cbn in Hda. congruence.
    - rewrite Forall_forall in W. apply W. eapply nth_error_In; eauto. }
  rewrite Hv. reflexivity.
Qed.

(* ---------------- Clone ---------------- *)
Theorem gen_clone_correct it w (a : value) :
  wf_item it -> wf_value it a -> shortcut w Copy = false -> item_is_union it = false ->
  eval_clone fclone (gen_clone it w) a = Val (spec_clone fclone a).
Proof.
  intros W [da [Hda La]] Hs NU.
  assert (Wda : wf_data da) by (eapply wf_item_data; eauto using nth_error_In).
  assert (NUa : d_shape da <> ShUnion) by (eapply wf_item_not_union; eauto using nth_error_In).
  unfold gen_clone. rewrite Hs, NU. cbn [eval_clone]. rewrite find1_spec, nth_error_map', Hda. cbn [option_map].
  unfold spec_clone, clone_arm.
  assert (Hpos : positions da Clone = seq 0 (length (v_fields a))) by (rewrite La; apply positions_all; [assumption | reflexivity]).
  destruct (d_shape da) eqn:Hsh; try congruence.
  - rewrite Hpos, list_eqb_nat_refl, getfs_seq. reflexivity.
  - rewrite Hpos, list_eqb_nat_refl, getfs_seq. reflexivity.
  - assert (Hnil : v_fields a = []) by (apply length_zero_iff_nil; rewrite La, (Wda Hsh); reflexivity).
    rewrite Hnil. cbn. reflexivity.
Qed.

(* with the shortcut the value is copied bitwise *)
Lemma gen_clone_shortcut it w (a : value) :
  shortcut w Copy = true -> eval_clone fclone (gen_clone it w) a = Val (a, []).
Proof. intros H. unfold gen_clone. rewrite H. reflexivity. Qed.

Lemma gen_clone_union it w (a : value) :
  item_is_union it = true -> eval_clone fclone (gen_clone it w) a = Val (a, []).
Proof. intros H. unfold gen_clone. destruct (shortcut w Copy); [reflexivity|]. rewrite H. reflexivity. Qed.

(* ---------------- Default ---------------- *)
Lemma emitted_from_map_filter {A B} (p : A -> bool) (g : A -> B) (l : list A) n :
  emitted_from n (map (fun d => if p d then Some (g d) else None) l) =
  map (fun q => (fst q, g (snd q))) (filter (fun q => p (snd q)) (indexed_from n l)).
Proof.
  revert n; induction l as [|x l IH]; intros n; cbn; [reflexivity|].
  destruct (p x); cbn; rewrite IH; reflexivity.
Qed.

Lemma nth_error_indexed_from {A} (l : list A) n i x :
  In (i, x) (indexed_from n l) -> n <= i /\ nth_error l (i - n) = Some x.
Proof.
  revert n; induction l as [|y l IH]; cbn; intros n H; [contradiction|].
  destruct H as [H|H].
  - inversion H; subst. rewrite Nat.sub_diag. split; [lia | reflexivity].
  - apply IH in H. destruct H as [Hle Hn]. split; [lia|]. replace (i - n) with (S (i - S n)) by lia. exact Hn.
Qed.

Theorem gen_default_correct it v :
  wf_item it -> spec_default fdefault it = Some v ->
  eval_default fdefault (item_variants it) (map default_ctor (item_variants it)) = Val v.
Proof.
  intros W H. unfold spec_default in H.
  destruct (default_index it) as [i|] eqn:Hi; [|discriminate].
  destruct (nth_error (item_variants it) i) as [d|] eqn:Hd; [|discriminate]. inversion H; subst v.
  assert (Wd : wf_data d) by (eapply wf_item_data; eauto using nth_error_In).
  unfold eval_default, emitted.
  assert (Hem : emitted_from 0 (map default_ctor (item_variants it)) = [(i, positions d Default)]).
  { unfold default_ctor. rewrite (emitted_from_map_filter data_is_default (fun d => positions d Default)).
    destruct it as [d0|disc id inc vs]; cbn in *.
    - destruct W as [_ W0]. unfold data_is_default. rewrite W0. cbn. inversion Hi; subst i. cbn in Hd. congruence.
    - destruct W as [_ W0]. fold (indexed vs).
      assert (Hf : filter (fun q => data_is_default (snd q)) (indexed vs) = filter (fun p => d_default (snd p)) (indexed vs)).
      { apply filter_ext_in'. intros q Hq. apply in_indexed_from in Hq. rewrite Forall_forall in W0.
        unfold data_is_default. destruct (W0 _ Hq) as [_ ->]. reflexivity. }
      rewrite Hf. destruct (filter (fun p => d_default (snd p)) (indexed vs)) as [|[j dj] [|q r]] eqn:Ef; try discriminate.
      inversion Hi; subst j. cbn.
      assert (Hin : In (i, dj) (indexed vs)) by (eapply (proj1 (filter_In _ _ _)); rewrite Ef; left; reflexivity).
      apply nth_error_indexed_from in Hin. rewrite Nat.sub_0_r in Hin. destruct Hin as [_ Hin]. congruence. }
  rewrite Hem, Hd. rewrite positions_all by (assumption || reflexivity). rewrite list_eqb_nat_refl. reflexivity.
Qed.

(* ---------------- Debug ---------------- *)
Lemma combine_filter_project {A F} (vis : F -> bool) : forall (fs : list F) (xs : list A),
  length xs = length fs ->
  combine (filter vis fs) (map snd (filter (fun p => vis (fst p)) (combine fs xs))) =
  filter (fun p => vis (fst p)) (combine fs xs).
Proof.
  induction fs as [|f fs IH]; intros [|x xs] H; cbn in *; try discriminate; [reflexivity|].
  destruct (vis f); cbn; rewrite IH by lia; reflexivity.
Qed.

Lemma combine_map_l {A B C} (f : A -> C) (l : list A) (r : list B) :
  combine (map f l) r = map (fun p => (f (fst p), snd p)) (combine l r).
Proof. revert r; induction l as [|x l IH]; intros [|y r]; cbn; try reflexivity. rewrite IH. reflexivity. Qed.

Lemma filter_length_le' {A} (f : A -> bool) l : length (filter f l) <= length l.
Proof. induction l as [|x l IH]; cbn; [lia|]. destruct (f x); cbn; lia. Qed.

Lemma length_filter_eqb {A} (f : A -> bool) l : Nat.eqb (length (filter f l)) (length l) = forallb f l.
Proof.
  induction l as [|x l IH]; cbn; [reflexivity|]. pose proof (filter_length_le' f l).
  destruct (f x); cbn; [exact IH|]. apply Nat.eqb_neq. lia.
Qed.

Lemma forallb_ext' {A} (f g : A -> bool) l : (forall x, f x = g x) -> forallb f l = forallb g l.
Proof. intros H; induction l as [|x l IH]; cbn; [reflexivity|]. rewrite H, IH. reflexivity. Qed.

Lemma existsb_negb_forallb {A} (p : A -> bool) l : existsb p l = negb (forallb (fun x => negb (p x)) l).
Proof. induction l as [|x l IH]; cbn; [reflexivity|]. rewrite IH. destruct (p x); reflexivity. Qed.

Lemma any_skip_debug d : d_shape d = ShStruct ->
  data_any_skip_trait d Debug && negb (match d_fields d with [] => true | _ => false end) =
  negb (forallb (visible d Debug) (d_fields d)).
Proof.
  intros Hs. unfold data_any_skip_trait, has_fields. rewrite Hs. cbn [andb].
  rewrite trait_skipped_selects.
  destruct (d_fields d) as [|f fs] eqn:Ef.
  - cbn. rewrite andb_false_r. reflexivity.
  - cbn [negb]. rewrite andb_true_r.
    destruct (selects (d_skip_inner d) Debug) eqn:Hin; cbn [orb].
    + cbn. unfold visible at 1. rewrite Hin, andb_false_r. reflexivity.
    + rewrite existsb_negb_forallb. f_equal. apply forallb_ext'. intros x.
      unfold field_skip, visible. rewrite trait_skipped_selects, Hin, andb_true_r. reflexivity.
Qed.

Lemma length_shown {A F} (vis : F -> bool) : forall (fs : list F) (xs : list A), length xs = length fs ->
  length (filter (fun p => vis (fst p)) (combine fs xs)) = length (filter vis fs).
Proof.
  induction fs as [|f fs IH]; intros [|x xs] H; cbn in *; try discriminate; [reflexivity|].
  destruct (vis f); cbn; rewrite IH by lia; reflexivity.
Qed.

Theorem gen_debug_correct it (a : value) t :
  wf_item it -> wf_value it a -> item_is_union it = false ->
  spec_debug it a = Some t ->
  eval_debug (item_variants it) (map debug_arm (item_variants it)) a = Val t.
Proof.
  intros W [da [Hda La]] NU Hsp.
  assert (Wda : wf_data da) by (eapply wf_item_data; eauto using nth_error_In).
  assert (NUa : d_shape da <> ShUnion) by (eapply wf_item_not_union; eauto using nth_error_In).
  unfold spec_debug, variant_of in Hsp. rewrite Hda in Hsp.
  unfold eval_debug. rewrite nth_error_map', Hda. cbn [option_map].
  assert (Hfields : da_fields (debug_arm da) = visible_positions da Debug).
  { unfold debug_arm. destruct (d_shape da); cbn; apply positions_visible; assumption. }
  rewrite Hfields, (getfs_visible da Debug a La), getfs_fields_visible.
  unfold project.
  destruct (d_shape da) eqn:Hsh; try congruence.
  - (* braced *)
    inversion Hsp; subst t. f_equal. f_equal.
    + rewrite combine_map_l. rewrite combine_filter_project by assumption. reflexivity.
    + unfold debug_arm. rewrite Hsh. cbn [da_non_exhaustive].
      rewrite any_skip_debug by assumption.
      rewrite (length_shown (visible da Debug)) by assumption. rewrite length_filter_eqb. reflexivity.
  - inversion Hsp; subst t. f_equal. f_equal.
    rewrite combine_map_l. rewrite combine_filter_project by assumption. reflexivity.
Qed.

(* ---------------- Zeroize ---------------- *)
Lemma positions_lt d t p f : In (p, f) (iter_fields d t) -> wf_data d -> p < length (d_fields d).
Proof.
  intros H W. rewrite iter_fields_visible in H by assumption. apply filter_In in H. destruct H as [H _].
  apply nth_error_indexed_from in H. destruct H as [_ H]. rewrite Nat.sub_0_r in H.
  apply nth_error_Some. congruence.
Qed.

Theorem gen_zeroize_correct it (a : value) :
  wf_item it -> wf_value it a ->
  eval_zeroize (gen_zeroize it) a = Val (spec_zeroize it a).
Proof.
  intros W [da [Hda La]].
  assert (Wda : wf_data da) by (eapply wf_item_data; eauto using nth_error_In).
  unfold spec_zeroize, variant_of. rewrite Hda.
  assert (Arm : forall arms, nth_error arms (v_idx a) = Some (zeroize_arm da) ->
                eval_zeroize (ZMatch arms) a =
                Val (map (fun p : nat * field => if f_fqs (snd p) then ZFqs (fst p) else ZMethod (fst p))
                         (filter (fun p => visible da Zeroize (snd p)) (indexed (d_fields da))))).
  { intros arms Harm. cbn [eval_zeroize]. rewrite Harm. unfold zeroize_arm.
    rewrite <- iter_fields_visible by assumption.
    unfold data_is_empty. destruct (iter_fields da Zeroize) as [|q r] eqn:Eit; [reflexivity|].
    rewrite <- Eit.
    assert (Hall : forallb (fun q : nat * bool => fst q <? length (v_fields a))
                     (map (fun p : nat * field => (fst p, f_fqs (snd p))) (iter_fields da Zeroize)) = true).
    { apply forallb_forall. intros q0 Hq0. apply in_map_iff in Hq0. destruct Hq0 as [[p f] [<- Hp]]. cbn.
      apply Nat.ltb_lt. rewrite La. eapply positions_lt; eauto. }
    rewrite Hall. rewrite map_map. reflexivity. }
  destruct it as [d0|disc id inc vs]; cbn [gen_zeroize item_variants] in *.
  - assert (v_idx a = 0) by (destruct (v_idx a) as [|[|k]]; cbn in Hda; try discriminate; reflexivity).
    rewrite H in Hda. cbn in Hda. inversion Hda; subst d0.
    destruct (data_is_empty da Zeroize) eqn:Hemp.
    + cbn. rewrite <- iter_fields_visible by assumption. unfold data_is_empty in Hemp.
      destruct (iter_fields da Zeroize); [reflexivity | discriminate].
    + apply Arm. rewrite H. reflexivity.
  - apply Arm. rewrite nth_error_map', Hda. reflexivity.
Qed.

(* ---------------- ZeroizeOnDrop ---------------- *)
Lemma selects_zod s : selects s ZeroizeOnDrop = selects s Zeroize.
Proof. destruct s as [| |gs]; cbn; reflexivity. Qed.

Lemma visible_zod d f : visible d ZeroizeOnDrop f = visible d Zeroize f.
Proof. unfold visible. rewrite !selects_zod. reflexivity. Qed.

Lemma zeroized_positions_spec it (a : value) d :
  variant_of it a = Some d ->
  zeroized_positions (spec_zeroize it a) = visible_positions d Zeroize.
Proof.
  intros H. unfold spec_zeroize. rewrite H. unfold visible_positions.
  induction (filter (fun p => visible d Zeroize (snd p)) (indexed (d_fields d))) as [|p l IH]; [reflexivity|].
  cbn [map]. unfold zeroized_positions in *. cbn [flat_map]. rewrite IH.
  destruct (f_fqs (snd p)); reflexivity.
Qed.

Lemma zeroized_positions_or_on_drop l : zeroized_positions (map ZOrOnDrop l) = l.
Proof. induction l as [|x l IH]; cbn; [reflexivity|]. f_equal. exact IH. Qed.

(* with the zeroize-on-drop feature: the same set of fields, through zeroize_or_on_drop *)
Theorem gen_drop_zod_correct c it (a : value) d :
  c_zod c = true -> wf_item it -> wf_value it a -> variant_of it a = Some d ->
  exists evs, eval_drop (gen_drop c it) a = Val evs /\ zeroized_positions evs = visible_positions d Zeroize.
Proof.
  intros Hz W [da [Hda La]] Hd. unfold variant_of in Hd. assert (da = d) by congruence. subst da.
  assert (Wd : wf_data d) by (eapply wf_item_data; eauto using nth_error_In).
  assert (Hpos : positions d ZeroizeOnDrop = visible_positions d Zeroize).
  { rewrite positions_visible by assumption. reflexivity. }
  assert (Arm : forall arms, nth_error arms (v_idx a) = Some (drop_arm d) ->
     exists evs, eval_drop (DrMatch arms) a = Val evs /\ zeroized_positions evs = visible_positions d Zeroize).
  { intros arms Harm. cbn [eval_drop]. rewrite Harm. unfold drop_arm. rewrite data_is_empty_positions, Hpos.
    destruct (visible_positions d Zeroize) as [|q r] eqn:Ev; [exists []; split; reflexivity|].
    rewrite <- Ev.
    assert (Hall : forallb (fun p => p <? length (v_fields a)) (visible_positions d Zeroize) = true).
    { apply forallb_forall. intros p Hp. apply Nat.ltb_lt. rewrite La. unfold visible_positions in Hp.
      apply in_map_iff in Hp. destruct Hp as [[p' f] [<- Hp]]. apply filter_In in Hp. destruct Hp as [Hp _].
      apply nth_error_indexed_from in Hp. destruct Hp as [_ Hp]. rewrite Nat.sub_0_r in Hp. apply nth_error_Some. cbn. congruence. }
    rewrite Hall. eexists; split; [reflexivity|]. apply zeroized_positions_or_on_drop. }
  destruct it as [d0|disc id inc vs]; cbn [gen_drop item_variants] in *; rewrite Hz.
  - assert (v_idx a = 0) by (destruct (v_idx a) as [|[|k]]; cbn in Hda; try discriminate; reflexivity).
    rewrite H in Hda. cbn in Hda. inversion Hda; subst d0.
    destruct (data_is_empty d ZeroizeOnDrop) eqn:Hemp.
    + exists []. split; [reflexivity|]. rewrite data_is_empty_positions, Hpos in Hemp.
      destruct (visible_positions d Zeroize); [reflexivity | discriminate].
    + apply Arm. rewrite H. reflexivity.
  - apply Arm. rewrite nth_error_map', Hda. reflexivity.
Qed.

(* without the feature: Drop delegates to the type's own Zeroize::zeroize once per variant that
   has something to zeroize; in particular at least once whenever the live variant has *)
Theorem gen_drop_delegate_correct c it (a : value) d :
  c_zod c = false -> wf_item it -> wf_value it a -> variant_of it a = Some d ->
  exists n, eval_drop (gen_drop c it) a = Val (repeat ZDelegate n) /\
            (visible_positions d Zeroize <> [] -> 1 <= n).
Proof.
  intros Hz W [da [Hda La]] Hd. unfold variant_of in Hd. assert (da = d) by congruence. subst da.
  assert (Wd : wf_data d) by (eapply wf_item_data; eauto using nth_error_In).
  assert (Hpos : positions d ZeroizeOnDrop = visible_positions d Zeroize).
  { rewrite positions_visible by assumption. reflexivity. }
  assert (Del : forall vs, In d vs ->
     exists n, eval_drop (DrDelegate (map (fun d => negb (data_is_empty d ZeroizeOnDrop)) vs)) a = Val (repeat ZDelegate n) /\
               (visible_positions d Zeroize <> [] -> 1 <= n)).
  { intros vs Hin. cbn [eval_drop].
    exists (length (filter (fun d => negb (data_is_empty d ZeroizeOnDrop)) vs)). split.
    - f_equal. clear. induction vs as [|x vs IH]; cbn; [reflexivity|].
      destruct (negb (data_is_empty x ZeroizeOnDrop)); cbn; rewrite IH; reflexivity.
    - intros Hne. assert (Hf : In d (filter (fun d => negb (data_is_empty d ZeroizeOnDrop)) vs)).
      { apply filter_In. split; [assumption|]. rewrite data_is_empty_positions, Hpos.
        destruct (visible_positions d Zeroize); [congruence | reflexivity]. }
      destruct (filter (fun d => negb (data_is_empty d ZeroizeOnDrop)) vs); [contradiction | cbn; lia]. }
  destruct it as [d0|disc id inc vs]; cbn [gen_drop item_variants] in *; rewrite Hz.
  - assert (v_idx a = 0) by (destruct (v_idx a) as [|[|k]]; cbn in Hda; try discriminate; reflexivity).
    rewrite H in Hda. cbn in Hda. inversion Hda; subst d0.
    destruct (data_is_empty d ZeroizeOnDrop) eqn:Hemp.
    + exists 0. split; [reflexivity|]. rewrite data_is_empty_positions, Hpos in Hemp.
      destruct (visible_positions d Zeroize); [congruence | discriminate].
    + apply Del. left; reflexivity.
  - apply Del. eapply nth_error_In; eauto.
Qed.

End Simple.
