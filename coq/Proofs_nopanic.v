(* Proofs_nopanic.v - the macro never panics: every unreachable!/expect/assert! site of the
   source (modelled as an explicit Panic at the same place) is unreachable (C16). *)
From DW Require Export Proofs_ord Render.
Open Scope nat_scope.

Definition np {E A} (r : result E A) : Prop := is_panic r = false.

Lemma np_ok {E A} (a : A) : np (Ok a : result E A). Proof. reflexivity. Qed.
Lemma np_err {E A} (e : E) : np (Err e : result E A). Proof. reflexivity. Qed.

Lemma np_bind {E A B} (r : result E A) (f : A -> result E B) :
  np r -> (forall a, r = Ok a -> np (f a)) -> np (bind r f).
Proof. unfold np. destruct r; cbn; intros H G; [apply G; reflexivity | reflexivity | discriminate]. Qed.

Lemma np_mapM {E A B} (f : A -> result E B) l : (forall x, In x l -> np (f x)) -> np (mapM f l).
Proof.
  induction l as [|x l IH]; cbn; intros H; [reflexivity|].
  apply np_bind; [apply H; left; reflexivity|]. intros y _.
  apply np_bind; [apply IH; intros; apply H; right; assumption|]. intros ys _. reflexivity.
Qed.

Lemma np_foldM {E A S} (f : S -> A -> result E S) l s : (forall s x, In x l -> np (f s x)) -> np (foldM f l s).
Proof.
  revert s; induction l as [|x l IH]; cbn; intros s H; [reflexivity|].
  apply np_bind; [apply H; left; reflexivity|]. intros s' _. apply IH. intros; apply H; right; assumption.
Qed.

(* simple case analysis: results built from Ok / Err / binds of earlier results *)
Ltac np_step :=
  match goal with
  | |- np (Ok _) => apply np_ok
  | |- np (Err _) => apply np_err
  | |- np (bind _ _) => apply np_bind; [|intros ? ?]
  | |- np (match ?x with _ => _ end) => destruct x
  | |- np (if ?b then _ else _) => destruct b
  | |- np (let '(_, _) := ?p in _) => destruct p
  end.
Ltac np_auto := repeat np_step.

Lemma np_trait_from_path c p : np (trait_from_path c p).
Proof. unfold trait_from_path. np_auto. Qed.

Lemma np_parse_crate_value e : np (parse_crate_value e).
Proof. unfold parse_crate_value. np_auto. Qed.

Lemma np_parse_zeroize_options t ms : forall cr, np (parse_zeroize_options t ms cr).
Proof.
  induction ms as [|m ms IH]; intros cr; cbn; [reflexivity|].
  destruct m as [p|p e|p ts]; np_auto; try apply np_parse_crate_value; apply IH.
Qed.

Lemma np_non_empty_metas2 a : np (non_empty_metas2 a).
Proof. unfold non_empty_metas2. np_auto. Qed.

Lemma np_parse_derive_trait t ms : np (parse_derive_trait t ms).
Proof. unfold parse_derive_trait. destruct t; try reflexivity; apply np_parse_zeroize_options. Qed.

Lemma np_from_stream c u m : np (from_stream c u m).
Proof.
  unfold from_stream. destruct m; np_auto; try apply np_trait_from_path; try apply np_non_empty_metas2; try apply np_parse_derive_trait.
Qed.

Lemma np_parse_generic g : np (parse_generic g).
Proof. unfold parse_generic. np_auto. Qed.

Lemma np_from_attr c u elems semi : (elems = [] -> semi <> None) -> np (from_attr c u elems semi).
Proof.
  intros H. unfold from_attr. destruct elems as [|e es].
  - destruct semi; [reflexivity | exfalso; apply H; reflexivity].
  - apply np_bind; [apply np_mapM; intros; apply np_from_stream|]. intros ts _.
    apply np_bind; [destruct semi; [apply np_mapM; intros; apply np_parse_generic | reflexivity]|]. intros gs _. reflexivity.
Qed.

Lemma np_skip_group_from_path c p : np (skip_group_from_path c p).
Proof. unfold skip_group_from_path. np_auto. Qed.

Lemma np_skip_add_groups c dws parent ms : forall gs, np (skip_add_groups c dws parent ms gs).
Proof.
  induction ms as [|m ms IH]; intros gs; cbn; [reflexivity|].
  destruct m as [p|p e|p ts]; try reflexivity.
  apply np_bind; [apply np_skip_group_from_path|]. intros g _. np_auto. apply IH.
Qed.

Lemma np_skip_add_attribute c dws parent m self name :
  meta1_is m name = true -> np (skip_add_attribute c dws parent m self).
Proof.
  intros Hn. unfold skip_add_attribute. destruct m as [p|p e|p args|ts]; try reflexivity.
  - destruct (skip_is_none self); [np_auto|].
    unfold meta1_is in Hn. cbn in Hn. unfold is_ident in Hn. unfold get_ident.
    destruct (p_lead p); [discriminate|]. destruct (p_segs p) as [|x [|y r]]; try discriminate. reflexivity.
  - apply np_bind; [apply np_non_empty_metas2|]. intros ms _.
    destruct self; np_auto; apply np_skip_add_groups.
Qed.

Lemma np_incomparable_scan ts : forall b, np (incomparable_scan ts b).
Proof. induction ts as [|t ts IH]; intros b; cbn; [reflexivity|]. destruct (dt_trait t); try reflexivity; apply IH. Qed.

Lemma np_incomparable_add dws m s : np (incomparable_add dws m s).
Proof. unfold incomparable_add. destruct m; try reflexivity. np_auto. apply np_incomparable_scan. Qed.

Lemma np_default_add dws m s : np (default_add dws m s).
Proof. unfold default_add. np_auto. Qed.

Lemma np_fqs_scan ms : forall s, np (fqs_scan ms s).
Proof. induction ms as [|m ms IH]; intros s; cbn; [reflexivity|]. destruct m; try reflexivity. np_auto. apply IH. Qed.

Lemma np_fqs_add dws m s : np (fqs_add dws m s).
Proof. unfold fqs_add. np_auto; try apply np_non_empty_metas2. apply np_fqs_scan. Qed.

Lemma np_non_empty_metas1 a : np (non_empty_metas1 a).
Proof. unfold non_empty_metas1. np_auto. Qed.

Lemma np_field_add_meta c dws parent st m : np (field_add_meta c dws parent st m).
Proof.
  unfold field_add_meta. destruct (meta1_is m "skip") eqn:E.
  - apply np_bind; [eapply np_skip_add_attribute; eauto|]. intros; reflexivity.
  - np_auto. apply np_fqs_add.
Qed.

Lemma np_field_attr_from_attrs c dws parent attrs : np (field_attr_from_attrs c dws parent attrs).
Proof.
  unfold field_attr_from_attrs. apply np_foldM. intros st a _. unfold field_add_attr. destruct a; [|reflexivity].
  apply np_bind; [apply np_non_empty_metas1|]. intros ms _. apply np_foldM. intros; apply np_field_add_meta.
Qed.

(* syn gives every field of a braced shape a name *)
Definition named_ok (named : bool) (fs : list raw_field) : Prop :=
  named = true -> Forall (fun f => rf_name f <> None) fs.

Lemma np_fields_from c dws parent named fs : named_ok named fs -> np (fields_from c dws parent named fs).
Proof.
  intros H. unfold fields_from. apply np_mapM. intros [i rf] Hin. unfold field_from.
  apply np_bind; [apply np_field_attr_from_attrs|]. intros st _.
  destruct named; [|reflexivity].
  specialize (H eq_refl). rewrite Forall_forall in H.
  assert (In rf fs) by (apply (in_indexed_from fs 0 (i, rf)); assumption).
  destruct (rf_name rf) eqn:E; [reflexivity|]. exfalso. eapply H; eauto.
Qed.

Lemma np_variant_attr_from_attrs c dws v : np (variant_attr_from_attrs c dws v).
Proof.
  unfold variant_attr_from_attrs. apply np_foldM. intros st a _. unfold variant_add_attr. destruct a; [|reflexivity].
  apply np_bind; [apply np_non_empty_metas1|]. intros ms _. apply np_foldM. intros s m _. unfold variant_add_meta.
  destruct (meta1_is m "skip_inner") eqn:E.
  { destruct (variant_fields_empty v); [reflexivity|]. apply np_bind; [eapply np_skip_add_attribute; eauto|]. intros; reflexivity. }
  destruct (meta1_is m "default"); [apply np_bind; [apply np_default_add | intros; reflexivity]|].
  destruct (meta1_is m "incomparable"); [apply np_bind; [apply np_incomparable_add | intros; reflexivity]|]. reflexivity.
Qed.

Definition variant_ok (v : raw_variant) : Prop :=
  named_ok (match rv_shape v with RNamed => true | _ => false end) (rv_fields v).

Lemma np_data_from_variant c id dws v : variant_ok v -> np (data_from_variant c id dws v).
Proof.
  intros H. unfold data_from_variant. apply np_bind; [apply np_variant_attr_from_attrs|]. intros va _.
  unfold variant_ok in H. destruct (rv_shape v); [| |reflexivity].
  - apply np_bind; [apply np_fields_from; assumption|]. intros; reflexivity.
  - apply np_bind; [apply np_fields_from; intros X; discriminate|]. intros; reflexivity.
Qed.

Lemma np_data_from_struct c dws sk inc id sh fs :
  named_ok (match sh with RNamed => true | _ => false end) fs -> np (data_from_struct c dws sk inc id sh fs).
Proof.
  intros H. unfold data_from_struct. destruct sh.
  - destruct (match fs with [] => negb inc | _ => false end); [reflexivity|]. apply np_bind; [apply np_fields_from; assumption|]. intros; reflexivity.
  - destruct (match fs with [] => negb inc | _ => false end); [reflexivity|]. apply np_bind; [apply np_fields_from; intros X; discriminate|]. intros; reflexivity.
  - destruct inc; reflexivity.
Qed.

Lemma np_data_from_union c dws sk inc id fs : named_ok true fs -> np (data_from_union c dws sk inc id fs).
Proof.
  intros H. unfold data_from_union. destruct (match fs with [] => negb inc | _ => false end); [reflexivity|].
  apply np_bind; [apply np_fields_from; assumption|]. intros; reflexivity.
Qed.

Lemma np_repr_scan_idents ids : forall h, np (repr_scan_idents ids h).
Proof. induction ids as [|i ids IH]; intros h; cbn [repr_scan_idents]; [reflexivity|]. destruct (repr_parse i); [reflexivity|]. np_auto. apply IH. Qed.

Definition reprs_ok (attrs : list item_attr) : Prop := ~ In (IARepr ReprNotList) attrs.

Lemma np_repr_scan attrs : reprs_ok attrs -> forall h, np (repr_scan attrs h).
Proof.
  unfold reprs_ok. induction attrs as [|a attrs IH]; intros H h; cbn [repr_scan]; [reflexivity|].
  assert (H' : ~ In (IARepr ReprNotList) attrs) by (intros X; apply H; right; assumption).
  destruct a as [d|[ids|ts|]|p ts]; try (apply IH; assumption); try reflexivity.
  - apply np_bind; [apply np_repr_scan_idents|]. intros; apply IH; assumption.
  - exfalso. apply H. left. reflexivity.
Qed.

Lemma np_discriminant_parse attrs rvs : reprs_ok attrs -> np (discriminant_parse attrs rvs).
Proof.
  intros H. unfold discriminant_parse. destruct (Nat.eqb (length rvs) 1); [reflexivity|].
  apply np_bind; [apply np_repr_scan; assumption|]. intros h _. np_auto.
Qed.

Lemma skips_are_skip_inner c e u attrs st :
  foldM (item_add_attr c e u) attrs (mkIacc [] [] []) = Ok st ->
  Forall (fun m => meta1_is m "skip_inner" = true) (ia_skips st).
Proof.
  intros H. eapply (foldM_inv (fun st => Forall (fun m => meta1_is m "skip_inner" = true) (ia_skips st))); [| |exact H].
  - constructor.
  - intros s a s' Hs Ha. unfold item_add_attr in Ha. destruct a as [[ts|elems semi]|r|p ts]; try (inversion Ha; subst; assumption); try discriminate.
    assert (Push : forall s'', (do d <- from_attr c u elems semi; Ok (mkIacc (ia_dws s ++ [d]) (ia_skips s) (ia_incs s))) = Ok s'' ->
                   Forall (fun m => meta1_is m "skip_inner" = true) (ia_skips s'')).
    { intros s'' Hp. inv_bind Hp. inversion Hp; subst; cbn. assumption. }
    destruct (comma_view elems semi) as [[|m [|m' ms]]|]; try (apply Push; assumption); try discriminate.
    destruct (meta1_is m "skip_inner") eqn:E.
    { destruct e; [discriminate|]. inversion Ha; subst; cbn. apply Forall_app. split; [assumption|]. constructor; [assumption | constructor]. }
    destruct (meta1_is m "incomparable"); [inversion Ha; subst; assumption|].
    destruct (meta1_is m "crate"); [inversion Ha; subst; assumption|].
    apply Push; assumption.
Qed.

Lemma np_item_attr_from_attrs c e u attrs : np (item_attr_from_attrs c e u attrs).
Proof.
  unfold item_attr_from_attrs. apply np_bind.
  - apply np_foldM. intros st a _. unfold item_add_attr. destruct a as [[ts|elems semi]|r|p ts]; try reflexivity.
    assert (Push : (elems = [] -> semi <> None) ->
                   np (do d <- from_attr c u elems semi; Ok (mkIacc (ia_dws st ++ [d]) (ia_skips st) (ia_incs st)))).
    { intros Hc. apply np_bind; [apply np_from_attr; assumption | intros; reflexivity]. }
    unfold comma_view. destruct semi as [gs|].
    + apply Push. intros _. discriminate.
    + destruct (existsb is_bad elems) eqn:Eb.
      * apply Push. intros ->. discriminate.
      * destruct elems as [|m [|m' ms]]; [reflexivity| |apply Push; intros X; discriminate].
        destruct (meta1_is m "skip_inner"); [destruct e; reflexivity|].
        destruct (meta1_is m "incomparable"); [reflexivity|].
        destruct (meta1_is m "crate"); [reflexivity|].
        apply Push. intros X; discriminate.
  - intros st Hst. apply skips_are_skip_inner in Hst. destruct (ia_dws st); [reflexivity|]. np_auto.
    + apply np_foldM. intros s m Hm. rewrite Forall_forall in Hst. eapply np_skip_add_attribute. apply Hst. exact Hm.
    + apply np_foldM. intros; apply np_incomparable_add.
Qed.

Lemma np_check_variants inc vs : forall fd fi, np (check_variants inc vs fd fi).
Proof. induction vs as [|v vs IH]; intros fd fi; cbn; [reflexivity|]. np_auto. apply IH. Qed.

(* what syn guarantees about an item that parsed, and what rustc guarantees about #[repr] *)
Definition raw_ok (r : raw_item) : Prop :=
  and (reprs_ok (ri_attrs r))
  (match ri_kind r with
   | KStruct sh fs => named_ok (match sh with RNamed => true | _ => false end) fs
   | KEnum vs => Forall variant_ok vs
   | KUnion fs => named_ok true fs
   end).

Theorem np_from_input c r : raw_ok r -> np (from_input c r).
Proof.
  intros [Hr Hk]. unfold from_input. apply np_bind; [apply np_item_attr_from_attrs|]. intros ia _.
  apply np_bind.
  - destruct (ri_kind r) as [sh fs|rvs|fs].
    + apply np_bind; [apply np_data_from_struct; assumption | intros; reflexivity].
    + apply np_bind; [destruct (c_nightly c); [reflexivity | apply np_discriminant_parse; assumption]|]. intros disc _.
      apply np_bind; [apply np_mapM; intros v Hv; apply np_data_from_variant; rewrite Forall_forall in Hk; auto|]. intros vs _.
      apply np_bind; [apply np_check_variants|]. intros [fd fi] _. np_auto.
    + apply np_bind; [apply np_data_from_union; assumption | intros; reflexivity].
  - intros [it fi] _. np_auto.
Qed.

(* code generation: neither `unreachable!("unexpected trait for union")` nor the `expect`/`unreachable!` of
   build_ord_signature can be hit for an accepted item *)
Theorem gen_body_no_panic c r i w dt :
  from_input c r = Ok i -> In w (in_dws i) -> In dt (dw_traits w) ->
  forall s, gen_body c (in_item i) w dt <> BPanic s.
Proof.
  intros H Hw Hdt s. unfold gen_body.
  destruct (item_is_union (in_item i)) eqn:U.
  - pose proof (union_traits c r i w dt H U Hw Hdt) as S.
    destruct (dt_trait dt); try discriminate.
  - destruct (dt_trait dt); try discriminate.
    + unfold gen_ord. destruct (gen_ord_signature_some c r i w Ord false H) as [o ->]. discriminate.
    + unfold gen_partial_ord. destruct (shortcut w Ord); [discriminate|].
      destruct (gen_ord_signature_some c r i w PartialOrd true H) as [o ->]. discriminate.
Qed.

Lemma impl_has_panic_false c r i : from_input c r = Ok i -> impl_has_panic c i = false.
Proof.
  intros H. unfold impl_has_panic. destruct (existsb _ (in_dws i)) eqn:E; [|reflexivity].
  apply existsb_exists in E. destruct E as [w [Hw E]]. apply existsb_exists in E. destruct E as [dt [Hdt E]].
  destruct (gen_body c (in_item i) w dt) eqn:G; try discriminate.
  exfalso. eapply gen_body_no_panic; eauto.
Qed.

Theorem np_expand c r : raw_ok r -> np (expand c r).
Proof.
  intros H. unfold expand. apply np_bind; [apply np_from_input; assumption|]. intros i Hi.
  rewrite (impl_has_panic_false c r i Hi). reflexivity.
Qed.
