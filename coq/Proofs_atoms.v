(* Proofs_atoms.v - (1) the erasure of the classified templates of Atoms.v IS the rendering of
   Render.v, function by function up to whole impls; (2) census lemmas over the atoms. *)
From DW Require Export Atoms.
From Coq Require Import Setoid Morphisms.
Open Scope nat_scope.

(* rewriting under the binders of flat_map / map (used by rewrite_strat below) *)
Global Instance flat_map_pointwise {A B} : Proper (pointwise_relation A eq ==> eq ==> eq) (@flat_map A B).
Proof. intros f g H l l' <-. apply flat_map_ext. exact H. Qed.
Global Instance map_pointwise {A B} : Proper (pointwise_relation A eq ==> eq ==> eq) (@map A B).
Proof. intros f g H l l' <-. apply map_ext. exact H. Qed.

(* ---------- erase: basic algebra ---------- *)
Lemma erase_nil : erase [] = [].
Proof. reflexivity. Qed.
Lemma erase_cons a l : erase (a :: l) = erase_atom a ++ erase l.
Proof. reflexivity. Qed.
Lemma erase_app a b : erase (a ++ b) = erase a ++ erase b.
Proof. apply flat_map_app. Qed.
Lemma erase_K l : erase (K l) = l.
Proof. induction l as [|x l IH]; [reflexivity|]. cbn. f_equal. exact IH. Qed.
Lemma erase_U l : erase (U l) = l.
Proof. induction l as [|x l IH]; [reflexivity|]. cbn. f_equal. exact IH. Qed.
Lemma erase_flat_map {A} (f : A -> list atom) l : erase (flat_map f l) = flat_map (fun x => erase (f x)) l.
Proof. induction l as [|x l IH]; [reflexivity|]. cbn [flat_map]. rewrite erase_app, IH. reflexivity. Qed.
Lemma erase_intercalate sep ls : erase (intercalate sep ls) = intercalate (erase sep) (map erase ls).
Proof.
  induction ls as [|x ls IH]; [reflexivity|]. destruct ls as [|y ls]; [reflexivity|].
  change (intercalate sep (x :: y :: ls)) with (x ++ sep ++ intercalate sep (y :: ls)).
  change (map erase (x :: y :: ls)) with (erase x :: map erase (y :: ls)).
  change (intercalate (erase sep) (erase x :: map erase (y :: ls))) with (erase x ++ erase sep ++ intercalate (erase sep) (map erase (y :: ls))).
  rewrite !erase_app, IH. reflexivity.
Qed.
Lemma erase_intersperse_U s l : erase (intersperse (Kw s) (U l)) = intersperse s l.
Proof.
  induction l as [|x l IH]; [reflexivity|]. destruct l as [|y l]; [reflexivity|].
  change (U (x :: y :: l)) with (User x :: U (y :: l)).
  change (intersperse (Kw s) (User x :: U (y :: l))) with (User x :: Kw s :: intersperse (Kw s) (U (y :: l))).
  change (intersperse s (x :: y :: l)) with (x :: s :: intersperse s (y :: l)).
  rewrite !erase_cons, IH. reflexivity.
Qed.
Lemma erase_if (b : bool) x y : erase (if b then x else y) = if b then erase x else erase y.
Proof. destruct b; reflexivity. Qed.

Lemma erase_APath p : erase [APath p] = path_toks p.
Proof. cbn [flat_map erase_atom]. apply app_nil_r. Qed.
Lemma erase_acore segs : erase (acore segs) = core_path segs.
Proof. unfold acore, core_path. apply erase_APath. Qed.
Lemma erase_astd t : erase (astd t) = std_path t.
Proof. unfold astd, std_path. apply erase_APath. Qed.
Lemma erase_afmt segs : erase (afmt segs) = fmt_path segs.
Proof. unfold afmt, fmt_path. apply erase_acore. Qed.
Lemma erase_twhat w : erase_atom (twhat w) = [w].
Proof. unfold twhat. destruct (String.eqb w "self"); reflexivity. Qed.
Lemma erase_tmember m : erase_atom (tmember m) = [member_tok m].
Proof. destruct m; reflexivity. Qed.

Global Hint Rewrite erase_nil erase_app erase_K erase_U @erase_flat_map erase_intercalate erase_intersperse_U erase_if
  erase_acore erase_astd erase_afmt erase_twhat erase_tmember map_map map_app : er.

(* normalise an [erase] of a template: push it through ++ and ::, compute the literal atoms *)
Ltac er_step :=
  repeat first [ progress (cbn [flat_map erase_atom app])
               | progress (rewrite_strat (topdown (hints er)))
               | progress (rewrite ?app_nil_r, <- ?app_assoc) ].

Ltac er_ext :=
  er_step;
  try reflexivity;
  lazymatch goal with
  | |- flat_map _ _ = flat_map _ _ => apply flat_map_ext; intros; er_ext
  | |- map _ _ = map _ _ => apply map_ext; intros; er_ext
  | |- intercalate _ _ = intercalate _ _ => f_equal; er_ext
  | |- (if ?b then _ else _) = (if ?b then _ else _) => destruct b; er_ext
  | |- (if ?b then _ else _) ++ _ = (if ?b then _ else _) ++ _ => destruct b; er_ext
  | |- _ ++ _ = _ ++ _ => f_equal; er_ext
  | |- _ :: _ = _ :: _ => f_equal; er_ext
  | |- ?f _ = ?f _ => f_equal; er_ext
  | |- _ => idtac
  end.

(* ---------- generics / where ---------- *)
Lemma erase_tgparam_impl p : erase (tgparam_impl p) = gparam_impl p.
Proof. destruct p as [n b|n b d|n ty d]; cbn [tgparam_impl gparam_impl]; try destruct b; er_ext. Qed.
Lemma erase_tgparam_ty p : erase (tgparam_ty p) = gparam_ty p.
Proof. destruct p; reflexivity. Qed.
Global Hint Rewrite erase_tgparam_impl erase_tgparam_ty : er.

Lemma erase_tangle g f f' : (forall p, erase (f p) = f' p) -> erase (tangle g f) = angle g f'.
Proof.
  intros H. unfold tangle, angle. destruct (g_params g); [reflexivity|]. er_step.
  rewrite (map_ext (fun x => erase (f x)) f' H). destruct (g_trailing g); reflexivity.
Qed.
Lemma erase_timpl_generics g : erase (timpl_generics g) = impl_generics g.
Proof. apply erase_tangle. apply erase_tgparam_impl. Qed.
Lemma erase_tty_generics g : erase (tty_generics g) = ty_generics g.
Proof. apply erase_tangle. apply erase_tgparam_ty. Qed.
Global Hint Rewrite erase_timpl_generics erase_tty_generics : er.

Lemma erase_tprint_preds ps tr : erase (tprint_preds ps tr) = print_preds (map erase ps) tr.
Proof. unfold tprint_preds, print_preds. destruct ps; [reflexivity|]. cbn [map]. er_ext. Qed.

Lemma map_erase_U ps : map erase (map U ps) = ps.
Proof. rewrite map_map. rewrite <- (map_id ps) at 2. apply map_ext. apply erase_U. Qed.

Lemma erase_titem_where g : erase (titem_where g) = item_where g.
Proof. unfold titem_where, item_where. destruct (g_where g) as [[ps tr]|]; [|reflexivity]. rewrite erase_tprint_preds, map_erase_U. reflexivity. Qed.
Global Hint Rewrite erase_titem_where : er.

Lemma erase_twhere_bounds it dt : erase (twhere_bounds it dt) = where_bounds it dt.
Proof. unfold twhere_bounds, where_bounds. er_ext. Qed.
Global Hint Rewrite erase_twhere_bounds : er.

Lemma erase_tgeneric_pred it dt g : erase (tgeneric_pred it dt g) = generic_pred it dt g.
Proof. destruct g; cbn [tgeneric_pred generic_pred]; er_ext. Qed.

Lemma erase_twhere_clause g it w dt : erase (twhere_clause g it w dt) = where_clause g it w dt.
Proof.
  unfold twhere_clause, where_clause, twhere_preds, where_preds.
  destruct (g_where g) as [[ps tr]|]; destruct (dw_generics w) as [|g0 gs]; rewrite erase_tprint_preds; cbn [map];
    rewrite ?map_app, ?map_erase_U; try reflexivity.
  - cbn [map]. rewrite erase_tgeneric_pred, map_map. do 3 f_equal. apply map_ext. apply erase_tgeneric_pred.
  - cbn [map app]. rewrite erase_tgeneric_pred, map_map. do 2 f_equal. apply map_ext. apply erase_tgeneric_pred.
Qed.
Global Hint Rewrite erase_twhere_clause : er.

(* ---------- patterns ---------- *)
Lemma erase_tdpath d : erase (tdpath d) = dpath d.
Proof. unfold tdpath, dpath. apply erase_intersperse_U. Qed.
Global Hint Rewrite erase_tdpath : er.

Lemma erase_tbinding m n : erase (tbinding m n) = binding m n.
Proof. unfold tbinding, binding. destruct m; reflexivity. Qed.
Global Hint Rewrite erase_tbinding : er.

Lemma erase_tpattern_gen m f d : erase (tpattern_gen m f d) = pattern_gen m f d.
Proof. unfold tpattern_gen, pattern_gen. destruct (d_shape d); er_ext. Qed.
Lemma erase_tself_pattern d : erase (tself_pattern d) = self_pattern d.
Proof. apply erase_tpattern_gen. Qed.
Lemma erase_tother_pattern d : erase (tother_pattern d) = other_pattern d.
Proof. apply erase_tpattern_gen. Qed.
Lemma erase_tself_pattern_mut d : erase (tself_pattern_mut d) = self_pattern_mut d.
Proof. apply erase_tpattern_gen. Qed.
Global Hint Rewrite erase_tself_pattern erase_tother_pattern erase_tself_pattern_mut : er.

Lemma erase_tinc_pat d : erase (tinc_pat d) = inc_pat d.
Proof. unfold tinc_pat, inc_pat. destruct (d_shape d); er_ext. Qed.
Global Hint Rewrite erase_tinc_pat : er.

Lemma erase_tinc_pattern vs inc : option_map erase (tinc_pattern vs inc) = inc_pattern vs inc.
Proof.
  unfold tinc_pattern, inc_pattern.
  assert (E : map (fun p : data * bool => inc_pat (fst p)) (filter snd (with_all vs inc)) =
              map erase (map (fun p : data * bool => tinc_pat (fst p)) (filter snd (with_all vs inc)))).
  { rewrite map_map. apply map_ext. intros. symmetry. apply erase_tinc_pat. }
  rewrite E. destruct (map (fun p : data * bool => tinc_pat (fst p)) (filter snd (with_all vs inc))) as [|x l]; [reflexivity|].
  cbn [option_map map]. rewrite erase_intercalate. reflexivity.
Qed.

Lemma erase_tmatches_ w p : erase (tmatches_ w p) = matches_ w (erase p).
Proof. unfold tmatches_, matches_. er_ext. Qed.
Lemma erase_tdisc_of w : erase (tdisc_of w) = disc_of w.
Proof. unfold tdisc_of, disc_of. er_ext. Qed.
Global Hint Rewrite erase_tmatches_ erase_tdisc_of : er.

Lemma erase_trender_rest r e : erase (trender_rest r e) = render_rest r (erase e).
Proof. destruct r; cbn [trender_rest render_rest]; er_ext. Qed.
Global Hint Rewrite erase_trender_rest : er.

(* ---------- Clone ---------- *)
Lemma erase_tclone_call d i : erase (tclone_call d i) = std_path Clone ++ ["::"; "clone"; "("; self_id d i; ")"].
Proof. unfold tclone_call. er_ext. Qed.
Global Hint Rewrite erase_tclone_call : er.

Lemma erase_trender_clone_arm p : erase (trender_clone_arm p) = render_clone_arm p.
Proof. destruct p as [d a]. unfold trender_clone_arm, render_clone_arm. destruct (d_shape d); er_ext. Qed.
Global Hint Rewrite erase_trender_clone_arm : er.

Lemma erase_tclone_sig x : erase (tclone_sig x) = clone_sig (erase x).
Proof. unfold tclone_sig, clone_sig. er_ext. Qed.
Lemma erase_tassert_struct n b : erase (tassert_struct n b) = assert_struct n (erase b).
Proof. unfold tassert_struct, assert_struct. er_ext. Qed.
Global Hint Rewrite erase_tclone_sig erase_tassert_struct : er.

Lemma erase_trender_clone vs b : erase (trender_clone vs b) = render_clone vs b.
Proof.
  destruct b; cbn [trender_clone render_clone]; er_ext.
Qed.
Global Hint Rewrite erase_trender_clone : er.

(* ---------- Debug ---------- *)
Lemma erase_tbuilder_args : erase tbuilder_args = ["("; "&"; "mut"; "__builder"].
Proof. reflexivity. Qed.
Global Hint Rewrite erase_tbuilder_args : er.

Lemma erase_trender_debug_arm p : erase (trender_debug_arm p) = render_debug_arm p.
Proof. destruct p as [d a]. unfold trender_debug_arm, render_debug_arm. destruct (d_shape d); er_ext. Qed.
Global Hint Rewrite erase_trender_debug_arm : er.

Lemma erase_trender_debug vs arms : erase (trender_debug vs arms) = render_debug vs arms.
Proof. unfold trender_debug, render_debug. er_ext. Qed.
Global Hint Rewrite erase_trender_debug : er.

(* ---------- Default ---------- *)
Lemma erase_tdefault_call : erase tdefault_call = default_call.
Proof. unfold tdefault_call, default_call. er_ext. Qed.
Global Hint Rewrite erase_tdefault_call : er.

Lemma erase_trender_default_ctor p : erase (trender_default_ctor p) = render_default_ctor p.
Proof. destruct p as [d a]. unfold trender_default_ctor, render_default_ctor. destruct (d_shape d); er_ext. Qed.
Global Hint Rewrite erase_trender_default_ctor : er.

Lemma erase_trender_default vs c : erase (trender_default vs c) = render_default vs c.
Proof. unfold trender_default, render_default. er_ext. Qed.
Global Hint Rewrite erase_trender_default : er.

(* ---------- Eq ---------- *)
Lemma erase_trender_eq_asserts vs a : erase (trender_eq_asserts vs a) = render_eq_asserts vs a.
Proof. unfold trender_eq_asserts, render_eq_asserts. er_ext. Qed.
Global Hint Rewrite erase_trender_eq_asserts : er.

(* ---------- Hash ---------- *)
Lemma erase_thash_call a : erase (thash_call a) = hash_call (erase a).
Proof. unfold thash_call, hash_call. er_ext. Qed.
Global Hint Rewrite erase_thash_call : er.

Lemma erase_trender_hash_arm p : erase (trender_hash_arm p) = render_hash_arm p.
Proof. destruct p as [d a]. unfold trender_hash_arm, render_hash_arm. er_ext. Qed.
Global Hint Rewrite erase_trender_hash_arm : er.

Lemma erase_trender_hash vs arms : erase (trender_hash vs arms) = render_hash vs arms.
Proof. unfold trender_hash, render_hash. er_ext. Qed.
Global Hint Rewrite erase_trender_hash : er.

(* ---------- PartialEq ---------- *)
Lemma erase_trender_eq_arm p : erase (trender_eq_arm p) = render_eq_arm p.
Proof. destruct p as [d a]. unfold trender_eq_arm, render_eq_arm. er_ext. Qed.
Global Hint Rewrite erase_trender_eq_arm : er.

Lemma erase_tdisc_test : erase tdisc_test = disc_test.
Proof. unfold tdisc_test, disc_test. er_ext. Qed.
Lemma erase_tself_other : erase tself_other = ["match"; "("; "self"; ","; "__other"; ")"; "{"].
Proof. reflexivity. Qed.
Global Hint Rewrite erase_tdisc_test erase_tself_other : er.

Lemma erase_trender_partial_eq vs b : erase (trender_partial_eq vs b) = render_partial_eq vs b.
Proof.
  unfold trender_partial_eq, render_partial_eq. destruct b as [| |arms inc r|inc|arms].
  - er_ext.
  - er_ext.
  - rewrite <- (erase_tinc_pattern vs inc). destruct (tinc_pattern vs inc); cbn [option_map]; er_ext.
  - rewrite <- (erase_tinc_pattern vs inc). destruct (tinc_pattern vs inc); cbn [option_map]; er_ext.
  - er_ext.
Qed.
Global Hint Rewrite erase_trender_partial_eq : er.

(* ---------- PartialOrd / Ord ---------- *)
Lemma erase_tordering_equal : erase tordering_equal = ordering_equal.
Proof. apply erase_acore. Qed.
Lemma erase_toption_none : erase toption_none = option_none.
Proof. apply erase_acore. Qed.
Lemma erase_toption_some x : erase (toption_some x) = option_some (erase x).
Proof. unfold toption_some, option_some. er_ext. Qed.
Global Hint Rewrite erase_tordering_equal erase_toption_none erase_toption_some : er.
Lemma erase_tequal_of t : erase (tequal_of t) = equal_of t.
Proof. destruct t; cbn [tequal_of equal_of]; er_ext. Qed.
Global Hint Rewrite erase_tequal_of : er.

Lemma erase_trender_ord_fields t d a : erase (trender_ord_fields t d a) = render_ord_fields t d a.
Proof. induction a as [|i a IH]; cbn [trender_ord_fields render_ord_fields]; [apply erase_tequal_of|]. er_step. rewrite IH. reflexivity. Qed.
Global Hint Rewrite erase_trender_ord_fields : er.

Lemma erase_trender_ord_arm t p : erase (trender_ord_arm t p) = render_ord_arm t p.
Proof. destruct p as [d a]. unfold trender_ord_arm, render_ord_arm. er_ext. Qed.
Global Hint Rewrite erase_trender_ord_arm : er.

Lemma erase_trender_ord_match t vs m : erase (trender_ord_match t vs m) = render_ord_match t vs m.
Proof. unfold trender_ord_match, render_ord_match. er_ext. Qed.
Global Hint Rewrite erase_trender_ord_match : er.

Lemma erase_trender_dexpr e : erase (trender_dexpr e) = render_dexpr e.
Proof. destruct e; cbn [trender_dexpr render_dexpr]; er_ext. Qed.
Global Hint Rewrite erase_trender_dexpr : er.

Lemma erase_trender_validate vs tb : erase (trender_validate vs tb) = render_validate vs tb.
Proof. unfold trender_validate, render_validate. er_ext. Qed.
Global Hint Rewrite erase_trender_validate : er.

Lemma erase_tcmp_call t a b tr : erase (tcmp_call t a b tr) = cmp_call t (erase a) (erase b) tr.
Proof. unfold tcmp_call, cmp_call. er_ext. Qed.
Global Hint Rewrite erase_tcmp_call : er.

Lemma erase_trender_strategy t g it vs s : erase (trender_strategy t g it vs s) = render_strategy t g it vs s.
Proof.
  destruct s as [via ty validate|ty validate table|r|]; cbn [trender_strategy render_strategy].
  - destruct via, validate; er_ext.
  - destruct validate; er_ext.
  - er_ext.
  - er_ext.
Qed.
Global Hint Rewrite erase_trender_strategy : er.

Lemma erase_tinc_guard vs inc th : erase (tinc_guard vs inc th) = inc_guard vs inc (erase th).
Proof. unfold tinc_guard, inc_guard. rewrite <- (erase_tinc_pattern vs inc). destruct (tinc_pattern vs inc); cbn [option_map]; er_ext. Qed.
Global Hint Rewrite erase_tinc_guard : er.

Lemma erase_trender_ord_body c t g it b : erase (trender_ord_body c t g it b) = render_ord_body c t g it b.
Proof.
  destruct b as [| | |arms|inc eq|inc be s]; cbn [trender_ord_body render_ord_body].
  - er_ext.
  - er_ext.
  - er_ext.
  - er_ext.
  - destruct eq; er_ext.
  - destruct be; [destruct (c_nightly c)|]; er_ext.
Qed.
Global Hint Rewrite erase_trender_ord_body : er.

Lemma erase_tcmp_sig n : erase (tcmp_sig n) = ["#"; "["; "inline"; "]"; "fn"; n; "("; "&"; "self"; ","; "__other"; ":"; "&"; "Self"; ")"; "->"].
Proof. reflexivity. Qed.
Global Hint Rewrite erase_tcmp_sig : er.

Lemma erase_trender_partial_ord c g it b : erase (trender_partial_ord c g it b) = render_partial_ord c g it b.
Proof. unfold trender_partial_ord, render_partial_ord. er_ext. Qed.
Global Hint Rewrite erase_trender_partial_ord : er.
Lemma erase_trender_ord c g it b : erase (trender_ord c g it b) = render_ord c g it b.
Proof. unfold trender_ord, render_ord. er_ext. Qed.
Global Hint Rewrite erase_trender_ord : er.

(* ---------- Zeroize / Drop ---------- *)
Lemma erase_twild_arm d : erase (twild_arm d) = wild_arm d.
Proof. unfold twild_arm, wild_arm. er_ext. Qed.
Global Hint Rewrite erase_twild_arm : er.

Lemma erase_trender_zeroize_arm dt p : erase (trender_zeroize_arm dt p) = render_zeroize_arm dt p.
Proof. destruct p as [d a]. destruct a; cbn [trender_zeroize_arm render_zeroize_arm]; er_ext. Qed.
Global Hint Rewrite erase_trender_zeroize_arm : er.

Lemma erase_trender_zeroize dt vs b : erase (trender_zeroize dt vs b) = render_zeroize dt vs b.
Proof. unfold trender_zeroize, render_zeroize; destruct b; er_ext. Qed.
Global Hint Rewrite erase_trender_zeroize : er.

Lemma erase_trender_drop_arm p : erase (trender_drop_arm p) = render_drop_arm p.
Proof. destruct p as [d a]. destruct a; cbn [trender_drop_arm render_drop_arm]; er_ext. Qed.
Global Hint Rewrite erase_trender_drop_arm : er.

Lemma erase_trender_drop dt vs b : erase (trender_drop dt vs b) = render_drop dt vs b.
Proof. unfold trender_drop, render_drop; destruct b; er_ext. Qed.
Global Hint Rewrite erase_trender_drop : er.

(* ---------- whole impls ---------- *)
Lemma erase_trender_body c g it dt b : erase (trender_body c g it dt b) = render_body c g it dt b.
Proof.
  destruct b; cbn [trender_body render_body];
    auto using erase_trender_clone, erase_trender_debug, erase_trender_default, erase_trender_eq_asserts, erase_trender_hash,
               erase_trender_partial_eq, erase_trender_partial_ord, erase_trender_ord, erase_trender_zeroize, erase_trender_drop.
Qed.
Global Hint Rewrite erase_trender_body : er.

Lemma erase_timpl_header g it w dt p : erase (timpl_header g it w dt p) = impl_header g it w dt p.
Proof. unfold timpl_header, impl_header. er_ext. Qed.
Global Hint Rewrite erase_timpl_header : er.

(* the classified atoms of an impl erase to exactly the tokens of the impl that Render.v produces
   (and that tie A compares with the implementation) *)
Theorem erase_timpl c i w dt : erase (timpl c i w dt) = impl_toks (render_impl c i w dt).
Proof.
  unfold timpl, impl_toks, render_impl. cbn [io_header io_body io_extra].
  rewrite !erase_app, erase_timpl_header, erase_trender_body. cbn [erase flat_map erase_atom app].
  destruct (trait_beq (dt_trait dt) ZeroizeOnDrop && c_zod c); [|reflexivity].
  rewrite erase_app, erase_timpl_header. reflexivity.
Qed.

(* ====================================================================================== *)
(* Census: every atom of every template satisfies any predicate that holds of
     - the fixed keyword / punctuation vocabulary KW (which does NOT contain "unsafe"),
     - the two built-in attribute names, absolute paths (leading `::`), paths built on the trait's
       crate root (`::core`, `::zeroize`, or the `crate = ..` option), names resolved relative to such
       a path, method names being defined, user tokens, `__`-prefixed binders, literals,
     - the bare primitive names PRIMS and the method-call names METHODS,
   provided the body contains none of the two unsafe constructs. *)
Definition KW : list string :=
  ["#"; "["; "]"; "("; ")"; "{"; "}"; "<"; ">"; ","; ";"; ":"; "::"; "'"; "_"; "="; "=="; "=>"; "->"; "&"; "&&"; "||"; "|"; "*"; "+"; "?"; "!"; "."; "..";
   "impl"; "for"; "where"; "const"; "fn"; "let"; "mut"; "ref"; "match"; "if"; "else"; "return"; "as"; "use"; "struct";
   "self"; "Self"; "true"; "false"].
Definition mem (s : string) (l : list string) : bool := existsb (String.eqb s) l.
Definition PRIMS : list string := ["bool"; "isize"] ++ map repr_name all_reprs.
Definition METHODS : list string := ["from"; "cast"; "zeroize"; "zeroize_or_on_drop"].
Definition ATTRS : list string := ["inline"; "automatically_derived"].

(* the two unsafe constructs of the expansions *)
Definition rest_unsafe (r : rest) : bool := match r with RUnreachableUnchecked => true | _ => false end.
Definition match_unsafe (m : option ord_match) : bool := match m with Some m => rest_unsafe (om_rest m) | None => false end.
Definition strategy_unsafe (s : strategy) : bool := match s with SPtrRead _ => true | _ => false end.
Definition ord_unsafe (o : ord_body) : bool :=
  match o with
  | OSingle _ eq => match_unsafe eq
  | OMulti _ be s => match_unsafe be || strategy_unsafe s
  | _ => false
  end.
Definition body_unsafe (b : body) : bool :=
  match b with
  | BPartialEq (EqDisc _ _ r) => rest_unsafe r
  | BPartialOrd o | BOrd o => ord_unsafe o
  | _ => false
  end.

Section Census.
  Variable P : atom -> Prop.
  Variable dt0 : derive_trait.     (* the trait the impl is generated for: its crate root is the only non-absolute root *)
  Hypothesis PKw : forall s, mem s KW = true -> P (Kw s).
  Hypothesis PAttr : forall s, mem s ATTRS = true -> P (Attr s).
  Hypothesis PRoot : forall p, p_lead p = true -> P (APath p).
  Hypothesis PCrate : forall segs, P (APath (path_from_root_and_strs (trait_crate dt0) segs)).
  Hypothesis PAssoc : forall s, P (Assoc s).
  Hypothesis PDef : forall s, P (Def s).
  Hypothesis PUser : forall s, P (User s).
  Hypothesis PLit : forall s, P (Lit s).
  Hypothesis PBind : forall s, String.prefix "__" s = true -> P (Bind s).
  Hypothesis PPrim : forall s, mem s PRIMS = true -> P (Prim s).
  Hypothesis PMethod : forall s, mem s METHODS = true -> P (Method s).

  Lemma P_repr_name r : P (Prim (repr_name r)).
  Proof. apply PPrim. destruct r; reflexivity. Qed.
  Hint Resolve P_repr_name : core.
  Lemma P_repr_tok ty : P (Prim (repr_tok ty)).
  Proof. destruct ty as [r|]; [apply P_repr_name | apply PPrim; reflexivity]. Qed.
  Hint Resolve P_repr_tok : core.
  Lemma P_twhat_self : P (twhat "self").
  Proof. apply PKw. reflexivity. Qed.
  Hint Resolve P_twhat_self : core.
  Lemma P_twhat_other : P (twhat "__other").
  Proof. apply PBind. reflexivity. Qed.
  Hint Resolve P_twhat_other : core.
  Lemma P_tmember m : P (tmember m).
  Proof. destruct m; [apply PUser | apply PLit]. Qed.
  Hint Resolve P_tmember : core.
  Lemma P_trait_path : P (APath (trait_path dt0)).
  Proof. unfold trait_path. apply PCrate. Qed.
  Hint Resolve P_trait_path : core.

  Lemma F_K l : forallb (fun s => mem s KW) l = true -> Forall P (K l).
  Proof. induction l as [|x l IH]; cbn; intros H; [constructor|]. apply andb_prop in H. destruct H. constructor; [apply PKw; assumption | apply IH; assumption]. Qed.
  Hint Resolve F_K : core.
  Lemma F_U l : Forall P (U l).
  Proof. induction l; constructor; [apply PUser | assumption]. Qed.
  Hint Resolve F_U : core.
  Lemma F_flat_map {A} (f : A -> list atom) l : (forall x, Forall P (f x)) -> Forall P (flat_map f l).
  Proof. intros H. induction l; cbn; [constructor|]. apply Forall_app. split; [apply H | assumption]. Qed.
  Hint Resolve F_flat_map : core.
  Lemma F_intercalate sep ls : Forall P sep -> Forall (Forall P) ls -> Forall P (intercalate sep ls).
  Proof.
    intros Hs H. induction H as [|x ls Hx Hl IH]; [constructor|]. destruct ls as [|y ls]; [exact Hx|].
    change (intercalate sep (x :: y :: ls)) with (x ++ sep ++ intercalate sep (y :: ls)).
    apply Forall_app; split; [exact Hx|]. apply Forall_app; split; [exact Hs | exact IH].
  Qed.
  Hint Resolve F_intercalate : core.
  Lemma F_intercalate_map {A} sep (f : A -> list atom) l : Forall P sep -> (forall x, Forall P (f x)) -> Forall P (intercalate sep (map f l)).
  Proof. intros Hs H. apply F_intercalate; [exact Hs|]. apply Forall_map. apply Forall_forall. intros; apply H. Qed.
  Hint Resolve F_intercalate_map : core.
  Lemma F_intersperse_U s l : mem s KW = true -> Forall P (intersperse (Kw s) (U l)).
  Proof.
    intros H. induction l as [|x l IH]; [constructor|]. destruct l as [|y l]; [repeat constructor; apply PUser|].
    change (intersperse (Kw s) (U (x :: y :: l))) with (User x :: Kw s :: intersperse (Kw s) (U (y :: l))).
    constructor; [apply PUser|]. constructor; [apply PKw; exact H | exact IH].
  Qed.
  Hint Resolve F_intersperse_U : core.

  Hint Constructors Forall : core.
  Ltac at_ok :=
    first [ assumption | apply PUser | apply PLit | apply PAssoc | apply PDef
          | apply PKw; reflexivity | apply PAttr; reflexivity | apply PBind; reflexivity
          | apply PRoot; reflexivity | apply P_trait_path | apply PCrate
          | apply P_repr_tok | apply P_repr_name | apply PPrim; reflexivity | apply PMethod; reflexivity
          | apply P_tmember | apply P_twhat_self | apply P_twhat_other | solve [auto] ].

  Ltac fa :=
    lazymatch goal with
    | |- Forall _ [] => constructor
    | |- Forall _ (_ ++ _) => apply Forall_app; split; fa
    | |- Forall _ (_ :: _) => constructor; [at_ok | fa]
    | |- Forall _ (flat_map _ _) => apply F_flat_map; intros; fa
    | |- Forall _ (intercalate _ (map _ _)) => apply F_intercalate_map; [fa | intros; fa]
    | |- Forall _ (K _) => apply F_K; reflexivity
    | |- Forall _ (U _) => apply F_U
    | |- Forall _ (if ?b then _ else _) => destruct b; fa
    | |- Forall _ (let '(_, _) := ?p in _) => destruct p; fa
    | |- Forall _ (match ?x with _ => _ end) => destruct x; fa
    | |- _ => eauto
    end.

  (* generics / where *)
  Lemma F_tgparam_impl p : Forall P (tgparam_impl p).
  Proof. destruct p as [n b|n b d|n ty d]; cbn [tgparam_impl]; try destruct b; fa. Qed.
  Hint Resolve F_tgparam_impl : core.
  Lemma F_tgparam_ty p : Forall P (tgparam_ty p).
  Proof. destruct p; cbn [tgparam_ty]; fa. Qed.
  Hint Resolve F_tgparam_ty : core.
  Lemma F_tangle g f : (forall p, Forall P (f p)) -> Forall P (tangle g f).
  Proof. intros H. unfold tangle. destruct (g_params g); fa. Qed.
  Hint Resolve F_tangle : core.
  Lemma F_timpl_generics g : Forall P (timpl_generics g).
  Proof. apply F_tangle, F_tgparam_impl. Qed.
  Hint Resolve F_timpl_generics : core.
  Lemma F_tty_generics g : Forall P (tty_generics g).
  Proof. apply F_tangle, F_tgparam_ty. Qed.
  Hint Resolve F_tty_generics : core.
  Lemma F_tprint_preds ps tr : Forall (Forall P) ps -> Forall P (tprint_preds ps tr).
  Proof.
    intros H. unfold tprint_preds. destruct ps as [|p ps]; [constructor|]. constructor; [at_ok|].
    apply Forall_app; split; [apply F_intercalate; [fa | exact H] | destruct tr; fa].
  Qed.
  Hint Resolve F_tprint_preds : core.
  Lemma F_map_U ps : Forall (Forall P) (map U ps).
  Proof. apply Forall_map. apply Forall_forall. intros; apply F_U. Qed.
  Hint Resolve F_map_U : core.
  Lemma F_titem_where g : Forall P (titem_where g).
  Proof. unfold titem_where. destruct (g_where g) as [[ps tr]|]; [apply F_tprint_preds, F_map_U | constructor]. Qed.
  Hint Resolve F_titem_where : core.
  Lemma F_astd t : Forall P (astd t).
  Proof. unfold astd. constructor; [apply PRoot; destruct t; reflexivity | constructor]. Qed.
  Hint Resolve F_astd : core.
  Lemma F_acore segs : Forall P (acore segs).
  Proof. unfold acore. fa. Qed.
  Hint Resolve F_acore : core.
  Hint Resolve F_astd F_acore F_timpl_generics F_tty_generics F_titem_where F_U : core.
  Lemma F_afmt segs : Forall P (afmt segs).
  Proof. unfold afmt. auto. Qed.
  Hint Resolve F_afmt : core.
  Lemma F_twhere_bounds it : Forall P (twhere_bounds it dt0).
  Proof. unfold twhere_bounds. fa. Qed.
  Hint Resolve F_twhere_bounds : core.
  Lemma F_tgeneric_pred it g : Forall P (tgeneric_pred it dt0 g).
  Proof. destruct g; cbn [tgeneric_pred]; fa. Qed.
  Hint Resolve F_tgeneric_pred : core.
  Lemma F_map_pred it gs : Forall (Forall P) (map (tgeneric_pred it dt0) gs).
  Proof. apply Forall_map, Forall_forall. intros; apply F_tgeneric_pred. Qed.
  Hint Resolve F_map_pred : core.
  Lemma F_twhere_clause g it w : Forall P (twhere_clause g it w dt0).
  Proof.
    unfold twhere_clause, twhere_preds.
    destruct (g_where g) as [[ps tr]|]; destruct (dw_generics w) as [|g0 gs]; apply F_tprint_preds.
    - apply F_map_U.
    - apply Forall_app; split; [apply F_map_U | apply F_map_pred].
    - constructor.
    - apply (F_map_pred it (g0 :: gs)).
  Qed.
  Hint Resolve F_twhere_clause : core.
  Hint Resolve F_afmt F_twhere_clause : core.

  (* patterns *)
  Lemma F_tdpath d : Forall P (tdpath d).
  Proof. unfold tdpath. apply F_intersperse_U. reflexivity. Qed.
  Hint Resolve F_tdpath : core.
  Hint Resolve F_tdpath : core.
  Lemma P_self_ident f : P (Bind (self_ident f)).
  Proof. apply PBind. reflexivity. Qed.
  Hint Resolve P_self_ident : core.
  Lemma P_other_ident f : P (Bind (other_ident f)).
  Proof. apply PBind. reflexivity. Qed.
  Hint Resolve P_other_ident : core.
  Lemma P_self_id d i : P (Bind (self_id d i)).
  Proof. apply P_self_ident. Qed.
  Hint Resolve P_self_id : core.
  Lemma P_other_id d i : P (Bind (other_id d i)).
  Proof. apply P_other_ident. Qed.
  Hint Resolve P_other_id : core.
  Lemma P_validate d : P (Bind (validate_name d)).
  Proof. apply PBind. reflexivity. Qed.
  Hint Resolve P_validate : core.
  Hint Resolve P_self_id P_other_id P_validate P_tmember P_repr_tok P_repr_name P_trait_path : core.

  Lemma F_tbinding m n : P (Bind n) -> Forall P (tbinding m n).
  Proof. intros H. unfold tbinding. constructor; [at_ok|]. destruct m; fa. Qed.
  Hint Resolve F_tbinding : core.
  Lemma F_tpattern_gen m f d : (forall x, P (Bind (f x))) -> Forall P (tpattern_gen m f d).
  Proof. intros H. unfold tpattern_gen. destruct (d_shape d); fa. Qed.
  Hint Resolve F_tpattern_gen : core.
  Lemma F_tself_pattern d : Forall P (tself_pattern d).
  Proof. apply F_tpattern_gen, P_self_ident. Qed.
  Hint Resolve F_tself_pattern : core.
  Lemma F_tother_pattern d : Forall P (tother_pattern d).
  Proof. apply F_tpattern_gen, P_other_ident. Qed.
  Hint Resolve F_tother_pattern : core.
  Lemma F_tself_pattern_mut d : Forall P (tself_pattern_mut d).
  Proof. apply F_tpattern_gen, P_self_ident. Qed.
  Hint Resolve F_tself_pattern_mut : core.
  Lemma F_tinc_pat d : Forall P (tinc_pat d).
  Proof. unfold tinc_pat. destruct (d_shape d); fa. Qed.
  Hint Resolve F_tinc_pat : core.
  Hint Resolve F_tself_pattern F_tother_pattern F_tself_pattern_mut F_tinc_pat : core.
  Lemma F_tinc_pattern vs inc p : tinc_pattern vs inc = Some p -> Forall P p.
  Proof.
    unfold tinc_pattern. destruct (map _ _) as [|x l] eqn:E; [discriminate|]. intros H.
    assert (Hp : p = intercalate [Kw "|"] (x :: l)) by congruence. rewrite Hp.
    apply F_intercalate; [fa|]. rewrite <- E. apply Forall_map, Forall_forall. intros; apply F_tinc_pat.
  Qed.
  Hint Resolve F_tinc_pattern : core.
  Lemma F_tmatches_self p : Forall P p -> Forall P (tmatches_ "self" p).
  Proof. intros H. unfold tmatches_. fa. Qed.
  Hint Resolve F_tmatches_self : core.
  Lemma F_tmatches_other p : Forall P p -> Forall P (tmatches_ "__other" p).
  Proof. intros H. unfold tmatches_. fa. Qed.
  Hint Resolve F_tmatches_other : core.
  Lemma F_tdisc_of_self : Forall P (tdisc_of "self").
  Proof. unfold tdisc_of. fa. Qed.
  Hint Resolve F_tdisc_of_self : core.
  Lemma F_tdisc_of_other : Forall P (tdisc_of "__other").
  Proof. unfold tdisc_of. fa. Qed.
  Hint Resolve F_tdisc_of_other : core.
  Hint Resolve F_tdisc_of_self F_tdisc_of_other F_tmatches_self F_tmatches_other : core.

  Lemma F_trender_rest r e : (rest_unsafe r = true -> P (Kw "unsafe")) -> Forall P e -> Forall P (trender_rest r e).
  Proof. intros Hr He. destruct r; cbn [trender_rest rest_unsafe] in *; try specialize (Hr eq_refl); fa. Qed.
  Hint Resolve F_trender_rest : core.

  (* Clone *)
  Lemma F_tclone_call d i : Forall P (tclone_call d i).
  Proof. unfold tclone_call. fa. Qed.
  Hint Resolve F_tclone_call : core.
  Hint Resolve F_tclone_call : core.
  Lemma F_trender_clone_arm p : Forall P (trender_clone_arm p).
  Proof. destruct p as [d a]. unfold trender_clone_arm. destruct (d_shape d); fa. Qed.
  Hint Resolve F_trender_clone_arm : core.
  Lemma F_tclone_sig x : Forall P x -> Forall P (tclone_sig x).
  Proof. intros H. unfold tclone_sig. fa. Qed.
  Hint Resolve F_tclone_sig : core.
  Lemma F_tassert_struct n b : P (Bind n) -> Forall P b -> Forall P (tassert_struct n b).
  Proof. intros Hn Hb. unfold tassert_struct. fa. Qed.
  Hint Resolve F_tassert_struct : core.
  Lemma F_trender_clone vs b : Forall P (trender_clone vs b).
  Proof.
    destruct b; cbn [trender_clone]; apply F_tclone_sig; fa.
  Qed.
  Hint Resolve F_trender_clone : core.

  (* Debug *)
  Lemma F_tbuilder_args : Forall P tbuilder_args.
  Proof. unfold tbuilder_args. fa. Qed.
  Hint Resolve F_tbuilder_args : core.
  Hint Resolve F_tbuilder_args : core.
  Lemma F_trender_debug_arm p : Forall P (trender_debug_arm p).
  Proof. destruct p as [d a]. unfold trender_debug_arm. destruct (d_shape d); fa. Qed.
  Hint Resolve F_trender_debug_arm : core.
  Lemma F_trender_debug vs arms : Forall P (trender_debug vs arms).
  Proof. unfold trender_debug. fa. Qed.
  Hint Resolve F_trender_debug : core.

  (* Default *)
  Lemma F_tdefault_call : Forall P tdefault_call.
  Proof. unfold tdefault_call. fa. Qed.
  Hint Resolve F_tdefault_call : core.
  Hint Resolve F_tdefault_call : core.
  Lemma F_trender_default_ctor p : Forall P (trender_default_ctor p).
  Proof. destruct p as [d a]. unfold trender_default_ctor. destruct (d_shape d); fa. Qed.
  Hint Resolve F_trender_default_ctor : core.
  Lemma F_trender_default vs c : Forall P (trender_default vs c).
  Proof. unfold trender_default. fa. Qed.
  Hint Resolve F_trender_default : core.

  (* Eq *)
  Lemma F_trender_eq_asserts vs a : Forall P (trender_eq_asserts vs a).
  Proof. unfold trender_eq_asserts. fa. Qed.
  Hint Resolve F_trender_eq_asserts : core.

  (* Hash *)
  Lemma F_thash_call a : Forall P a -> Forall P (thash_call a).
  Proof. intros H. unfold thash_call. fa. Qed.
  Hint Resolve F_thash_call : core.
  Lemma F_trender_hash_arm p : Forall P (trender_hash_arm p).
  Proof. destruct p as [d a]. unfold trender_hash_arm. fa; try (apply F_thash_call; fa). Qed.
  Hint Resolve F_trender_hash_arm : core.
  Lemma F_trender_hash vs arms : Forall P (trender_hash vs arms).
  Proof. unfold trender_hash. fa. Qed.
  Hint Resolve F_trender_hash : core.

  (* PartialEq *)
  Lemma F_trender_eq_arm p : Forall P (trender_eq_arm p).
  Proof. destruct p as [d a]. unfold trender_eq_arm. fa. Qed.
  Hint Resolve F_trender_eq_arm : core.
  Lemma F_tdisc_test : Forall P tdisc_test.
  Proof. unfold tdisc_test. fa. Qed.
  Hint Resolve F_tdisc_test : core.
  Lemma F_tself_other : Forall P tself_other.
  Proof. unfold tself_other. fa. Qed.
  Hint Resolve F_tself_other : core.
  Hint Resolve F_tdisc_test F_tself_other : core.
  Lemma F_trender_partial_eq vs b : (body_unsafe (BPartialEq b) = true -> P (Kw "unsafe")) -> Forall P (trender_partial_eq vs b).
  Proof.
    intros Hu. unfold trender_partial_eq. destruct b as [| |arms inc r|inc|arms]; cbn [body_unsafe] in Hu.
    - fa.
    - fa.
    - destruct (tinc_pattern vs inc) eqn:E; fa.
    - destruct (tinc_pattern vs inc) eqn:E; fa.
    - fa.
  Qed.
  Hint Resolve F_trender_partial_eq : core.

  (* PartialOrd / Ord *)
  Lemma F_tequal_of t : Forall P (tequal_of t).
  Proof. destruct t; cbn [tequal_of]; unfold toption_some, tordering_equal; fa. Qed.
  Hint Resolve F_tequal_of : core.
  Lemma F_toption_none : Forall P toption_none.
  Proof. unfold toption_none. auto. Qed.
  Hint Resolve F_toption_none : core.
  Lemma F_toption_some x : Forall P x -> Forall P (toption_some x).
  Proof. intros H. unfold toption_some. fa. Qed.
  Hint Resolve F_toption_some : core.
  Hint Resolve F_tequal_of F_toption_none : core.
  Lemma F_trender_ord_fields t d a : Forall P (trender_ord_fields t d a).
  Proof. induction a as [|i a IH]; cbn [trender_ord_fields]; [auto|]. fa. Qed.
  Hint Resolve F_trender_ord_fields : core.
  Hint Resolve F_trender_ord_fields : core.
  Lemma F_trender_ord_arm t p : Forall P (trender_ord_arm t p).
  Proof. destruct p as [d a]. unfold trender_ord_arm. fa. Qed.
  Hint Resolve F_trender_ord_arm : core.
  Lemma F_trender_ord_match t vs m : (rest_unsafe (om_rest m) = true -> P (Kw "unsafe")) -> Forall P (trender_ord_match t vs m).
  Proof. intros H. unfold trender_ord_match. fa. Qed.
  Hint Resolve F_trender_ord_match : core.
  Lemma F_trender_dexpr e : Forall P (trender_dexpr e).
  Proof. destruct e; cbn [trender_dexpr]; fa. Qed.
  Hint Resolve F_trender_dexpr : core.
  Hint Resolve F_trender_dexpr : core.
  Lemma F_trender_validate vs tb : Forall P (trender_validate vs tb).
  Proof. unfold trender_validate. fa. Qed.
  Hint Resolve F_trender_validate : core.
  Hint Resolve F_trender_validate : core.
  Lemma F_tcmp_call t a b tr : Forall P a -> Forall P b -> Forall P (tcmp_call t a b tr).
  Proof. intros Ha Hb. unfold tcmp_call. fa. Qed.
  Hint Resolve F_tcmp_call : core.
  Lemma F_trender_strategy t g it vs s : (strategy_unsafe s = true -> P (Kw "unsafe")) -> Forall P (trender_strategy t g it vs s).
  Proof.
    intros Hu. destruct s as [via ty validate|ty validate table|r|]; cbn [trender_strategy strategy_unsafe] in *; try specialize (Hu eq_refl).
    - destruct via, validate; fa; apply F_tcmp_call; fa.
    - destruct validate; fa; try (apply F_tcmp_call; fa).
    - apply F_tcmp_call; fa.
    - apply F_tcmp_call; fa.
  Qed.
  Hint Resolve F_trender_strategy : core.
  Lemma F_tinc_guard vs inc th : Forall P th -> Forall P (tinc_guard vs inc th).
  Proof.
    intros H. unfold tinc_guard. destruct (tinc_pattern vs inc) eqn:E; [|constructor].
    pose proof (F_tinc_pattern vs inc l E). fa.
  Qed.
  Hint Resolve F_tinc_guard : core.
  Lemma F_trender_ord_body c t g it b : (ord_unsafe b = true -> P (Kw "unsafe")) -> Forall P (trender_ord_body c t g it b).
  Proof.
    intros Hu. destruct b as [| | |arms|inc eq|inc be s]; cbn [trender_ord_body ord_unsafe] in *.
    - auto.
    - apply F_toption_some. fa.
    - auto.
    - fa.
    - apply Forall_app; split; [apply F_tinc_guard; auto|]. destruct eq as [m|]; fa.
    - assert (Hm : match_unsafe be = true -> P (Kw "unsafe")) by (intros E; apply Hu; rewrite E; reflexivity).
      assert (Hs : strategy_unsafe s = true -> P (Kw "unsafe")) by (intros E; apply Hu; rewrite E; apply orb_true_r).
      apply Forall_app; split; [apply F_tinc_guard; fa|].
      destruct be as [m|]; [|apply F_trender_strategy; exact Hs].
      destruct (c_nightly c); fa; try (apply F_trender_ord_match; exact Hm); try (apply F_tcmp_call; fa); try (apply F_trender_strategy; exact Hs).
  Qed.
  Hint Resolve F_trender_ord_body : core.
  Lemma F_tcmp_sig n : Forall P (tcmp_sig n).
  Proof. unfold tcmp_sig. fa. Qed.
  Hint Resolve F_tcmp_sig : core.
  Hint Resolve F_tcmp_sig : core.
  Lemma F_trender_partial_ord c g it b : (ord_unsafe b = true -> P (Kw "unsafe")) -> Forall P (trender_partial_ord c g it b).
  Proof. intros H. unfold trender_partial_ord. fa. Qed.
  Hint Resolve F_trender_partial_ord : core.
  Lemma F_trender_ord c g it b : (ord_unsafe b = true -> P (Kw "unsafe")) -> Forall P (trender_ord c g it b).
  Proof. intros H. unfold trender_ord. fa. Qed.
  Hint Resolve F_trender_ord : core.

  (* Zeroize / Drop *)
  Lemma F_twild_arm d : Forall P (twild_arm d).
  Proof. unfold twild_arm. fa. Qed.
  Hint Resolve F_twild_arm : core.
  Hint Resolve F_twild_arm : core.
  Lemma F_trender_zeroize_arm p : Forall P (trender_zeroize_arm dt0 p).
  Proof. destruct p as [d a]. destruct a; cbn [trender_zeroize_arm]; fa. Qed.
  Hint Resolve F_trender_zeroize_arm : core.
  Lemma F_trender_zeroize vs b : Forall P (trender_zeroize dt0 vs b).
  Proof. unfold trender_zeroize. destruct b; fa. Qed.
  Hint Resolve F_trender_zeroize : core.
  Lemma F_trender_drop_arm p : Forall P (trender_drop_arm p).
  Proof. destruct p as [d a]. destruct a; cbn [trender_drop_arm]; fa. Qed.
  Hint Resolve F_trender_drop_arm : core.
  Lemma F_trender_drop vs b : Forall P (trender_drop dt0 vs b).
  Proof. unfold trender_drop. destruct b; fa. Qed.
  Hint Resolve F_trender_drop : core.

  Lemma F_trender_body c g it b : (body_unsafe b = true -> P (Kw "unsafe")) -> Forall P (trender_body c g it dt0 b).
  Proof.
    intros Hu. destruct b; cbn [trender_body];
      auto using F_trender_clone, F_trender_debug, F_trender_default, F_trender_eq_asserts, F_trender_hash, F_trender_partial_eq,
                 F_trender_partial_ord, F_trender_ord, F_trender_zeroize, F_trender_drop.
  Qed.
  Hint Resolve F_trender_body : core.

  Lemma F_timpl_header g it w p : P (APath p) -> Forall P (timpl_header g it w dt0 p).
  Proof. intros H. unfold timpl_header. fa. Qed.
  Hint Resolve F_timpl_header : core.

  Lemma P_impl_path : P (APath (impl_path dt0)).
  Proof. unfold impl_path. destruct (dt_trait dt0); try apply P_trait_path. apply PRoot. reflexivity. Qed.
  Hint Resolve P_impl_path : core.

  Theorem census_timpl c i w :
    (body_unsafe (gen_body c (in_item i) w dt0) = true -> P (Kw "unsafe")) -> Forall P (timpl c i w dt0).
  Proof.
    intros Hu. unfold timpl.
    apply Forall_app; split; [apply F_timpl_header, P_impl_path|].
    constructor; [at_ok|]. apply Forall_app; split; [apply F_trender_body; assumption|].
    constructor; [at_ok|]. destruct (trait_beq (dt_trait dt0) ZeroizeOnDrop && c_zod c); [|constructor].
    apply Forall_app; split; [apply F_timpl_header, P_trait_path | fa].
  Qed.
End Census.
