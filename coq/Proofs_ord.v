(* Proofs_ord.v - PartialOrd / Ord: discriminant numbering, discriminant strategies,
   and the generated comparison (C04, C07 part, C12 part). *)
From DW Require Export Proofs_eq Proofs_frontend.
Open Scope nat_scope.

(* ---------------- build_discriminants reproduces Rust's numbering ---------------- *)
Definition disc_opt (d : data) : option Z := option_map snd (d_disc d).

(* the macro's `last_expression` state agrees with Rust's "previous discriminant" *)
Definition last_ok (last : option (option (toks * Z) * nat)) (prev : option Z) : Prop :=
  match last, prev with
  | None, None => True
  | Some (Some (_, z), k), Some p => p = (z + Z.of_nat k)%Z
  | Some (None, k), Some p => p = Z.of_nat k
  | _, _ => False
  end.

Lemma build_discriminants_correct_gen vs : forall last prev,
  last_ok last prev ->
  map eval_dexpr (build_discriminants vs last) = rust_discs (map disc_opt vs) prev.
Proof.
  induction vs as [|v vs IH]; intros last prev H; cbn; [reflexivity|].
  unfold disc_opt at 1. destruct (d_disc v) as [[ts z]|] eqn:Hd; cbn.
  - f_equal. apply IH. cbn. lia.
  - destruct last as [[[[ts z]|] k]|]; destruct prev as [p|]; cbn in H; try contradiction; cbn.
    + subst p. f_equal; [lia|]. apply IH. cbn. lia.
    + subst p. f_equal; [lia|]. apply IH. cbn. lia.
    + f_equal. apply IH. cbn. reflexivity.
Qed.

Theorem build_discriminants_correct vs :
  map eval_dexpr (discs vs) = rust_discs (map disc_opt vs) None.
Proof. apply build_discriminants_correct_gen. exact I. Qed.

Lemma rust_discs_length ds prev : length (rust_discs ds prev) = length ds.
Proof. revert prev; induction ds as [|[z|] ds IH]; intros prev; cbn; [reflexivity| |]; rewrite IH; reflexivity. Qed.

Lemma discs_length vs : length (discs vs) = length vs.
Proof.
  rewrite <- (map_length eval_dexpr), build_discriminants_correct, rust_discs_length, map_length. reflexivity.
Qed.

(* ---------------- wrap is the identity on values that fit ---------------- *)
Lemma wrap_in_range r z : in_range r z = true -> wrap r z = z.
Proof.
  unfold in_range, wrap, repr_min, repr_max. intros H. apply andb_true_iff in H. destruct H as [H1 H2].
  apply Z.leb_le in H1. apply Z.leb_le in H2.
  assert (Hb : (0 < repr_bits r)%Z) by (destruct r; cbn; lia).
  assert (Hp : (2 ^ repr_bits r = 2 * 2 ^ (repr_bits r - 1))%Z).
  { replace (repr_bits r) with (1 + (repr_bits r - 1))%Z at 1 by lia. rewrite Z.pow_add_r by lia. reflexivity. }
  assert (Hpos : (0 < 2 ^ (repr_bits r - 1))%Z) by (apply Z.pow_pos_nonneg; lia).
  destruct (repr_signed r); cbn [andb].
  - destruct (Z.ltb_spec z 0) as [Hneg|Hnn].
    + assert (Hm : (z mod 2 ^ repr_bits r = z + 2 ^ repr_bits r)%Z).
      { symmetry. apply Z.mod_unique with (q := (-1)%Z); lia. }
      rewrite Hm. destruct (Z.leb_spec (2 ^ (repr_bits r - 1)) (z + 2 ^ repr_bits r)); lia.
    + rewrite Z.mod_small by lia. destruct (Z.leb_spec (2 ^ (repr_bits r - 1)) z); lia.
  - apply Z.mod_small. lia.
Qed.

(* ---------------- the macro's reading of #[repr] is Rust's tag type ---------------- *)
Lemma repr_scan_idents_spec ids has h :
  repr_scan_idents ids has = Ok h ->
  h = match flat_map (fun i => match repr_parse i with Some r => [r] | None => [] end) ids with
      | [] => has | r :: _ => Some r end.
Proof.
  revert has; induction ids as [|i ids IH]; cbn [repr_scan_idents flat_map]; intros has H; [inversion H; reflexivity|].
  destruct (repr_parse i) as [r|] eqn:E; cbn [app].
  - inversion H; reflexivity.
  - destruct (String.eqb i "C" || String.eqb i "Rust" || String.eqb i "align"); [|discriminate].
    apply IH. assumption.
Qed.

Definition attr_ints (a : item_attr) : list repr :=
  match a with
  | IARepr (ReprIdents ids) => flat_map (fun i => match repr_parse i with Some r => [r] | None => [] end) ids
  | _ => []
  end.

Lemma repr_ints_flat attrs : repr_ints attrs = flat_map attr_ints attrs.
Proof. reflexivity. Qed.

(* within one attribute the macro takes the first integer type; a later attribute overrides an earlier one *)
Lemma repr_scan_spec attrs : forall has h,
  repr_scan attrs has = Ok h ->
  (forall r, In r (repr_ints attrs) -> h <> None) /\
  (repr_ints attrs = [] -> h = has) /\
  (forall r, h = Some r -> has = Some r \/ In r (repr_ints attrs)).
Proof.
  induction attrs as [|a attrs IH]; cbn [repr_scan]; intros has h H.
  - inversion H; subst. cbn. split; [intros r []|]. split; [reflexivity|]. intros r Hr. left; assumption.
  - destruct a as [d|[ids|ts|]|p ts]; try discriminate.
    + specialize (IH has h H). rewrite repr_ints_flat in *. cbn [flat_map attr_ints app]. exact IH.
    + cbn [bind] in H. destruct (repr_scan_idents ids has) as [h1| |] eqn:E1; cbn [bind] in H; try discriminate.
      apply repr_scan_idents_spec in E1. specialize (IH h1 h H). destruct IH as [I1 [I2 I3]].
      rewrite repr_ints_flat in *. cbn [flat_map attr_ints].
      set (here := flat_map (fun i => match repr_parse i with Some r => [r] | None => [] end) ids) in *.
      repeat split.
      * intros r Hr. apply in_app_or in Hr. destruct Hr as [Hr|Hr]; [|eapply I1; eauto].
        destruct (flat_map attr_ints attrs) as [|x xs] eqn:Er.
        -- rewrite (I2 eq_refl). destruct here; [contradiction | subst h1; discriminate].
        -- eapply (I1 x). left; reflexivity.
      * intros Hnil. apply app_eq_nil in Hnil. destruct Hnil as [Hh Hr]. rewrite (I2 Hr). rewrite Hh in E1. assumption.
      * intros r Hr. destruct (I3 r Hr) as [Hh|Hin]; [|right; apply in_or_app; right; assumption].
        subst h1. destruct here as [|x xs] eqn:Eh; [left; assumption|]. inversion Hh; subst. right. apply in_or_app. left. left. reflexivity.
    + specialize (IH has h H). rewrite repr_ints_flat in *. cbn [flat_map attr_ints app]. exact IH.
Qed.

Theorem repr_scan_tag attrs h :
  consistent_reprs attrs = true -> repr_scan attrs None = Ok h -> h = rust_tag attrs.
Proof.
  intros C H. apply repr_scan_spec in H. destruct H as [H1 [H2 H3]].
  unfold rust_tag, consistent_reprs in *. destruct (repr_ints attrs) as [|r rest] eqn:E.
  - apply H2. reflexivity.
  - destruct h as [r'|]; [|exfalso; eapply (H1 r); [left; reflexivity | reflexivity]].
    destruct (H3 r' eq_refl) as [Hd|Hin]; [discriminate|].
    destruct Hin as [<-|Hin]; [reflexivity|].
    rewrite forallb_forall in C. specialize (C r' Hin).
    f_equal. symmetry. apply internal_repr_dec_bl. assumption.
Qed.

(* ---------------- Discriminant::parse ---------------- *)
Lemma discriminant_parse_facts attrs rvs disc :
  consistent_reprs attrs = true ->
  discriminant_parse attrs rvs = Ok disc ->
  match disc with
  | DSingle => length rvs = 1
  | DUnit => length rvs <> 1 /\ forallb variant_fields_empty rvs = true /\ rust_tag attrs = None
  | DData => length rvs <> 1 /\ rust_tag attrs = None
  | DUnitRepr r => length rvs <> 1 /\ forallb variant_fields_empty rvs = true /\ rust_tag attrs = Some r
  | DDataRepr r => length rvs <> 1 /\ rust_tag attrs = Some r
  end.
Proof.
  intros C H. unfold discriminant_parse in H.
  destruct (Nat.eqb_spec (length rvs) 1) as [E|E]; [inversion H; subst; assumption|].
  cbn [bind] in H. destruct (repr_scan attrs None) as [h| |] eqn:Hs; cbn [bind] in H; try discriminate.
  apply repr_scan_tag in Hs; [|assumption]. subst h.
  destruct (rust_tag attrs) as [r|]; destruct (forallb variant_fields_empty rvs) eqn:Hu.
  - inversion H; subst. auto.
  - inversion H; subst. auto.
  - inversion H; subst. auto.
  - destruct (existsb (fun v => isSome (rv_disc v)) rvs); [discriminate|]. inversion H; subst. auto.
Qed.

(* ---------------- every strategy reads the Rust discriminant ---------------- *)
Definition uses_cast (s : strategy) : bool := match s with SCast _ _ _ => true | _ => false end.

Lemma nth_error_nth_default {A} (l : list A) i d : i < length l -> nth_error l i = Some (nth i l d).
Proof. revert i; induction l as [|x l IH]; intros [|i] H; cbn in *; try lia; [reflexivity|]. apply IH. lia. Qed.

Lemma Forall_nth {A} (P : A -> Prop) l i d : Forall P l -> i < length l -> P (nth i l d).
Proof. intros F. revert i; induction F as [|x l Hx F IH]; intros [|i] H; cbn in *; try lia; [assumption|]. apply IH. lia. Qed.

Theorem strategy_read_correct c raw rvs disc vs w s i :
  ri_kind raw = KEnum rvs ->
  (if c_nightly c then True else discriminant_parse (ri_attrs raw) rvs = Ok disc /\ map d_disc vs = map rv_disc rvs) ->
  length vs = length rvs ->
  valid_rust_enum raw ->
  gen_strategy c disc vs w = Some s ->
  (uses_cast s = true -> rust_castable rvs = true) ->
  i < length vs ->
  strategy_read (rust_enum_of raw) s i = Val (nth i (re_discs (rust_enum_of raw)) 0%Z).
Proof.
  intros Hk Hp Hlen [Hcons Hfit] Hs Hcast Hi.
  unfold rust_enum_of in *. unfold raw_variants in *. rewrite Hk in *. cbn [re_discs re_tag re_castable] in *.
  set (rd := rust_discs (map (fun v => option_map snd (rv_disc v)) rvs) None) in *.
  assert (Lrd : length rd = length rvs) by (unfold rd; rewrite rust_discs_length, map_length; reflexivity).
  assert (Hnth : nth_error rd i = Some (nth i rd 0%Z)) by (apply nth_error_nth_default; lia).
  assert (Hin : in_range (ty_or_isize (rust_tag (ri_attrs raw))) (nth i rd 0%Z) = true) by (apply Forall_nth; [assumption | lia]).
  unfold gen_strategy in Hs. destruct (c_nightly c) eqn:Hn.
  { inversion Hs; subst s. cbn. rewrite Hnth. reflexivity. }
  destruct Hp as [Hdp Hdisc].
  pose proof (discriminant_parse_facts _ _ _ Hcons Hdp) as F.
  assert (Htab : map eval_dexpr (discs vs) = rd).
  { rewrite build_discriminants_correct. unfold rd. f_equal. unfold disc_opt.
    rewrite <- (map_map d_disc (option_map snd)), Hdisc, map_map. reflexivity. }
  assert (Hconst : forall ty v, ty_or_isize ty = ty_or_isize (rust_tag (ri_attrs raw)) ->
            strategy_read (mkRustEnum (rust_tag (ri_attrs raw)) rd (rust_castable rvs)) (SConstFn ty v (discs vs)) i = Val (nth i rd 0%Z)).
  { intros ty v Ety. cbn [strategy_read].
    assert (He : nth_error (discs vs) i = Some (nth i (discs vs) (DLit 0))) by (apply nth_error_nth_default; rewrite discs_length; lia).
    rewrite He.
    assert (Hv : eval_dexpr (nth i (discs vs) (DLit 0)) = nth i rd 0%Z).
    { rewrite <- Htab. symmetry. apply nth_map_default. rewrite discs_length. lia. }
    rewrite Hv, Ety, Hin. reflexivity. }
  assert (Hcastv : forall via ty v, ty_or_isize ty = ty_or_isize (rust_tag (ri_attrs raw)) ->
            rust_castable rvs = true ->
            strategy_read (mkRustEnum (rust_tag (ri_attrs raw)) rd (rust_castable rvs)) (SCast via ty v) i = Val (nth i rd 0%Z)).
  { intros via ty v Ety Hc. cbn [strategy_read re_castable re_discs]. rewrite Hc, Hnth, Ety, wrap_in_range by assumption. reflexivity. }
  destruct disc as [| | |r|r].
  - discriminate.
  - destruct F as [_ [_ Ft]]. destruct (dw_contains w Copy); [|destruct (dw_contains w Clone)]; inversion Hs; subst s.
    + apply Hcastv; [rewrite Ft; reflexivity | apply Hcast; reflexivity].
    + apply Hcastv; [rewrite Ft; reflexivity | apply Hcast; reflexivity].
    + apply Hconst. rewrite Ft. reflexivity.
  - destruct F as [_ Ft]. inversion Hs; subst s. apply Hconst. rewrite Ft. reflexivity.
  - destruct F as [_ [_ Ft]]. destruct (dw_contains w Copy); [|destruct (dw_contains w Clone); [|destruct (c_safe c)]]; inversion Hs; subst s.
    + apply Hcastv; [rewrite Ft; reflexivity | apply Hcast; reflexivity].
    + apply Hcastv; [rewrite Ft; reflexivity | apply Hcast; reflexivity].
    + apply Hconst. rewrite Ft. reflexivity.
    + cbn [strategy_read re_tag re_discs]. rewrite Ft.
      replace (repr_beq r r) with true by (symmetry; apply internal_repr_dec_lb; reflexivity).
      rewrite Hnth. reflexivity.
  - destruct F as [_ Ft]. destruct (c_safe c); inversion Hs; subst s.
    + apply Hconst. rewrite Ft. reflexivity.
    + cbn [strategy_read re_tag re_discs]. rewrite Ft.
      replace (repr_beq r r) with true by (symmetry; apply internal_repr_dec_lb; reflexivity).
      rewrite Hnth. reflexivity.
Qed.

Lemma existsb_negb_forallb' {A} (p : A -> bool) l : existsb p l = negb (forallb (fun x => negb (p x)) l).
Proof. induction l as [|x l IH]; cbn; [reflexivity|]. rewrite IH. destruct (p x); reflexivity. Qed.

Lemma filter_all_true {A} (f : A -> bool) l : (forall x, In x l -> f x = true) -> filter f l = l.
Proof. induction l as [|x l IH]; cbn; intros H; [reflexivity|]. rewrite (H x (or_introl eq_refl)). f_equal. apply IH; intros; apply H; right; assumption. Qed.

(* ---------------- the generated partial_cmp / cmp ---------------- *)
Lemma filter_singleton_unique {A} (p : A -> bool) : forall l c i j x y,
  filter p l = [c] -> nth_error l i = Some x -> p x = true -> nth_error l j = Some y -> p y = true ->
  i = j /\ x = c.
Proof.
  induction l as [|z l IH]; intros c i j x y Hf Hi Hx Hj Hy; [destruct i; discriminate|].
  cbn in Hf. destruct (p z) eqn:Hz.
  - inversion Hf; subst z.
    assert (Hnone : forall k w, nth_error l k = Some w -> p w = false).
    { intros k w Hk. destruct (p w) eqn:Hw; [|reflexivity].
      assert (In w (filter p l)) by (apply filter_In; split; [eapply nth_error_In; eauto | assumption]).
      rewrite H1 in H. contradiction. }
    destruct i as [|i], j as [|j]; cbn in Hi, Hj.
    + inversion Hi; subst. auto.
    + rewrite (Hnone j y Hj) in Hy. discriminate.
    + rewrite (Hnone i x Hi) in Hx. discriminate.
    + rewrite (Hnone i x Hi) in Hx. discriminate.
  - destruct i as [|i], j as [|j]; cbn in Hi, Hj.
    + inversion Hi; subst. congruence.
    + inversion Hi; subst. congruence.
    + inversion Hj; subst. congruence.
    + destruct (IH c i j x y Hf Hi Hx Hj Hy) as [-> ->]. auto.
Qed.

Section Ord.
Context {fval : Type}.
Variable fpcmp : fval -> fval -> option comparison.
Variable fcmp : fval -> fval -> comparison.
Notation value := (value fval).

Definition disc_oracle (re : rust_enum) (s : strategy) (n : nat) : Prop :=
  forall i, i < n -> strategy_read re s i = Val (nth i (re_discs re) 0%Z).

Lemma eval_pord_arm_positions d (a b : value) :
  wf_data d -> length (v_fields a) = length (d_fields d) -> length (v_fields b) = length (d_fields d) ->
  eval_pord_arm fpcmp a b (positions d PartialOrd) = Val (lex_p fpcmp (project d PartialOrd a) (project d PartialOrd b)).
Proof.
  intros W Ha Hb. unfold eval_pord_arm. rewrite positions_visible by assumption.
  rewrite (getfs_visible d PartialOrd a Ha), (getfs_visible d PartialOrd b Hb). reflexivity.
Qed.

Lemma eval_ord_arm_positions d (a b : value) :
  wf_data d -> length (v_fields a) = length (d_fields d) -> length (v_fields b) = length (d_fields d) ->
  eval_ord_arm fcmp a b (positions d Ord) = Val (lex_t fcmp (project d Ord a) (project d Ord b)).
Proof.
  intros W Ha Hb. unfold eval_ord_arm. rewrite positions_visible by assumption.
  rewrite (getfs_visible d Ord a Ha), (getfs_visible d Ord b Hb). reflexivity.
Qed.

Lemma is_inc_map (vs : list data) (a : value) d :
  nth_error vs (v_idx a) = Some d -> is_inc (map d_incomparable vs) a = d_incomparable d.
Proof.
  intros H. unfold is_inc. erewrite nth_map_default with (da := d).
  - erewrite nth_error_nth_some; eauto.
  - apply nth_error_Some. congruence.
Qed.

Lemma disc_compare_oracle re s (a b : value) n :
  disc_oracle re s n -> v_idx a < n -> v_idx b < n ->
  disc_compare re s a b = Val (Z.compare (disc_of re a) (disc_of re b)).
Proof. intros O Ha Hb. unfold disc_compare, disc_of. rewrite (O _ Ha), (O _ Hb). reflexivity. Qed.

(* the match over (self, __other) used when both operands are the same variant *)
Lemma eval_pord_match_same c (vs : list data) (a b : value) d r :
  nth_error vs (v_idx a) = Some d -> v_idx a = v_idx b -> wf_data d -> d_shape d <> ShUnion ->
  length (v_fields a) = length (d_fields d) -> length (v_fields b) = length (d_fields d) ->
  d_incomparable d = false ->
  r = (if has_empty_comparable PartialOrd vs then REqual else unreachable_rest c) ->
  eval_pord_match fpcmp (mkOrdMatch (map (cmp_arm PartialOrd true) vs) r) a b =
  Val (lex_p fpcmp (project d PartialOrd a) (project d PartialOrd b)).
Proof.
  intros Hd Eidx W NU La Lb Hinc Hr. unfold eval_pord_match. cbn [om_arms om_rest].
  rewrite find2_same by assumption. rewrite nth_error_map', Hd. cbn [option_map].
  rewrite cmp_arm_cases by assumption. rewrite Hinc. cbn [andb]. rewrite orb_false_r.
  destruct (data_is_empty d PartialOrd) eqn:Hemp.
  - assert (Hex : has_empty_comparable PartialOrd vs = true).
    { unfold has_empty_comparable. apply existsb_exists. exists d. split; [eapply nth_error_In; eauto|]. rewrite Hemp, Hinc. reflexivity. }
    rewrite Hr, Hex. cbn. rewrite !project_empty by assumption. reflexivity.
  - apply eval_pord_arm_positions; assumption.
Qed.

Theorem gen_partial_ord_sig_correct c it w re ord_impl o (a b : value) :
  wf_item it -> item_is_union it = false -> wf_value it a -> wf_value it b ->
  gen_ord_signature c it w PartialOrd true = Some o ->
  (forall inc be s, o = OMulti inc be s -> disc_oracle re s (length (item_variants it))) ->
  eval_partial_ord fpcmp re ord_impl o a b = Val (spec_pcmp fpcmp it re a b).
Proof.
  intros W NU [da [Hda La]] [db [Hdb Lb]] Hg Horacle.
  assert (Wda : wf_data da) by (eapply wf_item_data; eauto using nth_error_In).
  assert (NUa : d_shape da <> ShUnion) by (eapply wf_item_not_union; eauto using nth_error_In).
  assert (Wdb : wf_data db) by (eapply wf_item_data; eauto using nth_error_In).
  unfold gen_ord_signature in Hg. unfold spec_pcmp.
  destruct (item_is_incomparable it) eqn:Hinc.
  { inversion Hg; subst o. cbn. rewrite (item_incomparable_spec it a da Hda Hinc). reflexivity. }
  pose proof (item_not_incomparable_flag it Hinc) as Hflag.
  assert (Hia : incomparable_value it a = d_incomparable da) by (unfold incomparable_value, variant_of; rewrite Hda, Hflag; reflexivity).
  assert (Hib : incomparable_value it b = d_incomparable db) by (unfold incomparable_value, variant_of; rewrite Hdb, Hflag; reflexivity).
  rewrite Hia, Hib. unfold variant_of. rewrite Hda.
  (* items with at most one variant *)
  assert (Single : length (item_variants it) <= 1 ->
    forall o', (if item_is_empty it PartialOrd then Some OEqual else Some (OMatch (map (cmp_arm PartialOrd true) (item_variants it)))) = Some o' ->
    eval_partial_ord fpcmp re ord_impl o' a b =
    Val (if d_incomparable da || d_incomparable db then None
         else if Nat.eqb (v_idx a) (v_idx b) then lex_p fpcmp (project da PartialOrd a) (project da PartialOrd b)
         else Some (Z.compare (disc_of re a) (disc_of re b)))).
  { intros L1 o' Ho'.
    pose proof (single_variant_idx it a da L1 Hda) as Ia.
    pose proof (single_variant_idx it b db L1 Hdb) as Ib.
    assert (Evs : item_variants it = [da]).
    { destruct (item_variants it) as [|x [|y r]] eqn:E; cbn in L1; try lia.
      - rewrite Ia in Hda. discriminate.
      - rewrite Ia in Hda. cbn in Hda. congruence. }
    assert (db = da) by (rewrite Evs, Ib in Hdb; cbn in Hdb; congruence). subst db.
    rewrite (single_not_incomparable it da Evs Hinc). rewrite Ia, Ib. cbn [Nat.eqb orb].
    unfold item_is_empty in Ho'. rewrite Evs in Ho'. cbn [forallb] in Ho'. rewrite andb_true_r in Ho'.
    destruct (data_is_empty da PartialOrd) eqn:Hemp; inversion Ho'; subst o'.
    - cbn. rewrite !project_empty by assumption. reflexivity.
    - cbn [eval_partial_ord]. rewrite find2_same by congruence. rewrite Ia. cbn [map nth_error].
      rewrite cmp_arm_cases by assumption. rewrite Hemp, (single_not_incomparable it da Evs Hinc). cbn.
      apply eval_pord_arm_positions; assumption. }
  destruct it as [d0|disc id inc vs].
  { apply Single; [cbn; lia | exact Hg]. }
  cbn [item_variants] in *.
  destruct (1 <? length vs) eqn:Hlen; [| apply Single; [apply Nat.ltb_ge in Hlen; lia | exact Hg]].
  assert (Ha_lt : v_idx a < length vs) by (apply nth_error_Some; congruence).
  assert (Hb_lt : v_idx b < length vs) by (apply nth_error_Some; congruence).
  set (arms := map (cmp_arm PartialOrd true) vs) in *.
  set (body_equal := if item_is_empty (IEnum disc id inc vs) PartialOrd then None
                     else if has_empty_comparable PartialOrd vs then Some (mkOrdMatch arms REqual)
                     else Some (mkOrdMatch arms (unreachable_rest c))) in *.
  (* what body_equal computes on two values of the same comparable variant *)
  assert (Hbe : v_idx a = v_idx b -> d_incomparable da = false ->
                match body_equal with
                | Some m => eval_pord_match fpcmp m a b = Val (lex_p fpcmp (project da PartialOrd a) (project da PartialOrd b))
                | None => data_is_empty da PartialOrd = true
                end).
  { intros Eidx Hna. assert (db = da) by congruence. subst db. unfold body_equal.
    destruct (item_is_empty (IEnum disc id inc vs) PartialOrd) eqn:Hall.
    - unfold item_is_empty in Hall. cbn in Hall. rewrite forallb_forall in Hall. apply Hall. eapply nth_error_In; eauto.
    - destruct (has_empty_comparable PartialOrd vs) eqn:Hex.
      + eapply eval_pord_match_same with (c := c); eauto. rewrite Hex. reflexivity.
      + eapply eval_pord_match_same with (c := c); eauto. rewrite Hex. reflexivity. }
  destruct (filter (fun v => negb (d_incomparable v)) vs) as [|cmpv [|c2 rest]] eqn:Hfil.
  - (* no comparable variant: impossible, the item would be incomparable *)
    exfalso. cbn in Hinc. apply orb_false_elim in Hinc. destruct Hinc as [_ Hinc].
    assert (Hall : forallb d_incomparable vs = true).
    { apply forallb_forall. intros x Hx. destruct (d_incomparable x) eqn:E; [reflexivity|].
      assert (In x (filter (fun v => negb (d_incomparable v)) vs)) by (apply filter_In; rewrite E; auto).
      rewrite Hfil in H. contradiction. }
    rewrite Hall in Hinc. destruct vs; cbn in *; [lia | discriminate].
  - (* exactly one comparable variant *)
    destruct (existsb d_incomparable vs) eqn:Hany; [|discriminate].
    inversion Hg; subst o. cbn [eval_partial_ord].
    rewrite (is_inc_map vs a da Hda), (is_inc_map vs b db Hdb).
    destruct (d_incomparable da) eqn:Hna; [reflexivity|].
    destruct (d_incomparable db) eqn:Hnb; [reflexivity|]. cbn [orb].
    destruct (filter_singleton_unique (fun v => negb (d_incomparable v)) vs cmpv (v_idx a) (v_idx b) da db Hfil Hda
                (f_equal negb Hna) Hdb (f_equal negb Hnb)) as [Eidx Eda].
    subst cmpv. replace (Nat.eqb (v_idx a) (v_idx b)) with true by (symmetry; apply Nat.eqb_eq; exact Eidx).
    specialize (Hbe Eidx eq_refl).
    destruct (data_is_empty da PartialOrd) eqn:Hemp.
    + assert (db = da) by congruence. subst db. rewrite !project_empty by assumption. reflexivity.
    + destruct body_equal as [m|]; [exact Hbe | congruence].
  - (* several comparable variants: compare discriminants *)
    destruct (gen_strategy c disc vs w) as [s|] eqn:Hs; [|discriminate].
    inversion Hg; subst o. cbn [eval_partial_ord].
    rewrite (is_inc_map vs a da Hda), (is_inc_map vs b db Hdb).
    destruct (d_incomparable da) eqn:Hna; [reflexivity|].
    destruct (d_incomparable db) eqn:Hnb; [reflexivity|]. cbn [orb].
    specialize (Horacle _ _ _ eq_refl).
    pose proof (disc_compare_oracle re s a b (length vs) Horacle Ha_lt Hb_lt) as Hdc.
    destruct (Nat.eqb_spec (v_idx a) (v_idx b)) as [Eidx|Nidx].
    + specialize (Hbe Eidx eq_refl). destruct body_equal as [m|].
      * exact Hbe.
      * assert (db = da) by congruence. subst db.
        rewrite Hdc. cbn. unfold disc_of. rewrite Eidx, Z.compare_refl. rewrite !project_empty by assumption. reflexivity.
    + destruct body_equal as [m|]; rewrite Hdc; reflexivity.
Qed.

(* ---- Ord::cmp: no incomparable marker can be present (the front end rejects it) ---- *)
Lemma eval_ord_match_same c (vs : list data) (a b : value) d r :
  nth_error vs (v_idx a) = Some d -> v_idx a = v_idx b -> wf_data d -> d_shape d <> ShUnion ->
  length (v_fields a) = length (d_fields d) -> length (v_fields b) = length (d_fields d) ->
  (forall x, In x vs -> d_incomparable x = false) ->
  r = (if has_empty_comparable Ord vs then REqual else unreachable_rest c) ->
  eval_ord_match fcmp (mkOrdMatch (map (cmp_arm Ord false) vs) r) a b =
  Val (lex_t fcmp (project d Ord a) (project d Ord b)).
Proof.
  intros Hd Eidx W NU La Lb Hninc Hr. unfold eval_ord_match. cbn [om_arms om_rest].
  rewrite find2_same by assumption. rewrite nth_error_map', Hd. cbn [option_map].
  rewrite cmp_arm_cases by assumption. cbn [andb]. rewrite orb_false_r.
  destruct (data_is_empty d Ord) eqn:Hemp.
  - assert (Hex : has_empty_comparable Ord vs = true).
    { unfold has_empty_comparable. apply existsb_exists. exists d. split; [eapply nth_error_In; eauto|].
      rewrite Hemp, (Hninc d) by (eapply nth_error_In; eauto). reflexivity. }
    rewrite Hr, Hex. cbn. rewrite !project_empty by assumption. reflexivity.
  - apply eval_ord_arm_positions; assumption.
Qed.

Theorem gen_ord_sig_correct c it w re o (a b : value) :
  wf_item it -> item_is_union it = false -> wf_value it a -> wf_value it b ->
  (forall d, In d (item_variants it) -> d_incomparable d = false) -> item_inc_flag it = false ->
  gen_ord_signature c it w Ord false = Some o ->
  (forall inc be s, o = OMulti inc be s -> disc_oracle re s (length (item_variants it))) ->
  eval_ord fcmp re o a b = Val (spec_cmp fcmp it re a b).
Proof.
  intros W NU [da [Hda La]] [db [Hdb Lb]] Hninc Hflag Hg Horacle.
  assert (Wda : wf_data da) by (eapply wf_item_data; eauto using nth_error_In).
  assert (NUa : d_shape da <> ShUnion) by (eapply wf_item_not_union; eauto using nth_error_In).
  unfold gen_ord_signature in Hg. unfold spec_cmp, variant_of. rewrite Hda.
  assert (Hinc : item_is_incomparable it = false).
  { destruct it as [d0|disc id inc vs]; cbn in *.
    - apply Hninc. left; reflexivity.
    - rewrite Hflag. cbn. destruct vs as [|x xs]; [reflexivity|]. cbn. rewrite (Hninc x) by (left; reflexivity). reflexivity. }
  rewrite Hinc in Hg.
  assert (Single : length (item_variants it) <= 1 ->
    forall o', (if item_is_empty it Ord then Some OEqual else Some (OMatch (map (cmp_arm Ord false) (item_variants it)))) = Some o' ->
    eval_ord fcmp re o' a b =
    Val (if Nat.eqb (v_idx a) (v_idx b) then lex_t fcmp (project da Ord a) (project da Ord b)
         else Z.compare (disc_of re a) (disc_of re b))).
  { intros L1 o' Ho'.
    pose proof (single_variant_idx it a da L1 Hda) as Ia.
    pose proof (single_variant_idx it b db L1 Hdb) as Ib.
    assert (Evs : item_variants it = [da]).
    { destruct (item_variants it) as [|x [|y r]] eqn:E; cbn in L1; try lia.
      - rewrite Ia in Hda. discriminate.
      - rewrite Ia in Hda. cbn in Hda. congruence. }
    assert (db = da) by (rewrite Evs, Ib in Hdb; cbn in Hdb; congruence). subst db.
    rewrite Ia, Ib. cbn [Nat.eqb].
    unfold item_is_empty in Ho'. rewrite Evs in Ho'. cbn [forallb] in Ho'. rewrite andb_true_r in Ho'.
    destruct (data_is_empty da Ord) eqn:Hemp; inversion Ho'; subst o'.
    - cbn. rewrite !project_empty by assumption. reflexivity.
    - cbn [eval_ord]. rewrite find2_same by congruence. rewrite Ia. cbn [map nth_error].
      rewrite cmp_arm_cases by assumption. rewrite Hemp. cbn.
      apply eval_ord_arm_positions; assumption. }
  destruct it as [d0|disc id inc vs].
  { apply Single; [cbn; lia | exact Hg]. }
  cbn [item_variants] in *.
  destruct (1 <? length vs) eqn:Hlen; [| apply Single; [apply Nat.ltb_ge in Hlen; lia | exact Hg]].
  apply Nat.ltb_lt in Hlen.
  assert (Ha_lt : v_idx a < length vs) by (apply nth_error_Some; congruence).
  assert (Hb_lt : v_idx b < length vs) by (apply nth_error_Some; congruence).
  assert (Hfil : filter (fun v => negb (d_incomparable v)) vs = vs).
  { apply filter_all_true. intros x Hx. rewrite (Hninc x Hx). reflexivity. }
  assert (Hfl : length (filter (fun v => negb (d_incomparable v)) vs) = length vs) by (rewrite Hfil; reflexivity).
  destruct (filter (fun v => negb (d_incomparable v)) vs) as [|c1 [|c2 rest]] eqn:Hf2; cbn in Hfl; try lia.
  destruct (gen_strategy c disc vs w) as [s|] eqn:Hs; [|discriminate].
  inversion Hg; subst o. cbn [eval_ord].
  assert (Hnone : existsb (fun x : bool => x) (map d_incomparable vs) = false).
  { rewrite existsb_negb_forallb'. rewrite negb_false_iff. apply forallb_forall. intros x Hx.
    apply in_map_iff in Hx. destruct Hx as [d [<- Hd]]. rewrite (Hninc d Hd). reflexivity. }
  rewrite Hnone.
  specialize (Horacle _ _ _ eq_refl).
  pose proof (disc_compare_oracle re s a b _ Horacle Ha_lt Hb_lt) as Hdc.
  destruct (Nat.eqb_spec (v_idx a) (v_idx b)) as [Eidx|Nidx].
  - assert (db = da) by congruence. subst db.
    destruct (item_is_empty (IEnum disc id inc vs) Ord) eqn:Hall.
    + rewrite Hdc. unfold disc_of. rewrite Eidx, Z.compare_refl.
      assert (Hemp : data_is_empty da Ord = true).
      { unfold item_is_empty in Hall. cbn [item_variants] in Hall. rewrite forallb_forall in Hall. apply Hall. eapply nth_error_In; eauto. }
      rewrite !project_empty by assumption. reflexivity.
    + destruct (has_empty_comparable Ord vs) eqn:Hex.
      * eapply eval_ord_match_same with (c := c); eauto. rewrite Hex. reflexivity.
      * eapply eval_ord_match_same with (c := c); eauto. rewrite Hex. reflexivity.
  - destruct (item_is_empty (IEnum disc id inc vs) Ord); [|destruct (has_empty_comparable Ord vs)]; exact Hdc.
Qed.

End Ord.

(* ---------------- gluing: accepted items ---------------- *)
Lemma discriminant_parse_single attrs rvs : discriminant_parse attrs rvs = Ok DSingle -> length rvs = 1.
Proof.
  unfold discriminant_parse. destruct (Nat.eqb_spec (length rvs) 1) as [E|E]; [auto|].
  intros H. cbn [bind] in H. destruct (repr_scan attrs None) as [h| |]; cbn [bind] in H; try discriminate.
  destruct h; destruct (forallb variant_fields_empty rvs); try discriminate.
  destruct (existsb (fun v => isSome (rv_disc v)) rvs); discriminate.
Qed.

(* the known class F6: a field-less enum that Rust does not allow to be cast (`A() = 3`) *)
Definition uncastable_fieldless (r : raw_item) : bool :=
  forallb variant_fields_empty (raw_variants r) && negb (rust_castable (raw_variants r)).

Lemma gen_strategy_cast_fieldless c attrs rvs disc vs w s :
  c_nightly c = false -> discriminant_parse attrs rvs = Ok disc ->
  gen_strategy c disc vs w = Some s -> uses_cast s = true -> forallb variant_fields_empty rvs = true.
Proof.
  intros Hn Hp Hs Hu. unfold gen_strategy in Hs. rewrite Hn in Hs.
  unfold discriminant_parse in Hp. destruct (Nat.eqb (length rvs) 1); [inversion Hp; subst; discriminate|].
  cbn [bind] in Hp. destruct (repr_scan attrs None) as [h| |]; cbn [bind] in Hp; try discriminate.
  destruct (forallb variant_fields_empty rvs) eqn:Hf; [reflexivity|]. exfalso.
  destruct h.
  - inversion Hp; subst disc. destruct (c_safe c); inversion Hs; subst s; discriminate.
  - destruct (existsb (fun v => isSome (rv_disc v)) rvs); [discriminate|]. inversion Hp; subst disc. inversion Hs; subst s. discriminate.
Qed.

(* for an accepted enum the signature builder never hits its `expect` / `unreachable!` *)
Lemma gen_ord_signature_some c r i w t chk :
  from_input c r = Ok i -> exists o, gen_ord_signature c (in_item i) w t chk = Some o.
Proof.
  intros H. destruct (from_input_inv c r i H) as [ia [_ [_ [_ K]]]].
  unfold gen_ord_signature.
  destruct (item_is_incomparable (in_item i)); [eexists; reflexivity|].
  destruct (ri_kind r) as [sh fs|rvs|fs].
  - destruct K as [d [_ ->]]. destruct (item_is_empty (IItem d) t); eexists; reflexivity.
  - destruct K as [disc [pvs [fd [fi [Hvs [Hdisc [_ [_ [_ ->]]]]]]]]].
    destruct (1 <? length pvs) eqn:Hlen; [|destruct (item_is_empty _ t); eexists; reflexivity].
    apply Nat.ltb_lt in Hlen.
    destruct (filter (fun v => negb (d_incomparable v)) pvs) as [|c1 [|c2 rest]] eqn:Hf.
    + (* falls to the multi-variant branch *)
      assert (Hs : exists s, gen_strategy c disc pvs w = Some s).
      { unfold gen_strategy. destruct (c_nightly c) eqn:Hn; [eexists; reflexivity|].
        destruct disc; try (repeat match goal with |- context [if ?b then _ else _] => destruct b end; eexists; reflexivity).
        apply discriminant_parse_single in Hdisc. apply variants_discs in Hvs. lia. }
      destruct Hs as [s ->]. eexists; reflexivity.
    + destruct (existsb d_incomparable pvs) eqn:He; [eexists; reflexivity|]. exfalso.
      assert (filter (fun v => negb (d_incomparable v)) pvs = pvs).
      { apply filter_all_true. intros x Hx. destruct (d_incomparable x) eqn:E; [|reflexivity].
        assert (existsb d_incomparable pvs = true) by (apply existsb_exists; eauto). congruence. }
      rewrite H0 in Hf. rewrite Hf in Hlen. cbn in Hlen. lia.
    + assert (Hs : exists s, gen_strategy c disc pvs w = Some s).
      { unfold gen_strategy. destruct (c_nightly c) eqn:Hn; [eexists; reflexivity|].
        destruct disc; try (repeat match goal with |- context [if ?b then _ else _] => destruct b end; eexists; reflexivity).
        apply discriminant_parse_single in Hdisc. apply variants_discs in Hvs. lia. }
      destruct Hs as [s ->]. eexists; reflexivity.
  - destruct K as [d [_ ->]]. destruct (item_is_empty (IItem d) t); eexists; reflexivity.
Qed.

(* the discriminant strategy chosen for an accepted, rustc-valid enum reads Rust's discriminants *)
Lemma oracle_of_input c r i w t chk inc be s :
  from_input c r = Ok i -> valid_rust_enum r -> uncastable_fieldless r = false ->
  gen_ord_signature c (in_item i) w t chk = Some (OMulti inc be s) ->
  disc_oracle (rust_enum_of r) s (length (item_variants (in_item i))).
Proof.
  intros H V F6 Hg. destruct (from_input_inv c r i H) as [ia [_ [_ [_ K]]]].
  unfold gen_ord_signature in Hg.
  destruct (item_is_incomparable (in_item i)); [discriminate|].
  destruct (ri_kind r) as [sh fs|rvs|fs] eqn:Hk.
  - destruct K as [d [_ E]]. rewrite E in Hg. destruct (item_is_empty (IItem d) t); discriminate.
  - destruct K as [disc [pvs [fd [fi [Hvs [Hdisc [_ [_ [_ E]]]]]]]]]. rewrite E in *. cbn [item_variants].
    destruct (1 <? length pvs); [|destruct (item_is_empty _ t); discriminate].
    assert (Hs : gen_strategy c disc pvs w = Some s).
    { destruct (filter (fun v => negb (d_incomparable v)) pvs) as [|c1 [|c2 rest]];
        try (destruct (existsb d_incomparable pvs); discriminate);
        destruct (gen_strategy c disc pvs w); inversion Hg; reflexivity. }
    destruct (variants_discs _ _ _ _ _ Hvs) as [Hl Hd].
    intros k Hkk. eapply strategy_read_correct; eauto.
    + destruct (c_nightly c) eqn:Hn; [exact I|]. split; [assumption | apply Hd; reflexivity].
    + intros Hu. destruct (c_nightly c) eqn:Hn.
      * unfold gen_strategy in Hs. rewrite Hn in Hs. inversion Hs; subst s. discriminate.
      * pose proof (gen_strategy_cast_fieldless c _ _ _ _ _ _ Hn Hdisc Hs Hu) as Hfl.
        unfold uncastable_fieldless, raw_variants in F6. rewrite Hk, Hfl in F6. cbn in F6.
        destruct (rust_castable rvs); [reflexivity | discriminate].
  - destruct K as [d [_ E]]. rewrite E in Hg. destruct (item_is_empty (IItem d) t); discriminate.
Qed.

(* ---- `first field result that is not Some(Equal), including None` as a proposition (C04_first_non_equal_field) ---- *)
Theorem lex_p_first_non_equal :
  forall (fval : Type) (fpcmp : fval -> fval -> option comparison) (px py : list fval) (x y : fval) (xs ys : list fval),
    Forall2 (fun a b => fpcmp a b = Some Datatypes.Eq) px py -> fpcmp x y <> Some Datatypes.Eq ->
    lex_p fpcmp (px ++ x :: xs) (py ++ y :: ys) = fpcmp x y.
Proof.
  intros fval fpcmp px py x y xs ys F N. induction F as [|a b px py E F IH]; cbn [app lex_p].
  - destruct (fpcmp x y) as [[| |]|]; try reflexivity. exfalso. apply N. reflexivity.
  - rewrite E. exact IH.
Qed.
Theorem lex_p_all_equal :
  forall (fval : Type) (fpcmp : fval -> fval -> option comparison) (xs ys : list fval),
    Forall2 (fun a b => fpcmp a b = Some Datatypes.Eq) xs ys -> lex_p fpcmp xs ys = Some Datatypes.Eq.
Proof.
  intros fval fpcmp xs ys F. induction F as [|a b xs ys E F IH]; cbn [lex_p]; [reflexivity|]. rewrite E. exact IH.
Qed.
Theorem spec_pcmp_first_non_equal :
  forall (fval : Type) (fpcmp : fval -> fval -> option comparison) (it : item) (re : rust_enum) (a b : value fval) (d : data),
    incomparable_value it a = false -> incomparable_value it b = false ->
    v_idx a = v_idx b -> variant_of it a = Some d ->
    (forall px py x y xs ys,
       project d PartialOrd a = px ++ x :: xs -> project d PartialOrd b = py ++ y :: ys ->
       Forall2 (fun u v => fpcmp u v = Some Datatypes.Eq) px py -> fpcmp x y <> Some Datatypes.Eq ->
       spec_pcmp fpcmp it re a b = fpcmp x y) /\
    (Forall2 (fun u v => fpcmp u v = Some Datatypes.Eq) (project d PartialOrd a) (project d PartialOrd b) ->
       spec_pcmp fpcmp it re a b = Some Datatypes.Eq).
Proof.
  intros fval fpcmp it re a b d Ia Ib E Hd. unfold spec_pcmp. rewrite Ia, Ib, E, Nat.eqb_refl. cbn [orb].
  rewrite Hd. split.
  - intros px py x y xs ys Pa Pb F N. rewrite Pa, Pb. apply lex_p_first_non_equal; assumption.
  - apply lex_p_all_equal.
Qed.

(* ---- discriminant order across variants, lexicographic order within one (C04_order_sentence) ---- *)
Theorem lex_t_first_non_equal :
  forall (fval : Type) (fcmp : fval -> fval -> comparison) (px py : list fval) (x y : fval) (xs ys : list fval),
    Forall2 (fun a b => fcmp a b = Datatypes.Eq) px py -> fcmp x y <> Datatypes.Eq ->
    lex_t fcmp (px ++ x :: xs) (py ++ y :: ys) = fcmp x y.
Proof.
  intros fval fcmp px py x y xs ys F N. induction F as [|a b px py E F IH]; cbn [app lex_t].
  - destruct (fcmp x y); try reflexivity. exfalso. apply N. reflexivity.
  - rewrite E. exact IH.
Qed.
Theorem lex_t_all_equal :
  forall (fval : Type) (fcmp : fval -> fval -> comparison) (xs ys : list fval),
    Forall2 (fun a b => fcmp a b = Datatypes.Eq) xs ys -> lex_t fcmp xs ys = Datatypes.Eq.
Proof.
  intros fval fcmp xs ys F. induction F as [|a b xs ys E F IH]; cbn [lex_t]; [reflexivity|]. rewrite E. exact IH.
Qed.
Theorem spec_cmp_order :
  forall (fval : Type) (fpcmp : fval -> fval -> option comparison) (fcmp : fval -> fval -> comparison)
         (it : item) (re : rust_enum) (a b : value fval),
    (v_idx a <> v_idx b ->
       spec_cmp fcmp it re a b = Z.compare (Spec.disc_of re a) (Spec.disc_of re b) /\
       (incomparable_value it a = false -> incomparable_value it b = false ->
        spec_pcmp fpcmp it re a b = Some (Z.compare (Spec.disc_of re a) (Spec.disc_of re b)))) /\
    (forall d, v_idx a = v_idx b -> variant_of it a = Some d ->
       (forall px py x y xs ys,
          project d Ord a = px ++ x :: xs -> project d Ord b = py ++ y :: ys ->
          Forall2 (fun u v => fcmp u v = Datatypes.Eq) px py -> fcmp x y <> Datatypes.Eq ->
          spec_cmp fcmp it re a b = fcmp x y) /\
       (Forall2 (fun u v => fcmp u v = Datatypes.Eq) (project d Ord a) (project d Ord b) ->
          spec_cmp fcmp it re a b = Datatypes.Eq)).
Proof.
  intros fval fpcmp fcmp it re a b. split.
  - intros N. apply Nat.eqb_neq in N. unfold spec_cmp, spec_pcmp. rewrite N. split; [reflexivity|].
    intros Ia Ib. rewrite Ia, Ib. reflexivity.
  - intros d E Hd. unfold spec_cmp. rewrite E, Nat.eqb_refl, Hd. split.
    + intros px py x y xs ys Pa Pb F N. rewrite Pa, Pb. apply lex_t_first_non_equal; assumption.
    + apply lex_t_all_equal.
Qed.

(* ---- the operators <, <=, >, >=, != on incomparable operands (C07_operators) ---- *)
(* core::cmp::PartialOrd's provided methods lt / le / gt / ge and PartialEq's provided ne, as std defines them
   from partial_cmp and eq (derive-where emits none of them). *)
Definition std_lt (o : option comparison) : bool := match o with Some Lt => true | _ => false end.
Definition std_le (o : option comparison) : bool := match o with Some Lt | Some Datatypes.Eq => true | _ => false end.
Definition std_gt (o : option comparison) : bool := match o with Some Gt => true | _ => false end.
Definition std_ge (o : option comparison) : bool := match o with Some Gt | Some Datatypes.Eq => true | _ => false end.
Definition std_ne (e : bool) : bool := negb e.
Theorem incomparable_operators :
  forall (fval : Type) (feq : fval -> fval -> bool) (fpcmp : fval -> fval -> option comparison)
         (it : item) (re : rust_enum) (a b : value fval),
    incomparable_value it a = true \/ incomparable_value it b = true ->
    std_lt (spec_pcmp fpcmp it re a b) = false /\ std_le (spec_pcmp fpcmp it re a b) = false /\
    std_gt (spec_pcmp fpcmp it re a b) = false /\ std_ge (spec_pcmp fpcmp it re a b) = false /\
    std_ne (spec_eq feq it a b) = true.
Proof.
  intros fval feq fpcmp it re a b H.
  assert (P : spec_pcmp fpcmp it re a b = None).
  { unfold spec_pcmp. destruct H as [-> | ->]; [reflexivity | rewrite orb_true_r; reflexivity]. }
  assert (Q : spec_eq feq it a b = false).
  { unfold spec_eq. destruct (variant_of it a) as [da|] eqn:Ha; [|reflexivity].
    destruct (Nat.eqb_spec (v_idx a) (v_idx b)) as [E|E]; [|reflexivity].
    assert (Hi : incomparable_value it a = true).
    { destruct H as [H|H]; [assumption|]. unfold incomparable_value, variant_of in *. rewrite E. exact H. }
    rewrite Hi. reflexivity. }
  rewrite P, Q. repeat split; reflexivity.
Qed.
