(* Atoms.v - the templates of Render.v once more, with every token CLASSIFIED by where its meaning
   comes from: written in a template (keyword / punctuation), a path to a library item, a name
   resolved relative to such a path, a name supplied by the item, an identifier introduced by the
   expansion, a bare primitive type name, a method called with method-call syntax, a literal.
   [erase] forgets the classification; Proofs_atoms.v proves that the erasure IS the rendering of
   Render.v, so every statement about atoms is a statement about the tokens tie A compares. *)
From DW Require Export Render.

Inductive atom :=
| Kw (s : string)       (* keyword or punctuation written in a template *)
| Attr (s : string)     (* built-in attribute name *)
| APath (p : path)      (* path to a library item *)
| Assoc (s : string)    (* associated item named after a path: resolved relative to that path *)
| Def (s : string)      (* name of the trait method being defined *)
| User (s : string)     (* token supplied by the item: names, types, bounds, generics, expressions *)
| Bind (s : string)     (* identifier introduced by the expansion *)
| Prim (s : string)     (* bare primitive type name *)
| Method (s : string)   (* name looked up by method-call syntax or on a non-path type *)
| Lit (s : string).     (* string or integer literal *)

Definition erase_atom (a : atom) : toks :=
  match a with
  | APath p => path_toks p
  | Kw s | Attr s | Assoc s | Def s | User s | Bind s | Prim s | Method s | Lit s => [s]
  end.
Notation erase := (flat_map erase_atom).

Definition K (l : list string) : list atom := map Kw l.
Definition U (l : toks) : list atom := map User l.

Definition acore (segs : list string) : list atom := [APath (path_from_strs ("core" :: segs))].
Definition astd (t : trait) : list atom := [APath (trait_path (mkDT t None))].

(* ---- generics ---- *)
Definition tgparam_impl (p : gparam) : list atom :=
  match p with
  | GPLifetime n b => [Kw "'"; User n] ++ (match b with [] => [] | _ => Kw ":" :: U b end)
  | GPType n b _ => User n :: (match b with [] => [] | _ => Kw ":" :: U b end)
  | GPConst n ty _ => [Kw "const"; User n; Kw ":"] ++ U ty
  end.

Definition tgparam_ty (p : gparam) : list atom :=
  match p with
  | GPLifetime n _ => [Kw "'"; User n]
  | GPType n _ _ => [User n]
  | GPConst n _ _ => [User n]
  end.

Definition tangle (g : generics) (f : gparam -> list atom) : list atom :=
  match g_params g with
  | [] => []
  | _ => [Kw "<"] ++ intercalate [Kw ","] (map f (ordered_params g)) ++ (if g_trailing g then [Kw ","] else []) ++ [Kw ">"]
  end.

Definition timpl_generics (g : generics) : list atom := tangle g tgparam_impl.
Definition tty_generics (g : generics) : list atom := tangle g tgparam_ty.

Definition tprint_preds (ps : list (list atom)) (trailing : bool) : list atom :=
  match ps with
  | [] => []
  | _ => Kw "where" :: intercalate [Kw ","] ps ++ (if trailing then [Kw ","] else [])
  end.

Definition titem_where (g : generics) : list atom :=
  match g_where g with Some (ps, tr) => tprint_preds (map U ps) tr | None => [] end.

Definition twhere_bounds (it : item) (dt : derive_trait) : list atom :=
  [APath (trait_path dt)] ++
  (if trait_beq (dt_trait dt) Clone && item_is_union it then Kw "+" :: astd Copy else []).

Definition tgeneric_pred (it : item) (dt : derive_trait) (g : generic) : list atom :=
  match g with
  | GCustom ts => U ts
  | GNoBound ts => U ts ++ [Kw ":"] ++ twhere_bounds it dt
  end.

Definition twhere_preds (g : generics) (it : item) (w : dw) (dt : derive_trait) : list (list atom) * bool :=
  let '(ps, tr) := match g_where g with Some x => x | None => ([], false) end in
  match dw_generics w with
  | [] => (map U ps, tr)
  | gs => (map U ps ++ map (tgeneric_pred it dt) gs, false)
  end.

Definition twhere_clause (g : generics) (it : item) (w : dw) (dt : derive_trait) : list atom :=
  let '(ps, tr) := twhere_preds g it w dt in tprint_preds ps tr.

(* ---- patterns ---- *)
Definition tdpath (d : data) : list atom := intersperse (Kw "::") (U (d_path d)).

Definition tmember (m : member) : atom :=
  match m with MNamed i => User i | MUnnamed n => Lit (string_of_nat n) end.

Definition tbinding (mutb : bool) (name : tok) : list atom := Kw "ref" :: (if mutb then [Kw "mut"] else []) ++ [Bind name].

Definition tpattern_gen (mutb : bool) (name_of : field -> tok) (d : data) : list atom :=
  match d_shape d with
  | ShStruct | ShUnion =>
      tdpath d ++ [Kw "{"] ++
      intercalate [Kw ","] (map (fun f => [tmember (f_member f); Kw ":"] ++ tbinding mutb (name_of f)) (d_fields d))
      ++ [Kw "}"]
  | ShTuple =>
      tdpath d ++ [Kw "("] ++ intercalate [Kw ","] (map (fun f => tbinding mutb (name_of f)) (d_fields d)) ++ [Kw ")"]
  | ShUnit => tdpath d
  end.

Definition tself_pattern := tpattern_gen false self_ident.
Definition tother_pattern := tpattern_gen false other_ident.
Definition tself_pattern_mut := tpattern_gen true self_ident.

Definition tinc_pat (d : data) : list atom :=
  match d_shape d with
  | ShStruct => tdpath d ++ K ["{"; ".."; "}"]
  | ShTuple => tdpath d ++ K ["("; ".."; ")"]
  | _ => tdpath d
  end.

Definition tinc_pattern (vs : list data) (inc : list bool) : option (list atom) :=
  match map (fun p => tinc_pat (fst p)) (filter snd (with_all vs inc)) with
  | [] => None
  | ps => Some (intercalate [Kw "|"] ps)
  end.

(* `self` / `__other` / `__this`: the receiver keyword or a binder of the expansion *)
Definition twhat (what : tok) : atom := if String.eqb what "self" then Kw what else Bind what.

Definition tmatches_ (what : tok) (pat : list atom) : list atom :=
  [APath (mkPath true ["core"; "matches"]); Kw "!"; Kw "("; twhat what; Kw ","] ++ pat ++ [Kw ")"].

Definition tdisc_of (what : tok) : list atom := acore ["mem"; "discriminant"] ++ [Kw "("; twhat what; Kw ")"].

Definition trender_rest (r : rest) (equal : list atom) : list atom :=
  match r with
  | RTrue => [Kw "true"]
  | REqual => equal
  | RUnreachableUnchecked => [Kw "unsafe"; Kw "{"] ++ acore ["hint"; "unreachable_unchecked"] ++ K ["("; ")"; "}"]
  | RUnreachablePanic =>
      [APath (mkPath true ["core"; "unreachable"]); Kw "!"; Kw "("; Lit (str_lit "comparing variants yielded unexpected results"); Kw ")"]
  end.

(* ---- Clone ---- *)
Definition tclone_call (d : data) (i : nat) : list atom :=
  astd Clone ++ [Kw "::"; Assoc "clone"; Kw "("; Bind (self_id d i); Kw ")"].

Definition trender_clone_arm (p : data * arm) : list atom :=
  let '(d, a) := p in
  match d_shape d with
  | ShStruct | ShUnion =>
      tself_pattern d ++ [Kw "=>"] ++ tdpath d ++ [Kw "{"] ++
      intercalate [Kw ","] (map (fun i => [tmember (f_member (field_at d i)); Kw ":"] ++ tclone_call d i) a)
      ++ K ["}"; ","]
  | ShTuple =>
      tself_pattern d ++ [Kw "=>"] ++ tdpath d ++ [Kw "("] ++
      intercalate [Kw ","] (map (fun i => tclone_call d i) a)
      ++ K [")"; ","]
  | ShUnit => tdpath d ++ [Kw "=>"] ++ tdpath d ++ [Kw ","]
  end.

Definition tclone_sig (inner : list atom) : list atom :=
  [Kw "#"; Kw "["; Attr "inline"; Kw "]"; Kw "fn"; Def "clone"] ++ K ["("; "&"; "self"; ")"; "->"; "Self"; "{"] ++ inner ++ [Kw "}"].

Definition tassert_struct (name : tok) (bound : list atom) : list atom :=
  [Kw "struct"; Bind name; Kw "<"; Bind "__T"; Kw ":"] ++ bound ++ K ["+"; "?"] ++ acore ["marker"; "Sized"] ++
  K [">"; "("] ++ acore ["marker"; "PhantomData"] ++ [Kw "<"; Bind "__T"; Kw ">"; Kw ")"; Kw ";"].

Definition trender_clone (vs : list data) (b : clone_body) : list atom :=
  match b with
  | CCopy => tclone_sig (K ["*"; "self"])
  | CUnion =>
      tclone_sig (tassert_struct "__AssertCopy" (astd Copy) ++
                  [Kw "let"; Kw "_"; Kw ":"; Bind "__AssertCopy"; Kw "<"; Kw "Self"; Kw ">"; Kw ";"; Kw "*"; Kw "self"])
  | CMatch arms => tclone_sig (K ["match"; "self"; "{"] ++ flat_map trender_clone_arm (with_arms vs arms) ++ [Kw "}"])
  end.

(* ---- Debug ---- *)
Definition afmt (segs : list string) : list atom := acore ("fmt" :: segs).

Definition tbuilder_args : list atom := [Kw "("; Kw "&"; Kw "mut"; Bind "__builder"].

Definition trender_debug_arm (p : data * dbg_arm) : list atom :=
  let '(d, a) := p in
  let name := Lit (str_lit (unraw (d_ident d))) in
  match d_shape d with
  | ShStruct | ShUnion =>
      tself_pattern d ++ [Kw "=>"; Kw "{"; Kw "let"; Kw "mut"; Bind "__builder"; Kw "="] ++ afmt ["Formatter"; "debug_struct"] ++
      [Kw "("; Bind "__f"; Kw ","; name; Kw ")"; Kw ";"] ++
      flat_map (fun i => afmt ["DebugStruct"; "field"] ++
                         tbuilder_args ++ [Kw ","; Lit (str_lit (member_display (f_member (field_at d i)))); Kw ","; Bind (self_id d i); Kw ")"; Kw ";"])
               (da_fields a) ++
      afmt ["DebugStruct"; if da_non_exhaustive a then "finish_non_exhaustive" else "finish"] ++
      tbuilder_args ++ [Kw ")"; Kw "}"]
  | ShTuple =>
      tself_pattern d ++ [Kw "=>"; Kw "{"; Kw "let"; Kw "mut"; Bind "__builder"; Kw "="] ++ afmt ["Formatter"; "debug_tuple"] ++
      [Kw "("; Bind "__f"; Kw ","; name; Kw ")"; Kw ";"] ++
      flat_map (fun i => afmt ["DebugTuple"; "field"] ++ tbuilder_args ++ [Kw ","; Bind (self_id d i); Kw ")"; Kw ";"])
               (da_fields a) ++
      afmt ["DebugTuple"; "finish"] ++ tbuilder_args ++ [Kw ")"; Kw "}"]
  | ShUnit =>
      tdpath d ++ [Kw "=>"] ++ afmt ["Formatter"; "write_str"] ++ [Kw "("; Bind "__f"; Kw ","; name; Kw ")"; Kw ","]
  end.

Definition trender_debug (vs : list data) (arms : list dbg_arm) : list atom :=
  [Kw "fn"; Def "fmt"; Kw "("; Kw "&"; Kw "self"; Kw ","; Bind "__f"; Kw ":"; Kw "&"; Kw "mut"] ++ afmt ["Formatter"] ++
  K ["<"; "'"; "_"; ">"; ")"; "->"] ++
  afmt ["Result"] ++ K ["{"; "match"; "self"; "{"] ++ flat_map trender_debug_arm (with_all vs arms) ++ K ["}"; "}"].

(* ---- Default ---- *)
Definition tdefault_call : list atom := astd Default ++ [Kw "::"; Assoc "default"; Kw "("; Kw ")"].

Definition trender_default_ctor (p : data * arm) : list atom :=
  let '(d, a) := p in
  match d_shape d with
  | ShStruct | ShUnion =>
      tdpath d ++ [Kw "{"] ++
      intercalate [Kw ","] (map (fun i => [tmember (f_member (field_at d i)); Kw ":"] ++ tdefault_call) a) ++ [Kw "}"]
  | ShTuple => tdpath d ++ [Kw "("] ++ intercalate [Kw ","] (map (fun _ => tdefault_call) a) ++ [Kw ")"]
  | ShUnit => tdpath d
  end.

Definition trender_default (vs : list data) (ctors : list (option arm)) : list atom :=
  [Kw "fn"; Def "default"] ++ K ["("; ")"; "->"; "Self"; "{"] ++ flat_map trender_default_ctor (with_arms vs ctors) ++ [Kw "}"].

(* ---- Eq ---- *)
Definition trender_eq_asserts (vs : list data) (asserts : list arm) : list atom :=
  [Kw "#"; Kw "["; Attr "inline"; Kw "]"; Kw "fn"; Def "assert_receiver_is_total_eq"] ++ K ["("; "&"; "self"; ")"; "{"] ++
  tassert_struct "__AssertEq" (astd Eq) ++
  flat_map (fun p => flat_map (fun i => [Kw "let"; Kw "_"; Kw ":"; Bind "__AssertEq"; Kw "<"] ++ U (f_ty (field_at (fst p) i)) ++ K [">"; ";"]) (snd p))
           (with_all vs asserts) ++
  [Kw "}"].

(* ---- Hash ---- *)
Definition thash_call (arg : list atom) : list atom :=
  astd Hash ++ [Kw "::"; Assoc "hash"; Kw "("] ++ arg ++ [Kw ","; Bind "__state"; Kw ")"; Kw ";"].

Definition trender_hash_arm (p : data * hash_arm) : list atom :=
  let '(d, a) := p in
  tself_pattern d ++ K ["=>"; "{"] ++
  (if ha_disc a then thash_call (Kw "&" :: tdisc_of "self") else []) ++
  flat_map (fun i => thash_call [Bind (self_id d i)]) (ha_fields a) ++ [Kw "}"].

Definition trender_hash (vs : list data) (arms : list hash_arm) : list atom :=
  [Kw "fn"; Def "hash"; Kw "<"; Bind "__H"; Kw ":"] ++ acore ["hash"; "Hasher"] ++
  [Kw ">"; Kw "("; Kw "&"; Kw "self"; Kw ","; Bind "__state"; Kw ":"; Kw "&"; Kw "mut"; Bind "__H"; Kw ")"; Kw "{"; Kw "match"; Kw "self"; Kw "{"] ++
  flat_map trender_hash_arm (with_all vs arms) ++ K ["}"; "}"].

(* ---- PartialEq ---- *)
Definition trender_eq_arm (p : data * arm) : list atom :=
  let '(d, a) := p in
  [Kw "("] ++ tself_pattern d ++ [Kw ","] ++ tother_pattern d ++ K [")"; "=>"; "true"] ++
  flat_map (fun i => [Kw "&&"] ++ astd PartialEq ++ [Kw "::"; Assoc "eq"; Kw "("; Bind (self_id d i); Kw ","; Bind (other_id d i); Kw ")"]) a ++ [Kw ","].

Definition tdisc_test : list atom := [Kw "if"] ++ tdisc_of "self" ++ [Kw "=="] ++ tdisc_of "__other".

Definition tself_other : list atom := [Kw "match"; Kw "("; Kw "self"; Kw ","; Bind "__other"; Kw ")"; Kw "{"].

Definition trender_partial_eq (vs : list data) (b : eq_body) : list atom :=
  [Kw "#"; Kw "["; Attr "inline"; Kw "]"; Kw "fn"; Def "eq"; Kw "("; Kw "&"; Kw "self"; Kw ","; Bind "__other"; Kw ":"; Kw "&"; Kw "Self"; Kw ")"; Kw "->"; Prim "bool"; Kw "{"] ++
  match b with
  | EqFalse => [Kw "false"]
  | EqTrue => [Kw "true"]
  | EqDisc arms inc r =>
      tdisc_test ++ [Kw "{"] ++ tself_other ++
      flat_map trender_eq_arm (with_arms vs arms) ++
      (match tinc_pattern vs inc with Some p => [Kw "("] ++ p ++ K [","; ".."; ")"; "=>"; "false"; ","] | None => [] end) ++
      K ["_"; "=>"] ++ trender_rest r [] ++ K [","; "}"; "}"; "else"; "{"; "false"; "}"]
  | EqDiscAllEmpty inc =>
      tdisc_test ++ [Kw "{"] ++
      (match tinc_pattern vs inc with
       | Some p => [Kw "if"] ++ tmatches_ "self" p ++ K ["{"; "return"; "false"; ";"; "}"]
       | None => [] end) ++
      K ["true"; "}"; "else"; "{"; "false"; "}"]
  | EqMatch arms =>
      tself_other ++ flat_map trender_eq_arm (with_arms vs arms) ++ [Kw "}"]
  end ++ [Kw "}"].

(* ---- PartialOrd / Ord ---- *)
Definition tordering_equal : list atom := acore ["cmp"; "Ordering"; "Equal"].
Definition toption_some (x : list atom) : list atom := acore ["option"; "Option"; "Some"] ++ [Kw "("] ++ x ++ [Kw ")"].
Definition toption_none : list atom := acore ["option"; "Option"; "None"].

Definition tequal_of (t : trait) : list atom :=
  match t with PartialOrd => toption_some tordering_equal | _ => tordering_equal end.

Fixpoint trender_ord_fields (t : trait) (d : data) (a : arm) : list atom :=
  match a with
  | [] => tequal_of t
  | i :: rest =>
      [Kw "match"] ++ astd t ++ [Kw "::"; Assoc (method_of t); Kw "("; Bind (self_id d i); Kw ","; Bind (other_id d i); Kw ")"; Kw "{"] ++
      tequal_of t ++ [Kw "=>"] ++ trender_ord_fields t d rest ++ [Kw ","; Bind "__cmp"; Kw "=>"; Bind "__cmp"; Kw ","; Kw "}"]
  end.

Definition trender_ord_arm (t : trait) (p : data * arm) : list atom :=
  let '(d, a) := p in
  [Kw "("] ++ tself_pattern d ++ [Kw ","] ++ tother_pattern d ++ K [")"; "=>"] ++ trender_ord_fields t d a ++ [Kw ","].

Definition trender_ord_match (t : trait) (vs : list data) (m : ord_match) : list atom :=
  tself_other ++ flat_map (trender_ord_arm t) (with_arms vs (om_arms m)) ++
  K ["_"; "=>"] ++ trender_rest (om_rest m) (tequal_of t) ++ K [","; "}"].

Definition trender_dexpr (e : dexpr) : list atom :=
  match e with
  | DExplicit ts _ => U ts
  | DPlus ts _ k => [Kw "("] ++ U ts ++ [Kw ")"; Kw "+"; Lit (string_of_nat k)]
  | DLit k => [Lit (string_of_nat k)]
  end.

Definition trender_validate (vs : list data) (table : list dexpr) : list atom :=
  flat_map (fun p => [Kw "const"; Bind (validate_name (fst p)); Kw ":"; Prim "isize"; Kw "="] ++ trender_dexpr (snd p) ++ [Kw ";"]) (with_all vs table).

Definition tcmp_call (t : trait) (a b : list atom) (trailing : bool) : list atom :=
  astd t ++ [Kw "::"; Assoc (method_of t); Kw "("; Kw "&"] ++ a ++ [Kw ","; Kw "&"] ++ b ++ (if trailing then [Kw ","] else []) ++ [Kw ")"].

Definition trender_strategy (t : trait) (g : generics) (it : item) (vs : list data) (s : strategy) : list atom :=
  match s with
  | SCast via ty validate =>
      let cast what :=
        match via with
        | ViaCopy => [Kw "("; Kw "*"; twhat what; Kw "as"; Prim (repr_tok ty); Kw ")"]
        | ViaClone => [Kw "("] ++ astd Clone ++ [Kw "::"; Assoc "clone"; Kw "("; twhat what; Kw ")"; Kw "as"; Prim (repr_tok ty); Kw ")"]
        end in
      (match validate with Some table => trender_validate vs table | None => [] end) ++
      tcmp_call t (cast "self") (cast "__other") false
  | SConstFn ty validate table =>
      [Kw "const"; Kw "fn"; Bind "__discriminant"] ++ timpl_generics g ++ [Kw "("; Bind "__this"; Kw ":"; Kw "&"; User (item_ident it)] ++ tty_generics g ++
      [Kw ")"; Kw "->"; Prim (repr_tok ty)] ++ titem_where g ++ [Kw "{"] ++
      (if validate then trender_validate vs table else []) ++
      [Kw "match"; Bind "__this"; Kw "{"] ++
      intercalate [Kw ","] (map (fun p => tself_pattern (fst p) ++ [Kw "=>"] ++
                                          (if validate then [Bind (validate_name (fst p))] else trender_dexpr (snd p)))
                                (with_all vs table)) ++
      K ["}"; "}"] ++
      tcmp_call t [Bind "__discriminant"; Kw "("; Kw "self"; Kw ")"] [Bind "__discriminant"; Kw "("; Bind "__other"; Kw ")"] false
  | SPtrRead r =>
      let rd what := [Kw "unsafe"; Kw "{"; Kw "*"; Kw "<"; Kw "*"; Kw "const"; Kw "_"; Kw ">"; Kw "::"; Method "from"; Kw "("; twhat what; Kw ")"; Kw ".";
                      Method "cast"; Kw "::"; Kw "<"; Prim (repr_name r); Kw ">"; Kw "("; Kw ")"; Kw "}"] in
      tcmp_call t (rd "self") (rd "__other") true
  | SIntrinsic =>
      let dv what := acore ["intrinsics"; "discriminant_value"] ++ [Kw "("; twhat what; Kw ")"] in
      tcmp_call t (dv "self") (dv "__other") true
  end.

Definition tinc_guard (vs : list data) (inc : list bool) (then_ : list atom) : list atom :=
  match tinc_pattern vs inc with
  | Some p => [Kw "if"] ++ tmatches_ "self" p ++ [Kw "||"] ++ tmatches_ "__other" p ++ [Kw "{"] ++ then_ ++ [Kw "}"]
  | None => []
  end.

Definition trender_ord_body (c : cfg) (t : trait) (g : generics) (it : item) (b : ord_body) : list atom :=
  let vs := item_variants it in
  match b with
  | ONone => toption_none
  | OViaOrd => toption_some (astd Ord ++ [Kw "::"; Assoc "cmp"; Kw "("; Kw "self"; Kw ","; Bind "__other"; Kw ")"])
  | OEqual => tequal_of t
  | OMatch arms =>
      tself_other ++ flat_map (trender_ord_arm t) (with_arms vs arms) ++ [Kw "}"]
  | OSingle inc eq =>
      tinc_guard vs inc toption_none ++ K ["else"; "{"] ++
      (match eq with Some m => trender_ord_match t vs m | None => tequal_of t end) ++ [Kw "}"]
  | OMulti inc body_equal s =>
      tinc_guard vs inc ([Kw "return"] ++ toption_none ++ [Kw ";"]) ++
      match body_equal with
      | Some m =>
          let dv what := if c_nightly c then acore ["intrinsics"; "discriminant_value"] ++ [Kw "("; twhat what; Kw ")"]
                         else tdisc_of what in
          [Kw "let"; Bind "__self_disc"; Kw "="] ++ dv "self" ++ [Kw ";"; Kw "let"; Bind "__other_disc"; Kw "="] ++ dv "__other" ++
          [Kw ";"; Kw "if"; Bind "__self_disc"; Kw "=="; Bind "__other_disc"; Kw "{"] ++ trender_ord_match t vs m ++ K ["}"; "else"; "{"] ++
          (if c_nightly c then tcmp_call t [Bind "__self_disc"] [Bind "__other_disc"] false
           else trender_strategy t g it vs s) ++ [Kw "}"]
      | None => trender_strategy t g it vs s
      end
  end.

Definition tcmp_sig (name : string) : list atom :=
  [Kw "#"; Kw "["; Attr "inline"; Kw "]"; Kw "fn"; Def name; Kw "("; Kw "&"; Kw "self"; Kw ","; Bind "__other"; Kw ":"; Kw "&"; Kw "Self"; Kw ")"; Kw "->"].

Definition trender_partial_ord (c : cfg) (g : generics) (it : item) (b : ord_body) : list atom :=
  tcmp_sig "partial_cmp" ++
  acore ["option"; "Option"] ++ [Kw "<"] ++ acore ["cmp"; "Ordering"] ++ K [">"; "{"] ++
  trender_ord_body c PartialOrd g it b ++ [Kw "}"].

Definition trender_ord (c : cfg) (g : generics) (it : item) (b : ord_body) : list atom :=
  tcmp_sig "cmp" ++
  acore ["cmp"; "Ordering"] ++ [Kw "{"] ++ trender_ord_body c Ord g it b ++ [Kw "}"].

(* ---- Zeroize / ZeroizeOnDrop ---- *)
Definition twild_arm (d : data) : list atom := tinc_pat d ++ K ["=>"; "{"; "}"].

Definition trender_zeroize_arm (dt : derive_trait) (p : data * zarm) : list atom :=
  let '(d, a) := p in
  match a with
  | ZWild => twild_arm d
  | ZFields fs =>
      tself_pattern_mut d ++ K ["=>"; "{"] ++
      flat_map (fun q : nat * bool =>
                  if snd q then [APath (trait_path dt); Kw "::"; Assoc "zeroize"; Kw "("; Bind (self_id d (fst q)); Kw ")"; Kw ";"]
                  else [Bind (self_id d (fst q)); Kw "."; Method "zeroize"; Kw "("; Kw ")"; Kw ";"]) fs ++ [Kw "}"]
  end.

Definition trender_zeroize (dt : derive_trait) (vs : list data) (b : zeroize_body) : list atom :=
  [Kw "fn"; Def "zeroize"] ++ K ["("; "&"; "mut"; "self"; ")"; "{"] ++
  match b with
  | ZEmpty => []
  | ZMatch arms =>
      [Kw "use"; APath (trait_path dt)] ++ K [";"; "match"; "self"; "{"] ++
      flat_map (trender_zeroize_arm dt) (with_all vs arms) ++ [Kw "}"]
  end ++ [Kw "}"].

Definition trender_drop_arm (p : data * darm) : list atom :=
  let '(d, a) := p in
  match a with
  | DWild => twild_arm d
  | DFields fs =>
      tself_pattern_mut d ++ K ["=>"; "{"] ++
      flat_map (fun i => [Bind (self_id d i); Kw "."; Method "zeroize_or_on_drop"; Kw "("; Kw ")"; Kw ";"]) fs ++ [Kw "}"]
  end.

Definition trender_drop (dt : derive_trait) (vs : list data) (b : drop_body) : list atom :=
  [Kw "fn"; Def "drop"] ++ K ["("; "&"; "mut"; "self"; ")"; "{"] ++
  match b with
  | DrEmpty => []
  | DrDelegate arms =>
      flat_map (fun e : bool => if e then [APath (path_from_root_and_strs (trait_crate dt) ["Zeroize"]);
                                           Kw "::"; Assoc "zeroize"; Kw "("; Kw "self"; Kw ")"; Kw ";"] else []) arms
  | DrMatch arms =>
      [Kw "use"; APath (path_from_root_and_strs (trait_crate dt) ["__internal"; "AssertZeroize"]);
       Kw ";"; Kw "use"; APath (path_from_root_and_strs (trait_crate dt) ["__internal"; "AssertZeroizeOnDrop"])] ++
      K [";"; "match"; "self"; "{"] ++ flat_map trender_drop_arm (with_all vs arms) ++ [Kw "}"]
  end ++ [Kw "}"].

(* ---- generate_impl ---- *)
Definition trender_body (c : cfg) (g : generics) (it : item) (dt : derive_trait) (b : body) : list atom :=
  let vs := item_variants it in
  match b with
  | BClone b => trender_clone vs b
  | BCopy => []
  | BDebug arms => trender_debug vs arms
  | BDefault ctors => trender_default vs ctors
  | BEq asserts => trender_eq_asserts vs asserts
  | BHash arms => trender_hash vs arms
  | BPartialEq b => trender_partial_eq vs b
  | BPartialOrd b => trender_partial_ord c g it b
  | BOrd b => trender_ord c g it b
  | BZeroize b => trender_zeroize dt vs b
  | BDrop b => trender_drop dt vs b
  | BPanic _ => [Lit "<panic>"]
  end.

Definition timpl_header (g : generics) (it : item) (w : dw) (dt : derive_trait) (p : path) : list atom :=
  [Kw "#"; Kw "["; Attr "automatically_derived"; Kw "]"; Kw "impl"] ++ timpl_generics g ++ [APath p] ++
  [Kw "for"; User (item_ident it)] ++ tty_generics g ++ twhere_clause g it w dt.

(* all atoms of one generated impl, in the order of [impl_toks] *)
Definition timpl (c : cfg) (i : input) (w : dw) (dt : derive_trait) : list atom :=
  let g := in_generics i in
  let it := in_item i in
  timpl_header g it w dt (impl_path dt) ++ [Kw "{"] ++
  trender_body c g it dt (gen_body c it w dt) ++ [Kw "}"] ++
  (if trait_beq (dt_trait dt) ZeroizeOnDrop && c_zod c
   then timpl_header g it w dt (trait_path dt) ++ K ["{"; "}"] else []).
