(* Proofs_cfg.v - how the front end depends on the feature configuration (C13):
   only on the zeroize flag (which names are known) and, for enums, on nightly
   (whether #[repr] is inspected and discriminants are recorded). *)
From DW Require Export Proofs_reject Proofs_laws.
Open Scope nat_scope.

Lemma mapM_ext {E A B} (f g : A -> result E B) l : (forall x, f x = g x) -> mapM f l = mapM g l.
Proof. intros H. induction l as [|x l IH]; cbn; [reflexivity|]. rewrite H, IH. reflexivity. Qed.

Lemma foldM_ext {E A S} (f g : S -> A -> result E S) l : (forall s x, f s x = g s x) -> forall s, foldM f l s = foldM g l s.
Proof. intros H. induction l as [|x l IH]; intros s; cbn; [reflexivity|]. rewrite H. destruct (g s x); cbn; auto. Qed.

Section Cfg.
Variables c1 c2 : cfg.
Hypothesis Hz : c_zeroize c1 = c_zeroize c2.

Lemma trait_from_path_cfg p : trait_from_path c1 p = trait_from_path c2 p.
Proof. unfold trait_from_path. rewrite Hz. reflexivity. Qed.

Lemma from_stream_cfg u m : from_stream c1 u m = from_stream c2 u m.
Proof. unfold from_stream. destruct m; rewrite ?trait_from_path_cfg; reflexivity. Qed.

Lemma from_attr_cfg u elems semi : from_attr c1 u elems semi = from_attr c2 u elems semi.
Proof. unfold from_attr. rewrite (mapM_ext (from_stream c1 u) (from_stream c2 u)) by (apply from_stream_cfg). reflexivity. Qed.

Lemma skip_group_from_path_cfg p : skip_group_from_path c1 p = skip_group_from_path c2 p.
Proof. unfold skip_group_from_path. rewrite Hz. reflexivity. Qed.

Lemma skip_add_groups_cfg dws parent ms : forall gs, skip_add_groups c1 dws parent ms gs = skip_add_groups c2 dws parent ms gs.
Proof.
  induction ms as [|m ms IH]; intros gs; cbn; [reflexivity|]. destruct m; try reflexivity.
  rewrite skip_group_from_path_cfg. destruct (skip_group_from_path c2 p); cbn; try reflexivity.
  destruct (existsb (group_beq a) gs); [reflexivity|]. destruct (match parent with Some s => group_skipped s a | None => false end); [reflexivity|].
  destruct (existsb _ dws); [apply IH | reflexivity].
Qed.

Lemma skip_add_attribute_cfg dws parent m s : skip_add_attribute c1 dws parent m s = skip_add_attribute c2 dws parent m s.
Proof.
  unfold skip_add_attribute. destruct m; try reflexivity. destruct (non_empty_metas2 args); cbn; try reflexivity.
  destruct s; try reflexivity; rewrite skip_add_groups_cfg; reflexivity.
Qed.

Lemma field_attr_from_attrs_cfg dws parent attrs : field_attr_from_attrs c1 dws parent attrs = field_attr_from_attrs c2 dws parent attrs.
Proof.
  unfold field_attr_from_attrs. apply foldM_ext. intros st a. unfold field_add_attr. destruct a; [|reflexivity].
  destruct (non_empty_metas1 a); cbn; try reflexivity. apply foldM_ext. intros s m. unfold field_add_meta.
  rewrite skip_add_attribute_cfg, Hz. reflexivity.
Qed.

Lemma fields_from_cfg dws parent named fs : fields_from c1 dws parent named fs = fields_from c2 dws parent named fs.
Proof. unfold fields_from. apply mapM_ext. intros [i rf]. unfold field_from. rewrite field_attr_from_attrs_cfg. reflexivity. Qed.

Lemma variant_attr_from_attrs_cfg dws v : variant_attr_from_attrs c1 dws v = variant_attr_from_attrs c2 dws v.
Proof.
  unfold variant_attr_from_attrs. apply foldM_ext. intros st a. unfold variant_add_attr. destruct a; [|reflexivity].
  destruct (non_empty_metas1 a); cbn; try reflexivity. apply foldM_ext. intros s m. unfold variant_add_meta.
  rewrite skip_add_attribute_cfg. reflexivity.
Qed.

Lemma data_from_struct_cfg dws sk inc id sh fs : data_from_struct c1 dws sk inc id sh fs = data_from_struct c2 dws sk inc id sh fs.
Proof. unfold data_from_struct. rewrite !fields_from_cfg. reflexivity. Qed.

Lemma data_from_union_cfg dws sk inc id fs : data_from_union c1 dws sk inc id fs = data_from_union c2 dws sk inc id fs.
Proof. unfold data_from_union. rewrite fields_from_cfg. reflexivity. Qed.

Lemma item_attr_from_attrs_cfg e u attrs : item_attr_from_attrs c1 e u attrs = item_attr_from_attrs c2 e u attrs.
Proof.
  unfold item_attr_from_attrs.
  rewrite (foldM_ext (item_add_attr c1 e u) (item_add_attr c2 e u)).
  - destruct (foldM (item_add_attr c2 e u) attrs _); cbn; try reflexivity. destruct (ia_dws a); [reflexivity|].
    destruct (existsb _ _); [reflexivity|]. destruct (has_cross_dup _); [reflexivity|].
    rewrite (foldM_ext (fun s m => skip_add_attribute c1 _ None m s) (fun s m => skip_add_attribute c2 _ None m s)) by (intros; apply skip_add_attribute_cfg).
    reflexivity.
  - intros st a. unfold item_add_attr. destruct a as [[ts|elems semi]|r|p ts]; try reflexivity. rewrite from_attr_cfg. reflexivity.
Qed.

(* the parsed variant, up to whether the explicit discriminant was recorded *)
Definition strip_disc (d : data) : data :=
  mkData (d_skip_inner d) (d_incomparable d) (d_ident d) (d_path d) (d_shape d) (d_fields d) (d_is_variant d) (d_default d) None.

Lemma data_from_variant_cfg id dws v :
  match data_from_variant c1 id dws v, data_from_variant c2 id dws v with
  | Ok d1, Ok d2 => strip_disc d1 = strip_disc d2
  | Err e1, Err e2 => e1 = e2
  | Panic _, Panic _ => True
  | _, _ => False
  end.
Proof.
  unfold data_from_variant. rewrite variant_attr_from_attrs_cfg. destruct (variant_attr_from_attrs c2 dws v) as [va|e|s]; cbn [bind]; [|reflexivity|exact I].
  destruct (rv_shape v).
  - rewrite fields_from_cfg. destruct (fields_from c2 dws (va_skip_inner va) true (rv_fields v)); cbn [bind]; [reflexivity | reflexivity | exact I].
  - rewrite fields_from_cfg. destruct (fields_from c2 dws (va_skip_inner va) false (rv_fields v)); cbn [bind]; [reflexivity | reflexivity | exact I].
  - reflexivity.
Qed.

End Cfg.

(* ---- results do not look at the recorded discriminants ---- *)
Definition same_shape (it1 it2 : item) : Prop :=
  item_inc_flag it1 = item_inc_flag it2 /\ item_is_enum it1 = item_is_enum it2 /\
  map strip_disc (item_variants it1) = map strip_disc (item_variants it2).

Lemma project_strip {fval} d t (v : value fval) : project (strip_disc d) t v = project d t v.
Proof. reflexivity. Qed.

Section Shape.
Context {fval hval : Type}.
Variable feq : fval -> fval -> bool.
Variable fpcmp : fval -> fval -> option comparison.
Variable fcmp : fval -> fval -> comparison.
Variable fhash : fval -> hval.

Lemma variant_of_shape it1 it2 (v : value fval) :
  same_shape it1 it2 -> option_map strip_disc (variant_of it1 v) = option_map strip_disc (variant_of it2 v).
Proof. intros [_ [_ H]]. unfold variant_of. rewrite <- !nth_error_map', H. reflexivity. Qed.

Lemma incomparable_value_shape it1 it2 (v : value fval) : same_shape it1 it2 -> incomparable_value it1 v = incomparable_value it2 v.
Proof.
  intros S. pose proof (variant_of_shape it1 it2 v S) as H. destruct S as [F _]. unfold incomparable_value. rewrite F.
  destruct (variant_of it1 v), (variant_of it2 v); cbn in H; try discriminate; [|reflexivity]. inversion H. reflexivity.
Qed.

Theorem spec_shape it1 it2 re (a b : value fval) :
  same_shape it1 it2 ->
  spec_eq feq it1 a b = spec_eq feq it2 a b /\
  spec_pcmp fpcmp it1 re a b = spec_pcmp fpcmp it2 re a b /\
  spec_cmp fcmp it1 re a b = spec_cmp fcmp it2 re a b /\
  spec_hash fhash it1 a = spec_hash fhash it2 a /\
  spec_debug it1 a = spec_debug it2 a /\
  spec_zeroize it1 a = spec_zeroize it2 a.
Proof.
  intros S. pose proof (variant_of_shape it1 it2 a S) as Ha.
  pose proof (incomparable_value_shape it1 it2 a S) as Ia. pose proof (incomparable_value_shape it1 it2 b S) as Ib.
  destruct S as [_ [Fe _]].
  unfold spec_eq, spec_pcmp, spec_cmp, spec_hash, spec_debug, spec_zeroize. rewrite Ia, Ib, Fe.
  destruct (variant_of it1 a) as [d1|], (variant_of it2 a) as [d2|]; cbn in Ha; try discriminate; [|repeat split; reflexivity].
  assert (Hs : strip_disc d1 = strip_disc d2) by congruence. clear Ha.
  assert (P : forall t (v : value fval), project d1 t v = project d2 t v) by (intros t v; change (project d1 t v) with (project (strip_disc d1) t v); change (project d2 t v) with (project (strip_disc d2) t v); rewrite Hs; reflexivity).
  assert (F : d_fields d1 = d_fields d2) by (apply (f_equal d_fields) in Hs; exact Hs).
  assert (Sk : d_skip_inner d1 = d_skip_inner d2) by (apply (f_equal d_skip_inner) in Hs; exact Hs).
  assert (Sh : d_shape d1 = d_shape d2) by (apply (f_equal d_shape) in Hs; exact Hs).
  assert (Id : d_ident d1 = d_ident d2) by (apply (f_equal d_ident) in Hs; exact Hs).
  assert (V : forall t f, visible d1 t f = visible d2 t f) by (intros; unfold visible; rewrite Sk; reflexivity).
  rewrite !P. repeat split; try reflexivity.
  - rewrite F, Sh, Id. rewrite (filter_ext_in' _ (fun p => visible d2 Debug (fst p))) by (intros; apply V). reflexivity.
  - rewrite F. rewrite (filter_ext_in' _ (fun p => visible d2 Zeroize (snd p))) by (intros; apply V). reflexivity.
Qed.

End Shape.

(* ---- accepted under two configurations that agree on zeroize: same attributes, same shape ---- *)
Theorem from_input_shape c1 c2 r i1 i2 :
  c_zeroize c1 = c_zeroize c2 -> from_input c1 r = Ok i1 -> from_input c2 r = Ok i2 ->
  in_dws i1 = in_dws i2 /\ in_generics i1 = in_generics i2 /\ same_shape (in_item i1) (in_item i2).
Proof.
  intros Hz H1 H2.
  destruct (from_input_inv c1 r i1 H1) as [ia1 [Hia1 [Ed1 [Eg1 K1]]]].
  destruct (from_input_inv c2 r i2 H2) as [ia2 [Hia2 [Ed2 [Eg2 K2]]]].
  rewrite (item_attr_from_attrs_cfg c1 c2 Hz) in Hia1. assert (ia1 = ia2) by congruence. subst ia2.
  split; [congruence|]. split; [congruence|].
  destruct (ri_kind r) as [sh fs|rvs|fs].
  - destruct K1 as [d1 [Hd1 ->]], K2 as [d2 [Hd2 ->]]. rewrite (data_from_struct_cfg c1 c2 Hz) in Hd1.
    assert (d1 = d2) by congruence. subst. repeat split.
  - destruct K1 as [disc1 [vs1 [fd1 [fi1 [Hv1 [_ [_ [_ [_ ->]]]]]]]]], K2 as [disc2 [vs2 [fd2 [fi2 [Hv2 [_ [_ [_ [_ ->]]]]]]]]].
    repeat split. cbn [item_variants].
    apply mapM_Forall2 in Hv1. apply mapM_Forall2 in Hv2.
    revert vs2 Hv2. induction Hv1 as [|v d1 l l1 Hd1 Hl IH]; intros vs2 Hv2; inversion Hv2; subst; [reflexivity|].
    cbn. f_equal; [|apply IH; assumption].
    pose proof (data_from_variant_cfg c1 c2 Hz (ri_name r) (it_dws ia1) v) as D. rewrite Hd1 in D.
    match goal with Hx : data_from_variant c2 _ _ v = Ok _ |- _ => rewrite Hx in D end. exact D.
  - destruct K1 as [d1 [Hd1 ->]], K2 as [d2 [Hd2 ->]]. rewrite (data_from_union_cfg c1 c2 Hz) in Hd1.
    assert (d1 = d2) by congruence. subst. repeat split.
Qed.
