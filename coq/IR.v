(* IR.v - skeleton of the generated code: one constructor per code template of
   src/trait_/*.rs.  Arms are stored ALIGNED with the item's variant list
   (None where the source emits nothing for that variant); fields are referred to
   by their position in the variant's full field list. *)
From DW Require Export Core.

Definition arm := list nat.

Inductive rest := RTrue | REqual | RUnreachableUnchecked | RUnreachablePanic.

Inductive clone_body :=
| CCopy                                   (* `*self` *)
| CUnion                                  (* __AssertCopy<Self>; *self *)
| CMatch (arms : list (option arm)).

Record dbg_arm := mkDbgArm { da_fields : arm; da_non_exhaustive : bool }.

Record hash_arm := mkHashArm { ha_disc : bool; ha_fields : arm }.

Inductive eq_body :=
| EqFalse
| EqTrue
| EqDisc (arms : list (option arm)) (inc : list bool) (r : rest)
| EqDiscAllEmpty (inc : list bool)
| EqMatch (arms : list (option arm)).

(* expressions produced by build_discriminants *)
Inductive dexpr :=
| DExplicit (ts : toks) (z : Z)            (* the variant's own expression *)
| DPlus (ts : toks) (z : Z) (k : nat)      (* (expr) + k *)
| DLit (k : nat).

Inductive dvia := ViaCopy | ViaClone.

Inductive strategy :=
| SCast (via : dvia) (ty : option repr) (validate : option (list dexpr))
| SConstFn (ty : option repr) (validate : bool) (table : list dexpr)
| SPtrRead (ty : repr)
| SIntrinsic.

Record ord_match := mkOrdMatch { om_arms : list (option arm); om_rest : rest }.

Inductive ord_body :=
| ONone
| OViaOrd
| OEqual
| OMatch (arms : list (option arm))
| OSingle (inc : list bool) (eq : option ord_match)
| OMulti (inc : list bool) (body_equal : option ord_match) (s : strategy).

(* every variant gets an arm: a wildcard arm doing nothing, or one zeroizing the listed fields *)
Inductive zarm := ZWild | ZFields (fs : list (nat * bool)).   (* position, fqs *)

Inductive zeroize_body :=
| ZEmpty
| ZMatch (arms : list zarm).

Inductive darm := DWild | DFields (fs : arm).

Inductive drop_body :=
| DrEmpty
| DrDelegate (arms : list bool)            (* one `Zeroize::zeroize(self);` per true *)
| DrMatch (arms : list darm).

Inductive body :=
| BClone (b : clone_body)
| BCopy
| BDebug (arms : list dbg_arm)
| BDefault (ctors : list (option arm))
| BEq (asserts : list arm)
| BHash (arms : list hash_arm)
| BPartialEq (b : eq_body)
| BPartialOrd (b : ord_body)
| BOrd (b : ord_body)
| BZeroize (b : zeroize_body)
| BDrop (b : drop_body)
| BPanic (site : string).
