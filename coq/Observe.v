(* Observe.v - executable observations for the behaviour correspondence (tie B):
   the semantics of the generated code (Sem o Gen) and the reference semantics (Spec),
   instantiated with the probe field type of the harness, printed as compact strings. *)
From DW Require Export StageA Spec.

(* the probe field type `P(u8)`: 3 is NaN-like (unequal to itself, unordered) *)
Definition p_eq (x y : N) : bool := if N.eqb x 3 then false else N.eqb x y.
Definition p_pcmp (x y : N) : option comparison := if N.eqb x 3 || N.eqb y 3 then None else Some (N.compare x y).
Definition p_cmp (x y : N) : comparison := N.compare x y.
Definition p_hash (x : N) : N := x.
Definition p_clone (x : N) : N := x.
Definition p_default (_ : toks) : N := 0%N.

Definition pval := value N.

Definition ch_outcome {A} (f : A -> string) (o : outcome A) : string :=
  match o with Val a => f a | UB => "U" | PanicO => "P" | Stuck => "S" end.
Definition ch_bool (b : bool) : string := if b then "1" else "0".
Definition ch_cmp (c : comparison) : string := match c with Lt => "L" | Datatypes.Eq => "E" | Gt => "G" end.
Definition ch_pcmp (o : option comparison) : string := match o with Some c => ch_cmp c | None => "N" end.

Definition concat_str (l : list string) : string := fold_right String.append "" l.
Definition string_of_N (n : N) : string := string_of_nat (N.to_nat n).

Definition matrix {A} (f : pval -> pval -> A) (show : A -> string) (vals : list pval) : list string :=
  map (fun a => concat_str (map (fun b => show (f a b)) vals)) vals.

Definition find_body (c : cfg) (i : input) (t : trait) : option (dw * derive_trait * body) :=
  match flat_map (fun w => flat_map (fun dt => if trait_beq (dt_trait dt) t then [(w, dt, gen_body c (in_item i) w dt)] else []) (dw_traits w)) (in_dws i) with
  | x :: _ => Some x
  | [] => None
  end.

Definition show_view (v : pval) : string :=
  string_of_nat (v_idx v) +++ ":" +++ concat_str (map (fun x => string_of_N x +++ ",") (v_fields v)).

Definition show_hash (l : list (hevent N)) : string :=
  concat_str (map (fun e => match e with HDisc i => "d" +++ string_of_nat i +++ ";" | HField h => string_of_N h +++ ";" end) l).

Definition show_trace (t : dbg_trace N) : string :=
  (match tr_style t with DbgStruct => "S" | DbgTuple => "T" | DbgUnit => "U" end) +++ "|" +++ tr_name t +++ "|" +++
  concat_str (map (fun p => (match fst p with Some n => n | None => "" end) +++ "=" +++ string_of_N (snd p) +++ ";") (tr_fields t)) +++
  "|" +++ ch_bool (tr_non_exhaustive t).

Definition show_zevents (l : list zevent) : string :=
  concat_str (map (fun e => match e with
                            | ZMethod p => "m" +++ string_of_nat p
                            | ZFqs p => "f" +++ string_of_nat p
                            | ZOrOnDrop p => "o" +++ string_of_nat p
                            | ZDelegate => "D" end +++ ";") l).

(* one block of lines per derived trait: "<TAG> <line>" ; G = generated code (Sem o Gen), R = reference (Spec) *)
Definition observe (c : cfg) (r : raw_item) (vals : list pval) : list string :=
  match from_input c r with
  | Ok i =>
      let it := in_item i in
      let re := rust_enum_of r in
      let tag (t : string) (ls : list string) := map (fun l => t +++ " " +++ l) ls in
      (match find_body c i PartialEq with
       | Some (_, _, BPartialEq e) =>
           tag "G-eq" (matrix (eval_partial_eq p_eq e) (ch_outcome ch_bool) vals) ++
           tag "R-eq" (matrix (spec_eq p_eq it) ch_bool vals)
       | _ => [] end) ++
      (match find_body c i Ord with
       | Some (_, _, BOrd o) =>
           tag "G-cmp" (matrix (eval_ord p_cmp re o) (ch_outcome ch_cmp) vals) ++
           tag "R-cmp" (matrix (spec_cmp p_cmp it re) ch_cmp vals)
       | _ => [] end) ++
      (match find_body c i PartialOrd with
       | Some (w, _, BPartialOrd o) =>
           let ord_impl := match find_body c i Ord with
                           | Some (_, _, BOrd oo) => Some (eval_ord p_cmp re oo)
                           | _ => None end in
           tag "G-pcmp" (matrix (eval_partial_ord p_pcmp re ord_impl o) (ch_outcome ch_pcmp) vals) ++
           tag "R-pcmp" (matrix (spec_pcmp p_pcmp it re) ch_pcmp vals)
       | _ => [] end) ++
      (match find_body c i Hash with
       | Some (_, _, BHash arms) =>
           tag "G-hash" (map (fun a => ch_outcome show_hash (eval_hash p_hash arms a)) vals) ++
           tag "R-hash" (map (fun a => show_hash (spec_hash p_hash it a)) vals)
       | _ => [] end) ++
      (match find_body c i Clone with
       | Some (_, _, BClone b) =>
           tag "G-clone" (map (fun a => ch_outcome (fun p => show_view (fst p) +++ "|" +++ concat_str (map (fun k => string_of_nat k +++ ",") (snd p))) (eval_clone p_clone b a)) vals)
       | _ => [] end) ++
      (match find_body c i Default with
       | Some (_, _, BDefault ctors) =>
           tag "G-default" [ch_outcome show_view (eval_default p_default (item_variants it) ctors)] ++
           tag "R-default" [match spec_default p_default it with Some v => show_view v | None => "S" end]
       | _ => [] end) ++
      (match find_body c i Debug with
       | Some (_, _, BDebug arms) =>
           tag "G-debug" (map (fun a => ch_outcome show_trace (eval_debug (item_variants it) arms a)) vals) ++
           tag "R-debug" (map (fun a => match spec_debug it a with Some t => show_trace t | None => "S" end) vals)
       | _ => [] end) ++
      (match find_body c i Zeroize with
       | Some (_, _, BZeroize z) =>
           tag "G-zeroize" (map (fun a => ch_outcome show_zevents (eval_zeroize z a)) vals) ++
           tag "R-zeroize" (map (fun a => show_zevents (spec_zeroize it a)) vals)
       | _ => [] end) ++
      (match find_body c i ZeroizeOnDrop with
       | Some (_, _, BDrop d) =>
           tag "G-drop" (map (fun a => ch_outcome show_zevents (eval_drop d a)) vals) ++
           tag "R-drop" (map (fun a => show_zevents (spec_zeroize it a)) vals)
       | _ => [] end)
  | Err _ => ["ERR"]
  | Panic _ => ["PANIC"]
  end.
