(* Proofs_laws.v - the std contracts of Eq/Ord/Hash over the reference semantics (C05),
   and the influence of skipped / non-skipped fields (C06). *)
From DW Require Export Proofs_ord Proofs_simple.
Open Scope nat_scope.

(* ---------------- which data matters: the traits agree ---------------- *)
Lemma visible_cmp_family d f :
  visible d PartialEq f = visible d Eq f /\ visible d PartialEq f = visible d PartialOrd f /\ visible d PartialEq f = visible d Ord f.
Proof. repeat split; reflexivity. Qed.

Lemma selects_hash_of_eq s : selects s PartialEq = true -> selects s Hash = true.
Proof.
  destruct s as [| |gs]; cbn; try discriminate; try reflexivity.
  induction gs as [|g gs IH]; cbn; [discriminate|]. intros H. apply orb_true_iff in H. destruct H as [H|H].
  - destruct g; cbn in *; try discriminate; reflexivity.
  - rewrite (IH H). apply orb_true_r.
Qed.

(* a field hashed is a field compared: Hash never sees more than PartialEq *)
Lemma visible_hash_sub d f : visible d Hash f = true -> visible d PartialEq f = true.
Proof.
  unfold visible. intros H. apply andb_true_iff in H. destruct H as [H1 H2].
  apply negb_true_iff in H1. apply negb_true_iff in H2.
  destruct (selects (f_skip f) PartialEq) eqn:E1; [rewrite (selects_hash_of_eq _ E1) in H1; discriminate|].
  destruct (selects (d_skip_inner d) PartialEq) eqn:E2; [rewrite (selects_hash_of_eq _ E2) in H2; discriminate|].
  reflexivity.
Qed.

Section Laws.
Context {fval hval : Type}.
Variable feq : fval -> fval -> bool.
Variable fpcmp : fval -> fval -> option comparison.
Variable fcmp : fval -> fval -> comparison.
Variable fhash : fval -> hval.
Notation value := (value fval).

(* lawful field types: the std contracts, as hypotheses *)
Hypothesis feq_sym : forall x y, feq x y = feq y x.
Hypothesis feq_trans : forall x y z, feq x y = true -> feq y z = true -> feq x z = true.
Hypothesis feq_pcmp : forall x y, feq x y = true <-> fpcmp x y = Some Datatypes.Eq.
Hypothesis fpcmp_dual : forall x y, fpcmp y x = option_map CompOpp (fpcmp x y).
Hypothesis fpcmp_trans : forall x y z c, fpcmp x y = Some c -> fpcmp y z = Some c -> fpcmp x z = Some c.
Hypothesis fpcmp_congr_l : forall x y z, fpcmp x y = Some Datatypes.Eq -> fpcmp x z = fpcmp y z.
Hypothesis fpcmp_congr_r : forall x y z, fpcmp x y = Some Datatypes.Eq -> fpcmp z x = fpcmp z y.
Hypothesis feq_hash : forall x y, feq x y = true -> fhash x = fhash y.

(* ---- lists of fields ---- *)
Lemma forallb2_lex xs : forall ys, length xs = length ys ->
  (forallb2 feq xs ys = true <-> lex_p fpcmp xs ys = Some Datatypes.Eq).
Proof.
  induction xs as [|x xs IH]; intros [|y ys] L; cbn in *; try discriminate; [tauto|].
  specialize (IH ys (eq_add_S _ _ L)). specialize (feq_pcmp x y).
  destruct (feq x y), (fpcmp x y) as [[]|]; cbn; intuition congruence.
Qed.

Lemma lex_dual xs : forall ys, lex_p fpcmp ys xs = option_map CompOpp (lex_p fpcmp xs ys).
Proof.
  induction xs as [|x xs IH]; intros [|y ys]; cbn; try reflexivity.
  rewrite (fpcmp_dual x y). destruct (fpcmp x y) as [[]|]; cbn; [apply IH | reflexivity | reflexivity | reflexivity].
Qed.

Lemma forallb2_sym xs : forall ys, forallb2 feq xs ys = forallb2 feq ys xs.
Proof. induction xs as [|x xs IH]; intros [|y ys]; cbn; try reflexivity. rewrite feq_sym, IH. reflexivity. Qed.

Lemma forallb2_trans xs : forall ys zs, length xs = length ys -> length ys = length zs ->
  forallb2 feq xs ys = true -> forallb2 feq ys zs = true -> forallb2 feq xs zs = true.
Proof.
  induction xs as [|x xs IH]; intros [|y ys] [|z zs] L1 L2; cbn in *; try discriminate; try reflexivity.
  intros H1 H2. apply andb_true_iff in H1. apply andb_true_iff in H2. destruct H1 as [A1 B1], H2 as [A2 B2].
  rewrite (feq_trans x y z A1 A2). cbn. apply (IH ys zs); [lia | lia | assumption | assumption].
Qed.

Lemma lex_trans c xs : forall ys zs, length xs = length ys -> length ys = length zs ->
  lex_p fpcmp xs ys = Some c -> lex_p fpcmp ys zs = Some c -> lex_p fpcmp xs zs = Some c.
Proof.
  induction xs as [|x xs IH]; intros [|y ys] [|z zs] L1 L2; cbn in *; try discriminate; try (intros; assumption).
  intros H1 H2.
  destruct (fpcmp x y) as [[]|] eqn:Exy; try discriminate.
  - (* x == y *) rewrite (fpcmp_congr_l x y z Exy).
    destruct (fpcmp y z) as [[]|] eqn:Eyz; try discriminate; try assumption.
    apply (IH ys zs); [lia | lia | assumption | assumption].
  - (* x < y, so c = Lt *) inversion H1; subst c.
    destruct (fpcmp y z) as [[]|] eqn:Eyz; try discriminate.
    + rewrite <- (fpcmp_congr_r y z x Eyz), Exy. reflexivity.
    + rewrite (fpcmp_trans x y z Lt Exy Eyz). reflexivity.
  - inversion H1; subst c.
    destruct (fpcmp y z) as [[]|] eqn:Eyz; try discriminate.
    + rewrite <- (fpcmp_congr_r y z x Eyz), Exy. reflexivity.
    + rewrite (fpcmp_trans x y z Gt Exy Eyz). reflexivity.
Qed.

(* projections of two well-formed values of the same variant have the same length *)
Lemma project_length d t (a b : value) :
  length (v_fields a) = length (d_fields d) -> length (v_fields b) = length (d_fields d) ->
  length (project d t a) = length (project d t b).
Proof.
  intros La Lb. unfold project. rewrite !map_length.
  rewrite (length_shown (visible d t) (d_fields d) (v_fields a) La), (length_shown (visible d t) (d_fields d) (v_fields b) Lb). reflexivity.
Qed.

(* ---- the contracts ---- *)
Definition distinct_discs (re : rust_enum) : Prop := NoDup (re_discs re).

Lemma disc_compare_eq re (a b : value) :
  distinct_discs re -> v_idx a < length (re_discs re) -> v_idx b < length (re_discs re) ->
  (Z.compare (disc_of re a) (disc_of re b) = Datatypes.Eq <-> v_idx a = v_idx b).
Proof.
  intros ND La Lb. unfold disc_of. rewrite Z.compare_eq_iff. split.
  - intros H. eapply (proj1 (NoDup_nth (re_discs re) 0%Z)); eauto.
  - intros ->. reflexivity.
Qed.

Theorem eq_iff_pcmp_equal it re (a b : value) :
  wf_value it a -> wf_value it b -> distinct_discs re ->
  v_idx a < length (re_discs re) -> v_idx b < length (re_discs re) ->
  (spec_eq feq it a b = true <-> spec_pcmp fpcmp it re a b = Some Datatypes.Eq).
Proof.
  intros [da [Hda La]] [db [Hdb Lb]] ND Ia Ib. unfold spec_eq, spec_pcmp, variant_of. rewrite Hda.
  destruct (Nat.eqb_spec (v_idx a) (v_idx b)) as [E|E]; cbn [andb].
  - assert (db = da) by congruence. subst db.
    assert (Hib : incomparable_value it b = incomparable_value it a).
    { unfold incomparable_value, variant_of. rewrite <- E. reflexivity. }
    rewrite Hib. destruct (incomparable_value it a); cbn; [split; discriminate|].
    apply forallb2_lex. apply project_length; assumption.
  - destruct (incomparable_value it a || incomparable_value it b); [split; discriminate|].
    split; [discriminate|]. intros H. inversion H as [H1]. apply (disc_compare_eq re a b ND Ia Ib) in H1. contradiction.
Qed.

Theorem pcmp_dual it re (a b : value) :
  spec_pcmp fpcmp it re b a = option_map CompOpp (spec_pcmp fpcmp it re a b).
Proof.
  unfold spec_pcmp. rewrite (orb_comm (incomparable_value it b)).
  destruct (incomparable_value it a || incomparable_value it b); [reflexivity|].
  rewrite (Nat.eqb_sym (v_idx b)). destruct (Nat.eqb_spec (v_idx a) (v_idx b)) as [E|E].
  - unfold variant_of. rewrite E. destruct (nth_error (item_variants it) (v_idx b)); [apply lex_dual | reflexivity].
  - cbn. rewrite (Z.compare_antisym (disc_of re a)). reflexivity.
Qed.

Theorem eq_sym it (a b : value) : spec_eq feq it a b = spec_eq feq it b a.
Proof.
  unfold spec_eq, variant_of. rewrite (Nat.eqb_sym (v_idx b)).
  destruct (Nat.eqb_spec (v_idx a) (v_idx b)) as [E|E].
  - assert (Hi : incomparable_value it b = incomparable_value it a) by (unfold incomparable_value, variant_of; rewrite E; reflexivity).
    rewrite Hi, E. destruct (nth_error (item_variants it) (v_idx b)); [|reflexivity]. rewrite forallb2_sym. reflexivity.
  - destruct (nth_error _ (v_idx a)), (nth_error _ (v_idx b)); reflexivity.
Qed.

Theorem eq_trans it (a b c : value) :
  wf_value it a -> wf_value it b -> wf_value it c ->
  spec_eq feq it a b = true -> spec_eq feq it b c = true -> spec_eq feq it a c = true.
Proof.
  intros [da [Hda La]] [db [Hdb Lb]] [dc [Hdc Lc]]. unfold spec_eq, variant_of. rewrite Hda, Hdb.
  intros H1 H2. apply andb_true_iff in H1. destruct H1 as [H1 F1]. apply andb_true_iff in H1. destruct H1 as [E1 I1].
  apply andb_true_iff in H2. destruct H2 as [H2 F2]. apply andb_true_iff in H2. destruct H2 as [E2 I2].
  apply Nat.eqb_eq in E1. apply Nat.eqb_eq in E2.
  assert (db = da) by congruence. subst db. assert (dc = da) by congruence. subst dc.
  rewrite E1, E2, Nat.eqb_refl. rewrite I1. cbn.
  apply (forallb2_trans _ (project da PartialEq b)); try (apply project_length; assumption); assumption.
Qed.

Theorem pcmp_trans it re (a b c : value) o :
  wf_value it a -> wf_value it b -> wf_value it c ->
  spec_pcmp fpcmp it re a b = Some o -> spec_pcmp fpcmp it re b c = Some o -> o <> Datatypes.Eq ->
  spec_pcmp fpcmp it re a c = Some o.
Proof.
  intros [da [Hda La]] [db [Hdb Lb]] [dc [Hdc Lc]]. unfold spec_pcmp, variant_of. rewrite Hda, Hdb.
  destruct (incomparable_value it a); [discriminate|]. destruct (incomparable_value it b); [discriminate|].
  destruct (incomparable_value it c); [cbn; discriminate|]. cbn [orb].
  intros H1 H2 Ho.
  destruct (Nat.eqb_spec (v_idx a) (v_idx b)) as [E1|E1], (Nat.eqb_spec (v_idx b) (v_idx c)) as [E2|E2].
  - assert (db = da) by congruence. subst db. assert (dc = da) by congruence. subst dc.
    rewrite E1, E2, Nat.eqb_refl.
    apply (lex_trans o _ (project da PartialOrd b)); try (apply project_length; assumption); assumption.
  - rewrite E1. destruct (Nat.eqb_spec (v_idx b) (v_idx c)); [contradiction|].
    unfold disc_of in *. rewrite E1. exact H2.
  - rewrite <- E2. destruct (Nat.eqb_spec (v_idx a) (v_idx b)); [contradiction|].
    unfold disc_of in *. rewrite <- E2. exact H1.
  - assert (C1 : Z.compare (disc_of re a) (disc_of re b) = o) by congruence.
    assert (C2 : Z.compare (disc_of re b) (disc_of re c) = o) by congruence.
    assert (Hac : Z.compare (disc_of re a) (disc_of re c) = o).
    { clear H1 H2. destruct o; [congruence | |].
      - rewrite Z.compare_lt_iff in *. lia.
      - rewrite Z.compare_gt_iff in *. lia. }
    destruct (Nat.eqb_spec (v_idx a) (v_idx c)) as [E3|E3]; [|rewrite Hac; reflexivity].
    exfalso. unfold disc_of in *. rewrite E3 in Hac. rewrite Z.compare_refl in Hac. congruence.
Qed.

(* hashed fields are a sub-selection of the compared ones *)
Lemma forallb2_hash_sub d : forall (fs : list field) (xs ys : list fval),
  length xs = length fs -> length ys = length fs ->
  forallb2 feq (map snd (filter (fun p => visible d PartialEq (fst p)) (combine fs xs)))
               (map snd (filter (fun p => visible d PartialEq (fst p)) (combine fs ys))) = true ->
  map fhash (map snd (filter (fun p => visible d Hash (fst p)) (combine fs xs))) =
  map fhash (map snd (filter (fun p => visible d Hash (fst p)) (combine fs ys))).
Proof.
  induction fs as [|f fs IH]; intros [|x xs] [|y ys] Lx Ly; cbn in *; try discriminate; [reflexivity|].
  intros H. destruct (visible d Hash f) eqn:Vh.
  - rewrite (visible_hash_sub d f Vh) in H. cbn in H. apply andb_true_iff in H. destruct H as [H1 H2].
    cbn. rewrite (feq_hash x y H1). f_equal. apply IH; auto.
  - destruct (visible d PartialEq f); cbn in H; [apply andb_true_iff in H; destruct H as [_ H]|]; apply IH; auto.
Qed.

Theorem eq_hash it (a b : value) :
  wf_value it a -> wf_value it b -> spec_eq feq it a b = true -> spec_hash fhash it a = spec_hash fhash it b.
Proof.
  intros [da [Hda La]] [db [Hdb Lb]]. unfold spec_eq, spec_hash, variant_of. rewrite Hda, Hdb.
  intros H. apply andb_true_iff in H. destruct H as [H F]. apply andb_true_iff in H. destruct H as [E _].
  apply Nat.eqb_eq in E. assert (db = da) by congruence. subst db. rewrite E.
  f_equal. rewrite <- !(map_map fhash HField). f_equal. unfold project in *. apply forallb2_hash_sub; assumption.
Qed.

End Laws.

(* ---------------- C06: skipped fields are invisible, the others are not ---------------- *)
Section Skip.
Context {fval : Type}.
Notation value := (value fval).

(* a and b carry the same value in every field that is visible for t *)
Definition agree_on_visible (d : data) (t : trait) (a b : value) : Prop :=
  length (v_fields a) = length (v_fields b) /\
  forall i f, nth_error (d_fields d) i = Some f -> visible d t f = true -> nth_error (v_fields a) i = nth_error (v_fields b) i.

Lemma project_agree_gen d t : forall (fs : list field) (xs ys : list fval),
  length xs = length ys ->
  (forall i f, nth_error fs i = Some f -> visible d t f = true -> nth_error xs i = nth_error ys i) ->
  map snd (filter (fun p => visible d t (fst p)) (combine fs xs)) = map snd (filter (fun p => visible d t (fst p)) (combine fs ys)).
Proof.
  induction fs as [|f fs IH]; intros [|x xs] [|y ys] L H; cbn in *; try discriminate; try reflexivity.
  assert (Hrec : map snd (filter (fun p => visible d t (fst p)) (combine fs xs)) = map snd (filter (fun p => visible d t (fst p)) (combine fs ys))).
  { apply IH; [lia|]. intros i g Hg Hv. apply (H (S i) g Hg Hv). }
  destruct (visible d t f) eqn:V; cbn; [|exact Hrec].
  specialize (H 0 f eq_refl V). cbn in H. inversion H. f_equal. exact Hrec.
Qed.

Theorem project_agree d t (a b : value) : agree_on_visible d t a b -> project d t a = project d t b.
Proof. intros [L H]. unfold project. apply project_agree_gen; assumption. Qed.

(* every visible field's value is part of what the trait sees *)
Theorem project_visible d t (v : value) i f x :
  length (v_fields v) = length (d_fields d) ->
  nth_error (d_fields d) i = Some f -> visible d t f = true -> nth_error (v_fields v) i = Some x ->
  In x (project d t v).
Proof.
  unfold project. generalize (v_fields v) as xs. generalize (d_fields d) as fs. intros fs. revert i.
  induction fs as [|g fs IH]; intros i xs L Hf Hv Hx; [destruct i; discriminate|].
  destruct xs as [|y xs]; [discriminate|]. destruct i as [|i]; cbn in *.
  - inversion Hf; subst g. inversion Hx; subst y. rewrite Hv. cbn. left. reflexivity.
  - destruct (visible d t g); cbn; [right|]; eapply IH; eauto.
Qed.

End Skip.

(* ---- `==` as a proposition: the boolean reference unfolded (used by C03_eq_true_iff) ---- *)
Lemma forallb2_Forall2 {A} (f : A -> A -> bool) : forall xs ys, length xs = length ys ->
  (forallb2 f xs ys = true <-> Forall2 (fun x y => f x y = true) xs ys).
Proof.
  induction xs as [|x xs IH]; intros [|y ys] L; cbn [forallb2]; try discriminate L.
  - split; intros _; [constructor|reflexivity].
  - injection L as L. rewrite andb_true_iff, (IH ys L). split.
    + intros [H1 H2]. constructor; assumption.
    + intros H. inversion H; subst. split; assumption.
Qed.

Theorem spec_eq_true_iff :
  forall (fval : Type) (feq : fval -> fval -> bool) (it : item) (a b : value fval),
    wf_value it a -> wf_value it b ->
    (spec_eq feq it a b = true <->
       exists d, variant_of it a = Some d /\ variant_of it b = Some d /\ v_idx a = v_idx b /\
         item_inc_flag it = false /\ d_incomparable d = false /\
         Forall2 (fun x y => feq x y = true) (project d PartialEq a) (project d PartialEq b)).
Proof.
  intros fval feq it a b [da [Ha La]] [db [Hb Lb]]. unfold spec_eq, incomparable_value, variant_of. rewrite Ha.
  rewrite !andb_true_iff, negb_true_iff, orb_false_iff, Nat.eqb_eq. split.
  - intros [[E [I1 I2]] F].
    assert (D : db = da) by (rewrite E in Ha; congruence). subst db.
    exists da. split; [reflexivity|]. split; [exact Hb|]. split; [exact E|]. split; [exact I1|]. split; [exact I2|].
    apply forallb2_Forall2; [apply project_length; assumption | exact F].
  - intros [d [Hd [Hd' [E [I1 [I2 F]]]]]]. assert (D : d = da) by congruence. subst d.
    assert (D : db = da) by congruence. subst db.
    split; [split; [exact E | split; [exact I1 | exact I2]]|].
    apply forallb2_Forall2; [apply project_length; assumption | exact F].
Qed.
