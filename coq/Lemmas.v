(* Lemmas.v - generic facts used by every trait's proof. *)
From DW Require Export Spec Gen.
Open Scope nat_scope.

Lemma find_ext_local {A} (f g : A -> bool) l : (forall x, f x = g x) -> find f l = find g l.
Proof. intros H; induction l as [|x l IH]; cbn; [reflexivity|]. rewrite H, IH. reflexivity. Qed.

Lemma find_emitted_from {B} : forall (es : list (option B)) n i,
  find (fun p => Nat.eqb (fst p) i) (emitted_from n es) =
  if n <=? i then match nth_error es (i - n) with Some (Some b) => Some (i, b) | _ => None end else None.
Proof.
  induction es as [|e es IH]; intros n i; cbn [emitted_from].
  - cbn. destruct (n <=? i); [destruct (i - n); reflexivity | reflexivity].
  - assert (Hrec : find (fun p => Nat.eqb (fst p) i) (emitted_from (S n) es) =
      if n <=? i then (if Nat.eqb n i then None else match nth_error es (i - S n) with Some (Some b) => Some (i, b) | _ => None end) else None).
    { rewrite IH. destruct (Nat.leb_spec n i), (Nat.leb_spec (S n) i), (Nat.eqb_spec n i); try lia; reflexivity. }
    destruct e as [b|].
    + cbn [find fst]. destruct (Nat.eqb_spec n i) as [->|Hne].
      * rewrite Nat.leb_refl, Nat.sub_diag. reflexivity.
      * rewrite Hrec. destruct (Nat.leb_spec n i); [|reflexivity].
        destruct (Nat.eqb_spec n i); [lia|].
        replace (i - n) with (S (i - S n)) by lia. reflexivity.
    + rewrite Hrec. destruct (Nat.leb_spec n i); [|reflexivity].
      destruct (Nat.eqb_spec n i) as [->|Hne].
      * rewrite Nat.sub_diag. reflexivity.
      * replace (i - n) with (S (i - S n)) by lia. reflexivity.
Qed.

Lemma find_emitted {B} : forall (es : list (option B)) i,
  find (fun p => Nat.eqb (fst p) i) (emitted es) =
  match nth_error es i with Some (Some b) => Some (i, b) | _ => None end.
Proof. intros. unfold emitted. rewrite find_emitted_from. cbn. rewrite Nat.sub_0_r. reflexivity. Qed.

Lemma find_none_all {A} (f : A -> bool) l : (forall x, In x l -> f x = false) -> find f l = None.
Proof. induction l as [|x l IH]; cbn; intros H; [reflexivity|]. rewrite (H x (or_introl eq_refl)). apply IH. intros; apply H; right; assumption. Qed.

Section Find.
Context {fval : Type} {B : Type}.
Lemma find1_spec (arms : list (option B)) (a : value fval) :
  find1 arms a = match nth_error arms (v_idx a) with Some (Some x) => Some (v_idx a, x) | _ => None end.
Proof. unfold find1. apply find_emitted. Qed.

Lemma find2_same (arms : list (option B)) (a b : value fval) :
  v_idx a = v_idx b ->
  find2 arms a b = match nth_error arms (v_idx a) with Some (Some x) => Some (v_idx a, x) | _ => None end.
Proof.
  intros E. unfold find2. rewrite <- find_emitted.
  apply find_ext_local. intros p. rewrite <- E. destruct (Nat.eqb (fst p) (v_idx a)); reflexivity.
Qed.

Lemma find2_diff (arms : list (option B)) (a b : value fval) :
  v_idx a <> v_idx b -> find2 arms a b = None.
Proof.
  intros E. unfold find2. apply find_none_all. intros p _.
  destruct (Nat.eqb_spec (fst p) (v_idx a)), (Nat.eqb_spec (fst p) (v_idx b)); try reflexivity. congruence.
Qed.
End Find.

Lemma nth_error_map' {A B} (f : A -> B) l i : nth_error (map f l) i = option_map f (nth_error l i).
Proof. revert i; induction l as [|x l IH]; intros [|i]; cbn; auto. Qed.

Lemma nth_map_default {A B} (f : A -> B) l i da db :
  i < length l -> nth i (map f l) db = f (nth i l da).
Proof. revert i; induction l as [|x l IH]; intros [|i] H; cbn in *; try lia; auto. apply IH; lia. Qed.

Lemma nth_error_nth_some {A} (l : list A) i x d : nth_error l i = Some x -> nth i l d = x.
Proof. revert i; induction l as [|y l IH]; intros [|i]; cbn; intros H; try discriminate; [congruence | apply IH; exact H]. Qed.

(* ---- the skip table ---- *)
Lemma group_traits_selects g t : existsb (trait_beq t) (group_traits g) = group_selects g t.
Proof. destruct g, t; reflexivity. Qed.

Lemma trait_supported_skippable t : trait_supported t = skippable t.
Proof. destruct t; reflexivity. Qed.

Lemma trait_skipped_selects s t : trait_skipped s t = selects s t.
Proof.
  destruct s as [| |gs]; cbn; [reflexivity | apply trait_supported_skippable |].
  induction gs as [|g gs IH]; cbn; [reflexivity|]. rewrite group_traits_selects, IH. reflexivity.
Qed.

(* ---- iter_fields is the documented "visible fields" ---- *)
Lemma filter_ext_in' {A} (f g : A -> bool) l : (forall x, In x l -> f x = g x) -> filter f l = filter g l.
Proof. induction l as [|x l IH]; cbn; intros H; [reflexivity|]. rewrite (H x (or_introl eq_refl)), IH; [reflexivity|]. intros; apply H; right; assumption. Qed.

Lemma filter_all_false {A} (f : A -> bool) l : (forall x, In x l -> f x = false) -> filter f l = [].
Proof. induction l as [|x l IH]; cbn; intros H; [reflexivity|]. rewrite (H x (or_introl eq_refl)). apply IH; intros; apply H; right; auto. Qed.

Lemma in_indexed_from {A} (l : list A) n p : In p (indexed_from n l) -> In (snd p) l.
Proof. revert n; induction l as [|x l IH]; cbn; intros n H; [contradiction|]. destruct H as [<-|H]; [left; reflexivity | right; eapply IH; eauto]. Qed.

Lemma positions_visible d t : wf_data d -> positions d t = visible_positions d t.
Proof.
  intros W. unfold positions, visible_positions, iter_fields, data_skip, visible.
  rewrite trait_skipped_selects.
  destruct (selects (d_skip_inner d) t) eqn:Hin; cbn [orb].
  - f_equal. symmetry. apply filter_all_false. intros p _. rewrite andb_false_r. reflexivity.
  - destruct (has_fields d) eqn:Hf; cbn [andb].
    + destruct (forallb (fun f => field_skip f t) (d_fields d)) eqn:Hall.
      * f_equal. symmetry. apply filter_all_false. intros p Hp.
        apply in_indexed_from in Hp. rewrite forallb_forall in Hall. specialize (Hall _ Hp).
        unfold field_skip in Hall. rewrite trait_skipped_selects in Hall. rewrite Hall. reflexivity.
      * f_equal. apply filter_ext_in'. intros p _. unfold field_skip. rewrite trait_skipped_selects, andb_true_r. reflexivity.
    + unfold has_fields in Hf. destruct (d_shape d) eqn:Hs; try discriminate.
      rewrite (W Hs). reflexivity.
Qed.

(* looking the visible positions up in a well-formed value gives the projected values *)
Lemma getfs_filter_indexed {A F} (vis : F -> bool) : forall (fs : list F) (xs : list A) n pre,
  length xs = length fs -> length pre = n ->
  getfs (pre ++ xs) (map fst (filter (fun p => vis (snd p)) (indexed_from n fs))) =
  Some (map snd (filter (fun p => vis (fst p)) (combine fs xs))).
Proof.
  induction fs as [|f fs IH]; intros xs n pre Hl Hp; destruct xs as [|x xs]; cbn in Hl; try discriminate; cbn; [reflexivity|].
  assert (Hrec : getfs (pre ++ x :: xs) (map fst (filter (fun p => vis (snd p)) (indexed_from (S n) fs))) =
                 Some (map snd (filter (fun p => vis (fst p)) (combine fs xs)))).
  { replace (pre ++ x :: xs) with ((pre ++ [x]) ++ xs) by (rewrite <- app_assoc; reflexivity).
    apply IH; [lia | rewrite app_length; cbn; lia]. }
  destruct (vis f); cbn; [|exact Hrec].
  rewrite Hrec. rewrite nth_error_app2 by lia. replace (n - length pre) with 0 by lia. reflexivity.
Qed.

Lemma getfs_visible {fval} d t (v : value fval) :
  length (v_fields v) = length (d_fields d) ->
  getfs (v_fields v) (visible_positions d t) = Some (project d t v).
Proof.
  intros H. unfold visible_positions, project, indexed.
  apply (getfs_filter_indexed (visible d t) (d_fields d) (v_fields v) 0 []); [assumption | reflexivity].
Qed.

Lemma map_snd_filter_combine_self {A} (f : A -> bool) (l : list A) :
  map snd (filter (fun p => f (fst p)) (combine l l)) = filter f l.
Proof. induction l as [|x l IH]; cbn; [reflexivity|]. destruct (f x); cbn; rewrite IH; reflexivity. Qed.

Lemma getfs_fields_visible d t :
  getfs (d_fields d) (visible_positions d t) = Some (filter (visible d t) (d_fields d)).
Proof.
  unfold visible_positions, indexed.
  pose proof (getfs_filter_indexed (visible d t) (d_fields d) (d_fields d) 0 [] eq_refl eq_refl) as G.
  cbn [app] in G. rewrite G. rewrite map_snd_filter_combine_self. reflexivity.
Qed.

Lemma data_is_empty_positions d t : data_is_empty d t = match positions d t with [] => true | _ => false end.
Proof. unfold data_is_empty, positions. destruct (iter_fields d t); reflexivity. Qed.

Lemma project_nil_of_positions {fval} d t (v : value fval) :
  length (v_fields v) = length (d_fields d) -> visible_positions d t = [] -> project d t v = [].
Proof. intros H E. pose proof (getfs_visible d t v H) as G. rewrite E in G. cbn in G. congruence. Qed.
