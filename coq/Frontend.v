(* Frontend.v - model of attribute parsing and validation:
   src/attr/*.rs, src/trait_.rs (from_path), src/trait_/zeroize*.rs (options),
   src/data.rs (from_struct/from_variant/from_union), src/item.rs (Discriminant::parse),
   src/input.rs (Input::from_input).
   Every unreachable!/expect/assert! of the source is an explicit Panic at the same place. *)
From DW Require Export Core.

(* constructors of src/error.rs, plus errors raised by syn's own parsers *)
Inductive error :=
| EVisited | EPathUnnecessary | ECrate | ENone | EEmpty | EUseCase | EItemEmpty | EUnion
| EOptionTrait | EOption | EOptions | EOptionSyntax | EOptionEmpty | EOptionRequired
| EOptionDuplicate | EOptionEnumSkipInner | EOptionSkipInner | EOptionSkipEmpty | EOptionSkipAll
| EOptionSkipDuplicate | EOptionSkipNoTrait | EOptionSkipTrait | ESkipGroup | EPath | ETrait
| ETraitSyntax | EDeriveWhereDelimiter | EGeneric | EGenericSyntax | ETraitDuplicate
| EReprUnknown | EReprDiscriminantInvalid | EDefault | EDefaultMissing | EDefaultDuplicate
| EIncomparable | ENonPartialIncomparable | EIncomparableOnItemAndVariant | EZeroize
| EDeprecatedZeroizeDrop | ESyn.

Definition res := result error.

(* ---- Trait::from_path (src/trait_.rs) ---- *)
Definition trait_from_path (c : cfg) (p : path) : res trait :=
  match get_ident p with
  | Some i =>
      if String.eqb i "Clone" then Ok Clone
      else if String.eqb i "Copy" then Ok Copy
      else if String.eqb i "Debug" then Ok Debug
      else if String.eqb i "Default" then Ok Default
      else if String.eqb i "Eq" then Ok Eq
      else if String.eqb i "Hash" then Ok Hash
      else if String.eqb i "Ord" then Ok Ord
      else if String.eqb i "PartialEq" then Ok PartialEq
      else if String.eqb i "PartialOrd" then Ok PartialOrd
      else if c_zeroize c && String.eqb i "Zeroize" then Ok Zeroize
      else if c_zeroize c && String.eqb i "ZeroizeOnDrop" then Ok ZeroizeOnDrop
      else if String.eqb i "crate" then Err ECrate
      else Err ETrait
  | None => Err ETrait
  end.

Definition supports_union (t : trait) : bool :=
  match t with Clone | Copy => true | _ => false end.

Definition trait_name (t : trait) : string :=
  match t with
  | Clone => "Clone" | Copy => "Copy" | Debug => "Debug" | Default => "Default" | Eq => "Eq"
  | Hash => "Hash" | Ord => "Ord" | PartialEq => "PartialEq" | PartialOrd => "PartialOrd"
  | Zeroize => "Zeroize" | ZeroizeOnDrop => "ZeroizeOnDrop"
  end.

(* value of a `crate = ..` option *)
Definition parse_crate_value (e : expr_raw) : res path :=
  match e with
  | EStr _ (Some p) => Ok p
  | EStr _ None => Err EPath
  | EPathE p => Ok p
  | EOther _ => Err EOptionSyntax
  end.

(* Zeroize::parse_derive_trait / ZeroizeOnDrop::parse_derive_trait *)
Fixpoint parse_zeroize_options (t : trait) (ms : list meta2) (crate_ : option path) : res derive_trait :=
  match ms with
  | [] => Ok (mkDT t crate_)
  | m :: rest =>
      match m with
      | M2Path p =>
          if trait_beq t Zeroize && is_ident p "drop" then Err EDeprecatedZeroizeDrop
          else Err EOptionTrait
      | M2NameValue p e =>
          if is_ident p "crate" then
            match crate_ with
            | None =>
                do q <- parse_crate_value e;
                if path_eqb q (path_from_strs ["zeroize"]) then Err EPathUnnecessary
                else parse_zeroize_options t rest (Some q)
            | Some _ => Err EOptionDuplicate
            end
          else Err EOptionTrait
      | M2List _ _ => Err EOptionSyntax
      end
  end.

(* MetaListExt::parse_non_empty_nested_metas on a nested list *)
Definition non_empty_metas2 (args : option (list meta2)) : res (list meta2) :=
  match args with
  | None => Err ESyn
  | Some [] => Err EOptionEmpty
  | Some l => Ok l
  end.

(* TraitImpl::parse_derive_trait *)
Definition parse_derive_trait (t : trait) (ms : list meta2) : res derive_trait :=
  match t with
  | Zeroize | ZeroizeOnDrop => parse_zeroize_options t ms None
  | _ => Err EOptions
  end.

(* DeriveTrait::from_stream *)
Definition from_stream (c : cfg) (is_union : bool) (m : meta1) : res derive_trait :=
  match m with
  | M1Bad _ => Err ETraitSyntax
  | M1Path p =>
      do t <- trait_from_path c p;
      if is_union && negb (supports_union t) then Err EUnion else Ok (mkDT t None)
  | M1List p args =>
      do t <- trait_from_path c p;
      if is_union && negb (supports_union t) then Err EUnion
      else do ms <- non_empty_metas2 args; parse_derive_trait t ms
  | M1NameValue p _ =>
      do t <- trait_from_path c p;
      if is_union && negb (supports_union t) then Err EUnion else Err EOptionSyntax
  end.

(* Generic::parse *)
Definition parse_generic (g : generic_raw) : res generic :=
  match g with
  | GRPred ts => Ok (GCustom ts)
  | GRLifetime _ => Err EGeneric
  | GRType ts => Ok (GNoBound ts)
  | GRBad _ => Err EGenericSyntax
  end.

(* DeriveWhere::from_attr *)
Definition from_attr (c : cfg) (is_union : bool) (elems : list meta1) (semi : option (list generic_raw)) : res dw :=
  match elems, semi with
  | [], None => Panic "assert!(!input.is_empty())"
  | [], Some _ => Err ETraitSyntax
  | _, _ =>
      do ts <- mapM (from_stream c is_union) elems;
      do gs <- match semi with None => Ok [] | Some l => mapM parse_generic l end;
      Ok (mkDw ts gs)
  end.

(* ---- SkipGroup::from_path, Skip::add_attribute (src/attr/skip.rs) ---- *)
Definition skip_group_from_path (c : cfg) (p : path) : res group :=
  match get_ident p with
  | Some i =>
      if String.eqb i "Debug" then Ok GDebug
      else if String.eqb i "EqHashOrd" then Ok GEqHashOrd
      else if String.eqb i "Hash" then Ok GHash
      else if c_zeroize c && String.eqb i "Zeroize" then Ok GZeroize
      else Err ESkipGroup
  | None => Err ESkipGroup
  end.

Definition skip_is_none (s : skip) : bool := match s with SkipNone => true | _ => false end.

Fixpoint skip_add_groups (c : cfg) (dws : list dw) (parent : option skip) (ms : list meta2) (gs : list group) : res (list group) :=
  match ms with
  | [] => Ok gs
  | M2Path p :: rest =>
      do g <- skip_group_from_path c p;
      if existsb (group_beq g) gs then Err EOptionSkipDuplicate
      else if match parent with Some s => group_skipped s g | None => false end then Err EOptionSkipInner
      else if existsb (fun d => existsb (dw_contains d) (group_traits g)) dws
           then skip_add_groups c dws parent rest (gs ++ [g])
           else Err EOptionSkipTrait
  | _ :: _ => Err EOptionSyntax
  end.

Definition skip_add_attribute (c : cfg) (dws : list dw) (parent : option skip) (m : meta1) (self : skip) : res skip :=
  match m with
  | M1Path p =>
      if skip_is_none self then
        match parent with
        | Some SkipAll => Err EOptionSkipInner
        | _ => if existsb any_skip dws then Ok SkipAll else Err EOptionSkipNoTrait
        end
      else
        match get_ident p with
        | Some _ => Err EOptionDuplicate
        | None => Panic "unexpected skip syntax"
        end
  | M1List _ args =>
      do ms <- non_empty_metas2 args;
      match self with
      | SkipAll => Err EOptionSkipAll
      | SkipNone => do gs <- skip_add_groups c dws parent ms []; Ok (SkipTraits gs)
      | SkipTraits gs0 => do gs <- skip_add_groups c dws parent ms gs0; Ok (SkipTraits gs)
      end
  | _ => Err EOptionSyntax
  end.

(* ---- Incomparable::add_attribute ---- *)
Fixpoint incomparable_scan (ts : list derive_trait) (impl_cmp : bool) : res bool :=
  match ts with
  | [] => Ok impl_cmp
  | dt :: rest =>
      match dt_trait dt with
      | Eq | Ord => Err ENonPartialIncomparable
      | PartialEq | PartialOrd => incomparable_scan rest true
      | _ => incomparable_scan rest impl_cmp
      end
  end.

Definition incomparable_add (dws : list dw) (m : meta1) (self : bool) : res bool :=
  match m with
  | M1Path _ =>
      if self then Err EOptionDuplicate
      else do impl_cmp <- incomparable_scan (flat_map dw_traits dws) false;
           if impl_cmp then Ok true else Err EIncomparable
  | _ => Err EOptionSyntax
  end.

(* ---- Default::add_attribute ---- *)
Definition default_add (dws : list dw) (m : meta1) (self : bool) : res bool :=
  match m with
  | M1Path _ =>
      if self then Err EOptionDuplicate
      else if existsb (fun d => dw_contains d Default) dws then Ok true else Err EDefault
  | _ => Err EOptionSyntax
  end.

(* ---- ZeroizeFqs::add_attribute ---- *)
Fixpoint fqs_scan (ms : list meta2) (self : bool) : res bool :=
  match ms with
  | [] => Ok self
  | M2Path p :: rest =>
      if is_ident p "fqs" then (if self then Err EOptionDuplicate else fqs_scan rest true)
      else Err EOption
  | _ :: _ => Err EOptionSyntax
  end.

Definition fqs_add (dws : list dw) (m : meta1) (self : bool) : res bool :=
  if negb (existsb (fun d => dw_contains d Zeroize) dws) then Err EZeroize
  else match m with
       | M1List _ args => do ms <- non_empty_metas2 args; fqs_scan ms self
       | M1Path _ => Err EOptionRequired
       | _ => Err EOptionSyntax
       end.

(* parse_non_empty_nested_metas on a variant/field attribute *)
Definition non_empty_metas1 (a : sub_attr) : res (list meta1) :=
  match a with
  | SANotList _ => Err EOptionSyntax
  | SAList None => Err ESyn
  | SAList (Some l) => if existsb is_bad l then Err ESyn else match l with [] => Err EOptionEmpty | _ => Ok l end
  end.

Definition meta1_is (m : meta1) (s : string) : bool :=
  match meta1_path m with Some p => is_ident p s | None => false end.

(* ---- FieldAttr (src/attr/field.rs) ---- *)
Definition field_add_meta (c : cfg) (dws : list dw) (parent : skip) (st : skip * bool) (m : meta1) : res (skip * bool) :=
  if meta1_is m "skip" then
    do s <- skip_add_attribute c dws (Some parent) m (fst st); Ok (s, snd st)
  else if c_zeroize c && meta1_is m "Zeroize" then
    do q <- fqs_add dws m (snd st); Ok (fst st, q)
  else Err EOption.

Definition field_add_attr (c : cfg) (dws : list dw) (parent : skip) (st : skip * bool) (a : field_attr) : res (skip * bool) :=
  match a with
  | FAOther _ _ => Ok st
  | FADw sa => do ms <- non_empty_metas1 sa; foldM (field_add_meta c dws parent) ms st
  end.

Definition field_attr_from_attrs (c : cfg) (dws : list dw) (parent : skip) (attrs : list field_attr) : res (skip * bool) :=
  foldM (field_add_attr c dws parent) attrs (SkipNone, false).

(* Field::from_named / from_unnamed *)
Definition field_from (c : cfg) (dws : list dw) (parent : skip) (named : bool) (p : nat * raw_field) : res field :=
  let '(i, rf) := p in
  do st <- field_attr_from_attrs c dws parent (rf_attrs rf);
  if named then
    match rf_name rf with
    | Some n => Ok (mkField (fst st) (snd st) (MNamed n) (rf_ty rf))
    | None => Panic "unexpected unnamed field"
    end
  else Ok (mkField (fst st) (snd st) (MUnnamed i) (rf_ty rf)).

Definition fields_from (c : cfg) (dws : list dw) (parent : skip) (named : bool) (fs : list raw_field) : res (list field) :=
  mapM (field_from c dws parent named) (indexed fs).

(* ---- VariantAttr (src/attr/variant.rs) ---- *)
Record vattr := mkVattr { va_default : bool; va_skip_inner : skip; va_incomparable : bool }.

Definition variant_fields_empty (v : raw_variant) : bool :=
  match rv_shape v with RUnit => true | _ => match rv_fields v with [] => true | _ => false end end.

Definition variant_add_meta (c : cfg) (dws : list dw) (v : raw_variant) (st : vattr) (m : meta1) : res vattr :=
  if meta1_is m "skip_inner" then
    if variant_fields_empty v then Err EOptionSkipEmpty
    else do s <- skip_add_attribute c dws None m (va_skip_inner st);
         Ok (mkVattr (va_default st) s (va_incomparable st))
  else if meta1_is m "default" then
    do d <- default_add dws m (va_default st); Ok (mkVattr d (va_skip_inner st) (va_incomparable st))
  else if meta1_is m "incomparable" then
    do i <- incomparable_add dws m (va_incomparable st); Ok (mkVattr (va_default st) (va_skip_inner st) i)
  else Err EOption.

Definition variant_add_attr (c : cfg) (dws : list dw) (v : raw_variant) (st : vattr) (a : field_attr) : res vattr :=
  match a with
  | FAOther _ _ => Ok st
  | FADw sa => do ms <- non_empty_metas1 sa; foldM (variant_add_meta c dws v) ms st
  end.

Definition variant_attr_from_attrs (c : cfg) (dws : list dw) (v : raw_variant) : res vattr :=
  foldM (variant_add_attr c dws v) (rv_attrs v) (mkVattr false SkipNone false).

(* ---- Data::from_variant / from_struct / from_union (src/data.rs) ---- *)
Definition data_from_variant (c : cfg) (item_ident : ident) (dws : list dw) (v : raw_variant) : res data :=
  do va <- variant_attr_from_attrs c dws v;
  let path := [item_ident; rv_name v] in
  let disc := if c_nightly c then None else rv_disc v in
  match rv_shape v with
  | RNamed =>
      do fs <- fields_from c dws (va_skip_inner va) true (rv_fields v);
      Ok (mkData (va_skip_inner va) (va_incomparable va) (rv_name v) path ShStruct fs true (va_default va) disc)
  | RUnnamed =>
      do fs <- fields_from c dws (va_skip_inner va) false (rv_fields v);
      Ok (mkData (va_skip_inner va) (va_incomparable va) (rv_name v) path ShTuple fs true (va_default va) disc)
  | RUnit =>
      Ok (mkData (va_skip_inner va) (va_incomparable va) (rv_name v) path ShUnit [] true (va_default va) disc)
  end.

Definition data_from_struct (c : cfg) (dws : list dw) (skip_inner : skip) (inc : bool) (id : ident)
           (sh : rshape) (fs : list raw_field) : res data :=
  match sh with
  | RNamed =>
      if match fs with [] => negb inc | _ => false end then Err EItemEmpty
      else do fl <- fields_from c dws skip_inner true fs;
           Ok (mkData skip_inner inc id [id] ShStruct fl false false None)
  | RUnnamed =>
      if match fs with [] => negb inc | _ => false end then Err EItemEmpty
      else do fl <- fields_from c dws skip_inner false fs;
           Ok (mkData skip_inner inc id [id] ShTuple fl false false None)
  | RUnit =>
      if inc then Ok (mkData skip_inner inc id [id] ShUnit [] false false None)
      else Err EItemEmpty
  end.

Definition data_from_union (c : cfg) (dws : list dw) (skip_inner : skip) (inc : bool) (id : ident)
           (fs : list raw_field) : res data :=
  if match fs with [] => negb inc | _ => false end then Err EItemEmpty
  else do fl <- fields_from c dws skip_inner true fs;
       Ok (mkData skip_inner inc id [id] ShUnion fl false false None).

(* ---- Discriminant::parse (src/item.rs), not under nightly ---- *)
Fixpoint repr_scan_idents (ids : list ident) (has : option repr) : res (option repr) :=
  match ids with
  | [] => Ok has
  | i :: rest =>
      match repr_parse i with
      | Some r => Ok (Some r)                 (* `break` *)
      | None =>
          if String.eqb i "C" || String.eqb i "Rust" || String.eqb i "align" then repr_scan_idents rest has
          else Err EReprUnknown
      end
  end.

Fixpoint repr_scan (attrs : list item_attr) (has : option repr) : res (option repr) :=
  match attrs with
  | [] => Ok has
  | IARepr (ReprIdents ids) :: rest => do h <- repr_scan_idents ids has; repr_scan rest h
  | IARepr (ReprUnparsable _) :: _ => Err ESyn
  | IARepr ReprNotList :: _ => Panic "found invalid `repr` attribute"
  | _ :: rest => repr_scan rest has
  end.

Definition discriminant_parse (attrs : list item_attr) (vs : list raw_variant) : res discriminant :=
  if Nat.eqb (length vs) 1 then Ok DSingle
  else
    do has <- repr_scan attrs None;
    let is_unit := forallb variant_fields_empty vs in
    match has with
    | Some r => Ok (if is_unit then DUnitRepr r else DDataRepr r)
    | None =>
        if is_unit then Ok DUnit
        else if existsb (fun v => isSome (rv_disc v)) vs then Err EReprDiscriminantInvalid
        else Ok DData
    end.

(* ---- ItemAttr::from_attrs (src/attr/item.rs) ---- *)
Record iacc := mkIacc { ia_dws : list dw; ia_skips : list meta1; ia_incs : list meta1 }.

Definition comma_view (elems : list meta1) (semi : option (list generic_raw)) : option (list meta1) :=
  match semi with
  | Some _ => None
  | None => if existsb is_bad elems then None else Some elems
  end.

Definition item_add_attr (c : cfg) (is_enum is_union : bool) (st : iacc) (a : item_attr) : res iacc :=
  match a with
  | IADw (DANotList _) => Err EOptionSyntax
  | IADw (DAList elems semi) =>
      let push_dw := do d <- from_attr c is_union elems semi;
                     Ok (mkIacc (ia_dws st ++ [d]) (ia_skips st) (ia_incs st)) in
      match comma_view elems semi with
      | Some [] => Err EEmpty
      | Some [m] =>
          if meta1_is m "skip_inner" then
            if is_enum then Err EOptionEnumSkipInner
            else Ok (mkIacc (ia_dws st) (ia_skips st ++ [m]) (ia_incs st))
          else if meta1_is m "incomparable" then Ok (mkIacc (ia_dws st) (ia_skips st) (ia_incs st ++ [m]))
          else if meta1_is m "crate" then Ok st
          else push_dw
      | _ => push_dw
      end
  | _ => Ok st
  end.

(* Vec::dedup_by with the merging closure *)
Fixpoint merge_into (cur : dw) (rest : list dw) : list dw :=
  match rest with
  | [] => [cur]
  | d :: r =>
      if list_eqb generic_eqb (dw_generics d) (dw_generics cur)
      then merge_into (mkDw (dw_traits cur ++ dw_traits d) (dw_generics cur)) r
      else cur :: merge_into d r
  end.
Definition merge_dws (l : list dw) : list dw :=
  match l with [] => [] | d :: r => merge_into d r end.

Fixpoint has_dup (l : list derive_trait) : bool :=
  match l with
  | [] => false
  | x :: r => existsb (derive_trait_eqb x) r || has_dup r
  end.

(* a trait requested again by a later attribute, under the same or under different bounds (two impls of one
   trait for one type overlap whatever their where-clauses say) *)
Fixpoint has_cross_dup (l : list dw) : bool :=
  match l with
  | [] => false
  | d :: r =>
      existsb (fun o => existsb (fun t => existsb (derive_trait_eqb t) (dw_traits d)) (dw_traits o)) r
      || has_cross_dup r
  end.

Record item_attrs := mkItemAttrs { it_skip_inner : skip; it_incomparable : bool; it_dws : list dw }.

Definition item_attr_from_attrs (c : cfg) (is_enum is_union : bool) (attrs : list item_attr) : res item_attrs :=
  do st <- foldM (item_add_attr c is_enum is_union) attrs (mkIacc [] [] []);
  match ia_dws st with
  | [] => Err ENone
  | _ =>
      let dws := merge_dws (ia_dws st) in
      if existsb (fun d => has_dup (dw_traits d)) dws then Err ETraitDuplicate
      else if has_cross_dup dws then Err ETraitDuplicate
      else
        do sk <- foldM (fun s m => skip_add_attribute c dws None m s) (ia_skips st) SkipNone;
        do inc <- foldM (fun i m => incomparable_add dws m i) (ia_incs st) false;
        Ok (mkItemAttrs sk inc dws)
  end.

(* ---- Input::from_input (src/input.rs) ---- *)
Fixpoint check_variants (item_inc : bool) (vs : list data) (found_default found_inc : bool) : res (bool * bool) :=
  match vs with
  | [] => Ok (found_default, found_inc)
  | v :: rest =>
      if d_default v && found_default then Err EDefaultDuplicate
      else if item_inc && d_incomparable v then Err EIncomparableOnItemAndVariant
      else check_variants item_inc rest (found_default || d_default v) (found_inc || d_incomparable v)
  end.

Definition type_param_names (g : generics) : list ident :=
  flat_map (fun p => match p with GPType n _ _ => [n] | _ => [] end) (g_params g).

(* the use-case rule for one (trait of a) derive_where *)
Definition has_use_case (c : cfg) (it : item) (found_inc : bool) (dt : derive_trait) : bool :=
  (trait_beq (dt_trait dt) Default && item_is_enum it)
  || item_any_skip_trait it (dt_trait dt)
  || found_inc
  || (c_zeroize c &&
      ((match dt_trait dt with Zeroize | ZeroizeOnDrop => isSome (dt_crate dt) | _ => false end)
       || (trait_beq (dt_trait dt) Zeroize && item_any_fqs it))).

Definition dw_checked_for_use_case (g : generics) (d : dw) : bool :=
  Nat.eqb (length (dw_generics d)) (length (type_param_names g))
  && negb (any_custom_bound d)
  && forallb (has_type_param d) (type_param_names g).

Definition use_case_ok (c : cfg) (g : generics) (it : item) (found_inc : bool) (dws : list dw) : bool :=
  forallb (fun d => negb (dw_checked_for_use_case g d) || forallb (has_use_case c it found_inc) (dw_traits d)) dws.

Definition from_input (c : cfg) (r : raw_item) : res input :=
  let is_enum := match ri_kind r with KEnum _ => true | _ => false end in
  let is_union := match ri_kind r with KUnion _ => true | _ => false end in
  do ia <- item_attr_from_attrs c is_enum is_union (ri_attrs r);
  let dws := it_dws ia in
  do itf <-
    match ri_kind r with
    | KStruct sh fs =>
        do d <- data_from_struct c dws (it_skip_inner ia) (it_incomparable ia) (ri_name r) sh fs;
        Ok (IItem d, it_incomparable ia)
    | KUnion fs =>
        do d <- data_from_union c dws (it_skip_inner ia) (it_incomparable ia) (ri_name r) fs;
        Ok (IItem d, it_incomparable ia)
    | KEnum rvs =>
        do disc <- (if c_nightly c then Ok DSingle else discriminant_parse (ri_attrs r) rvs);
        do vs <- mapM (data_from_variant c (ri_name r) dws) rvs;
        do fl <- check_variants (it_incomparable ia) vs false (it_incomparable ia);
        let '(found_default, found_inc) := fl in
        if negb found_default && existsb (fun d => dw_contains d Default) dws then Err EDefaultMissing
        else if negb found_default && negb found_inc
                && forallb (fun v => match d_fields v with [] => true | _ => false end) vs then Err EItemEmpty
        else Ok (IEnum disc (ri_name r) (it_incomparable ia) vs, found_inc)
    end;
  let '(it, found_inc) := itf in
  if use_case_ok c (ri_generics r) it found_inc dws then Ok (mkInput dws (ri_generics r) it)
  else Err EUseCase.
