(* Run.v - executable entry points used by the correspondence check. *)
From DW Require Export StageA.

Inductive run_result :=
| ROk (impls : list impl_out)
| RErr (e : error)
| RPanic (site : string).

Definition run_expand (c : cfg) (r : raw_item) : run_result :=
  match expand c r with
  | Ok l => ROk (map (fun o => mkImpl (io_trait o) (flatten (io_header o)) (flatten (io_body o)) (flatten (io_extra o))) l)
  | Err e => RErr e
  | Panic s => RPanic s
  end.

(* a digest of the result, used to cross-check the extracted evaluator against vm_compute *)
Definition mix (h : N) (x : N) : N := ((h * 1000003 + x + 1) mod 2305843009213693951)%N.
Fixpoint digest_string (s : string) (h : N) : N :=
  match s with EmptyString => mix h 0 | String a r => digest_string r (mix h (N_of_ascii a)) end.
Definition digest_toks (ts : toks) (h : N) : N := fold_left (fun h t => digest_string t h) ts h.
Definition digest_result (r : run_result) : N :=
  match r with
  | ROk l => fold_left (fun h o => digest_toks (io_extra o) (digest_toks (io_body o) (digest_toks (io_header o) (mix h 7)))) l 1%N
  | RErr _ => 2%N
  | RPanic _ => 3%N
  end.

Definition error_name (e : error) : string :=
  match e with
  | EVisited => "visited" | EPathUnnecessary => "path_unnecessary" | ECrate => "crate_" | ENone => "none"
  | EEmpty => "empty" | EUseCase => "use_case" | EItemEmpty => "item_empty" | EUnion => "union"
  | EOptionTrait => "option_trait" | EOption => "option" | EOptions => "options" | EOptionSyntax => "option_syntax"
  | EOptionEmpty => "option_empty" | EOptionRequired => "option_required" | EOptionDuplicate => "option_duplicate"
  | EOptionEnumSkipInner => "option_enum_skip_inner" | EOptionSkipInner => "option_skip_inner"
  | EOptionSkipEmpty => "option_skip_empty" | EOptionSkipAll => "option_skip_all"
  | EOptionSkipDuplicate => "option_skip_duplicate" | EOptionSkipNoTrait => "option_skip_no_trait"
  | EOptionSkipTrait => "option_skip_trait" | ESkipGroup => "skip_group" | EPath => "path" | ETrait => "trait_"
  | ETraitSyntax => "trait_syntax" | EDeriveWhereDelimiter => "derive_where_delimiter" | EGeneric => "generic"
  | EGenericSyntax => "generic_syntax" | ETraitDuplicate => "trait_duplicate" | EReprUnknown => "repr_unknown"
  | EReprDiscriminantInvalid => "repr_discriminant_invalid" | EDefault => "default" | EDefaultMissing => "default_missing"
  | EDefaultDuplicate => "default_duplicate" | EIncomparable => "incomparable"
  | ENonPartialIncomparable => "non_partial_incomparable"
  | EIncomparableOnItemAndVariant => "incomparable_on_item_and_variant" | EZeroize => "zeroize"
  | EDeprecatedZeroizeDrop => "deprecated_zeroize_drop" | ESyn => "syn"
  end.

Inductive stage_a_result := AOk (ts : toks) | AErr (e : error) | APanic (site : string).
Definition run_stage_a (r : raw_item) (s : item_src) : stage_a_result :=
  match stage_a r s with Ok ts => AOk (flatten ts) | Err e => AErr e | Panic p => APanic p end.
Definition run_strip (r : raw_item) (s : item_src) : toks := flatten (strip_item r s).
