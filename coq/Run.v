(* Run.v - executable entry points used by the correspondence check. *)
From DW Require Export StageA.

Inductive run_result :=
| ROk (impls : list impl_out)
| RErr (e : error)
| RPanic (site : string).

Definition run_expand (c : cfg) (r : raw_item) : run_result :=
  match expand c r with
  | Ok l => ROk (map (fun o => mkImpl (io_trait o) (flatten (io_header o)) (flatten (io_body o)) (flatten (io_extra o))) l)
  | Err e => RErr e
  | Panic s => RPanic s
  end.

(* a digest of the result, used to cross-check the extracted evaluator against vm_compute *)
Definition mix (h : N) (x : N) : N := ((h * 1000003 + x + 1) mod 2305843009213693951)%N.
Fixpoint digest_string (s : string) (h : N) : N :=
  match s with EmptyString => mix h 0 | String a r => digest_string r (mix h (N_of_ascii a)) end.
Definition digest_toks (ts : toks) (h : N) : N := fold_left (fun h t => digest_string t h) ts h.
Definition digest_result (r : run_result) : N :=
  match r with
  | ROk l => fold_left (fun h o => digest_toks (io_extra o) (digest_toks (io_body o) (digest_toks (io_header o) (mix h 7)))) l 1%N
  | RErr _ => 2%N
  | RPanic _ => 3%N
  end.

Definition error_name (e : error) : string :=
  match e with
  | EVisited => "visited" | EPathUnnecessary => "path_unnecessary" | ECrate => "crate_" | ENone => "none"
  | EEmpty => "empty" | EUseCase => "use_case" | EItemEmpty => "item_empty" | EUnion => "union"
  | EOptionTrait => "option_trait" | EOption => "option" | EOptions => "options" | EOptionSyntax => "option_syntax"
  | EOptionEmpty => "option_empty" | EOptionRequired => "option_required" | EOptionDuplicate => "option_duplicate"
  | EOptionEnumSkipInner => "option_enum_skip_inner" | EOptionSkipInner => "option_skip_inner"
  | EOptionSkipEmpty => "option_skip_empty" | EOptionSkipAll => "option_skip_all"
  | EOptionSkipDuplicate => "option_skip_duplicate" | EOptionSkipNoTrait => "option_skip_no_trait"
  | EOptionSkipTrait => "option_skip_trait" | ESkipGroup => "skip_group" | EPath => "path" | ETrait => "trait_"
  | ETraitSyntax => "trait_syntax" | EDeriveWhereDelimiter => "derive_where_delimiter" | EGeneric => "generic"
  | EGenericSyntax => "generic_syntax" | ETraitDuplicate => "trait_duplicate" | EReprUnknown => "repr_unknown"
  | EReprDiscriminantInvalid => "repr_discriminant_invalid" | EDefault => "default" | EDefaultMissing => "default_missing"
  | EDefaultDuplicate => "default_duplicate" | EIncomparable => "incomparable"
  | ENonPartialIncomparable => "non_partial_incomparable"
  | EIncomparableOnItemAndVariant => "incomparable_on_item_and_variant" | EZeroize => "zeroize"
  | EDeprecatedZeroizeDrop => "deprecated_zeroize_drop" | ESyn => "syn"
  end.

Inductive stage_a_result := AOk (ts : toks) | AErr (e : error) | APanic (site : string).
Definition run_stage_a (r : raw_item) (s : item_src) : stage_a_result :=
  match stage_a r s with Ok ts => AOk (flatten ts) | Err e => AErr e | Panic p => APanic p end.
Definition run_strip (r : raw_item) (s : item_src) : toks := flatten (strip_item r s).

(* ---- decision cells: which template / branch of the generator an impl exercised (coverage accounting) ---- *)
Definition rest_cell (r : rest) : string :=
  match r with RTrue => "true" | REqual => "equal" | RUnreachableUnchecked => "unchecked" | RUnreachablePanic => "panic" end.
Definition any_true (l : list bool) : string := if existsb (fun x => x) l then "inc" else "noinc".
Definition ty_cell (ty : option repr) : string := match ty with Some r => repr_name r | None => "isize" end.
Definition strategy_cell (s : strategy) : string :=
  match s with
  | SCast ViaCopy ty v => "cast-copy-" +++ ty_cell ty +++ (if isSome v then "-validate" else "")
  | SCast ViaClone ty v => "cast-clone-" +++ ty_cell ty +++ (if isSome v then "-validate" else "")
  | SConstFn ty v tbl =>
      "constfn-" +++ ty_cell ty +++ (if v then "-validate" else "") +++
      (if existsb (fun e => match e with DPlus _ _ _ => true | _ => false end) tbl then "-plus" else "") +++
      (if existsb (fun e => match e with DExplicit _ _ => true | _ => false end) tbl then "-explicit" else "")
  | SPtrRead r => "ptr-" +++ repr_name r
  | SIntrinsic => "intrinsic"
  end.
Definition match_cell (m : option ord_match) : string :=
  match m with None => "nobody" | Some m => "body-" +++ rest_cell (om_rest m) end.
Definition ord_cell (o : ord_body) : string :=
  match o with
  | ONone => "none" | OViaOrd => "viaord" | OEqual => "equal" | OMatch _ => "match"
  | OSingle _ eq => "single-" +++ match_cell eq
  | OMulti inc be s => "multi-" +++ any_true inc +++ "-" +++ match_cell be +++ "-" +++ strategy_cell s
  end.
Definition body_cell (b : body) : string :=
  match b with
  | BClone CCopy => "clone:copy" | BClone CUnion => "clone:union" | BClone (CMatch _) => "clone:match"
  | BCopy => "copy"
  | BDebug arms => "debug:" +++ (if existsb da_non_exhaustive arms then "nonexhaustive" else "exhaustive")
  | BDefault ctors => "default:" +++ (match emitted ctors with [(O, _)] => "first" | [_] => "later" | _ => "bad" end)
  | BEq asserts => "eq:" +++ (if existsb (fun a : arm => match a with [] => false | _ => true end) asserts then "asserts" else "none")
  | BHash arms => "hash:" +++ (if existsb ha_disc arms then "enum" else "struct")
  | BPartialEq EqFalse => "peq:false" | BPartialEq EqTrue => "peq:true"
  | BPartialEq (EqDisc _ inc r) => "peq:disc-" +++ any_true inc +++ "-" +++ rest_cell r
  | BPartialEq (EqDiscAllEmpty inc) => "peq:allempty-" +++ any_true inc
  | BPartialEq (EqMatch _) => "peq:match"
  | BPartialOrd o => "pord:" +++ ord_cell o
  | BOrd o => "ord:" +++ ord_cell o
  | BZeroize ZEmpty => "z:empty"
  | BZeroize (ZMatch arms) =>
      "z:match" +++ (if existsb (fun a => match a with ZWild => true | _ => false end) arms then "-wild" else "") +++
      (if existsb (fun a => match a with ZFields fs => existsb snd fs | _ => false end) arms then "-fqs" else "") +++
      (if existsb (fun a => match a with ZFields fs => existsb (fun q : nat * bool => negb (snd q)) fs | _ => false end) arms then "-method" else "")
  | BDrop DrEmpty => "drop:empty"
  | BDrop (DrDelegate arms) => "drop:delegate-" +++ (match filter (fun x : bool => x) arms with [] => "0" | [_] => "1" | _ => "many" end)
  | BDrop (DrMatch arms) => "drop:match" +++ (if existsb (fun a => match a with DWild => true | _ => false end) arms then "-wild" else "")
  | BPanic _ => "panic"
  end.

Definition run_cells (c : cfg) (r : raw_item) : list string :=
  match from_input c r with
  | Ok i => flat_map (fun w => map (fun dt => body_cell (gen_body c (in_item i) w dt)) (dw_traits w)) (in_dws i)
  | _ => []
  end.
