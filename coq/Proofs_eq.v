(* Proofs_eq.v - PartialEq: the generated `eq` is structural equality (C03, C07 part). *)
From DW Require Export Lemmas.
Open Scope nat_scope.

Lemma cmp_arm_cases t chk d : wf_data d -> d_shape d <> ShUnion ->
  cmp_arm t chk d = if data_is_empty d t || (chk && d_incomparable d) then None else Some (positions d t).
Proof.
  intros W NU. unfold cmp_arm.
  destruct (data_is_empty d t || (chk && d_incomparable d)) eqn:E; [reflexivity|].
  apply orb_false_elim in E. destruct E as [Hemp _].
  unfold is_struct_or_tuple. destruct (d_shape d) eqn:Hs; try reflexivity; [|congruence].
  exfalso. unfold data_is_empty, iter_fields, has_fields in Hemp. rewrite Hs in Hemp.
  destruct (data_skip d t); discriminate.
Qed.

Lemma wf_item_data it d : wf_item it -> In d (item_variants it) -> wf_data d.
Proof. intros [W _] H. rewrite Forall_forall in W. auto. Qed.

Lemma wf_item_not_union it d : wf_item it -> item_is_union it = false -> In d (item_variants it) -> d_shape d <> ShUnion.
Proof.
  intros [_ W] NU H. destruct it as [d0|disc id inc vs]; cbn in *.
  - destruct H as [<-|[]]. destruct (d_shape d0); congruence.
  - rewrite Forall_forall in W. apply W. assumption.
Qed.

Section Eq.
Context {fval : Type}.
Variable feq : fval -> fval -> bool.
Notation value := (value fval).

Lemma eval_eq_arm_positions d (a b : value) :
  wf_data d ->
  length (v_fields a) = length (d_fields d) -> length (v_fields b) = length (d_fields d) ->
  eval_eq_arm feq a b (positions d PartialEq) =
  Val (forallb2 feq (project d PartialEq a) (project d PartialEq b)).
Proof.
  intros W Ha Hb. unfold eval_eq_arm. rewrite positions_visible by assumption.
  rewrite (getfs_visible d PartialEq a Ha), (getfs_visible d PartialEq b Hb). reflexivity.
Qed.

Lemma project_empty d t (v : value) :
  wf_data d -> length (v_fields v) = length (d_fields d) -> data_is_empty d t = true -> project d t v = [].
Proof.
  intros W H E. apply project_nil_of_positions; [assumption|].
  rewrite <- positions_visible by assumption. rewrite data_is_empty_positions in E.
  destruct (positions d t); [reflexivity | discriminate].
Qed.

Lemma item_incomparable_spec it (a : value) d :
  nth_error (item_variants it) (v_idx a) = Some d ->
  item_is_incomparable it = true -> incomparable_value it a = true.
Proof.
  intros Hd H. unfold incomparable_value, variant_of. rewrite Hd.
  destruct it as [d0|disc id inc vs]; cbn in *.
  - rewrite H. reflexivity.
  - destruct inc; cbn in *; [reflexivity|].
    apply andb_true_iff in H. destruct H as [_ H]. rewrite forallb_forall in H.
    apply H. eapply nth_error_In; eauto.
Qed.

Lemma item_not_incomparable_flag it : item_is_incomparable it = false -> item_inc_flag it = false.
Proof.
  destruct it as [d0|disc id inc vs]; cbn; [auto|]. intros H. apply orb_false_elim in H. tauto.
Qed.

(* items with at most one variant: both operands are that variant *)
Lemma single_variant_idx it (a : value) d :
  length (item_variants it) <= 1 -> nth_error (item_variants it) (v_idx a) = Some d -> v_idx a = 0.
Proof.
  intros L H. assert (v_idx a < length (item_variants it)) by (apply nth_error_Some; congruence). lia.
Qed.

Lemma single_not_incomparable it d :
  item_variants it = [d] -> item_is_incomparable it = false -> d_incomparable d = false.
Proof.
  destruct it as [d0|disc id inc vs]; cbn; intros E H.
  - congruence.
  - subst vs. cbn in H. rewrite andb_true_r in H. apply orb_false_elim in H. tauto.
Qed.

Theorem gen_partial_eq_correct c it (a b : value) :
  wf_item it -> item_is_union it = false -> wf_value it a -> wf_value it b ->
  eval_partial_eq feq (gen_partial_eq c it) a b = Val (spec_eq feq it a b).
Proof.
  intros W NU [da [Hda La]] [db [Hdb Lb]].
  assert (Wda : wf_data da) by (eapply wf_item_data; eauto using nth_error_In).
  assert (NUa : d_shape da <> ShUnion) by (eapply wf_item_not_union; eauto using nth_error_In).
  unfold gen_partial_eq, spec_eq, variant_of. rewrite Hda.
  destruct (item_is_incomparable it) eqn:Hinc.
  { cbn. rewrite (item_incomparable_spec it a da Hda Hinc). rewrite andb_false_r. reflexivity. }
  pose proof (item_not_incomparable_flag it Hinc) as Hflag.
  assert (Hiv : incomparable_value it a = d_incomparable da).
  { unfold incomparable_value, variant_of. rewrite Hda, Hflag. reflexivity. }
  rewrite Hiv.
  (* the common shape of the single-variant cases *)
  assert (Single : length (item_variants it) <= 1 ->
    eval_partial_eq feq (if item_is_empty it PartialEq then EqTrue else EqMatch (map (cmp_arm PartialEq true) (item_variants it))) a b =
    Val (Nat.eqb (v_idx a) (v_idx b) && negb (d_incomparable da) &&
         forallb2 feq (project da PartialEq a) (project da PartialEq b))).
  { intros L1.
    pose proof (single_variant_idx it a da L1 Hda) as Ia.
    pose proof (single_variant_idx it b db L1 Hdb) as Ib.
    assert (Evs : item_variants it = [da]).
    { destruct (item_variants it) as [|x [|y r]] eqn:E; cbn in L1; try lia.
      - rewrite Ia in Hda. discriminate.
      - rewrite Ia in Hda. cbn in Hda. congruence. }
    assert (db = da) by (rewrite Evs, Ib in Hdb; cbn in Hdb; congruence). subst db.
    rewrite (single_not_incomparable it da Evs Hinc). rewrite Ia, Ib. cbn [Nat.eqb negb andb].
    unfold item_is_empty. rewrite Evs. cbn [forallb]. rewrite andb_true_r.
    destruct (data_is_empty da PartialEq) eqn:Hemp.
    - cbn. rewrite !project_empty by assumption. reflexivity.
    - cbn [eval_partial_eq]. rewrite find2_same by congruence. rewrite Ia. cbn [map nth_error].
      rewrite cmp_arm_cases by assumption. rewrite Hemp, (single_not_incomparable it da Evs Hinc). cbn.
      apply eval_eq_arm_positions; assumption. }
  destruct it as [d0|disc id inc vs].
  { apply Single. cbn. lia. }
  cbn [item_variants] in *.
  destruct (1 <? length vs) eqn:Hlen; [| apply Single; cbn; apply Nat.ltb_ge in Hlen; lia].
  destruct (Nat.eqb_spec (v_idx a) (v_idx b)) as [Eidx|Nidx].
  2:{ cbn [andb]. destruct (negb (item_is_empty (IEnum disc id inc vs) PartialEq)); cbn [eval_partial_eq].
      - destruct (Nat.eqb_spec (v_idx a) (v_idx b)); [congruence | reflexivity].
      - destruct (Nat.eqb_spec (v_idx a) (v_idx b)); [congruence | reflexivity]. }
  assert (db = da) by congruence. subst db. cbn [andb].
  assert (Hisinc : is_inc (map d_incomparable vs) a = d_incomparable da).
  { unfold is_inc. erewrite nth_map_default with (da := da).
    - erewrite nth_error_nth_some; eauto.
    - apply nth_error_Some. congruence. }
  destruct (item_is_empty (IEnum disc id inc vs) PartialEq) eqn:Hallemp; cbn [negb eval_partial_eq].
  - (* all variants empty *)
    rewrite <- Eidx, Nat.eqb_refl. rewrite Hisinc.
    assert (Hemp : data_is_empty da PartialEq = true).
    { unfold item_is_empty in Hallemp. cbn in Hallemp. rewrite forallb_forall in Hallemp. apply Hallemp. eapply nth_error_In; eauto. }
    rewrite !project_empty by assumption. cbn. destruct (d_incomparable da); reflexivity.
  - rewrite <- Eidx, Nat.eqb_refl. rewrite find2_same by assumption.
    rewrite nth_error_map', Hda. cbn [option_map]. rewrite cmp_arm_cases by assumption.
    destruct (data_is_empty da PartialEq) eqn:Hemp, (d_incomparable da) eqn:Hdi; cbn [orb andb negb].
    + rewrite Hisinc. reflexivity.
    + rewrite Hisinc.
      assert (Hex : has_empty_comparable PartialEq vs = true).
      { unfold has_empty_comparable. apply existsb_exists. exists da. split; [eapply nth_error_In; eauto|]. rewrite Hemp, Hdi. reflexivity. }
      rewrite Hex. cbn. rewrite !project_empty by assumption. reflexivity.
    + rewrite Hisinc. reflexivity.
    + apply eval_eq_arm_positions; assumption.
Qed.

End Eq.
