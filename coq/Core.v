(* Core.v - the macro's internal representation of a parsed item
   (src/item.rs, src/data.rs, src/data/field.rs, src/attr/skip.rs, src/attr/item.rs). *)
From DW Require Export Syntax.

Inductive trait := Clone | Copy | Debug | Default | Eq | Hash | Ord | PartialEq | PartialOrd | Zeroize | ZeroizeOnDrop.
Scheme Equality for trait.

Inductive group := GDebug | GEqHashOrd | GHash | GZeroize.
Scheme Equality for group.

Inductive skip := SkipNone | SkipAll | SkipTraits (gs : list group).

Definition group_traits (g : group) : list trait :=
  match g with
  | GDebug => [Debug]
  | GEqHashOrd => [Eq; Hash; Ord; PartialEq; PartialOrd]
  | GHash => [Hash]
  | GZeroize => [Zeroize; ZeroizeOnDrop]
  end.

Definition trait_supported (t : trait) : bool :=
  match t with Clone | Copy | Default => false | _ => true end.

Definition trait_skipped (s : skip) (t : trait) : bool :=
  match s with
  | SkipNone => false
  | SkipAll => trait_supported t
  | SkipTraits gs => existsb (fun g => existsb (trait_beq t) (group_traits g)) gs
  end.

Definition group_skipped (s : skip) (g : group) : bool :=
  match s with
  | SkipNone => false
  | SkipAll => true
  | SkipTraits gs => existsb (group_beq g) gs
  end.

Inductive member := MNamed (i : ident) | MUnnamed (n : nat).

Record field := mkField {
  f_skip : skip;
  f_fqs : bool;
  f_member : member;
  f_ty : toks }.

Inductive shape := ShStruct | ShTuple | ShUnit | ShUnion.   (* SimpleType *)

Record data := mkData {
  d_skip_inner : skip;
  d_incomparable : bool;
  d_ident : ident;
  d_path : list ident;
  d_shape : shape;
  d_fields : list field;
  d_is_variant : bool;
  d_default : bool;
  d_disc : option (toks * Z) }.

Inductive repr := U8 | U16 | U32 | U64 | U128 | USize | I8 | I16 | I32 | I64 | I128 | ISize.
Scheme Equality for repr.

Inductive discriminant := DSingle | DUnit | DData | DUnitRepr (r : repr) | DDataRepr (r : repr).

Inductive item :=
| IItem (d : data)
| IEnum (disc : discriminant) (id : ident) (inc : bool) (vs : list data).

Record derive_trait := mkDT { dt_trait : trait; dt_crate : option path }.

Inductive generic := GCustom (ts : toks) | GNoBound (ts : toks).

Record dw := mkDw { dw_traits : list derive_trait; dw_generics : list generic }.

Record input := mkInput { in_dws : list dw; in_generics : generics; in_item : item }.

(* ---- src/attr/item.rs ---- *)
Definition derive_trait_eqb (a b : derive_trait) : bool :=
  trait_beq (dt_trait a) (dt_trait b) && option_eqb path_eqb (dt_crate a) (dt_crate b).

Definition generic_eqb (a b : generic) : bool :=
  match a, b with
  | GCustom x, GCustom y => toks_eqb x y
  | GNoBound x, GNoBound y => toks_eqb x y
  | _, _ => false
  end.

Definition dw_contains (d : dw) (t : trait) : bool :=
  existsb (fun dt => trait_beq (dt_trait dt) t) (dw_traits d).

Definition is_custom (g : generic) : bool := match g with GCustom _ => true | GNoBound _ => false end.
Definition any_custom_bound (d : dw) : bool := existsb is_custom (dw_generics d).
Definition all_custom_bound (d : dw) : bool := forallb is_custom (dw_generics d).

(* `T` alone: a type that is a path consisting of one identifier *)
Definition is_ident_tok (t : tok) : bool :=
  match t with
  | EmptyString => false
  | String c _ =>
      let n := N_of_ascii c in
      (((65 <=? n) && (n <=? 90)) || ((97 <=? n) && (n <=? 122)) || (n =? 95) || (128 <=? n))%N
  end && negb (String.eqb t "_").

Definition has_type_param (d : dw) (p : ident) : bool :=
  existsb (fun g => match g with
                    | GNoBound [t] => is_ident_tok t && String.eqb t p
                    | _ => false end) (dw_generics d).

Definition any_skip (d : dw) : bool := existsb (fun dt => trait_supported (dt_trait dt)) (dw_traits d).

(* ---- src/data.rs ---- *)
Definition has_fields (d : data) : bool :=
  match d_shape d with ShUnit => false | _ => true end.     (* fields() is Either::Left *)

Definition field_skip (f : field) (t : trait) : bool := trait_skipped (f_skip f) t.

Definition data_any_skip_trait (d : data) (t : trait) : bool :=
  trait_skipped (d_skip_inner d) t || (has_fields d && existsb (fun f => field_skip f t) (d_fields d)).

Definition data_skip (d : data) (t : trait) : bool :=
  trait_skipped (d_skip_inner d) t || (has_fields d && forallb (fun f => field_skip f t) (d_fields d)).

(* positions (in the full field list) and fields iterated for a trait *)
Definition iter_fields (d : data) (t : trait) : list (nat * field) :=
  if data_skip d t then []
  else if has_fields d then filter (fun p => negb (field_skip (snd p) t)) (indexed (d_fields d))
  else [].

Definition data_is_empty (d : data) (t : trait) : bool :=
  match iter_fields d t with [] => true | _ => false end.

Definition data_is_default (d : data) : bool := if d_is_variant d then d_default d else true.

(* ---- src/item.rs ---- *)
Definition item_ident (it : item) : ident :=
  match it with IItem d => d_ident d | IEnum _ id _ _ => id end.
Definition item_is_enum (it : item) : bool := match it with IEnum _ _ _ _ => true | _ => false end.
Definition item_variants (it : item) : list data :=
  match it with IItem d => [d] | IEnum _ _ _ vs => vs end.
Definition item_any_skip_trait (it : item) (t : trait) : bool :=
  existsb (fun d => data_any_skip_trait d t) (item_variants it).
Definition item_any_fqs (it : item) : bool :=
  existsb (fun d => has_fields d && existsb f_fqs (d_fields d)) (item_variants it).
Definition item_is_empty (it : item) (t : trait) : bool :=
  forallb (fun d => data_is_empty d t) (item_variants it).
Definition item_is_incomparable (it : item) : bool :=
  match it with
  | IEnum _ _ inc vs => inc || (negb (Nat.eqb (length vs) 0) && forallb d_incomparable vs)
  | IItem d => d_incomparable d
  end.
Definition item_is_union (it : item) : bool :=
  match it with IItem d => match d_shape d with ShUnion => true | _ => false end | _ => false end.

Definition repr_name (r : repr) : string :=
  match r with
  | U8 => "u8" | U16 => "u16" | U32 => "u32" | U64 => "u64" | U128 => "u128" | USize => "usize"
  | I8 => "i8" | I16 => "i16" | I32 => "i32" | I64 => "i64" | I128 => "i128" | ISize => "isize"
  end.
Definition all_reprs : list repr := [U8; U16; U32; U64; U128; USize; I8; I16; I32; I64; I128; ISize].
Definition repr_parse (i : ident) : option repr :=
  find (fun r => String.eqb i (repr_name r)) all_reprs.

(* ---- src/data/field.rs ---- *)
Definition member_display (m : member) : string :=
  match m with MNamed i => unraw i | MUnnamed n => string_of_nat n end.
Definition member_tok (m : member) : tok :=
  match m with MNamed i => i | MUnnamed n => string_of_nat n end.
Definition self_ident (f : field) : tok := "__field_" +++ member_display (f_member f).
Definition other_ident (f : field) : tok := "__other_field_" +++ member_display (f_member f).
