(* Proofs_frontend.v - facts about every item accepted by the front end. *)
From DW Require Export Lemmas.
Open Scope nat_scope.

Ltac inv_bind H :=
  match type of H with
  | bind ?r _ = Ok _ => let E := fresh "Hb" in destruct r eqn:E; cbn [bind] in H; try discriminate H
  end.

Lemma mapM_Forall2 {E A B} (f : A -> result E B) l l' :
  mapM f l = Ok l' -> Forall2 (fun x y => f x = Ok y) l l'.
Proof.
  revert l'; induction l as [|x l IH]; cbn; intros l' H.
  - inversion H. constructor.
  - inv_bind H. inv_bind H. inversion H; subst. constructor; auto.
Qed.

Lemma foldM_inv {E A S} (P : S -> Prop) (f : S -> A -> result E S) l s s' :
  P s -> (forall s a s', P s -> f s a = Ok s' -> P s') -> foldM f l s = Ok s' -> P s'.
Proof.
  revert s; induction l as [|x l IH]; cbn; intros s Hs Hstep H.
  - inversion H; subst; assumption.
  - inv_bind H. eapply IH; [eapply Hstep; [exact Hs | exact Hb] | exact Hstep | exact H].
Qed.

Lemma Forall2_Forall_r {A B} (R : A -> B -> Prop) (P : B -> Prop) l l' :
  Forall2 R l l' -> (forall x y, R x y -> P y) -> Forall P l'.
Proof. induction 1; intros; constructor; eauto. Qed.

(* ---- shapes ---- *)
Lemma data_from_variant_wf c id dws v d :
  data_from_variant c id dws v = Ok d -> wf_data d /\ d_shape d <> ShUnion /\ d_is_variant d = true.
Proof.
  unfold data_from_variant. intros H. inv_bind H.
  destruct (rv_shape v).
  - inv_bind H. inversion H; subst. unfold wf_data; cbn. repeat split; congruence.
  - inv_bind H. inversion H; subst. unfold wf_data; cbn. repeat split; congruence.
  - inversion H; subst. unfold wf_data; cbn. repeat split; congruence.
Qed.

Lemma data_from_struct_wf c dws sk inc id sh fs d :
  data_from_struct c dws sk inc id sh fs = Ok d -> wf_data d /\ d_shape d <> ShUnion /\ d_is_variant d = false.
Proof.
  unfold data_from_struct. intros H. destruct sh.
  - destruct (match fs with [] => negb inc | _ => false end); [discriminate|].
    inv_bind H. inversion H; subst. unfold wf_data; cbn. repeat split; congruence.
  - destruct (match fs with [] => negb inc | _ => false end); [discriminate|].
    inv_bind H. inversion H; subst. unfold wf_data; cbn. repeat split; congruence.
  - destruct inc; [|discriminate]. inversion H; subst. unfold wf_data; cbn. repeat split; congruence.
Qed.

Lemma data_from_union_wf c dws sk inc id fs d :
  data_from_union c dws sk inc id fs = Ok d -> wf_data d /\ d_shape d = ShUnion /\ d_is_variant d = false.
Proof.
  unfold data_from_union. intros H.
  destruct (match fs with [] => negb inc | _ => false end); [discriminate|].
  inv_bind H. inversion H; subst. unfold wf_data; cbn. repeat split; congruence.
Qed.

(* ---- the parsed pieces of an accepted item ---- *)
Definition raw_is_union (r : raw_item) : bool := match ri_kind r with KUnion _ => true | _ => false end.
Definition raw_is_enum (r : raw_item) : bool := match ri_kind r with KEnum _ => true | _ => false end.

Definition found_inc_of (ia : item_attrs) (it : item) : bool :=
  it_incomparable ia || existsb d_incomparable (match it with IEnum _ _ _ vs => vs | IItem _ => [] end).

Lemma from_input_inv c r i :
  from_input c r = Ok i ->
  exists ia, item_attr_from_attrs c (raw_is_enum r) (raw_is_union r) (ri_attrs r) = Ok ia /\
             in_dws i = it_dws ia /\ in_generics i = ri_generics r /\
  match ri_kind r with
  | KStruct sh fs => exists d, data_from_struct c (it_dws ia) (it_skip_inner ia) (it_incomparable ia) (ri_name r) sh fs = Ok d /\ in_item i = IItem d
  | KUnion fs => exists d, data_from_union c (it_dws ia) (it_skip_inner ia) (it_incomparable ia) (ri_name r) fs = Ok d /\ in_item i = IItem d
  | KEnum rvs => exists disc vs fd fi,
                   mapM (data_from_variant c (ri_name r) (it_dws ia)) rvs = Ok vs /\
                   (if c_nightly c then Ok DSingle else discriminant_parse (ri_attrs r) rvs) = Ok disc /\
                   check_variants (it_incomparable ia) vs false (it_incomparable ia) = Ok (fd, fi) /\
                   negb fd && existsb (fun d : dw => dw_contains d Default) (it_dws ia) = false /\
                   negb fd && negb fi && forallb (fun v : data => match d_fields v with [] => true | _ :: _ => false end) vs = false /\
                   in_item i = IEnum disc (ri_name r) (it_incomparable ia) vs
  end.
Proof.
  unfold from_input, raw_is_enum, raw_is_union. intros H. inv_bind H. exists a. split; [reflexivity|].
  inv_bind H. destruct a0 as [it fi].
  destruct (use_case_ok c (ri_generics r) it fi (it_dws a)); [|discriminate].
  inversion H; subst; cbn. repeat split.
  destruct (ri_kind r).
  - inv_bind Hb0. inversion Hb0; subst. eauto.
  - inv_bind Hb0. inv_bind Hb0. inv_bind Hb0. destruct a2 as [fd fi'].
    destruct (negb fd && existsb (fun d : dw => dw_contains d Default) (it_dws a)) eqn:E1; [discriminate|].
    destruct (negb fd && negb fi' && forallb (fun v : data => match d_fields v with [] => true | _ :: _ => false end) a1) eqn:E2; [discriminate|].
    inversion Hb0; subst. exists a0, a1, fd, fi. repeat split; assumption.
  - inv_bind Hb0. inversion Hb0; subst. eauto.
Qed.

Theorem from_input_wf c r i : from_input c r = Ok i -> wf_item (in_item i).
Proof.
  intros H. destruct (from_input_inv c r i H) as [ia [_ [_ [_ K]]]].
  destruct (ri_kind r).
  - destruct K as [d [Hd ->]]. apply data_from_struct_wf in Hd. split; cbn; [|tauto]. constructor; [tauto | constructor].
  - destruct K as [disc [pvs [fd [fi [Hvs [_ [_ [_ [_ ->]]]]]]]]]. apply mapM_Forall2 in Hvs.
    split; cbn.
    + eapply Forall2_Forall_r; [exact Hvs|]. cbn. intros x y Hxy. apply data_from_variant_wf in Hxy. tauto.
    + eapply Forall2_Forall_r; [exact Hvs|]. cbn. intros x y Hxy. apply data_from_variant_wf in Hxy. tauto.
  - destruct K as [d [Hd ->]]. apply data_from_union_wf in Hd. split; cbn; [|tauto]. constructor; [tauto | constructor].
Qed.

Lemma from_input_union c r i :
  from_input c r = Ok i -> item_is_union (in_item i) = raw_is_union r.
Proof.
  intros H. destruct (from_input_inv c r i H) as [ia [_ [_ [_ K]]]]. unfold raw_is_union.
  destruct (ri_kind r).
  - destruct K as [d [Hd ->]]. apply data_from_struct_wf in Hd. cbn. destruct (d_shape d); tauto.
  - destruct K as [disc [pvs [fd [fi [_ [_ [_ [_ [_ ->]]]]]]]]]. reflexivity.
  - destruct K as [d [Hd ->]]. apply data_from_union_wf in Hd. cbn. destruct Hd as [_ [-> _]]. reflexivity.
Qed.

(* ---- traits on unions ---- *)
Definition dw_union_ok (w : dw) : Prop := Forall (fun dt => supports_union (dt_trait dt) = true) (dw_traits w).

Lemma from_stream_union c m dt : from_stream c true m = Ok dt -> supports_union (dt_trait dt) = true.
Proof.
  unfold from_stream. destruct m as [p|p e|p args|ts]; intros H; try discriminate.
  - inv_bind H. cbn [andb] in H. destruct (supports_union a) eqn:S; cbn in H; [|discriminate]. inversion H; subst; assumption.
  - inv_bind H. cbn [andb] in H. destruct (supports_union a) eqn:S; cbn in H; discriminate.
  - inv_bind H. cbn [andb] in H. destruct (supports_union a) eqn:S; cbn in H; [|discriminate].
    inv_bind H. destruct a; cbn in S; try discriminate; cbn in H; discriminate.
Qed.

Lemma from_attr_union c elems semi w : from_attr c true elems semi = Ok w -> dw_union_ok w.
Proof.
  unfold from_attr. intros H.
  assert (G : forall ts, mapM (from_stream c true) elems = Ok ts -> Forall (fun dt => supports_union (dt_trait dt) = true) ts).
  { intros ts Hts. apply mapM_Forall2 in Hts. eapply Forall2_Forall_r; [exact Hts|]. intros x y. apply from_stream_union. }
  destruct elems as [|e es]; [destruct semi; discriminate|].
  inv_bind H. inv_bind H. inversion H; subst. unfold dw_union_ok; cbn. apply G. reflexivity.
Qed.

Lemma merge_into_union cur rest :
  dw_union_ok cur -> Forall dw_union_ok rest -> Forall dw_union_ok (merge_into cur rest).
Proof.
  revert cur; induction rest as [|d r IH]; cbn; intros cur Hc Hr.
  - constructor; auto.
  - inversion Hr; subst.
    destruct (list_eqb generic_eqb (dw_generics d) (dw_generics cur)).
    + apply IH; auto. unfold dw_union_ok in *; cbn. apply Forall_app; split; assumption.
    + constructor; auto.
Qed.

Lemma merge_dws_union l : Forall dw_union_ok l -> Forall dw_union_ok (merge_dws l).
Proof. destruct l; cbn; intros H; [constructor|]. inversion H; subst. apply merge_into_union; assumption. Qed.

Lemma item_attrs_union c is_enum attrs ia :
  item_attr_from_attrs c is_enum true attrs = Ok ia -> Forall dw_union_ok (it_dws ia).
Proof.
  unfold item_attr_from_attrs. intros H. inv_bind H.
  assert (Hacc : Forall dw_union_ok (ia_dws a)).
  { eapply (foldM_inv (fun st => Forall dw_union_ok (ia_dws st))); [| |exact Hb]; [constructor|].
    intros s x s' Hs Hx. unfold item_add_attr in Hx.
    destruct x as [[ts|elems semi]|r|p ts]; try (inversion Hx; subst; assumption).
    assert (Push : forall s'', (do d <- from_attr c true elems semi; Ok (mkIacc (ia_dws s ++ [d]) (ia_skips s) (ia_incs s))) = Ok s'' -> Forall dw_union_ok (ia_dws s'')).
    { intros s'' Hp. inv_bind Hp. inversion Hp; subst; cbn. apply Forall_app; split; [assumption|]. constructor; [|constructor]. eapply from_attr_union; eauto. }
    destruct (comma_view elems semi) as [[|m [|m' ms]]|]; try (apply Push; assumption); [discriminate|].
    destruct (meta1_is m "skip_inner").
    { destruct is_enum; [discriminate|]. inversion Hx; subst; assumption. }
    destruct (meta1_is m "incomparable"); [inversion Hx; subst; assumption|].
    destruct (meta1_is m "crate"); [inversion Hx; subst; assumption|].
    apply Push; assumption. }
  destruct (ia_dws a) eqn:Edws; [discriminate|]. rewrite <- Edws in *.
  destruct (existsb (fun d => has_dup (dw_traits d)) (merge_dws (ia_dws a))); [discriminate|].
  destruct (has_cross_dup (merge_dws (ia_dws a))); [discriminate|].
  inv_bind H. inv_bind H. inversion H; subst; cbn. apply merge_dws_union. assumption.
Qed.

(* a union only ever derives Clone and Copy *)
Theorem union_traits c r i w dt :
  from_input c r = Ok i -> item_is_union (in_item i) = true ->
  In w (in_dws i) -> In dt (dw_traits w) -> supports_union (dt_trait dt) = true.
Proof.
  intros H U Hw Hdt. rewrite (from_input_union c r i H) in U.
  destruct (from_input_inv c r i H) as [ia [Hia [Edws _]]].
  rewrite U in Hia. apply item_attrs_union in Hia. rewrite Edws in Hw.
  rewrite Forall_forall in Hia. specialize (Hia w Hw). unfold dw_union_ok in Hia.
  rewrite Forall_forall in Hia. auto.
Qed.

(* ---- Default: exactly one `default` variant ---- *)
Lemma check_variants_count inc vs fd0 fi0 fd fi :
  check_variants inc vs fd0 fi0 = Ok (fd, fi) ->
  length (filter d_default vs) + (if fd0 then 1 else 0) = (if fd then 1 else 0).
Proof.
  revert fd0 fi0; induction vs as [|v vs IH]; cbn; intros fd0 fi0 H.
  - inversion H; subst. reflexivity.
  - destruct (d_default v) eqn:Hd; cbn [andb] in H.
    + destruct fd0; [discriminate|]. destruct (inc && d_incomparable v); [discriminate|].
      apply IH in H. cbn in *. lia.
    + destruct (inc && d_incomparable v); [discriminate|]. rewrite orb_false_r in H. apply IH in H. exact H.
Qed.

Lemma filter_indexed_length {A} (p : A -> bool) l n :
  length (filter (fun q => p (snd q)) (indexed_from n l)) = length (filter p l).
Proof. revert n; induction l as [|x l IH]; intros n; cbn; [reflexivity|]. destruct (p x); cbn; rewrite IH; reflexivity. Qed.

Theorem default_exists {fval} (fdefault : toks -> fval) c r i w :
  from_input c r = Ok i -> In w (in_dws i) -> dw_contains w Default = true ->
  exists v, spec_default fdefault (in_item i) = Some v.
Proof.
  intros H Hw Hd. destruct (from_input_inv c r i H) as [ia [_ [Edws [_ K]]]].
  unfold spec_default.
  destruct (ri_kind r).
  - destruct K as [d [_ ->]]. cbn. eexists; reflexivity.
  - destruct K as [disc [pvs [fd [fi [_ [_ [Hc [Hm [_ ->]]]]]]]]].
    assert (fd = true).
    { destruct fd; [reflexivity|]. cbn in Hm. rewrite <- Edws in Hm.
      assert (existsb (fun d => dw_contains d Default) (in_dws i) = true) by (apply existsb_exists; eauto). congruence. }
    subst fd. apply check_variants_count in Hc. cbn in Hc.
    cbn [default_index]. unfold indexed.
    pose proof (filter_indexed_length d_default pvs 0) as L. rewrite Nat.add_0_r in Hc. rewrite Hc in L.
    destruct (filter (fun p => d_default (snd p)) (indexed_from 0 pvs)) as [|[j dj] [|q l]] eqn:Ef; cbn in L; try lia.
    assert (Hin : In (j, dj) (indexed_from 0 pvs)) by (eapply (proj1 (filter_In _ _ _)); rewrite Ef; left; reflexivity).
    assert (Hn : nth_error pvs j = Some dj).
    { clear - Hin. assert (G : forall l n, In (j, dj) (indexed_from n l) -> n <= j /\ nth_error l (j - n) = Some dj).
      { induction l as [|y l IH]; cbn; intros n H; [contradiction|]. destruct H as [H|H].
        - inversion H; subst. rewrite Nat.sub_diag. split; [lia | reflexivity].
        - apply IH in H. destruct H as [Hle Hn]. split; [lia|]. replace (j - n) with (S (j - S n)) by lia. exact Hn. }
      apply G in Hin. rewrite Nat.sub_0_r in Hin. tauto. }
    cbn [item_variants]. rewrite Hn. eexists; reflexivity.
  - destruct K as [d [_ ->]]. cbn. eexists; reflexivity.
Qed.

Lemma derives_not_union c r i w dt :
  from_input c r = Ok i -> In w (in_dws i) -> In dt (dw_traits w) ->
  supports_union (dt_trait dt) = false -> item_is_union (in_item i) = false.
Proof.
  intros H Hw Hdt S. destruct (item_is_union (in_item i)) eqn:U; [|reflexivity].
  pose proof (union_traits c r i w dt H U Hw Hdt). congruence.
Qed.

(* ---- discriminants and lengths of the parsed variants ---- *)
Lemma data_from_variant_disc c id dws v d :
  data_from_variant c id dws v = Ok d -> d_disc d = (if c_nightly c then None else rv_disc v).
Proof.
  unfold data_from_variant. intros H. inv_bind H.
  destruct (rv_shape v); [inv_bind H | inv_bind H |]; inversion H; subst; reflexivity.
Qed.

Lemma Forall2_length' {A B} (R : A -> B -> Prop) l l' : Forall2 R l l' -> length l = length l'.
Proof. induction 1; cbn; congruence. Qed.

Lemma variants_discs c id dws rvs vs :
  mapM (data_from_variant c id dws) rvs = Ok vs ->
  length vs = length rvs /\ (c_nightly c = false -> map d_disc vs = map rv_disc rvs).
Proof.
  intros H. apply mapM_Forall2 in H. split.
  - symmetry. eapply Forall2_length'; eauto.
  - intros Hn. induction H as [|x y l l' Hxy H IH]; cbn; [reflexivity|].
    rewrite IH. f_equal. apply data_from_variant_disc in Hxy. rewrite Hn in Hxy. assumption.
Qed.

(* ---- incomparable excludes Eq and Ord ---- *)
Definition total_free (dws : list dw) : Prop :=
  forall w dt, In w dws -> In dt (dw_traits w) -> dt_trait dt <> Eq /\ dt_trait dt <> Ord.

Lemma incomparable_scan_total_free ts b r :
  incomparable_scan ts b = Ok r -> forall dt, In dt ts -> dt_trait dt <> Eq /\ dt_trait dt <> Ord.
Proof.
  revert b; induction ts as [|t ts IH]; cbn; intros b H dt Hin; [contradiction|].
  destruct Hin as [<-|Hin].
  - destruct (dt_trait t); try discriminate; split; discriminate.
  - destruct (dt_trait t); try discriminate; eapply IH; eauto.
Qed.

Lemma incomparable_add_true dws m self :
  incomparable_add dws m self = Ok true -> self = true \/ total_free dws.
Proof.
  unfold incomparable_add. destruct m; try discriminate. destruct self; [discriminate|].
  intros H. inv_bind H. right. intros w dt Hw Hdt.
  eapply incomparable_scan_total_free; eauto. apply in_flat_map. eauto.
Qed.

Lemma incomparable_add_bool dws m self r : incomparable_add dws m self = Ok r -> r = true.
Proof.
  unfold incomparable_add. destruct m; try discriminate. destruct self; [discriminate|].
  intros H. inv_bind H. destruct a; inversion H; reflexivity.
Qed.

Lemma variant_attr_incomparable c dws v va :
  variant_attr_from_attrs c dws v = Ok va -> va_incomparable va = true -> total_free dws.
Proof.
  unfold variant_attr_from_attrs. intros H Hi.
  assert (G : va_incomparable va = true -> False \/ total_free dws).
  { eapply (foldM_inv (fun st => va_incomparable st = true -> False \/ total_free dws)); [| |exact H].
    - cbn. discriminate.
    - intros s a s' Hs Ha. unfold variant_add_attr in Ha. destruct a as [sa|p ts]; [|inversion Ha; subst; assumption].
      inv_bind Ha.
      eapply (foldM_inv (fun st => va_incomparable st = true -> False \/ total_free dws)); [exact Hs| |exact Ha].
      intros s1 m s1' Hs1 Hm. unfold variant_add_meta in Hm.
      destruct (meta1_is m "skip_inner").
      { destruct (variant_fields_empty v); [discriminate|]. inv_bind Hm. inversion Hm; subst; cbn. assumption. }
      destruct (meta1_is m "default").
      { inv_bind Hm. inversion Hm; subst; cbn. assumption. }
      destruct (meta1_is m "incomparable"); [|discriminate].
      inv_bind Hm. inversion Hm; subst; cbn. intros Ht. subst.
      match goal with Hx : incomparable_add _ _ _ = Ok true |- _ => apply incomparable_add_true in Hx; destruct Hx as [Hx|Hx]; [apply Hs1; assumption | right; assumption] end. }
  destruct (G Hi) as [[]|T]. assumption.
Qed.

Lemma data_from_variant_incomparable c id dws v d :
  data_from_variant c id dws v = Ok d -> d_incomparable d = true -> total_free dws.
Proof.
  unfold data_from_variant. intros H Hi. inv_bind H.
  assert (va_incomparable a = true).
  { destruct (rv_shape v); [inv_bind H | inv_bind H |]; inversion H; subst; cbn in Hi; assumption. }
  eapply variant_attr_incomparable; eauto.
Qed.

Lemma item_attrs_incomparable c is_enum is_union attrs ia :
  item_attr_from_attrs c is_enum is_union attrs = Ok ia -> it_incomparable ia = true -> total_free (it_dws ia).
Proof.
  unfold item_attr_from_attrs. intros H Hi. inv_bind H.
  destruct (ia_dws a) eqn:Edws; [discriminate|]. rewrite <- Edws in *.
  destruct (existsb (fun d => has_dup (dw_traits d)) (merge_dws (ia_dws a))); [discriminate|].
  destruct (has_cross_dup (merge_dws (ia_dws a))); [discriminate|].
  inv_bind H. inv_bind H. inversion H; subst; cbn in *.
  assert (G : a1 = true -> False \/ total_free (merge_dws (ia_dws a))).
  { eapply (foldM_inv (fun i => i = true -> False \/ total_free (merge_dws (ia_dws a)))); [| |exact Hb1].
    - discriminate.
    - intros s m s' Hs Hm Ht. subst s'. apply incomparable_add_true in Hm. destruct Hm as [Hm|Hm]; [apply Hs; assumption | right; assumption]. }
  destruct (G Hi) as [[]|T]. assumption.
Qed.

(* an accepted item deriving Eq or Ord carries no incomparable marker at all *)
Theorem total_no_incomparable c r i w dt :
  from_input c r = Ok i -> In w (in_dws i) -> In dt (dw_traits w) -> (dt_trait dt = Eq \/ dt_trait dt = Ord) ->
  item_inc_flag (in_item i) = false /\ forall d, In d (item_variants (in_item i)) -> d_incomparable d = false.
Proof.
  intros H Hw Hdt Ht. destruct (from_input_inv c r i H) as [ia [Hia [Edws [_ K]]]].
  assert (NT : ~ total_free (it_dws ia)).
  { intros T. rewrite <- Edws in T. destruct (T w dt Hw Hdt) as [T1 T2]. destruct Ht; contradiction. }
  assert (Hitem : it_incomparable ia = false).
  { destruct (it_incomparable ia) eqn:E; [|reflexivity]. exfalso. apply NT. eapply item_attrs_incomparable; eauto. }
  destruct (ri_kind r).
  - destruct K as [d [Hd ->]]. cbn.
    assert (d_incomparable d = it_incomparable ia).
    { unfold data_from_struct in Hd. destruct sh.
      - destruct (match fs with [] => negb (it_incomparable ia) | _ => false end); [discriminate|]. inv_bind Hd. inversion Hd; reflexivity.
      - destruct (match fs with [] => negb (it_incomparable ia) | _ => false end); [discriminate|]. inv_bind Hd. inversion Hd; reflexivity.
      - destruct (it_incomparable ia); [|discriminate]. inversion Hd; reflexivity. }
    rewrite H0, Hitem. split; [reflexivity|]. intros d' [<-|[]]. congruence.
  - destruct K as [disc [pvs [fd [fi [Hvs [_ [_ [_ [_ ->]]]]]]]]]. cbn. split; [assumption|].
    intros d Hd. destruct (d_incomparable d) eqn:E; [|reflexivity]. exfalso. apply NT.
    apply mapM_Forall2 in Hvs.
    assert (G : exists v, data_from_variant c (ri_name r) (it_dws ia) v = Ok d).
    { clear - Hvs Hd. induction Hvs as [|x y l l' Hxy Hl IH]; [contradiction|]. destruct Hd as [<-|Hd]; eauto. }
    destruct G as [v Hv]. eapply data_from_variant_incomparable; eauto.
  - destruct K as [d [Hd ->]]. cbn.
    assert (d_incomparable d = it_incomparable ia).
    { unfold data_from_union in Hd. destruct (match fs with [] => negb (it_incomparable ia) | _ => false end); [discriminate|]. inv_bind Hd. inversion Hd; reflexivity. }
    rewrite H0, Hitem. split; [reflexivity|]. intros d' [<-|[]]. congruence.
Qed.
