(* C18 - zeroize() wipes every non-skipped field of the live variant only. *)
From DW Require Import Proofs_simple Proofs_frontend Proofs_decl Examples.
From Coq Require Import Permutation.

(* For every accepted item deriving Zeroize and every value: exactly the fields of the live
   variant that are not skipped for Zeroize are zeroized, in declaration order, each through
   the method call or - where `Zeroize(fqs)` is given - through the fully qualified function;
   every variant has an arm (no value is left without one). *)
Theorem C18_zeroize :
  forall (fval : Type) (c : cfg) (raw : raw_item) (i : input) (w : dw) (dt : derive_trait) (a : value fval),
    from_input c raw = Ok i -> In w (in_dws i) -> In dt (dw_traits w) -> dt_trait dt = Zeroize ->
    wf_value (in_item i) a ->
    exists z, gen_body c (in_item i) w dt = BZeroize z /\
              eval_zeroize z a = Val (spec_zeroize (in_item i) a).
Proof.
  intros fval c raw i w dt a Hin Hw Hdt Ht Wa.
  assert (NU : item_is_union (in_item i) = false) by (eapply derives_not_union; eauto; rewrite Ht; reflexivity).
  exists (gen_zeroize (in_item i)). split.
  - unfold gen_body. rewrite Ht, NU. reflexivity.
  - apply gen_zeroize_correct; [eapply from_input_wf; eauto | assumption].
Qed.

Check C18_zeroize :
  forall (fval : Type) (c : cfg) (raw : raw_item) (i : input) (w : dw) (dt : derive_trait) (a : value fval),
    from_input c raw = Ok i -> In w (in_dws i) -> In dt (dw_traits w) -> dt_trait dt = Zeroize ->
    wf_value (in_item i) a ->
    exists z, gen_body c (in_item i) w dt = BZeroize z /\
              eval_zeroize z a = Val (spec_zeroize (in_item i) a).
Print Assumptions C18_zeroize.

(* the paths used are the `crate =` option, else ::zeroize *)
Theorem C18_crate_path :
  forall (dt : derive_trait), dt_trait dt = Zeroize ->
    trait_path dt = path_from_root_and_strs (match dt_crate dt with Some p => p | None => path_from_strs ["zeroize"] end) ["Zeroize"].
Proof. intros dt H. unfold trait_path, trait_crate. rewrite H. reflexivity. Qed.

Check C18_crate_path :
  forall (dt : derive_trait), dt_trait dt = Zeroize ->
    trait_path dt = path_from_root_and_strs (match dt_crate dt with Some p => p | None => path_from_strs ["zeroize"] end) ["Zeroize"].
Print Assumptions C18_crate_path.

(* Which fields go through the fully qualified function is read off the attributes AS WRITTEN: a field of an accepted item
   has the fqs flag iff SOME option of SOME derive_where attribute on it is `Zeroize(.. fqs ..)` - wherever that option
   stands among the field's options (before or after a `skip(..)`, in the first or a later attribute). *)
Theorem C18_fqs_as_written :
  forall (c : cfg) (r : raw_item) (i : input),
    from_input c r = Ok i ->
    (forall sh fs d, ri_kind r = KStruct sh fs -> in_item i = IItem d ->
       sh = RUnit \/ Forall2 fqs_as_written fs (d_fields d)) /\
    (forall rvs disc id inc vs, ri_kind r = KEnum rvs -> in_item i = IEnum disc id inc vs ->
       Forall2 (fun rv d => rv_shape rv = RUnit \/ Forall2 fqs_as_written (rv_fields rv) (d_fields d)) rvs vs).
Proof.
  intros c r i H. split.
  - intros sh fs d Hk Hi. eapply accepted_struct_fqs; eassumption.
  - intros rvs disc id inc vs Hk Hi. eapply accepted_variants_fqs; eassumption.
Qed.

Check C18_fqs_as_written :
  forall (c : cfg) (r : raw_item) (i : input),
    from_input c r = Ok i ->
    (forall sh fs d, ri_kind r = KStruct sh fs -> in_item i = IItem d ->
       sh = RUnit \/ Forall2 fqs_as_written fs (d_fields d)) /\
    (forall rvs disc id inc vs, ri_kind r = KEnum rvs -> in_item i = IEnum disc id inc vs ->
       Forall2 (fun rv d => rv_shape rv = RUnit \/ Forall2 fqs_as_written (rv_fields rv) (d_fields d)) rvs vs).
Print Assumptions C18_fqs_as_written.

(* hence the order and grouping of a field's options never matter, neither for what it is skipped for nor for fqs *)
Theorem C18_field_option_order_irrelevant :
  forall (c : cfg) (dws : list dw) (parent : skip) (attrs attrs' : list field_attr) (st st' : skip * bool),
    Permutation (metas_of attrs) (metas_of attrs') ->
    field_attr_from_attrs c dws parent attrs = Ok st -> field_attr_from_attrs c dws parent attrs' = Ok st' ->
    (forall t, trait_skipped (fst st) t = trait_skipped (fst st') t) /\ snd st = snd st'.
Proof.
  intros c dws parent attrs attrs' st st' HP H H'. split.
  - intros t. rewrite (field_attrs_declarative _ _ _ _ _ H t), (field_attrs_declarative _ _ _ _ _ H' t). apply existsb_perm. exact HP.
  - pose proof (field_fqs_declarative _ _ _ _ _ H) as A. pose proof (field_fqs_declarative _ _ _ _ _ H') as A'.
    unfold ffqs_decl in A, A'. rewrite A, A'. apply existsb_perm. exact HP.
Qed.

Check C18_field_option_order_irrelevant :
  forall (c : cfg) (dws : list dw) (parent : skip) (attrs attrs' : list field_attr) (st st' : skip * bool),
    Permutation (metas_of attrs) (metas_of attrs') ->
    field_attr_from_attrs c dws parent attrs = Ok st -> field_attr_from_attrs c dws parent attrs' = Ok st' ->
    (forall t, trait_skipped (fst st) t = trait_skipped (fst st') t) /\ snd st = snd st'.
Print Assumptions C18_field_option_order_irrelevant.

(* non-vacuity of the order statement: `skip(Debug), Zeroize(fqs)` and `Zeroize(fqs), skip(Debug)` are both accepted and
   give the same markers (fqs set, skipped for Debug only) *)
Example C18_order_nonvacuous :
  let sk := M1List (pid "skip") (Some [M2Path (pid "Debug")]) in
  let fq := M1List (pid "Zeroize") (Some [M2Path (pid "fqs")]) in
  let dws := [mkDw [mkDT Zeroize None; mkDT Debug None] [] ] in
  field_attr_from_attrs cfg_zeroize dws SkipNone [FADw (SAList (Some [sk; fq]))] = Ok (SkipTraits [GDebug], true) /\
  field_attr_from_attrs cfg_zeroize dws SkipNone [FADw (SAList (Some [fq; sk]))] = Ok (SkipTraits [GDebug], true) /\
  field_attr_from_attrs cfg_zeroize dws SkipNone [FADw (SAList (Some [fq])); FADw (SAList (Some [sk]))] = Ok (SkipTraits [GDebug], true).
Proof. vm_compute. repeat split; reflexivity. Qed.

(* Non-vacuity: an enum with a field-less variant and a skipped field, under the zeroize feature. *)
Definition ex_zeroize : raw_item :=
  mkRawItem [dw_of ["Zeroize"] None] [] "Z" gen_T
    (KEnum [mkRawVariant [] "A" RUnnamed [ufld ["T"] []; ufld ["u8"] [skip_groups "skip" ["Zeroize"]]] None;
            mkRawVariant [] "B" RUnit [] None;
            mkRawVariant [] "C" RNamed [fld "x" ["T"] [FADw (SAList (Some [M1List (pid "Zeroize") (Some [M2Path (pid "fqs")])]))]] None]).

Example C18_nonvacuous :
  exists i w dt, from_input cfg_zeroize ex_zeroize = Ok i /\ In w (in_dws i) /\ In dt (dw_traits w) /\ dt_trait dt = Zeroize /\
    spec_zeroize (in_item i) (mkValue 0 [1; 2]) = [ZMethod 0] /\
    spec_zeroize (in_item i) (mkValue 1 ([] : list nat)) = [] /\
    spec_zeroize (in_item i) (mkValue 2 [5]) = [ZFqs 0] /\
    eval_zeroize (gen_zeroize (in_item i)) (mkValue 1 ([] : list nat)) = Val [].
Proof.
  destruct (from_input cfg_zeroize ex_zeroize) as [i| |] eqn:E; try (vm_compute in E; discriminate).
  vm_compute in E. injection E as <-.
  eexists; eexists; eexists. split; [reflexivity|]. split; [left; reflexivity|].
  split; [left; reflexivity|]. repeat split; reflexivity.
Qed.
