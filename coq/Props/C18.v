(* C18 - zeroize() wipes every non-skipped field of the live variant only. *)
From DW Require Import Proofs_simple Proofs_frontend Examples.

(* For every accepted item deriving Zeroize and every value: exactly the fields of the live
   variant that are not skipped for Zeroize are zeroized, in declaration order, each through
   the method call or - where `Zeroize(fqs)` is given - through the fully qualified function;
   every variant has an arm (no value is left without one). *)
Theorem C18_zeroize :
  forall (fval : Type) (c : cfg) (raw : raw_item) (i : input) (w : dw) (dt : derive_trait) (a : value fval),
    from_input c raw = Ok i -> In w (in_dws i) -> In dt (dw_traits w) -> dt_trait dt = Zeroize ->
    wf_value (in_item i) a ->
    exists z, gen_body c (in_item i) w dt = BZeroize z /\
              eval_zeroize z a = Val (spec_zeroize (in_item i) a).
Proof.
  intros fval c raw i w dt a Hin Hw Hdt Ht Wa.
  assert (NU : item_is_union (in_item i) = false) by (eapply derives_not_union; eauto; rewrite Ht; reflexivity).
  exists (gen_zeroize (in_item i)). split.
  - unfold gen_body. rewrite Ht, NU. reflexivity.
  - apply gen_zeroize_correct; [eapply from_input_wf; eauto | assumption].
Qed.

Check C18_zeroize :
  forall (fval : Type) (c : cfg) (raw : raw_item) (i : input) (w : dw) (dt : derive_trait) (a : value fval),
    from_input c raw = Ok i -> In w (in_dws i) -> In dt (dw_traits w) -> dt_trait dt = Zeroize ->
    wf_value (in_item i) a ->
    exists z, gen_body c (in_item i) w dt = BZeroize z /\
              eval_zeroize z a = Val (spec_zeroize (in_item i) a).
Print Assumptions C18_zeroize.

(* the paths used are the `crate =` option, else ::zeroize *)
Theorem C18_crate_path :
  forall (dt : derive_trait), dt_trait dt = Zeroize ->
    trait_path dt = path_from_root_and_strs (match dt_crate dt with Some p => p | None => path_from_strs ["zeroize"] end) ["Zeroize"].
Proof. intros dt H. unfold trait_path, trait_crate. rewrite H. reflexivity. Qed.

Check C18_crate_path :
  forall (dt : derive_trait), dt_trait dt = Zeroize ->
    trait_path dt = path_from_root_and_strs (match dt_crate dt with Some p => p | None => path_from_strs ["zeroize"] end) ["Zeroize"].
Print Assumptions C18_crate_path.

(* Non-vacuity: an enum with a field-less variant and a skipped field, under the zeroize feature. *)
Definition ex_zeroize : raw_item :=
  mkRawItem [dw_of ["Zeroize"] None] [] "Z" gen_T
    (KEnum [mkRawVariant [] "A" RUnnamed [ufld ["T"] []; ufld ["u8"] [skip_groups "skip" ["Zeroize"]]] None;
            mkRawVariant [] "B" RUnit [] None;
            mkRawVariant [] "C" RNamed [fld "x" ["T"] [FADw (SAList (Some [M1List (pid "Zeroize") (Some [M2Path (pid "fqs")])]))]] None]).

Example C18_nonvacuous :
  exists i w dt, from_input cfg_zeroize ex_zeroize = Ok i /\ In w (in_dws i) /\ In dt (dw_traits w) /\ dt_trait dt = Zeroize /\
    spec_zeroize (in_item i) (mkValue 0 [1; 2]) = [ZMethod 0] /\
    spec_zeroize (in_item i) (mkValue 1 ([] : list nat)) = [] /\
    spec_zeroize (in_item i) (mkValue 2 [5]) = [ZFqs 0] /\
    eval_zeroize (gen_zeroize (in_item i)) (mkValue 1 ([] : list nat)) = Val [].
Proof.
  destruct (from_input cfg_zeroize ex_zeroize) as [i| |] eqn:E; try (vm_compute in E; discriminate).
  vm_compute in E. injection E as <-.
  eexists; eexists; eexists. split; [reflexivity|]. split; [left; reflexivity|].
  split; [left; reflexivity|]. repeat split; reflexivity.
Qed.
