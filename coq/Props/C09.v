(* C09 - clone() reproduces the value field by field; Copy shortcut only when sound. *)
From DW Require Import Proofs_simple Proofs_frontend Examples.

(* Without the shortcut: same variant, every field (skip markers are ignored) cloned through
   its own Clone exactly once, in declaration order. *)
Theorem C09_clone :
  forall (fval : Type) (fclone : fval -> fval) (c : cfg) (raw : raw_item) (i : input)
         (w : dw) (dt : derive_trait) (a : value fval),
    from_input c raw = Ok i -> In w (in_dws i) -> In dt (dw_traits w) -> dt_trait dt = Clone ->
    wf_value (in_item i) a -> shortcut w Copy = false -> item_is_union (in_item i) = false ->
    exists b, gen_body c (in_item i) w dt = BClone b /\
              eval_clone fclone b a = Val (mkValue (v_idx a) (map fclone (v_fields a)), seq 0 (length (v_fields a))).
Proof.
  intros fval fclone c raw i w dt a Hin Hw Hdt Ht Wa Hs NU.
  exists (gen_clone (in_item i) w). split.
  - unfold gen_body. rewrite Ht. reflexivity.
  - apply gen_clone_correct; [eapply from_input_wf; eauto | assumption | assumption | assumption].
Qed.

Check C09_clone :
  forall (fval : Type) (fclone : fval -> fval) (c : cfg) (raw : raw_item) (i : input)
         (w : dw) (dt : derive_trait) (a : value fval),
    from_input c raw = Ok i -> In w (in_dws i) -> In dt (dw_traits w) -> dt_trait dt = Clone ->
    wf_value (in_item i) a -> shortcut w Copy = false -> item_is_union (in_item i) = false ->
    exists b, gen_body c (in_item i) w dt = BClone b /\
              eval_clone fclone b a = Val (mkValue (v_idx a) (map fclone (v_fields a)), seq 0 (length (v_fields a))).
Print Assumptions C09_clone.

(* The `*self` shortcut is taken only when Copy is requested by the SAME attribute and every
   bound of that attribute is custom (or there is none), and then the Clone impl and the Copy
   impl carry literally the same predicates: whenever the Clone impl applies, the type is Copy. *)
Theorem C09_shortcut_sound :
  forall (g : generics) (it : item) (w : dw) (dclone dcopy : derive_trait) (fval : Type) (fclone : fval -> fval) (a : value fval),
    shortcut w Copy = true ->
    dw_contains w Copy = true /\
    where_preds g it w dclone = where_preds g it w dcopy /\
    eval_clone fclone (gen_clone it w) a = Val (a, []).
Proof.
  intros g it w dclone dcopy fval fclone a H. unfold shortcut in H. apply andb_true_iff in H. destruct H as [Hall Hc].
  split; [assumption|]. split.
  - unfold where_preds. destruct (g_where g) as [[ps tr]|]; destruct (dw_generics w) as [|x gs] eqn:E; try reflexivity.
    + f_equal. f_equal. unfold all_custom_bound in Hall. rewrite E in Hall. rewrite forallb_forall in Hall.
      apply map_ext_in. intros y Hy. specialize (Hall y Hy). destruct y; [reflexivity | discriminate].
    + f_equal. f_equal. unfold all_custom_bound in Hall. rewrite E in Hall. rewrite forallb_forall in Hall.
      apply map_ext_in. intros y Hy. specialize (Hall y Hy). destruct y; [reflexivity | discriminate].
  - apply gen_clone_shortcut. unfold shortcut. rewrite Hall, Hc. reflexivity.
Qed.

Check C09_shortcut_sound :
  forall (g : generics) (it : item) (w : dw) (dclone dcopy : derive_trait) (fval : Type) (fclone : fval -> fval) (a : value fval),
    shortcut w Copy = true ->
    dw_contains w Copy = true /\
    where_preds g it w dclone = where_preds g it w dcopy /\
    eval_clone fclone (gen_clone it w) a = Val (a, []).
Print Assumptions C09_shortcut_sound.

(* Unions: cloned bitwise, behind `__AssertCopy<Self>` unless the shortcut applies, and every plain
   bound of the Clone impl additionally requires Copy; Copy itself is an empty marker impl. *)
Theorem C09_union_and_copy :
  forall (c : cfg) (it : item) (w : dw) (dt : derive_trait) (fval : Type) (fclone : fval -> fval) (a : value fval),
    (item_is_union it = true -> dt_trait dt = Clone ->
       (gen_clone it w = CUnion \/ gen_clone it w = CCopy) /\
       eval_clone fclone (gen_clone it w) a = Val (a, []) /\
       where_bounds it dt = path_toks (trait_path dt) ++ "+" :: std_path Copy) /\
    (dt_trait dt = Copy -> gen_body c it w dt = BCopy /\ render_body c (mkGenerics [] false None) it dt BCopy = []).
Proof.
  intros c it w dt fval fclone a. split.
  - intros U Ht. split; [|split].
    + unfold gen_clone. destruct (shortcut w Copy); [right; reflexivity|]. rewrite U. left; reflexivity.
    + apply gen_clone_union. assumption.
    + unfold where_bounds. rewrite Ht, U. reflexivity.
  - intros Ht. unfold gen_body. rewrite Ht. split; reflexivity.
Qed.

Check C09_union_and_copy :
  forall (c : cfg) (it : item) (w : dw) (dt : derive_trait) (fval : Type) (fclone : fval -> fval) (a : value fval),
    (item_is_union it = true -> dt_trait dt = Clone ->
       (gen_clone it w = CUnion \/ gen_clone it w = CCopy) /\
       eval_clone fclone (gen_clone it w) a = Val (a, []) /\
       where_bounds it dt = path_toks (trait_path dt) ++ "+" :: std_path Copy) /\
    (dt_trait dt = Copy -> gen_body c it w dt = BCopy /\ render_body c (mkGenerics [] false None) it dt BCopy = []).
Print Assumptions C09_union_and_copy.

(* Non-vacuity: ex_struct derives Clone with a plain bound (no shortcut); the skipped field b is still cloned. *)
Example C09_nonvacuous :
  exists i w dt, from_input cfg_default ex_struct = Ok i /\ In w (in_dws i) /\ In dt (dw_traits w) /\ dt_trait dt = Clone /\
    wf_value (in_item i) (mkValue 0 [3; 4]) /\ shortcut w Copy = false /\ item_is_union (in_item i) = false /\
    eval_clone S (gen_clone (in_item i) w) (mkValue 0 [3; 4]) = Val (mkValue 0 [4; 5], [0; 1]).
Proof.
  destruct (from_input cfg_default ex_struct) as [i| |] eqn:E; try (vm_compute in E; discriminate).
  vm_compute in E. injection E as <-.
  eexists; eexists; eexists. split; [reflexivity|]. split; [left; reflexivity|].
  split; [left; reflexivity|]. split; [reflexivity|].
  split; [eexists; split; reflexivity|]. repeat split; reflexivity.
Qed.
