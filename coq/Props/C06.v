(* C06 - a skipped field is invisible to exactly the traits of its skip group. *)
From DW Require Import Proofs_laws Proofs_decl Examples.
From Coq Require Import Permutation.
Open Scope nat_scope.

Definition all_traits := [Clone; Copy; Debug; Default; Eq; Hash; Ord; PartialEq; PartialOrd; Zeroize; ZeroizeOnDrop].
Definition all_groups := [GDebug; GEqHashOrd; GHash; GZeroize].

(* the documented table (README, "Skipping fields"), written out *)
Definition documented (g : group) (t : trait) : bool :=
  match g with
  | GDebug => match t with Debug => true | _ => false end
  | GEqHashOrd => match t with Eq | Hash | Ord | PartialEq | PartialOrd => true | _ => false end
  | GHash => match t with Hash => true | _ => false end
  | GZeroize => match t with Zeroize | ZeroizeOnDrop => true | _ => false end
  end.

(* The macro's skip decision is the documented table: 4 groups x 11 traits (checked exhaustively,
   lifted to all markers), a bare skip selects every skippable trait, and Clone / Copy / Default
   are never selected by any marker. *)
Theorem C06_table :
  (forall g t, existsb (trait_beq t) (group_traits g) = documented g t) /\
  (forall s t, trait_skipped s t = match s with
                                   | SkipNone => false
                                   | SkipAll => negb (match t with Clone | Copy | Default => true | _ => false end)
                                   | SkipTraits gs => existsb (fun g => documented g t) gs end) /\
  (forall s, trait_skipped s Clone = false /\ trait_skipped s Copy = false /\ trait_skipped s Default = false).
Proof.
  assert (T : forall g t, existsb (trait_beq t) (group_traits g) = documented g t).
  { assert (F : forallb (fun g => forallb (fun t => Bool.eqb (existsb (trait_beq t) (group_traits g)) (documented g t)) all_traits) all_groups = true) by (vm_compute; reflexivity).
    intros g t. rewrite forallb_forall in F. assert (Hg : In g all_groups) by (destruct g; cbn; tauto).
    specialize (F g Hg). rewrite forallb_forall in F. assert (Ht : In t all_traits) by (destruct t; cbn; tauto).
    apply Bool.eqb_prop. apply F. assumption. }
  split; [exact T|]. split.
  - intros s t. destruct s as [| |gs]; cbn; [reflexivity | destruct t; reflexivity |].
    induction gs as [|g gs IH]; cbn; [reflexivity|]. rewrite T, IH. reflexivity.
  - intros s. destruct s as [| |gs]; cbn; try (repeat split; reflexivity).
    repeat split; (induction gs as [|g gs IH]; cbn; [reflexivity|]; rewrite IH; destruct g; reflexivity).
Qed.

Check C06_table :
  (forall g t, existsb (trait_beq t) (group_traits g) = documented g t) /\
  (forall s t, trait_skipped s t = match s with
                                   | SkipNone => false
                                   | SkipAll => negb (match t with Clone | Copy | Default => true | _ => false end)
                                   | SkipTraits gs => existsb (fun g => documented g t) gs end) /\
  (forall s, trait_skipped s Clone = false /\ trait_skipped s Copy = false /\ trait_skipped s Default = false).
Print Assumptions C06_table.

(* A field is iterated for trait t iff neither its own marker nor its parent's skip_inner selects t
   (the macro's "skip everything, then filter" structure computes exactly that). *)
Theorem C06_effective :
  forall (d : data) (t : trait), wf_data d ->
    iter_fields d t = filter (fun p => negb (selects (f_skip (snd p)) t) && negb (selects (d_skip_inner d) t)) (indexed (d_fields d)).
Proof. intros d t W. rewrite iter_fields_visible by assumption. reflexivity. Qed.

Check C06_effective :
  forall (d : data) (t : trait), wf_data d ->
    iter_fields d t = filter (fun p => negb (selects (f_skip (snd p)) t) && negb (selects (d_skip_inner d) t)) (indexed (d_fields d)).
Print Assumptions C06_effective.

(* Invisible: two values that differ only in fields skipped for t give the same ==, partial_cmp,
   hasher input, Debug trace and zeroize set under t. *)
Theorem C06_invisible :
  forall (fval hval : Type) (feq : fval -> fval -> bool) (fpcmp : fval -> fval -> option comparison) (fhash : fval -> hval)
         (it : item) (re : rust_enum) (a a' b : value fval) (d : data),
    variant_of it a = Some d -> v_idx a' = v_idx a ->
    (agree_on_visible d PartialEq a a' -> spec_eq feq it a b = spec_eq feq it a' b) /\
    (agree_on_visible d PartialOrd a a' -> spec_pcmp fpcmp it re a b = spec_pcmp fpcmp it re a' b) /\
    (agree_on_visible d Hash a a' -> spec_hash fhash it a = spec_hash fhash it a') /\
    (agree_on_visible d Debug a a' -> spec_debug it a = spec_debug it a').
Proof.
  intros fval hval feq fpcmp fhash it re a a' b d Hd Hi.
  assert (Hd' : variant_of it a' = Some d) by (unfold variant_of in *; rewrite Hi; assumption).
  assert (Hinc : incomparable_value it a' = incomparable_value it a) by (unfold incomparable_value, variant_of; rewrite Hi; reflexivity).
  split; [|split; [|split]].
  - intros Ag. unfold spec_eq. rewrite Hd, Hd', Hi, Hinc, (project_agree d PartialEq a a' Ag). reflexivity.
  - intros Ag. unfold spec_pcmp, Spec.disc_of. rewrite Hd, Hd', Hi, Hinc, (project_agree d PartialOrd a a' Ag). reflexivity.
  - intros Ag. unfold spec_hash. rewrite Hd, Hd', Hi, (project_agree d Hash a a' Ag). reflexivity.
  - intros Ag. unfold spec_debug. rewrite Hd, Hd'.
    assert (Hs : filter (fun p => visible d Debug (fst p)) (combine (d_fields d) (v_fields a)) =
                 filter (fun p => visible d Debug (fst p)) (combine (d_fields d) (v_fields a'))).
    { destruct Ag as [L H]. revert H L. generalize (v_fields a) (v_fields a'). generalize (d_fields d) as fs.
      induction fs as [|f fs IH]; intros [|x xs] [|y ys] H L; cbn in *; try discriminate; try reflexivity.
      assert (Hrec : filter (fun p => visible d Debug (fst p)) (combine fs xs) = filter (fun p => visible d Debug (fst p)) (combine fs ys)).
      { apply IH; [|lia]. intros i g Hg Hv. apply (H (S i) g Hg Hv). }
      destruct (visible d Debug f) eqn:V; [|exact Hrec]. specialize (H 0 f eq_refl V). cbn in H. inversion H. rewrite Hrec. reflexivity. }
    rewrite Hs. reflexivity.
Qed.

Check C06_invisible :
  forall (fval hval : Type) (feq : fval -> fval -> bool) (fpcmp : fval -> fval -> option comparison) (fhash : fval -> hval)
         (it : item) (re : rust_enum) (a a' b : value fval) (d : data),
    variant_of it a = Some d -> v_idx a' = v_idx a ->
    (agree_on_visible d PartialEq a a' -> spec_eq feq it a b = spec_eq feq it a' b) /\
    (agree_on_visible d PartialOrd a a' -> spec_pcmp fpcmp it re a b = spec_pcmp fpcmp it re a' b) /\
    (agree_on_visible d Hash a a' -> spec_hash fhash it a = spec_hash fhash it a') /\
    (agree_on_visible d Debug a a' -> spec_debug it a = spec_debug it a').
Print Assumptions C06_invisible.

(* Visible: every field not skipped for t is part of what t observes; Clone, Copy and Default see every field
   whatever the markers say. *)
Theorem C06_visible :
  forall (fval : Type) (d : data) (t : trait) (v : value fval) (i : nat) (f : field) (x : fval),
    length (v_fields v) = length (d_fields d) ->
    nth_error (d_fields d) i = Some f -> nth_error (v_fields v) i = Some x ->
    (visible d t f = true -> In x (project d t v)) /\
    (skippable t = false -> visible d t f = true) /\
    (wf_data d -> skippable t = false -> positions d t = seq 0 (length (d_fields d))).
Proof.
  intros fval d t v i f x L Hf Hx. split; [|split].
  - intros Hv. eapply project_visible; eauto.
  - apply visible_unskippable.
  - apply positions_all.
Qed.

Check C06_visible :
  forall (fval : Type) (d : data) (t : trait) (v : value fval) (i : nat) (f : field) (x : fval),
    length (v_fields v) = length (d_fields d) ->
    nth_error (d_fields d) i = Some f -> nth_error (v_fields v) i = Some x ->
    (visible d t f = true -> In x (project d t v)) /\
    (skippable t = false -> visible d t f = true) /\
    (wf_data d -> skippable t = false -> positions d t = seq 0 (length (d_fields d))).
Print Assumptions C06_visible.

(* The type of a skipped field need not implement the trait: the generated impl of t applies t's
   functions (and the Eq assertion) to the visible fields only, and no where-clause mentions a field type. *)
Theorem C06_no_trait_needed :
  forall (c : cfg) (d : data) (t : trait), wf_data d ->
    positions d t = visible_positions d t /\
    (forall chk a, cmp_arm t chk d = Some a -> a = visible_positions d t) /\
    ha_fields (hash_arm_of d) = visible_positions d Hash /\
    da_fields (debug_arm d) = visible_positions d Debug /\
    (forall g it w dt, fst (where_preds g it w dt) =
        match g_where g with Some (ps, _) => ps | None => [] end ++ map (generic_pred it dt) (dw_generics w)).
Proof.
  intros c d t W. split; [apply positions_visible; assumption|]. split; [|split; [|split]].
  - intros chk a H. unfold cmp_arm in H. destruct (data_is_empty d t || (chk && d_incomparable d)); [discriminate|].
    destruct (is_struct_or_tuple d); inversion H. apply positions_visible; assumption.
  - cbn. apply positions_visible; assumption.
  - unfold debug_arm. destruct (d_shape d); cbn; apply positions_visible; assumption.
  - intros g it w dt. unfold where_preds. destruct (g_where g) as [[ps tr]|]; destruct (dw_generics w); cbn; try reflexivity; rewrite ?app_nil_r; reflexivity.
Qed.

Check C06_no_trait_needed :
  forall (c : cfg) (d : data) (t : trait), wf_data d ->
    positions d t = visible_positions d t /\
    (forall chk a, cmp_arm t chk d = Some a -> a = visible_positions d t) /\
    ha_fields (hash_arm_of d) = visible_positions d Hash /\
    da_fields (debug_arm d) = visible_positions d Debug /\
    (forall g it w dt, fst (where_preds g it w dt) =
        match g_where g with Some (ps, _) => ps | None => [] end ++ map (generic_pred it dt) (dw_generics w)).
Print Assumptions C06_no_trait_needed.

(* Non-vacuity: in ex_enum field b of A is skipped for EqHashOrd: invisible to ==, visible to Debug and Clone. *)
(* The markers as WRITTEN.  For every variant of an accepted enum and every field in it: the variant is
   skipped for a trait iff some `skip_inner` option of some derive_where attribute on it is bare (and the
   trait skippable) or names a group of that trait; a field likewise with `skip`.  The right-hand sides are
   `existsb` over all options of all attributes, so the position of an option in its list, the order of the
   attributes and their grouping into one or several attributes do not matter. *)
Theorem C06_markers_as_written :
  forall (c : cfg) (r : raw_item) (i : input) rvs disc id inc vs,
    from_input c r = Ok i -> ri_kind r = KEnum rvs -> in_item i = IEnum disc id inc vs ->
    Forall2 (variant_decl c) rvs vs.
Proof. exact accepted_variants_declarative. Qed.

Check C06_markers_as_written :
  forall (c : cfg) (r : raw_item) (i : input) rvs disc id inc vs,
    from_input c r = Ok i -> ri_kind r = KEnum rvs -> in_item i = IEnum disc id inc vs ->
    Forall2 (variant_decl c) rvs vs.
Print Assumptions C06_markers_as_written.

Theorem C06_option_order_irrelevant :
  forall (c : cfg) (dws : list dw) (v v' : raw_variant) (va va' : vattr),
    Permutation (metas_of (rv_attrs v)) (metas_of (rv_attrs v')) ->
    variant_attr_from_attrs c dws v = Ok va -> variant_attr_from_attrs c dws v' = Ok va' ->
    va_incomparable va = va_incomparable va' /\ va_default va = va_default va' /\
    forall t, trait_skipped (va_skip_inner va) t = trait_skipped (va_skip_inner va') t.
Proof.
  intros c dws v v' va va' HP H H'.
  destruct (variant_attrs_declarative _ _ _ _ H) as [A [B C]]. destruct (variant_attrs_declarative _ _ _ _ H') as [A' [B' C']].
  repeat split.
  - rewrite A, A'. apply existsb_perm. exact HP.
  - rewrite B, B'. apply existsb_perm. exact HP.
  - intros t. rewrite C, C'. apply existsb_perm. exact HP.
Qed.

Check C06_option_order_irrelevant :
  forall (c : cfg) (dws : list dw) (v v' : raw_variant) (va va' : vattr),
    Permutation (metas_of (rv_attrs v)) (metas_of (rv_attrs v')) ->
    variant_attr_from_attrs c dws v = Ok va -> variant_attr_from_attrs c dws v' = Ok va' ->
    va_incomparable va = va_incomparable va' /\ va_default va = va_default va' /\
    forall t, trait_skipped (va_skip_inner va) t = trait_skipped (va_skip_inner va') t.
Print Assumptions C06_option_order_irrelevant.

(* the same for structs: the item-level skip_inner / incomparable attributes and the field-level skips, as written *)
Theorem C06_struct_markers_as_written :
  forall (c : cfg) (r : raw_item) (i : input) sh fs d,
    from_input c r = Ok i -> ri_kind r = KStruct sh fs -> in_item i = IItem d ->
    d_incomparable d = existsb (fun m => meta1_is m "incomparable") (singles (ri_attrs r)) /\
    (forall t, trait_skipped (d_skip_inner d) t =
               existsb (fun m => meta1_is m "skip_inner" && meta_skips c m t) (singles (ri_attrs r))) /\
    (sh = RUnit \/ Forall2 (fun rf f => forall t, trait_skipped (f_skip f) t =
                                         existsb (fun m => meta1_is m "skip" && meta_skips c m t) (metas_of (rf_attrs rf))) fs (d_fields d)).
Proof. exact accepted_struct_declarative. Qed.

Check C06_struct_markers_as_written :
  forall (c : cfg) (r : raw_item) (i : input) sh fs d,
    from_input c r = Ok i -> ri_kind r = KStruct sh fs -> in_item i = IItem d ->
    d_incomparable d = existsb (fun m => meta1_is m "incomparable") (singles (ri_attrs r)) /\
    (forall t, trait_skipped (d_skip_inner d) t =
               existsb (fun m => meta1_is m "skip_inner" && meta_skips c m t) (singles (ri_attrs r))) /\
    (sh = RUnit \/ Forall2 (fun rf f => forall t, trait_skipped (f_skip f) t =
                                         existsb (fun m => meta1_is m "skip" && meta_skips c m t) (metas_of (rf_attrs rf))) fs (d_fields d)).
Print Assumptions C06_struct_markers_as_written.

Example C06_nonvacuous :
  exists i d, from_input cfg_default ex_enum = Ok i /\ variant_of (in_item i) (mkValue 0 [1; 2]) = Some d /\
    agree_on_visible d PartialEq (mkValue 0 [1; 2]) (mkValue 0 [1; 7]) /\
    spec_eq Nat.eqb (in_item i) (mkValue 0 [1; 2]) (mkValue 0 [1; 7]) = true /\
    project d Debug (mkValue 0 [1; 2]) = [1; 2] /\ project d PartialEq (mkValue 0 [1; 2]) = [1] /\
    positions d Clone = [0; 1].
Proof.
  destruct (from_input cfg_default ex_enum) as [i| |] eqn:E; try (vm_compute in E; discriminate).
  vm_compute in E. injection E as <-. eexists; eexists. split; [reflexivity|]. split; [reflexivity|].
  split.
  - split; [reflexivity|]. intros j f Hf Hv. destruct j as [|[|j]]; cbn in Hf; try discriminate.
    + reflexivity.
    + inversion Hf; subst f. vm_compute in Hv. discriminate.
    + destruct j; discriminate.
  - repeat split; reflexivity.
Qed.

(* Non-vacuity of the order theorem: `skip_inner(Debug), incomparable` in one attribute and the same two
   options in the opposite order split over two attributes both parse, and to the same markers. *)
Example C06_order_nonvacuous :
  let dws := [mkDw [mkDT PartialEq None; mkDT Debug None] []] in
  let m1 := M1Path (pid "incomparable") in
  let m2 := M1List (pid "skip_inner") (Some [M2Path (pid "Debug")]) in
  let v := mkRawVariant [FADw (SAList (Some [m2; m1]))] "A" RUnnamed [ufld ["T"] []] None in
  let v' := mkRawVariant [FADw (SAList (Some [m1])); FADw (SAList (Some [m2]))] "A" RUnnamed [ufld ["T"] []] None in
  exists va va', variant_attr_from_attrs cfg_default dws v = Ok va /\ variant_attr_from_attrs cfg_default dws v' = Ok va' /\
                 va_incomparable va = true /\ trait_skipped (va_skip_inner va) Debug = true /\
                 Permutation (metas_of (rv_attrs v)) (metas_of (rv_attrs v')).
Proof.
  cbv zeta. eexists; eexists. split; [vm_compute; reflexivity|]. split; [vm_compute; reflexivity|].
  split; [reflexivity|]. split; [reflexivity|]. cbn. apply perm_swap.
Qed.
