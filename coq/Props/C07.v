(* C07 - incomparable items/variants never compare equal or ordered; others unaffected. *)
From DW Require Import Proofs_ord Proofs_decl Examples.
Open Scope nat_scope.

(* If the item, or either operand's variant, is marked incomparable then == is false and
   partial_cmp is None - also when a value is compared with itself. (C03 / C04 show that the
   generated eq / partial_cmp evaluate to spec_eq / spec_pcmp.) *)
Theorem C07_incomparable :
  forall (fval : Type) (feq : fval -> fval -> bool) (fpcmp : fval -> fval -> option comparison)
         (it : item) (re : rust_enum) (a b : value fval),
    incomparable_value it a = true \/ incomparable_value it b = true ->
    spec_eq feq it a b = false /\ spec_pcmp fpcmp it re a b = None.
Proof.
  intros fval feq fpcmp it re a b H. split.
  - unfold spec_eq. destruct (variant_of it a) as [da|] eqn:Ha; [|reflexivity].
    destruct (Nat.eqb_spec (v_idx a) (v_idx b)) as [E|E]; [|reflexivity].
    assert (Hi : incomparable_value it a = true).
    { destruct H as [H|H]; [assumption|]. unfold incomparable_value, variant_of in *. rewrite E. exact H. }
    rewrite Hi. reflexivity.
  - unfold spec_pcmp. destruct H as [-> | ->]; [reflexivity | rewrite orb_true_r; reflexivity].
Qed.

Check C07_incomparable :
  forall (fval : Type) (feq : fval -> fval -> bool) (fpcmp : fval -> fval -> option comparison)
         (it : item) (re : rust_enum) (a b : value fval),
    incomparable_value it a = true \/ incomparable_value it b = true ->
    spec_eq feq it a b = false /\ spec_pcmp fpcmp it re a b = None.
Print Assumptions C07_incomparable.

(* "hence <, <=, >, >= are false and != is true": the five provided operator methods of std (std_lt .. std_ne,
   defined in Proofs_ord.v exactly as core::cmp defines them from partial_cmp / eq; the macro emits none of them),
   on operands of which at least one is incomparable - also when a value is compared with itself. *)
Theorem C07_operators :
  forall (fval : Type) (feq : fval -> fval -> bool) (fpcmp : fval -> fval -> option comparison)
         (it : item) (re : rust_enum) (a b : value fval),
    incomparable_value it a = true \/ incomparable_value it b = true ->
    std_lt (spec_pcmp fpcmp it re a b) = false /\ std_le (spec_pcmp fpcmp it re a b) = false /\
    std_gt (spec_pcmp fpcmp it re a b) = false /\ std_ge (spec_pcmp fpcmp it re a b) = false /\
    std_ne (spec_eq feq it a b) = true.
Proof. exact incomparable_operators. Qed.

Check C07_operators :
  forall (fval : Type) (feq : fval -> fval -> bool) (fpcmp : fval -> fval -> option comparison)
         (it : item) (re : rust_enum) (a b : value fval),
    incomparable_value it a = true \/ incomparable_value it b = true ->
    std_lt (spec_pcmp fpcmp it re a b) = false /\ std_le (spec_pcmp fpcmp it re a b) = false /\
    std_gt (spec_pcmp fpcmp it re a b) = false /\ std_ge (spec_pcmp fpcmp it re a b) = false /\
    std_ne (spec_eq feq it a b) = true.
Print Assumptions C07_operators.

(* the generated code on such operands, for every accepted item *)
Theorem C07_generated :
  forall (fval : Type) (feq : fval -> fval -> bool) (fpcmp : fval -> fval -> option comparison)
         (c : cfg) (raw : raw_item) (i : input) (w : dw) (dt : derive_trait) (a b : value fval) ord_impl,
    from_input c raw = Ok i -> In w (in_dws i) -> In dt (dw_traits w) ->
    wf_value (in_item i) a -> wf_value (in_item i) b ->
    incomparable_value (in_item i) a = true \/ incomparable_value (in_item i) b = true ->
    (dt_trait dt = PartialEq ->
       exists e, gen_body c (in_item i) w dt = BPartialEq e /\ eval_partial_eq feq e a b = Val false) /\
    (dt_trait dt = PartialOrd -> shortcut w Ord = false -> valid_rust_enum raw -> uncastable_fieldless raw = false ->
       exists o, gen_body c (in_item i) w dt = BPartialOrd o /\
                 eval_partial_ord fpcmp (rust_enum_of raw) ord_impl o a b = Val None).
Proof.
  intros fval feq fpcmp c raw i w dt a b ord_impl Hin Hw Hdt Wa Wb Hinc.
  destruct (C07_incomparable fval feq fpcmp (in_item i) (rust_enum_of raw) a b Hinc) as [He Hp]. split.
  - intros Ht.
    assert (NU : item_is_union (in_item i) = false) by (apply (derives_not_union c raw i w dt Hin Hw Hdt); rewrite Ht; reflexivity).
    exists (gen_partial_eq c (in_item i)). split; [unfold gen_body; rewrite Ht, NU; reflexivity|].
    rewrite (gen_partial_eq_correct feq c (in_item i) a b (from_input_wf c raw i Hin) NU Wa Wb), He. reflexivity.
  - intros Ht Hs V F6.
    assert (NU : item_is_union (in_item i) = false) by (apply (derives_not_union c raw i w dt Hin Hw Hdt); rewrite Ht; reflexivity).
    destruct (gen_ord_signature_some c raw i w PartialOrd true Hin) as [o Ho].
    exists o. split; [unfold gen_body, gen_partial_ord; rewrite Ht, Hs, Ho, NU; reflexivity|].
    rewrite (gen_partial_ord_sig_correct fpcmp c (in_item i) w (rust_enum_of raw) ord_impl o a b (from_input_wf c raw i Hin) NU Wa Wb Ho).
    + rewrite Hp. reflexivity.
    + intros inc be s Eo. subst o. eapply oracle_of_input; eauto.
Qed.

Check C07_generated :
  forall (fval : Type) (feq : fval -> fval -> bool) (fpcmp : fval -> fval -> option comparison)
         (c : cfg) (raw : raw_item) (i : input) (w : dw) (dt : derive_trait) (a b : value fval) ord_impl,
    from_input c raw = Ok i -> In w (in_dws i) -> In dt (dw_traits w) ->
    wf_value (in_item i) a -> wf_value (in_item i) b ->
    incomparable_value (in_item i) a = true \/ incomparable_value (in_item i) b = true ->
    (dt_trait dt = PartialEq ->
       exists e, gen_body c (in_item i) w dt = BPartialEq e /\ eval_partial_eq feq e a b = Val false) /\
    (dt_trait dt = PartialOrd -> shortcut w Ord = false -> valid_rust_enum raw -> uncastable_fieldless raw = false ->
       exists o, gen_body c (in_item i) w dt = BPartialOrd o /\
                 eval_partial_ord fpcmp (rust_enum_of raw) ord_impl o a b = Val None).
Print Assumptions C07_generated.

(* removing every incomparable marker *)
Definition unmark_data (d : data) : data :=
  mkData (d_skip_inner d) false (d_ident d) (d_path d) (d_shape d) (d_fields d) (d_is_variant d) (d_default d) (d_disc d).
Definition unmark (it : item) : item :=
  match it with
  | IItem d => IItem (unmark_data d)
  | IEnum disc id _ vs => IEnum disc id false (map unmark_data vs)
  end.

Lemma variant_of_unmark {fval} it (v : value fval) :
  variant_of (unmark it) v = option_map unmark_data (variant_of it v).
Proof.
  unfold variant_of. destruct it as [d|disc id inc vs]; cbn [unmark item_variants].
  - destruct (v_idx v) as [|[|k]]; reflexivity.
  - apply nth_error_map'.
Qed.

(* Values of unmarked variants compare exactly as they would if no variant were marked. *)
Theorem C07_others_unaffected :
  forall (fval : Type) (feq : fval -> fval -> bool) (fpcmp : fval -> fval -> option comparison)
         (it : item) (re : rust_enum) (a b : value fval),
    incomparable_value it a = false -> incomparable_value it b = false ->
    spec_eq feq it a b = spec_eq feq (unmark it) a b /\
    spec_pcmp fpcmp it re a b = spec_pcmp fpcmp (unmark it) re a b.
Proof.
  intros fval feq fpcmp it re a b Ha Hb.
  assert (Hu : forall v : value fval, incomparable_value (unmark it) v = false).
  { intros v. unfold incomparable_value. rewrite variant_of_unmark.
    destruct it as [d|disc id inc vs]; cbn [unmark item_inc_flag]; destruct (variant_of _ v); reflexivity. }
  split.
  - unfold spec_eq. rewrite variant_of_unmark. destruct (variant_of it a) as [da|]; [|reflexivity].
    cbn [option_map]. rewrite Ha, Hu. reflexivity.
  - unfold spec_pcmp. rewrite Ha, Hb, !Hu. cbn [orb]. rewrite variant_of_unmark.
    destruct (variant_of it a) as [da|]; reflexivity.
Qed.

Check C07_others_unaffected :
  forall (fval : Type) (feq : fval -> fval -> bool) (fpcmp : fval -> fval -> option comparison)
         (it : item) (re : rust_enum) (a b : value fval),
    incomparable_value it a = false -> incomparable_value it b = false ->
    spec_eq feq it a b = spec_eq feq (unmark it) a b /\
    spec_pcmp fpcmp it re a b = spec_pcmp fpcmp (unmark it) re a b.
Print Assumptions C07_others_unaffected.

(* Non-vacuity: enum I { A(T), #[incomparable] B, C(T, #[skip] u8) } *)
(* A variant of an accepted enum is treated as incomparable exactly when one of the options of one of its
   derive_where attributes is `incomparable` - wherever it stands (first, after skip_inner, in a later attribute). *)
Theorem C07_marker_as_written :
  forall (c : cfg) (r : raw_item) (i : input) rvs disc id inc vs,
    from_input c r = Ok i -> ri_kind r = KEnum rvs -> in_item i = IEnum disc id inc vs ->
    Forall2 (fun rv d => d_incomparable d = existsb (fun m => meta1_is m "incomparable") (metas_of (rv_attrs rv))) rvs vs.
Proof.
  intros c r i rvs disc id inc vs H Hk Hi. pose proof (accepted_variants_declarative c r i rvs disc id inc vs H Hk Hi) as F.
  clear -F. induction F as [|rv d rvs vs [A _] F IH]; constructor; assumption.
Qed.

Check C07_marker_as_written :
  forall (c : cfg) (r : raw_item) (i : input) rvs disc id inc vs,
    from_input c r = Ok i -> ri_kind r = KEnum rvs -> in_item i = IEnum disc id inc vs ->
    Forall2 (fun rv d => d_incomparable d = existsb (fun m => meta1_is m "incomparable") (metas_of (rv_attrs rv))) rvs vs.
Print Assumptions C07_marker_as_written.

(* the item-level marker of an accepted enum: set iff one of the item's own single-option attributes is `incomparable` *)
Theorem C07_item_marker_as_written :
  forall (c : cfg) (r : raw_item) (i : input) rvs disc id inc vs,
    from_input c r = Ok i -> ri_kind r = KEnum rvs -> in_item i = IEnum disc id inc vs ->
    inc = existsb (fun m => meta1_is m "incomparable") (singles (ri_attrs r)).
Proof. exact accepted_enum_item_marker. Qed.

Check C07_item_marker_as_written :
  forall (c : cfg) (r : raw_item) (i : input) rvs disc id inc vs,
    from_input c r = Ok i -> ri_kind r = KEnum rvs -> in_item i = IEnum disc id inc vs ->
    inc = existsb (fun m => meta1_is m "incomparable") (singles (ri_attrs r)).
Print Assumptions C07_item_marker_as_written.

Example C07_nonvacuous :
  exists i, from_input cfg_default ex_inc = Ok i /\
    incomparable_value (in_item i) (mkValue 1 ([] : list nat)) = true /\
    spec_eq Nat.eqb (in_item i) (mkValue 1 []) (mkValue 1 []) = false /\
    spec_pcmp (fun x y => Some (Nat.compare x y)) (in_item i) (rust_enum_of ex_inc) (mkValue 1 []) (mkValue 1 []) = None /\
    spec_eq Nat.eqb (in_item i) (mkValue 2 [4; 1]) (mkValue 2 [4; 2]) = true /\
    spec_pcmp (fun x y => Some (Nat.compare x y)) (in_item i) (rust_enum_of ex_inc) (mkValue 0 [9]) (mkValue 2 [4; 2]) = Some Lt.
Proof.
  destruct (from_input cfg_default ex_inc) as [i| |] eqn:E; try (vm_compute in E; discriminate).
  vm_compute in E. injection E as <-. eexists. split; [reflexivity|]. repeat split; reflexivity.
Qed.
