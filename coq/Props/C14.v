(* C14 - expansion is independent of the caller's scope and naming. *)
From DW Require Import Proofs_reject Proofs_atoms Examples.
Open Scope nat_scope.

(* Every path to a trait the macro names is absolute (`::core::..`, `::zeroize::..`) unless a
   `crate = path` option was given, in which case that path - and nothing else - is the root. *)
Theorem C14_paths_rooted :
  (forall segs, hd "" (core_path segs) = "::") /\
  (forall t, hd "" (std_path t) = "::") /\
  (forall dt, dt_crate dt = None -> p_lead (trait_path dt) = true /\ p_lead (impl_path dt) = true) /\
  (forall dt p, dt_crate dt = Some p -> (dt_trait dt = Zeroize \/ dt_trait dt = ZeroizeOnDrop) ->
     trait_path dt = path_from_root_and_strs p [trait_name (dt_trait dt)]) /\
  (forall dt p, dt_crate dt = Some p -> dt_trait dt <> Zeroize -> dt_trait dt <> ZeroizeOnDrop ->
     trait_path dt = trait_path (mkDT (dt_trait dt) None)).
Proof.
  split; [intros segs; reflexivity|]. split; [intros t; destruct t; reflexivity|].
  split; [intros dt H; unfold impl_path, trait_path, trait_crate; destruct (dt_trait dt); rewrite ?H; cbn; split; reflexivity|].
  split.
  - intros dt p H [Ht|Ht]; unfold trait_path, trait_crate; rewrite Ht, H; reflexivity.
  - intros dt p H N1 N2. unfold trait_path, trait_crate. destruct (dt_trait dt); try reflexivity; congruence.
Qed.

Check C14_paths_rooted :
  (forall segs, hd "" (core_path segs) = "::") /\
  (forall t, hd "" (std_path t) = "::") /\
  (forall dt, dt_crate dt = None -> p_lead (trait_path dt) = true /\ p_lead (impl_path dt) = true) /\
  (forall dt p, dt_crate dt = Some p -> (dt_trait dt = Zeroize \/ dt_trait dt = ZeroizeOnDrop) ->
     trait_path dt = path_from_root_and_strs p [trait_name (dt_trait dt)]) /\
  (forall dt p, dt_crate dt = Some p -> dt_trait dt <> Zeroize -> dt_trait dt <> ZeroizeOnDrop ->
     trait_path dt = trait_path (mkDT (dt_trait dt) None)).
Print Assumptions C14_paths_rooted.

Lemma append_inj_l p : forall a b, p +++ a = p +++ b -> a = b.
Proof. induction p as [|ch p IH]; cbn; intros a b H; [assumption|]. inversion H. auto. Qed.

Lemma prefix_of_append p a : String.prefix p (p +++ a) = true.
Proof. induction p as [|ch p IH]; cbn; [destruct a; reflexivity|]. destruct (Ascii.ascii_dec ch ch); [assumption | congruence]. Qed.

(* Every name the expansion binds starts with `__`; the temporaries of two fields coincide only if the
   fields' (unrawed) names coincide - which Rust forbids within one variant - whatever the fields are
   called, including names equal to the macro's own temporaries; self- and other- temporaries never clash. *)
Theorem C14_binders :
  (forall f, String.prefix "__" (self_ident f) = true /\ String.prefix "__" (other_ident f) = true) /\
  (forall f g, self_ident f = self_ident g -> member_display (f_member f) = member_display (f_member g)) /\
  (forall f g, other_ident f = other_ident g -> member_display (f_member f) = member_display (f_member g)) /\
  (forall d e, validate_name d = validate_name e -> unraw (d_ident d) = unraw (d_ident e)) /\
  (forall d, String.prefix "__" (validate_name d) = true).
Proof.
  split; [intros f; split; reflexivity|].
  split; [intros f g H; unfold self_ident in H; apply append_inj_l in H; assumption|].
  split; [intros f g H; unfold other_ident in H; apply append_inj_l in H; assumption|].
  split; [intros d e H; unfold validate_name in H; apply append_inj_l in H; assumption|].
  intros d. reflexivity.
Qed.

Check C14_binders :
  (forall f, String.prefix "__" (self_ident f) = true /\ String.prefix "__" (other_ident f) = true) /\
  (forall f g, self_ident f = self_ident g -> member_display (f_member f) = member_display (f_member g)) /\
  (forall f g, other_ident f = other_ident g -> member_display (f_member f) = member_display (f_member g)) /\
  (forall d e, validate_name d = validate_name e -> unraw (d_ident d) = unraw (d_ident e)) /\
  (forall d, String.prefix "__" (validate_name d) = true).
Print Assumptions C14_binders.

(* a self-temporary and an other-temporary are never the same identifier *)
Theorem C14_self_other_distinct : forall f g, self_ident f <> other_ident g.
Proof.
  intros f g H. unfold self_ident, other_ident in H. cbn in H. inversion H.
Qed.

Check C14_self_other_distinct : forall f g, self_ident f <> other_ident g.
Print Assumptions C14_self_other_distinct.

(* Known findings (clauses of the property that the pinned tree does NOT satisfy; see known_findings.json):
   F4: the pointer-read strategy calls `<*const _>::from(self)`, which needs the prelude's From;
   F8: the Hash impl binds the method generic `__H`, which collides with an item generic of that name;
   F9: bare primitive names (`bool`, `isize`, the repr integer types) are used unqualified. *)
Lemma In_dec_str x l : existsb (String.eqb x) l = true -> In x l.
Proof. intros H. apply existsb_exists in H. destruct H as [y [Hy E]]. apply String.eqb_eq in E. subst. assumption. Qed.

Lemma notIn_dec_str x l : existsb (String.eqb x) l = false -> ~ In x l.
Proof. intros H Hin. assert (existsb (String.eqb x) l = true) by (apply existsb_exists; exists x; split; [assumption | apply String.eqb_refl]). congruence. Qed.

Theorem C14_known_unqualified_names :
  (forall t g it vs r, In "from" (render_strategy t g it vs (SPtrRead r)) /\ ~ In "From" (render_strategy t g it vs (SPtrRead r))) /\
  (forall vs arms, In "__H" (render_hash vs arms)) /\
  (forall vs b, In "bool" (render_partial_eq vs b)) /\
  (forall t g it vs v ty, In (repr_tok ty) (render_strategy t g it vs (SCast ViaCopy ty v))).
Proof.
  split; [|split; [|split]].
  - intros t g it vs r. split; [apply In_dec_str | apply notIn_dec_str]; destruct t, r; vm_compute; reflexivity.
  - intros vs arms. unfold render_hash. apply in_or_app. left. cbn. auto.
  - intros vs b. unfold render_partial_eq. apply in_or_app. left. apply In_dec_str. reflexivity.
  - intros t g it vs v ty. cbn [render_strategy]. apply in_or_app. right. unfold cmp_call.
    apply in_or_app. right. apply in_or_app. right. apply in_or_app. left. cbn. auto 10.
Qed.

Check C14_known_unqualified_names :
  (forall t g it vs r, In "from" (render_strategy t g it vs (SPtrRead r)) /\ ~ In "From" (render_strategy t g it vs (SPtrRead r))) /\
  (forall vs arms, In "__H" (render_hash vs arms)) /\
  (forall vs b, In "bool" (render_partial_eq vs b)) /\
  (forall t g it vs v ty, In (repr_tok ty) (render_strategy t g it vs (SCast ViaCopy ty v))).
Print Assumptions C14_known_unqualified_names.


(* Census of EVERY token of EVERY generated impl (Atoms.v classifies each token of each template; the
   erasure of the classified list is exactly the token list that Render.v produces and tie A compares
   with the implementation).  Whatever the item, the attribute, the trait and the configuration, a
   token of the expansion is one of:
     - a keyword or punctuation mark of the fixed vocabulary KW (or `unsafe`),
     - a path that starts with `::` - or with the path of the attribute's `crate = ..` option, which is
       the only thing that changes a root -, or a name resolved relative to such a path,
     - the name of the trait method being defined, a token of the item itself, a literal,
     - an identifier introduced by the expansion, which starts with `__`,
   or one of the scope-dependent names listed exhaustively here: the built-in attributes `inline` and
   `automatically_derived`; the bare primitive names `bool`, `isize` and the twelve repr integer types
   (known finding F9); the method names `from` (known finding F4), `cast` (inherent on raw pointers),
   `zeroize` and `zeroize_or_on_drop` (method-call syntax by design, trait imported by the same body). *)
Definition scope_free (dt : derive_trait) (a : atom) : Prop :=
  match a with
  | Kw s => mem s ("unsafe" :: KW) = true
  | APath p => p_lead p = true \/ (exists q segs, dt_crate dt = Some q /\ p = path_from_root_and_strs q segs)
  | Bind s => String.prefix "__" s = true
  | Assoc _ | Def _ | User _ | Lit _ => True
  | Attr s => mem s ATTRS = true
  | Prim s => mem s PRIMS = true
  | Method s => mem s METHODS = true
  end.

Theorem C14_census :
  forall (c : cfg) (i : input) (w : dw) (dt : derive_trait),
    Forall (scope_free dt) (timpl c i w dt) /\ erase (timpl c i w dt) = impl_toks (render_impl c i w dt).
Proof.
  intros c i w dt. split; [|apply erase_timpl].
  apply census_timpl; cbn [scope_free]; try tauto; try (intros; reflexivity).
  - intros s H. unfold mem in *. cbn [existsb]. rewrite H. apply orb_true_r.
  - intros segs. unfold trait_crate. destruct (dt_trait dt); try (left; reflexivity);
      destruct (dt_crate dt) as [q|] eqn:E; try (left; reflexivity); right; exists q, segs; split; reflexivity.
Qed.

Check C14_census :
  forall (c : cfg) (i : input) (w : dw) (dt : derive_trait),
    Forall (scope_free dt) (timpl c i w dt) /\ erase (timpl c i w dt) = impl_toks (render_impl c i w dt).
Print Assumptions C14_census.

(* without a `crate` option every path of the expansion is absolute *)
Theorem C14_all_paths_absolute :
  forall (c : cfg) (i : input) (w : dw) (dt : derive_trait) (p : path),
    dt_crate dt = None -> In (APath p) (timpl c i w dt) -> p_lead p = true.
Proof.
  intros c i w dt p Hc Hin. destruct (C14_census c i w dt) as [F _]. rewrite Forall_forall in F.
  destruct (F _ Hin) as [H|[q [segs [E _]]]]; [exact H | congruence].
Qed.

Check C14_all_paths_absolute :
  forall (c : cfg) (i : input) (w : dw) (dt : derive_trait) (p : path),
    dt_crate dt = None -> In (APath p) (timpl c i w dt) -> p_lead p = true.
Print Assumptions C14_all_paths_absolute.

Example C14_nonvacuous :
  self_ident (mkField SkipNone false (MNamed "r#type") []) = "__field_type" /\
  other_ident (mkField SkipNone false (MNamed "__field_a") []) = "__other_field___field_a" /\
  self_ident (mkField SkipNone false (MUnnamed 3) []) = "__field_3" /\
  flatten (path_toks (trait_path (mkDT Zeroize (Some (mkPath false ["my"; "z"]))))) = ["my"; ":"; ":"; "z"; ":"; ":"; "Zeroize"].
Proof. repeat split; reflexivity. Qed.

(* Non-vacuity of the census: the impl of Ord for ex_repr (default features) really contains an `unsafe`
   keyword, the scope-dependent `from` and the primitive `u8`; under `safe` it contains none of the three;
   its PartialEq impl contains the primitive `bool`. *)
Definition has_atom (a : atom) (l : list atom) : bool :=
  existsb (fun b => match a, b with
                    | Kw x, Kw y | Prim x, Prim y | Method x, Method y => String.eqb x y
                    | _, _ => false end) l.
Example C14_census_nonvacuous :
  exists i w, from_input cfg_default ex_repr = Ok i /\ In w (in_dws i) /\
    has_atom (Kw "unsafe") (timpl cfg_default i w (mkDT Ord None)) = true /\
    has_atom (Method "from") (timpl cfg_default i w (mkDT Ord None)) = true /\
    has_atom (Prim "u8") (timpl cfg_default i w (mkDT Ord None)) = true /\
    has_atom (Kw "unsafe") (timpl cfg_safe i w (mkDT Ord None)) = false /\
    has_atom (Method "from") (timpl cfg_safe i w (mkDT Ord None)) = false /\
    has_atom (Prim "bool") (timpl cfg_default i w (mkDT PartialEq None)) = true.
Proof.
  destruct (from_input cfg_default ex_repr) as [i| |] eqn:E; try (vm_compute in E; discriminate).
  vm_compute in E. injection E as <-.
  eexists; eexists. split; [reflexivity|]. split; [left; reflexivity|]. repeat split; vm_compute; reflexivity.
Qed.
