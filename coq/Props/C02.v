(* C02 - every accepted item yields compiling impls of exactly the requested traits. *)
From DW Require Import Proofs_reject Proofs_laws Examples.
Open Scope nat_scope.

(* the derive_where attributes that request traits (the others carry options only) *)
Definition attr_requests (c : cfg) (u : bool) (a : item_attr) : option dw :=
  match a with
  | IADw (DAList elems semi) =>
      let trait_list := match from_attr c u elems semi with Ok w => Some w | _ => None end in
      match comma_view elems semi with
      | Some [m] => if meta1_is m "skip_inner" || meta1_is m "incomparable" || meta1_is m "crate" then None else trait_list
      | Some [] => None
      | _ => trait_list
      end
  | _ => None
  end.

Lemma fold_item_attrs_dws c e u attrs : forall st st',
  foldM (item_add_attr c e u) attrs st = Ok st' ->
  ia_dws st' = ia_dws st ++ catOptions (map (attr_requests c u) attrs).
Proof.
  induction attrs as [|a attrs IH]; cbn; intros st st' H; [inversion H; subst; rewrite app_nil_r; reflexivity|].
  inv_bind H. rewrite (IH _ _ H). clear IH H.
  unfold item_add_attr in Hb. unfold attr_requests.
  destruct a as [[ts|elems semi]|rp|p ts]; try (inversion Hb; subst; cbn; reflexivity); try discriminate.
  assert (Push : forall s'', (do d <- from_attr c u elems semi; Ok (mkIacc (ia_dws st ++ [d]) (ia_skips st) (ia_incs st))) = Ok s'' ->
                 exists d, from_attr c u elems semi = Ok d /\ ia_dws s'' = ia_dws st ++ [d]).
  { intros s'' Hp. inv_bind Hp. inversion Hp; subst; cbn. eauto. }
  destruct (comma_view elems semi) as [[|m [|m' ms]]|].
  - discriminate.
  - destruct (meta1_is m "skip_inner"); [destruct e; [discriminate|]; inversion Hb; subst; cbn; try rewrite orb_true_r; reflexivity|].
    destruct (meta1_is m "incomparable"); [inversion Hb; subst; cbn; try rewrite orb_true_r; reflexivity|].
    destruct (meta1_is m "crate"); [inversion Hb; subst; cbn; try rewrite orb_true_r; reflexivity|].
    cbn [orb]. destruct (Push _ Hb) as [d [Hd ->]]. rewrite Hd. cbn. rewrite <- app_assoc. reflexivity.
  - destruct (Push _ Hb) as [d [Hd ->]]. rewrite Hd. cbn. rewrite <- app_assoc. reflexivity.
  - destruct (Push _ Hb) as [d [Hd ->]]. rewrite Hd. cbn. rewrite <- app_assoc. reflexivity.
Qed.

(* The expansion consists of exactly one impl per (attribute, requested trait), in order - the
   attributes being those that request traits, adjacent ones with equal bound lists merged - plus the
   ZeroizeOnDrop marker impl iff that feature is on; no trait is implemented twice under equal bounds. *)
Theorem C02_impl_set :
  forall (c : cfg) (r : raw_item) (i : input),
    from_input c r = Ok i ->
    in_dws i = merge_dws (catOptions (map (attr_requests c (raw_is_union r)) (ri_attrs r))) /\
    map io_trait (expand_impls c i) = flat_map (fun w => map dt_trait (dw_traits w)) (in_dws i) /\
    (forall o, In o (expand_impls c i) -> (io_extra o <> [] <-> io_trait o = ZeroizeOnDrop /\ c_zod c = true)) /\
    (forall w, In w (in_dws i) -> has_dup (dw_traits w) = false) /\ has_cross_dup (in_dws i) = false.
Proof.
  intros c r i H. split; [|split; [|split]].
  - destruct (from_input_inv c r i H) as [ia [Hia [Edws _]]]. rewrite Edws.
    unfold item_attr_from_attrs in Hia. inv_bind Hia.
    pose proof (fold_item_attrs_dws _ _ _ _ _ _ Hb) as F. cbn in F.
    destruct (ia_dws a) eqn:E; [discriminate|]. rewrite <- E in *.
    destruct (existsb _ (merge_dws (ia_dws a))); [discriminate|]. destruct (has_cross_dup _); [discriminate|].
    inv_bind Hia. inv_bind Hia. inversion Hia; subst; cbn. rewrite F. reflexivity.
  - unfold expand_impls. induction (in_dws i) as [|w l IH]; cbn; [reflexivity|].
    rewrite map_app, IH. f_equal. rewrite map_map. reflexivity.
  - intros o Ho. unfold expand_impls in Ho. apply in_flat_map in Ho. destruct Ho as [w [_ Ho]].
    apply in_map_iff in Ho. destruct Ho as [dt [<- _]]. unfold render_impl. cbn [io_extra io_trait].
    destruct (trait_beq (dt_trait dt) ZeroizeOnDrop) eqn:Et; cbn [andb].
    + apply internal_trait_dec_bl in Et. destruct (c_zod c).
      * split; [intros _; split; [assumption | reflexivity]|]. intros _. unfold impl_header. discriminate.
      * split; [intros X; exfalso; apply X; reflexivity|]. intros [_ X]. discriminate.
    + split; [intros X; contradiction|]. intros [X _]. rewrite X in Et. discriminate.
  - destruct (accepted_invariants c r i H) as [_ [A [B _]]]. auto.
Qed.

Check C02_impl_set :
  forall (c : cfg) (r : raw_item) (i : input),
    from_input c r = Ok i ->
    in_dws i = merge_dws (catOptions (map (attr_requests c (raw_is_union r)) (ri_attrs r))) /\
    map io_trait (expand_impls c i) = flat_map (fun w => map dt_trait (dw_traits w)) (in_dws i) /\
    (forall o, In o (expand_impls c i) -> (io_extra o <> [] <-> io_trait o = ZeroizeOnDrop /\ c_zod c = true)) /\
    (forall w, In w (in_dws i) -> has_dup (dw_traits w) = false) /\ has_cross_dup (in_dws i) = false.
Print Assumptions C02_impl_set.

(* "each requested trait exactly once": in the whole impl list of an accepted item no trait (with its crate option) occurs
   twice - neither inside one attribute, nor in two attributes with the same bounds, nor in two attributes with DIFFERENT
   bounds (two impls of one trait for one type overlap whatever their where-clauses say; before the repair recorded as F12
   such items were accepted and failed with E0119). *)
Theorem C02_each_trait_once :
  forall (c : cfg) (r : raw_item) (i : input),
    from_input c r = Ok i -> has_dup (flat_map dw_traits (in_dws i)) = false.
Proof. exact accepted_each_trait_once. Qed.

Check C02_each_trait_once :
  forall (c : cfg) (r : raw_item) (i : input),
    from_input c r = Ok i -> has_dup (flat_map dw_traits (in_dws i)) = false.
Print Assumptions C02_each_trait_once.

(* non-vacuity: `Clone; T` + `Debug; U` is accepted (two impls), `Clone; T` + `Clone; U` and the non-adjacent
   `Clone; T` + `Debug; U` + `Clone; V` are refused as duplicates *)
Example C02_once_nonvacuous :
  let g3 := mkGenerics [GPType "T" [] []; GPType "U" [] []; GPType "V" [] []] false None in
  let S attrs := mkRawItem attrs [] "S" g3 (KStruct RNamed [fld "a" ["T"] []; fld "b" ["U"] []; fld "c" ["V"] []]) in
  (exists i, from_input cfg_default (S [dw_of ["Clone"] (Some [GRType ["T"]]); dw_of ["Debug"] (Some [GRType ["U"]])]) = Ok i /\
             length (expand_impls cfg_default i) = 2) /\
  from_input cfg_default (S [dw_of ["Clone"] (Some [GRType ["T"]]); dw_of ["Clone"] (Some [GRType ["U"]])]) = Err ETraitDuplicate /\
  from_input cfg_default (S [dw_of ["Clone"] (Some [GRType ["T"]]); dw_of ["Debug"] (Some [GRType ["U"]]); dw_of ["Clone"] (Some [GRType ["V"]])]) = Err ETraitDuplicate.
Proof.
  cbv zeta. split; [|split; vm_compute; reflexivity].
  match goal with |- exists i, ?f = Ok i /\ _ => destruct f as [i| |] eqn:E; try (vm_compute in E; discriminate) end.
  exists i. split; [reflexivity|]. vm_compute in E. injection E as <-. vm_compute. reflexivity.
Qed.

(* The compile obligations that depend on decisions of the macro - every `match` is exhaustive and
   reaches an arm, constructors name every field once, `default()` is exactly one constructor, casts
   only on enums Rust lets you cast, the const-fn table covers every variant within the tag type, the
   tag read is well typed - all hold: for every accepted, rustc-valid item outside the known class F6,
   every derived method evaluates to a value on every well-formed input (Stuck = "rustc rejects"). *)
Theorem C02_never_stuck :
  forall (fval hval : Type) (feq : fval -> fval -> bool) (fpcmp : fval -> fval -> option comparison)
         (fcmp : fval -> fval -> comparison) (fhash : fval -> hval) (fclone : fval -> fval) (fdefault : toks -> fval)
         (c : cfg) (raw : raw_item) (i : input) (w : dw) (dt : derive_trait) (a b : value fval) ord_impl,
    from_input c raw = Ok i -> In w (in_dws i) -> In dt (dw_traits w) ->
    valid_rust_enum raw -> uncastable_fieldless raw = false ->
    wf_value (in_item i) a -> wf_value (in_item i) b ->
    match gen_body c (in_item i) w dt with
    | BPartialEq e => exists v, eval_partial_eq feq e a b = Val v
    | BPartialOrd o => shortcut w Ord = false -> exists v, eval_partial_ord fpcmp (rust_enum_of raw) ord_impl o a b = Val v
    | BOrd o => exists v, eval_ord fcmp (rust_enum_of raw) o a b = Val v
    | BHash arms => exists v, eval_hash fhash arms a = Val v
    | BClone bc => exists v, eval_clone fclone bc a = Val v
    | BDefault ctors => exists v, eval_default fdefault (item_variants (in_item i)) ctors = Val v
    | BDebug arms => exists v, eval_debug (item_variants (in_item i)) arms a = Val v
    | BZeroize z => exists v, eval_zeroize z a = Val v
    | BDrop d => exists v, eval_drop d a = Val v
    | BCopy | BEq _ => True
    | BPanic _ => False
    end.
Proof.
  intros fval hval feq fpcmp fcmp fhash fclone fdefault c raw i w dt a b ord_impl Hin Hw Hdt V F6 Wa Wb.
  pose proof (from_input_wf c raw i Hin) as W.
  destruct (gen_body c (in_item i) w dt) eqn:G; try exact I.
  - (* Clone *)
    unfold gen_body in G. destruct (dt_trait dt) eqn:Ht; try (destruct (item_is_union (in_item i)); discriminate);
      try (destruct (gen_ord c (in_item i) w); [destruct (item_is_union (in_item i))|]; discriminate);
      try (destruct (gen_partial_ord c (in_item i) w); [destruct (item_is_union (in_item i))|]; discriminate); try discriminate.
    inversion G; subst b0. destruct (shortcut w Copy) eqn:Hs.
    + eexists. apply gen_clone_shortcut. assumption.
    + destruct (item_is_union (in_item i)) eqn:U.
      * eexists. apply gen_clone_union. assumption.
      * eexists. apply gen_clone_correct; assumption.
  - (* Debug *)
    assert (Ht : dt_trait dt = Debug).
    { unfold gen_body in G. destruct (dt_trait dt); try (destruct (item_is_union (in_item i)); discriminate); try discriminate; try reflexivity;
        try (destruct (gen_ord c (in_item i) w); [destruct (item_is_union (in_item i))|]; discriminate);
        try (destruct (gen_partial_ord c (in_item i) w); [destruct (item_is_union (in_item i))|]; discriminate). }
    assert (NU : item_is_union (in_item i) = false) by (apply (derives_not_union c raw i w dt Hin Hw Hdt); rewrite Ht; reflexivity).
    unfold gen_body in G. rewrite Ht, NU in G. inversion G; subst arms.
    assert (Hs : exists t, spec_debug (in_item i) a = Some t).
    { destruct Wa as [da [Hda La]]. unfold spec_debug, variant_of. rewrite Hda.
      assert (NUa : d_shape da <> ShUnion) by (eapply wf_item_not_union; eauto using nth_error_In).
      destruct (d_shape da); try congruence; eexists; reflexivity. }
    destruct Hs as [t Hs]. exists t. apply gen_debug_correct; assumption.
  - (* Default *)
    assert (Ht : dt_trait dt = Default).
    { unfold gen_body in G. destruct (dt_trait dt); try (destruct (item_is_union (in_item i)); discriminate); try discriminate; try reflexivity;
        try (destruct (gen_ord c (in_item i) w); [destruct (item_is_union (in_item i))|]; discriminate);
        try (destruct (gen_partial_ord c (in_item i) w); [destruct (item_is_union (in_item i))|]; discriminate). }
    assert (NU : item_is_union (in_item i) = false) by (apply (derives_not_union c raw i w dt Hin Hw Hdt); rewrite Ht; reflexivity).
    unfold gen_body in G. rewrite Ht, NU in G. inversion G; subst ctors.
    assert (Hc : dw_contains w Default = true).
    { unfold dw_contains. apply existsb_exists. exists dt. split; [assumption|]. rewrite Ht. reflexivity. }
    destruct (default_exists fdefault c raw i w Hin Hw Hc) as [v Hv]. exists v. apply gen_default_correct; assumption.
  - (* Hash *)
    assert (Ht : dt_trait dt = Hash).
    { unfold gen_body in G. destruct (dt_trait dt); try (destruct (item_is_union (in_item i)); discriminate); try discriminate; try reflexivity;
        try (destruct (gen_ord c (in_item i) w); [destruct (item_is_union (in_item i))|]; discriminate);
        try (destruct (gen_partial_ord c (in_item i) w); [destruct (item_is_union (in_item i))|]; discriminate). }
    assert (NU : item_is_union (in_item i) = false) by (apply (derives_not_union c raw i w dt Hin Hw Hdt); rewrite Ht; reflexivity).
    unfold gen_body in G. rewrite Ht, NU in G. inversion G; subst arms. eexists. apply gen_hash_correct; assumption.
  - (* PartialEq *)
    assert (Ht : dt_trait dt = PartialEq).
    { unfold gen_body in G. destruct (dt_trait dt); try (destruct (item_is_union (in_item i)); discriminate); try discriminate; try reflexivity;
        try (destruct (gen_ord c (in_item i) w); [destruct (item_is_union (in_item i))|]; discriminate);
        try (destruct (gen_partial_ord c (in_item i) w); [destruct (item_is_union (in_item i))|]; discriminate). }
    assert (NU : item_is_union (in_item i) = false) by (apply (derives_not_union c raw i w dt Hin Hw Hdt); rewrite Ht; reflexivity).
    unfold gen_body in G. rewrite Ht, NU in G. inversion G; subst b0. eexists. apply gen_partial_eq_correct; assumption.
  - (* PartialOrd *)
    assert (Ht : dt_trait dt = PartialOrd).
    { unfold gen_body in G. destruct (dt_trait dt); try (destruct (item_is_union (in_item i)); discriminate); try discriminate; try reflexivity;
        try (destruct (gen_ord c (in_item i) w); [destruct (item_is_union (in_item i))|]; discriminate);
        try (destruct (gen_partial_ord c (in_item i) w); [destruct (item_is_union (in_item i))|]; discriminate). }
    assert (NU : item_is_union (in_item i) = false) by (apply (derives_not_union c raw i w dt Hin Hw Hdt); rewrite Ht; reflexivity).
    intros Hs. unfold gen_body, gen_partial_ord in G. rewrite Ht, Hs in G.
    destruct (gen_ord_signature c (in_item i) w PartialOrd true) as [o|] eqn:Ho; [|discriminate]. rewrite NU in G. inversion G; subst b0.
    eexists. eapply gen_partial_ord_sig_correct; eauto. intros inc be s Eo. subst o. eapply oracle_of_input; eauto.
  - (* Ord *)
    assert (Ht : dt_trait dt = Ord).
    { unfold gen_body in G. destruct (dt_trait dt); try (destruct (item_is_union (in_item i)); discriminate); try discriminate; try reflexivity;
        try (destruct (gen_ord c (in_item i) w); [destruct (item_is_union (in_item i))|]; discriminate);
        try (destruct (gen_partial_ord c (in_item i) w); [destruct (item_is_union (in_item i))|]; discriminate). }
    assert (NU : item_is_union (in_item i) = false) by (apply (derives_not_union c raw i w dt Hin Hw Hdt); rewrite Ht; reflexivity).
    unfold gen_body, gen_ord in G. rewrite Ht in G.
    destruct (gen_ord_signature c (in_item i) w Ord false) as [o|] eqn:Ho; [|discriminate]. rewrite NU in G. inversion G; subst b0.
    destruct (total_no_incomparable c raw i w dt Hin Hw Hdt (or_intror Ht)) as [Hflag Hninc].
    eexists. eapply gen_ord_sig_correct; eauto. intros inc be s Eo. subst o. eapply oracle_of_input; eauto.
  - (* Zeroize *)
    assert (Ht : dt_trait dt = Zeroize).
    { unfold gen_body in G. destruct (dt_trait dt); try (destruct (item_is_union (in_item i)); discriminate); try discriminate; try reflexivity;
        try (destruct (gen_ord c (in_item i) w); [destruct (item_is_union (in_item i))|]; discriminate);
        try (destruct (gen_partial_ord c (in_item i) w); [destruct (item_is_union (in_item i))|]; discriminate). }
    assert (NU : item_is_union (in_item i) = false) by (apply (derives_not_union c raw i w dt Hin Hw Hdt); rewrite Ht; reflexivity).
    unfold gen_body in G. rewrite Ht, NU in G. inversion G; subst b0. eexists. apply gen_zeroize_correct; assumption.
  - (* Drop *)
    assert (Ht : dt_trait dt = ZeroizeOnDrop).
    { unfold gen_body in G. destruct (dt_trait dt); try (destruct (item_is_union (in_item i)); discriminate); try discriminate; try reflexivity;
        try (destruct (gen_ord c (in_item i) w); [destruct (item_is_union (in_item i))|]; discriminate);
        try (destruct (gen_partial_ord c (in_item i) w); [destruct (item_is_union (in_item i))|]; discriminate). }
    assert (NU : item_is_union (in_item i) = false) by (apply (derives_not_union c raw i w dt Hin Hw Hdt); rewrite Ht; reflexivity).
    unfold gen_body in G. rewrite Ht, NU in G. inversion G; subst b0.
    destruct Wa as [da [Hda La]]. destruct (c_zod c) eqn:Hz.
    + destruct (gen_drop_zod_correct c (in_item i) a da Hz W (ex_intro _ da (conj Hda La)) Hda) as [evs [He _]]. eauto.
    + destruct (gen_drop_delegate_correct c (in_item i) a da Hz W (ex_intro _ da (conj Hda La)) Hda) as [n [He _]]. eauto.
  - (* Panic *)
    eapply gen_body_no_panic; eauto.
Qed.

Check C02_never_stuck :
  forall (fval hval : Type) (feq : fval -> fval -> bool) (fpcmp : fval -> fval -> option comparison)
         (fcmp : fval -> fval -> comparison) (fhash : fval -> hval) (fclone : fval -> fval) (fdefault : toks -> fval)
         (c : cfg) (raw : raw_item) (i : input) (w : dw) (dt : derive_trait) (a b : value fval) ord_impl,
    from_input c raw = Ok i -> In w (in_dws i) -> In dt (dw_traits w) ->
    valid_rust_enum raw -> uncastable_fieldless raw = false ->
    wf_value (in_item i) a -> wf_value (in_item i) b ->
    match gen_body c (in_item i) w dt with
    | BPartialEq e => exists v, eval_partial_eq feq e a b = Val v
    | BPartialOrd o => shortcut w Ord = false -> exists v, eval_partial_ord fpcmp (rust_enum_of raw) ord_impl o a b = Val v
    | BOrd o => exists v, eval_ord fcmp (rust_enum_of raw) o a b = Val v
    | BHash arms => exists v, eval_hash fhash arms a = Val v
    | BClone bc => exists v, eval_clone fclone bc a = Val v
    | BDefault ctors => exists v, eval_default fdefault (item_variants (in_item i)) ctors = Val v
    | BDebug arms => exists v, eval_debug (item_variants (in_item i)) arms a = Val v
    | BZeroize z => exists v, eval_zeroize z a = Val v
    | BDrop d => exists v, eval_drop d a = Val v
    | BCopy | BEq _ => True
    | BPanic _ => False
    end.
Print Assumptions C02_never_stuck.

(* the `*self` / `Ord::cmp(self, ..)` shortcuts are only taken when the sibling impl has literally the same where-clause *)
Theorem C02_shortcut_same_where :
  forall (g : generics) (it : item) (w : dw) (other : trait) (d1 d2 : derive_trait),
    shortcut w other = true -> dw_contains w other = true /\ where_preds g it w d1 = where_preds g it w d2.
Proof.
  intros g it w other d1 d2 H. unfold shortcut in H. apply andb_true_iff in H. destruct H as [Hall Hc]. split; [assumption|].
  unfold where_preds. destruct (g_where g) as [[ps tr]|]; destruct (dw_generics w) as [|x gs] eqn:E; try reflexivity;
    f_equal; f_equal; unfold all_custom_bound in Hall; rewrite E in Hall; rewrite forallb_forall in Hall;
    apply map_ext_in; intros y Hy; specialize (Hall y Hy); destruct y; [reflexivity | discriminate | reflexivity | discriminate].
Qed.

Check C02_shortcut_same_where :
  forall (g : generics) (it : item) (w : dw) (other : trait) (d1 d2 : derive_trait),
    shortcut w other = true -> dw_contains w other = true /\ where_preds g it w d1 = where_preds g it w d2.
Print Assumptions C02_shortcut_same_where.

Example C02_nonvacuous :
  exists i, from_input cfg_default ex_enum = Ok i /\
    map io_trait (expand_impls cfg_default i) = [Clone; Debug; Default; Eq; Hash; Ord; PartialEq; PartialOrd] /\
    valid_rust_enum ex_enum /\ uncastable_fieldless ex_enum = false.
Proof.
  destruct (from_input cfg_default ex_enum) as [i| |] eqn:E; try (vm_compute in E; discriminate).
  vm_compute in E. injection E as <-. eexists. split; [reflexivity|]. split; [reflexivity|].
  split; [split; [reflexivity | repeat constructor] | reflexivity].
Qed.
