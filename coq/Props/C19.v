(* C19 - dropping a ZeroizeOnDrop value zeroizes its non-skipped fields. *)
From DW Require Import Proofs_simple Proofs_frontend Examples.

(* With the zeroize-on-drop feature: the generated Drop zeroizes (through zeroize_or_on_drop)
   exactly the fields of the live variant not skipped for Zeroize. *)
Theorem C19_drop_zod :
  forall (fval : Type) (c : cfg) (raw : raw_item) (i : input) (w : dw) (dt : derive_trait) (a : value fval) (d : data),
    c_zod c = true ->
    from_input c raw = Ok i -> In w (in_dws i) -> In dt (dw_traits w) -> dt_trait dt = ZeroizeOnDrop ->
    wf_value (in_item i) a -> variant_of (in_item i) a = Some d ->
    exists b evs, gen_body c (in_item i) w dt = BDrop b /\ eval_drop b a = Val evs /\
                  zeroized_positions evs = zeroized_positions (spec_zeroize (in_item i) a).
Proof.
  intros fval c raw i w dt a d Hz Hin Hw Hdt Ht Wa Hd.
  assert (NU : item_is_union (in_item i) = false) by (eapply derives_not_union; eauto; rewrite Ht; reflexivity).
  destruct (gen_drop_zod_correct c (in_item i) a d Hz (from_input_wf c raw i Hin) Wa Hd) as [evs [He Hp]].
  exists (gen_drop c (in_item i)), evs. split; [|split].
  - unfold gen_body. rewrite Ht, NU. reflexivity.
  - assumption.
  - rewrite Hp. symmetry. apply zeroized_positions_spec. assumption.
Qed.

Check C19_drop_zod :
  forall (fval : Type) (c : cfg) (raw : raw_item) (i : input) (w : dw) (dt : derive_trait) (a : value fval) (d : data),
    c_zod c = true ->
    from_input c raw = Ok i -> In w (in_dws i) -> In dt (dw_traits w) -> dt_trait dt = ZeroizeOnDrop ->
    wf_value (in_item i) a -> variant_of (in_item i) a = Some d ->
    exists b evs, gen_body c (in_item i) w dt = BDrop b /\ eval_drop b a = Val evs /\
                  zeroized_positions evs = zeroized_positions (spec_zeroize (in_item i) a).
Print Assumptions C19_drop_zod.

(* Without the feature: Drop calls the type's own Zeroize::zeroize(self) n times, n being the number
   of variants with something to zeroize - at least once whenever the live variant has such a field
   (each call zeroizes the live variant's fields as stated by C18). *)
Theorem C19_drop_delegate :
  forall (fval : Type) (c : cfg) (raw : raw_item) (i : input) (w : dw) (dt : derive_trait) (a : value fval) (d : data),
    c_zod c = false ->
    from_input c raw = Ok i -> In w (in_dws i) -> In dt (dw_traits w) -> dt_trait dt = ZeroizeOnDrop ->
    wf_value (in_item i) a -> variant_of (in_item i) a = Some d ->
    exists b n, gen_body c (in_item i) w dt = BDrop b /\ eval_drop b a = Val (repeat ZDelegate n) /\
                (zeroized_positions (spec_zeroize (in_item i) a) <> [] -> 1 <= n).
Proof.
  intros fval c raw i w dt a d Hz Hin Hw Hdt Ht Wa Hd.
  assert (NU : item_is_union (in_item i) = false) by (eapply derives_not_union; eauto; rewrite Ht; reflexivity).
  destruct (gen_drop_delegate_correct c (in_item i) a d Hz (from_input_wf c raw i Hin) Wa Hd) as [n [He Hn]].
  exists (gen_drop c (in_item i)), n. split; [|split].
  - unfold gen_body. rewrite Ht, NU. reflexivity.
  - assumption.
  - rewrite (zeroized_positions_spec (in_item i) a d Hd). assumption.
Qed.

Check C19_drop_delegate :
  forall (fval : Type) (c : cfg) (raw : raw_item) (i : input) (w : dw) (dt : derive_trait) (a : value fval) (d : data),
    c_zod c = false ->
    from_input c raw = Ok i -> In w (in_dws i) -> In dt (dw_traits w) -> dt_trait dt = ZeroizeOnDrop ->
    wf_value (in_item i) a -> variant_of (in_item i) a = Some d ->
    exists b n, gen_body c (in_item i) w dt = BDrop b /\ eval_drop b a = Val (repeat ZDelegate n) /\
                (zeroized_positions (spec_zeroize (in_item i) a) <> [] -> 1 <= n).
Print Assumptions C19_drop_delegate.

(* The marker trait is implemented exactly when the feature is on, and a Drop impl is always emitted. *)
Theorem C19_marker_and_drop_glue :
  forall (c : cfg) (i : input) (w : dw) (dt : derive_trait),
    dt_trait dt = ZeroizeOnDrop ->
    impl_path dt = path_from_strs ["core"; "ops"; "Drop"] /\
    (io_extra (render_impl c i w dt) <> [] <-> c_zod c = true).
Proof.
  intros c i w dt Ht. split.
  - unfold impl_path. rewrite Ht. reflexivity.
  - unfold render_impl. cbn [io_extra]. rewrite Ht.
    replace (trait_beq ZeroizeOnDrop ZeroizeOnDrop) with true by reflexivity. cbn [andb].
    destruct (c_zod c); split; intros H; try reflexivity; try congruence.
    unfold impl_header. discriminate.
Qed.

Check C19_marker_and_drop_glue :
  forall (c : cfg) (i : input) (w : dw) (dt : derive_trait),
    dt_trait dt = ZeroizeOnDrop ->
    impl_path dt = path_from_strs ["core"; "ops"; "Drop"] /\
    (io_extra (render_impl c i w dt) <> [] <-> c_zod c = true).
Print Assumptions C19_marker_and_drop_glue.

Definition ex_zod : raw_item :=
  mkRawItem [dw_of ["Zeroize"; "ZeroizeOnDrop"] None] [] "Z" gen_T
    (KEnum [mkRawVariant [] "A" RUnnamed [ufld ["T"] []; ufld ["u8"] [skip_groups "skip" ["Zeroize"]]] None;
            mkRawVariant [] "B" RUnit [] None]).

Example C19_nonvacuous :
  exists i w dt, from_input cfg_zod ex_zod = Ok i /\ In w (in_dws i) /\ In dt (dw_traits w) /\ dt_trait dt = ZeroizeOnDrop /\
    eval_drop (gen_drop cfg_zod (in_item i)) (mkValue 0 [1; 2]) = Val [ZOrOnDrop 0] /\
    eval_drop (gen_drop cfg_zod (in_item i)) (mkValue 1 ([] : list nat)) = Val [] /\
    eval_drop (gen_drop cfg_zeroize (in_item i)) (mkValue 0 [1; 2]) = Val [ZDelegate].
Proof.
  destruct (from_input cfg_zod ex_zod) as [i| |] eqn:E; try (vm_compute in E; discriminate).
  vm_compute in E. injection E as <-.
  eexists; eexists; eexists. split; [reflexivity|]. split; [left; reflexivity|].
  split; [right; left; reflexivity|]. repeat split; reflexivity.
Qed.
