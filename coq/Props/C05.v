(* C05 - Eq/Ord/Hash contracts survive every accepted skip/incomparable setup. *)
From DW Require Import Proofs_laws Examples.
Open Scope nat_scope.

(* the std contracts of the FIELD types (what "lawful" means in the property) *)
Record lawful {fval hval : Type} (feq : fval -> fval -> bool) (fpcmp : fval -> fval -> option comparison)
       (fhash : fval -> hval) : Prop := mkLawful {
  l_sym : forall x y, feq x y = feq y x;
  l_trans : forall x y z, feq x y = true -> feq y z = true -> feq x z = true;
  l_eq_pcmp : forall x y, feq x y = true <-> fpcmp x y = Some Datatypes.Eq;
  l_dual : forall x y, fpcmp y x = option_map CompOpp (fpcmp x y);
  l_ptrans : forall x y z c, fpcmp x y = Some c -> fpcmp y z = Some c -> fpcmp x z = Some c;
  l_congr_l : forall x y z, fpcmp x y = Some Datatypes.Eq -> fpcmp x z = fpcmp y z;
  l_congr_r : forall x y z, fpcmp x y = Some Datatypes.Eq -> fpcmp z x = fpcmp z y;
  l_hash : forall x y, feq x y = true -> fhash x = fhash y }.

(* No accepted configuration lets two of the derived traits disagree about which data matters:
   PartialEq, Eq, PartialOrd and Ord see the same fields; Hash sees a subset of them; and an
   `incomparable` marker never coexists with Eq or Ord. *)
Theorem C05_same_fields :
  forall (d : data) (f : field),
    visible d PartialEq f = visible d Eq f /\ visible d PartialEq f = visible d PartialOrd f /\
    visible d PartialEq f = visible d Ord f /\ (visible d Hash f = true -> visible d PartialEq f = true).
Proof. intros d f. destruct (visible_cmp_family d f) as [A [B C]]. repeat split; try assumption. apply visible_hash_sub. Qed.

Check C05_same_fields :
  forall (d : data) (f : field),
    visible d PartialEq f = visible d Eq f /\ visible d PartialEq f = visible d PartialOrd f /\
    visible d PartialEq f = visible d Ord f /\ (visible d Hash f = true -> visible d PartialEq f = true).
Print Assumptions C05_same_fields.

Theorem C05_incomparable_excludes_total :
  forall (c : cfg) (r : raw_item) (i : input) (w : dw) (dt : derive_trait),
    from_input c r = Ok i -> In w (in_dws i) -> In dt (dw_traits w) -> (dt_trait dt = Eq \/ dt_trait dt = Ord) ->
    item_inc_flag (in_item i) = false /\ forall d, In d (item_variants (in_item i)) -> d_incomparable d = false.
Proof. exact total_no_incomparable. Qed.

Check C05_incomparable_excludes_total :
  forall (c : cfg) (r : raw_item) (i : input) (w : dw) (dt : derive_trait),
    from_input c r = Ok i -> In w (in_dws i) -> In dt (dw_traits w) -> (dt_trait dt = Eq \/ dt_trait dt = Ord) ->
    item_inc_flag (in_item i) = false /\ forall d, In d (item_variants (in_item i)) -> d_incomparable d = false.
Print Assumptions C05_incomparable_excludes_total.

(* The contracts, over the reference semantics that C03 / C04 / C08 prove the generated code computes,
   for every item, every skip / skip_inner / incomparable assignment, and all values. *)
Theorem C05_contracts :
  forall (fval hval : Type) (feq : fval -> fval -> bool) (fpcmp : fval -> fval -> option comparison)
         (fhash : fval -> hval) (it : item) (re : rust_enum),
    lawful feq fpcmp fhash -> NoDup (re_discs re) ->
    forall a b c : value fval,
      wf_value it a -> wf_value it b -> wf_value it c ->
      v_idx a < length (re_discs re) -> v_idx b < length (re_discs re) ->
      (* a == b  iff  partial_cmp(a, b) == Some(Equal) *)
      (spec_eq feq it a b = true <-> spec_pcmp fpcmp it re a b = Some Datatypes.Eq) /\
      (* a < b iff b > a (and None both ways) *)
      spec_pcmp fpcmp it re b a = option_map CompOpp (spec_pcmp fpcmp it re a b) /\
      (* == is symmetric and transitive *)
      spec_eq feq it a b = spec_eq feq it b a /\
      (spec_eq feq it a b = true -> spec_eq feq it b c = true -> spec_eq feq it a c = true) /\
      (* < and > are transitive *)
      (forall o, o <> Datatypes.Eq -> spec_pcmp fpcmp it re a b = Some o -> spec_pcmp fpcmp it re b c = Some o ->
                 spec_pcmp fpcmp it re a c = Some o) /\
      (* a == b implies identical hasher input *)
      (spec_eq feq it a b = true -> spec_hash fhash it a = spec_hash fhash it b).
Proof.
  intros fval hval feq fpcmp fhash it re L ND a b c Wa Wb Wc Ia Ib. destruct L.
  split; [apply (eq_iff_pcmp_equal feq fpcmp (fun _ _ => Datatypes.Eq) l_eq_pcmp0 it re a b Wa Wb ND Ia Ib)|].
  split; [apply (pcmp_dual fpcmp l_dual0)|].
  split; [apply (eq_sym feq l_sym0)|].
  split; [apply (eq_trans feq l_trans0 it a b c Wa Wb Wc)|].
  split; [intros o Ho H1 H2; apply (pcmp_trans fpcmp l_ptrans0 l_congr_l0 l_congr_r0 it re a b c o Wa Wb Wc H1 H2 Ho)|].
  apply (eq_hash feq fhash l_hash0 it a b Wa Wb).
Qed.

Check C05_contracts :
  forall (fval hval : Type) (feq : fval -> fval -> bool) (fpcmp : fval -> fval -> option comparison)
         (fhash : fval -> hval) (it : item) (re : rust_enum),
    lawful feq fpcmp fhash -> NoDup (re_discs re) ->
    forall a b c : value fval,
      wf_value it a -> wf_value it b -> wf_value it c ->
      v_idx a < length (re_discs re) -> v_idx b < length (re_discs re) ->
      (spec_eq feq it a b = true <-> spec_pcmp fpcmp it re a b = Some Datatypes.Eq) /\
      spec_pcmp fpcmp it re b a = option_map CompOpp (spec_pcmp fpcmp it re a b) /\
      spec_eq feq it a b = spec_eq feq it b a /\
      (spec_eq feq it a b = true -> spec_eq feq it b c = true -> spec_eq feq it a c = true) /\
      (forall o, o <> Datatypes.Eq -> spec_pcmp fpcmp it re a b = Some o -> spec_pcmp fpcmp it re b c = Some o ->
                 spec_pcmp fpcmp it re a c = Some o) /\
      (spec_eq feq it a b = true -> spec_hash fhash it a = spec_hash fhash it b).
Print Assumptions C05_contracts.

(* partial_cmp(a, b) == Some(cmp(a, b)) whenever the field types satisfy it *)
Theorem C05_pcmp_some_cmp :
  forall (fval : Type) (fpcmp : fval -> fval -> option comparison) (fcmp : fval -> fval -> comparison)
         (it : item) (re : rust_enum) (a b : value fval),
    (forall x y, fpcmp x y = Some (fcmp x y)) ->
    incomparable_value it a = false -> incomparable_value it b = false ->
    spec_pcmp fpcmp it re a b = Some (spec_cmp fcmp it re a b).
Proof.
  intros fval fpcmp fcmp it re a b Hc Ha Hb. unfold spec_pcmp, spec_cmp. rewrite Ha, Hb. cbn [orb].
  destruct (Nat.eqb (v_idx a) (v_idx b)); [|reflexivity].
  destruct (variant_of it a); [|reflexivity].
  change (project d PartialOrd a) with (project d Ord a). change (project d PartialOrd b) with (project d Ord b).
  generalize (project d Ord a) (project d Ord b). intros xs. induction xs as [|x xs IH]; intros [|y ys]; cbn; try reflexivity.
  rewrite Hc. destruct (fcmp x y); [apply IH | reflexivity | reflexivity].
Qed.

Check C05_pcmp_some_cmp :
  forall (fval : Type) (fpcmp : fval -> fval -> option comparison) (fcmp : fval -> fval -> comparison)
         (it : item) (re : rust_enum) (a b : value fval),
    (forall x y, fpcmp x y = Some (fcmp x y)) ->
    incomparable_value it a = false -> incomparable_value it b = false ->
    spec_pcmp fpcmp it re a b = Some (spec_cmp fcmp it re a b).
Print Assumptions C05_pcmp_some_cmp.

(* Non-vacuity: natural numbers are lawful, and ex_enum (field b skipped for EqHashOrd) is accepted. *)
Example C05_lawful_nat : lawful Nat.eqb (fun x y => Some (Nat.compare x y)) (fun x : nat => x).
Proof.
  constructor.
  - intros x y. apply Nat.eqb_sym.
  - intros x y z H1 H2. apply Nat.eqb_eq in H1. apply Nat.eqb_eq in H2. apply Nat.eqb_eq. congruence.
  - intros x y. rewrite Nat.eqb_eq. split; [intros ->; rewrite Nat.compare_refl; reflexivity | intros H; inversion H as [H1]; apply Nat.compare_eq_iff; assumption].
  - intros x y. cbn. rewrite (Nat.compare_antisym x y). reflexivity.
  - intros x y z c H1 H2. destruct (Nat.compare_spec x y), (Nat.compare_spec y z), (Nat.compare_spec x z); subst; try lia; congruence.
  - intros x y z H. inversion H as [H1]. apply Nat.compare_eq_iff in H1. subst. reflexivity.
  - intros x y z H. inversion H as [H1]. apply Nat.compare_eq_iff in H1. subst. reflexivity.
  - intros x y H. apply Nat.eqb_eq in H. assumption.
Qed.

Example C05_nonvacuous :
  exists i, from_input cfg_default ex_enum = Ok i /\
    wf_value (in_item i) (mkValue 0 [1; 2]) /\ wf_value (in_item i) (mkValue 0 [1; 9]) /\
    NoDup (re_discs (rust_enum_of ex_enum)) /\
    spec_eq Nat.eqb (in_item i) (mkValue 0 [1; 2]) (mkValue 0 [1; 9]) = true /\
    spec_hash (fun x : nat => x) (in_item i) (mkValue 0 [1; 2]) = spec_hash (fun x : nat => x) (in_item i) (mkValue 0 [1; 9]).
Proof.
  destruct (from_input cfg_default ex_enum) as [i| |] eqn:E; try (vm_compute in E; discriminate).
  vm_compute in E. injection E as <-. eexists. split; [reflexivity|].
  split; [eexists; split; reflexivity|]. split; [eexists; split; reflexivity|].
  split; [vm_compute; repeat constructor; cbn; intuition discriminate|]. split; reflexivity.
Qed.
