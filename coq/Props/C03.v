(* C03 - PartialEq is structural equality over variant and non-skipped fields. *)
From DW Require Import Proofs_eq Proofs_frontend Proofs_laws Examples.

(* For every accepted item and every attribute requesting PartialEq, the generated
   `eq` returns, for all pairs of values and for EVERY behaviour of the field types'
   own `==` (no reflexivity assumed: the NaN-like case is inside), exactly: same
   variant, neither item nor variant incomparable, all non-skipped fields equal. *)
Theorem C03_eq_structural :
  forall (fval : Type) (feq : fval -> fval -> bool) (c : cfg) (raw : raw_item) (i : input)
         (w : dw) (dt : derive_trait) (a b : value fval),
    from_input c raw = Ok i -> In w (in_dws i) -> In dt (dw_traits w) -> dt_trait dt = PartialEq ->
    wf_value (in_item i) a -> wf_value (in_item i) b ->
    exists e, gen_body c (in_item i) w dt = BPartialEq e /\
              eval_partial_eq feq e a b = Val (spec_eq feq (in_item i) a b).
Proof.
  intros fval feq c raw i w dt a b Hin Hw Hdt Ht Wa Wb.
  assert (NU : item_is_union (in_item i) = false).
  { destruct (item_is_union (in_item i)) eqn:U; [|reflexivity].
    pose proof (union_traits c raw i w dt Hin U Hw Hdt) as S. rewrite Ht in S. discriminate. }
  exists (gen_partial_eq c (in_item i)). split.
  - unfold gen_body. rewrite Ht, NU. reflexivity.
  - apply gen_partial_eq_correct; [eapply from_input_wf; eauto | assumption | assumption | assumption].
Qed.

Check C03_eq_structural :
  forall (fval : Type) (feq : fval -> fval -> bool) (c : cfg) (raw : raw_item) (i : input)
         (w : dw) (dt : derive_trait) (a b : value fval),
    from_input c raw = Ok i -> In w (in_dws i) -> In dt (dw_traits w) -> dt_trait dt = PartialEq ->
    wf_value (in_item i) a -> wf_value (in_item i) b ->
    exists e, gen_body c (in_item i) w dt = BPartialEq e /\
              eval_partial_eq feq e a b = Val (spec_eq feq (in_item i) a b).
Print Assumptions C03_eq_structural.

(* On operands that are not incomparable this is the standard derive's answer on the
   data with the skipped fields removed. *)
Theorem C03_std :
  forall (fval : Type) (feq : fval -> fval -> bool) (it : item) (a b : value fval) (da db : data),
    variant_of it a = Some da -> variant_of it b = Some db -> incomparable_value it a = false ->
    spec_eq feq it a b = std_eq feq (v_idx a, project da PartialEq a) (v_idx b, project db PartialEq b).
Proof.
  intros fval feq it a b da db Ha Hb Hi. unfold spec_eq, std_eq. rewrite Ha, Hi. cbn [fst snd negb].
  destruct (Nat.eqb_spec (v_idx a) (v_idx b)) as [E|E]; cbn [andb]; [|reflexivity].
  unfold variant_of in *. rewrite E in Ha. assert (da = db) by congruence. subst. reflexivity.
Qed.

Check C03_std :
  forall (fval : Type) (feq : fval -> fval -> bool) (it : item) (a b : value fval) (da db : data),
    variant_of it a = Some da -> variant_of it b = Some db -> incomparable_value it a = false ->
    spec_eq feq it a b = std_eq feq (v_idx a, project da PartialEq a) (v_idx b, project db PartialEq b).
Print Assumptions C03_std.

(* The sentence of the property in propositional form: `==` is true EXACTLY when both operands are the same
   variant, neither the item nor that variant is marked incomparable, and the non-skipped fields are pairwise
   equal through the field type's own `==` (any `feq`, no law assumed). *)
Theorem C03_eq_true_iff :
  forall (fval : Type) (feq : fval -> fval -> bool) (it : item) (a b : value fval),
    wf_value it a -> wf_value it b ->
    (spec_eq feq it a b = true <->
       exists d, variant_of it a = Some d /\ variant_of it b = Some d /\ v_idx a = v_idx b /\
         item_inc_flag it = false /\ d_incomparable d = false /\
         Forall2 (fun x y => feq x y = true) (project d PartialEq a) (project d PartialEq b)).
Proof. exact @spec_eq_true_iff. Qed.

Check C03_eq_true_iff :
  forall (fval : Type) (feq : fval -> fval -> bool) (it : item) (a b : value fval),
    wf_value it a -> wf_value it b ->
    (spec_eq feq it a b = true <->
       exists d, variant_of it a = Some d /\ variant_of it b = Some d /\ v_idx a = v_idx b /\
         item_inc_flag it = false /\ d_incomparable d = false /\
         Forall2 (fun x y => feq x y = true) (project d PartialEq a) (project d PartialEq b)).
Print Assumptions C03_eq_true_iff.

(* Non-vacuity: a concrete accepted enum with a skipped field and concrete values meets every hypothesis,
   and a NaN-like field value is unequal to itself. *)
Definition nan_eq (x y : nat) : bool := if Nat.eqb x 9 then false else Nat.eqb x y.
Example C03_nonvacuous :
  exists i w dt, from_input cfg_default ex_enum = Ok i /\ In w (in_dws i) /\ In dt (dw_traits w) /\ dt_trait dt = PartialEq /\
    wf_value (in_item i) (mkValue 0 [1; 2]) /\ wf_value (in_item i) (mkValue 0 [1; 3]) /\
    spec_eq nan_eq (in_item i) (mkValue 0 [1; 2]) (mkValue 0 [1; 3]) = true /\
    spec_eq nan_eq (in_item i) (mkValue 0 [9; 2]) (mkValue 0 [9; 2]) = false /\
    spec_eq nan_eq (in_item i) (mkValue 0 [1; 2]) (mkValue 1 [1]) = false.
Proof.
  destruct (from_input cfg_default ex_enum) as [i| |] eqn:E; try (vm_compute in E; discriminate).
  vm_compute in E. injection E as <-.
  eexists; eexists; eexists. split; [reflexivity|]. split; [left; reflexivity|].
  split; [do 6 right; left; reflexivity|]. split; [reflexivity|].
  split; [eexists; split; [reflexivity|reflexivity]|]. split; [eexists; split; [reflexivity|reflexivity]|].
  repeat split; reflexivity.
Qed.
