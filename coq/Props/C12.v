(* C12 - generated unsafe code is never UB; `safe` emits no unsafe at all. *)
From DW Require Import Proofs_ord Proofs_atoms Examples.
Open Scope nat_scope.

(* the two unsafe constructs of the expansions: [rest_unsafe], [strategy_unsafe], lifted to [body_unsafe] in Proofs_atoms.v *)

(* No UB, in every configuration: for every accepted, rustc-valid item (outside the known class F6),
   all values and all field behaviours, eq / partial_cmp / cmp evaluate to a value: the
   unreachable_unchecked arms are never reached and the pointer read of the tag is well typed. *)
Theorem C12_no_ub :
  forall (fval : Type) (feq : fval -> fval -> bool) (fpcmp : fval -> fval -> option comparison) (fcmp : fval -> fval -> comparison)
         (c : cfg) (raw : raw_item) (i : input) (w : dw) (dt : derive_trait) (a b : value fval) ord_impl,
    from_input c raw = Ok i -> In w (in_dws i) -> In dt (dw_traits w) ->
    valid_rust_enum raw -> uncastable_fieldless raw = false ->
    wf_value (in_item i) a -> wf_value (in_item i) b ->
    (dt_trait dt = PartialEq -> exists e v, gen_body c (in_item i) w dt = BPartialEq e /\ eval_partial_eq feq e a b = Val v) /\
    (dt_trait dt = PartialOrd -> shortcut w Ord = false ->
       exists o v, gen_body c (in_item i) w dt = BPartialOrd o /\ eval_partial_ord fpcmp (rust_enum_of raw) ord_impl o a b = Val v) /\
    (dt_trait dt = Ord -> exists o v, gen_body c (in_item i) w dt = BOrd o /\ eval_ord fcmp (rust_enum_of raw) o a b = Val v).
Proof.
  intros fval feq fpcmp fcmp c raw i w dt a b ord_impl Hin Hw Hdt V F6 Wa Wb. split; [|split].
  - intros Ht.
    assert (NU : item_is_union (in_item i) = false) by (apply (derives_not_union c raw i w dt Hin Hw Hdt); rewrite Ht; reflexivity).
    exists (gen_partial_eq c (in_item i)), (spec_eq feq (in_item i) a b). split; [unfold gen_body; rewrite Ht, NU; reflexivity|].
    apply gen_partial_eq_correct; eauto using from_input_wf.
  - intros Ht Hs.
    assert (NU : item_is_union (in_item i) = false) by (apply (derives_not_union c raw i w dt Hin Hw Hdt); rewrite Ht; reflexivity).
    destruct (gen_ord_signature_some c raw i w PartialOrd true Hin) as [o Ho].
    exists o, (spec_pcmp fpcmp (in_item i) (rust_enum_of raw) a b). split; [unfold gen_body, gen_partial_ord; rewrite Ht, Hs, Ho, NU; reflexivity|].
    eapply gen_partial_ord_sig_correct; eauto using from_input_wf.
    intros inc be s Eo. subst o. eapply oracle_of_input; eauto.
  - intros Ht.
    assert (NU : item_is_union (in_item i) = false) by (apply (derives_not_union c raw i w dt Hin Hw Hdt); rewrite Ht; reflexivity).
    destruct (gen_ord_signature_some c raw i w Ord false Hin) as [o Ho].
    destruct (total_no_incomparable c raw i w dt Hin Hw Hdt (or_intror Ht)) as [Hflag Hninc].
    exists o, (spec_cmp fcmp (in_item i) (rust_enum_of raw) a b). split; [unfold gen_body, gen_ord; rewrite Ht, Ho, NU; reflexivity|].
    eapply gen_ord_sig_correct; eauto using from_input_wf.
    intros inc be s Eo. subst o. eapply oracle_of_input; eauto.
Qed.

Check C12_no_ub :
  forall (fval : Type) (feq : fval -> fval -> bool) (fpcmp : fval -> fval -> option comparison) (fcmp : fval -> fval -> comparison)
         (c : cfg) (raw : raw_item) (i : input) (w : dw) (dt : derive_trait) (a b : value fval) ord_impl,
    from_input c raw = Ok i -> In w (in_dws i) -> In dt (dw_traits w) ->
    valid_rust_enum raw -> uncastable_fieldless raw = false ->
    wf_value (in_item i) a -> wf_value (in_item i) b ->
    (dt_trait dt = PartialEq -> exists e v, gen_body c (in_item i) w dt = BPartialEq e /\ eval_partial_eq feq e a b = Val v) /\
    (dt_trait dt = PartialOrd -> shortcut w Ord = false ->
       exists o v, gen_body c (in_item i) w dt = BPartialOrd o /\ eval_partial_ord fpcmp (rust_enum_of raw) ord_impl o a b = Val v) /\
    (dt_trait dt = Ord -> exists o v, gen_body c (in_item i) w dt = BOrd o /\ eval_ord fcmp (rust_enum_of raw) o a b = Val v).
Print Assumptions C12_no_ub.

(* With `safe` no unsafe construct is generated, for ANY item, attribute and trait. *)
Theorem C12_safe_no_unsafe :
  forall (c : cfg) (it : item) (w : dw) (dt : derive_trait),
    c_safe c = true -> body_unsafe (gen_body c it w dt) = false.
Proof.
  intros c it w dt Hs. unfold gen_body.
  assert (Hr : rest_unsafe (unreachable_rest c) = false) by (unfold unreachable_rest; rewrite Hs; reflexivity).
  assert (Hstrat : forall disc vs s, gen_strategy c disc vs w = Some s -> strategy_unsafe s = false).
  { intros disc vs s H. unfold gen_strategy in H. rewrite Hs in H.
    destruct (c_nightly c); [inversion H; reflexivity|].
    destruct disc; try discriminate;
      repeat match type of H with context [if ?b then _ else _] => destruct b end; inversion H; reflexivity. }
  assert (Hsig : forall t chk o, gen_ord_signature c it w t chk = Some o -> ord_unsafe o = false).
  { intros t chk o H. unfold gen_ord_signature in H.
    destruct (item_is_incomparable it); [inversion H; reflexivity|].
    destruct it as [d|disc id inc vs].
    - destruct (item_is_empty (IItem d) t); inversion H; reflexivity.
    - destruct (1 <? length vs); [|destruct (item_is_empty _ t); inversion H; reflexivity].
      set (be := if item_is_empty (IEnum disc id inc vs) t then None
                 else if has_empty_comparable t vs then Some (mkOrdMatch (map (cmp_arm t chk) vs) REqual)
                 else Some (mkOrdMatch (map (cmp_arm t chk) vs) (unreachable_rest c))) in *.
      assert (Hbe : match_unsafe be = false).
      { unfold be. destruct (item_is_empty _ t); [reflexivity|]. destruct (has_empty_comparable t vs); [reflexivity | exact Hr]. }
      destruct (filter (fun v => negb (d_incomparable v)) vs) as [|c1 [|c2 rest]].
      + destruct (gen_strategy c disc vs w) eqn:Hg; inversion H; subst o. cbn [ord_unsafe]. apply orb_false_intro; [exact Hbe | eapply Hstrat; eauto].
      + destruct (existsb d_incomparable vs); inversion H; subst o. cbn [ord_unsafe]. destruct (data_is_empty c1 t); [reflexivity | exact Hbe].
      + destruct (gen_strategy c disc vs w) eqn:Hg; inversion H; subst o. cbn [ord_unsafe]. apply orb_false_intro; [exact Hbe | eapply Hstrat; eauto]. }
  destruct (dt_trait dt); try (destruct (item_is_union it); reflexivity); try reflexivity.
  - (* Ord *)
    unfold gen_ord. destruct (gen_ord_signature c it w Ord false) eqn:Ho; [|reflexivity].
    destruct (item_is_union it); [reflexivity|]. cbn. eapply Hsig; eauto.
  - (* PartialEq *)
    destruct (item_is_union it); [reflexivity|]. cbn. unfold gen_partial_eq.
    destruct (item_is_incomparable it); [reflexivity|].
    destruct it as [d|disc id inc vs].
    + destruct (item_is_empty _ _); reflexivity.
    + destruct (1 <? length vs); [|destruct (item_is_empty _ _); reflexivity].
      destruct (negb (item_is_empty _ _)); [|reflexivity].
      destruct (has_empty_comparable PartialEq vs); [reflexivity | exact Hr].
  - (* PartialOrd *)
    unfold gen_partial_ord. destruct (shortcut w Ord); [destruct (item_is_union it); reflexivity|].
    destruct (gen_ord_signature c it w PartialOrd true) eqn:Ho; [|reflexivity].
    destruct (item_is_union it); [reflexivity|]. cbn. eapply Hsig; eauto.
Qed.

Check C12_safe_no_unsafe :
  forall (c : cfg) (it : item) (w : dw) (dt : derive_trait),
    c_safe c = true -> body_unsafe (gen_body c it w dt) = false.
Print Assumptions C12_safe_no_unsafe.

(* the `unsafe` keyword enters the rendered comparison code only through those two constructs *)
Theorem C12_unsafe_tokens :
  forall (r : rest) (equal : toks), ~ In "unsafe" equal ->
    (In "unsafe" (render_rest r equal) <-> rest_unsafe r = true).
Proof.
  intros r equal Hn. destruct r; cbn [render_rest rest_unsafe]; split; intros H; try discriminate; try reflexivity.
  - cbn in H. destruct H as [H|[]]. discriminate.
  - contradiction.
  - cbn. left. reflexivity.
  - cbn in H. repeat (destruct H as [H|H]; [discriminate|]). contradiction.
Qed.

Check C12_unsafe_tokens :
  forall (r : rest) (equal : toks), ~ In "unsafe" equal ->
    (In "unsafe" (render_rest r equal) <-> rest_unsafe r = true).
Print Assumptions C12_unsafe_tokens.

(* the pointer read of the tag is only generated for an enum whose #[repr] names exactly the type read *)
Theorem C12_ptr_read_typed :
  forall (c : cfg) (attrs : list item_attr) (rvs : list raw_variant) (disc : discriminant) (vs : list data) (w : dw) (r : repr),
    consistent_reprs attrs = true -> c_nightly c = false ->
    discriminant_parse attrs rvs = Ok disc -> gen_strategy c disc vs w = Some (SPtrRead r) ->
    rust_tag attrs = Some r /\ c_safe c = false.
Proof.
  intros c attrs rvs disc vs w r C Hn Hp Hs. pose proof (discriminant_parse_facts _ _ _ C Hp) as F.
  unfold gen_strategy in Hs. rewrite Hn in Hs.
  destruct disc; try discriminate;
    repeat match type of Hs with context [if ?b then _ else _] => destruct b eqn:? end; inversion Hs; subst; tauto.
Qed.

Check C12_ptr_read_typed :
  forall (c : cfg) (attrs : list item_attr) (rvs : list raw_variant) (disc : discriminant) (vs : list data) (w : dw) (r : repr),
    consistent_reprs attrs = true -> c_nightly c = false ->
    discriminant_parse attrs rvs = Ok disc -> gen_strategy c disc vs w = Some (SPtrRead r) ->
    rust_tag attrs = Some r /\ c_safe c = false.
Print Assumptions C12_ptr_read_typed.


(* The same at the level of the TOKENS of the expansion (Atoms.v: every token of every template,
   classified; its erasure is what Render.v renders and tie A compares).  Under `safe` no template
   contributes the keyword `unsafe`, for any item, attribute and trait; in every configuration the
   keyword can only come from one of the two unsafe constructs.  (User-supplied tokens - e.g. a field
   of type `unsafe fn()` - are [User] atoms, not [Kw].) *)
Definition not_unsafe_kw (a : atom) : Prop := a <> Kw "unsafe".

Lemma census_not_unsafe :
  forall c i w dt, (body_unsafe (gen_body c (in_item i) w dt) = true -> False) -> Forall not_unsafe_kw (timpl c i w dt).
Proof.
  intros c i w dt H. apply census_timpl; unfold not_unsafe_kw; try (intros; discriminate).
  - intros s Hm E. inversion E. subst s. discriminate Hm.
  - intros E. exfalso. auto.
Qed.

Theorem C12_safe_no_unsafe_token :
  forall (c : cfg) (i : input) (w : dw) (dt : derive_trait),
    c_safe c = true ->
    ~ In (Kw "unsafe") (timpl c i w dt) /\ erase (timpl c i w dt) = impl_toks (render_impl c i w dt).
Proof.
  intros c i w dt Hs. split; [|apply erase_timpl].
  intros Hin.
  assert (H0 : body_unsafe (gen_body c (in_item i) w dt) = true -> False) by (rewrite (C12_safe_no_unsafe c (in_item i) w dt Hs); discriminate).
  pose proof (census_not_unsafe c i w dt H0) as F. rewrite Forall_forall in F. apply (F _ Hin). reflexivity.
Qed.

Check C12_safe_no_unsafe_token :
  forall (c : cfg) (i : input) (w : dw) (dt : derive_trait),
    c_safe c = true ->
    ~ In (Kw "unsafe") (timpl c i w dt) /\ erase (timpl c i w dt) = impl_toks (render_impl c i w dt).
Print Assumptions C12_safe_no_unsafe_token.

Theorem C12_unsafe_only_from_constructs :
  forall (c : cfg) (i : input) (w : dw) (dt : derive_trait),
    In (Kw "unsafe") (timpl c i w dt) -> body_unsafe (gen_body c (in_item i) w dt) = true.
Proof.
  intros c i w dt Hin. destruct (body_unsafe (gen_body c (in_item i) w dt)) eqn:E; [reflexivity|].
  assert (H0 : body_unsafe (gen_body c (in_item i) w dt) = true -> False) by (rewrite E; discriminate).
  pose proof (census_not_unsafe c i w dt H0) as F. rewrite Forall_forall in F.
  exfalso. apply (F _ Hin). reflexivity.
Qed.

Check C12_unsafe_only_from_constructs :
  forall (c : cfg) (i : input) (w : dw) (dt : derive_trait),
    In (Kw "unsafe") (timpl c i w dt) -> body_unsafe (gen_body c (in_item i) w dt) = true.
Print Assumptions C12_unsafe_only_from_constructs.

(* Non-vacuity: ex_repr (#[repr(u8)], data enum, no Clone) uses the pointer read by default and the const fn under safe. *)
Example C12_nonvacuous :
  exists i w, from_input cfg_default ex_repr = Ok i /\ In w (in_dws i) /\
    (exists inc be, gen_ord cfg_default (in_item i) w = Some (OMulti inc be (SPtrRead U8))) /\
    (exists inc be tbl, gen_ord cfg_safe (in_item i) w = Some (OMulti inc be (SConstFn (Some U8) false tbl))) /\
    body_unsafe (gen_body cfg_default (in_item i) w (mkDT Ord None)) = true /\
    body_unsafe (gen_body cfg_safe (in_item i) w (mkDT Ord None)) = false.
Proof.
  destruct (from_input cfg_default ex_repr) as [i| |] eqn:E; try (vm_compute in E; discriminate).
  vm_compute in E. injection E as <-.
  eexists; eexists. split; [reflexivity|]. split; [left; reflexivity|].
  split; [eexists; eexists; reflexivity|]. split; [eexists; eexists; eexists; reflexivity|]. split; reflexivity.
Qed.
