(* C01 - impls carry exactly the declared bounds, nothing implicit. *)
From DW Require Import Proofs_reject Examples.
Open Scope nat_scope.

Definition item_preds (g : generics) : list toks := match g_where g with Some (ps, _) => ps | None => [] end.

(* The predicates of the impl generated for (attribute w, trait dt) are exactly: the item's own
   where-clause predicates, then one predicate per entry listed after the `;` of THAT attribute -
   `Type: <trait path>` (plus `+ Copy` for Clone on a union) for a plain entry, the predicate
   verbatim for a `Type: Bound` entry - in order, and nothing else; no `where` at all iff both are empty. *)
Theorem C01_where_exact :
  forall (g : generics) (it : item) (w : dw) (dt : derive_trait),
    fst (where_preds g it w dt) = item_preds g ++ map (generic_pred it dt) (dw_generics w) /\
    (forall ty, generic_pred it dt (GNoBound ty) =
                ty ++ [":"] ++ path_toks (trait_path dt) ++
                (if trait_beq (dt_trait dt) Clone && item_is_union it then "+" :: std_path Copy else [])) /\
    (forall p, generic_pred it dt (GCustom p) = p) /\
    (where_clause g it w dt = [] <-> item_preds g = [] /\ dw_generics w = []).
Proof.
  intros g it w dt. split; [|split; [|split]].
  - unfold where_preds, item_preds. destruct (g_where g) as [[ps tr]|]; destruct (dw_generics w); cbn; rewrite ?app_nil_r; reflexivity.
  - intros ty. reflexivity.
  - intros p. reflexivity.
  - assert (F : fst (where_preds g it w dt) = item_preds g ++ map (generic_pred it dt) (dw_generics w)).
    { unfold where_preds, item_preds. destruct (g_where g) as [[ps tr]|]; destruct (dw_generics w); cbn; rewrite ?app_nil_r; reflexivity. }
    unfold where_clause. destruct (where_preds g it w dt) as [ps tr]. cbn [fst] in F. split.
    + intros H. destruct ps as [|p ps]; [|discriminate]. symmetry in F. apply app_eq_nil in F. destruct F as [A B].
      apply map_eq_nil in B. auto.
    + intros [A B]. rewrite A, B in F. cbn in F. subst ps. reflexivity.
Qed.

Check C01_where_exact :
  forall (g : generics) (it : item) (w : dw) (dt : derive_trait),
    fst (where_preds g it w dt) = item_preds g ++ map (generic_pred it dt) (dw_generics w) /\
    (forall ty, generic_pred it dt (GNoBound ty) =
                ty ++ [":"] ++ path_toks (trait_path dt) ++
                (if trait_beq (dt_trait dt) Clone && item_is_union it then "+" :: std_path Copy else [])) /\
    (forall p, generic_pred it dt (GCustom p) = p) /\
    (where_clause g it w dt = [] <-> item_preds g = [] /\ dw_generics w = []).
Print Assumptions C01_where_exact.

(* For EVERY assignment `holds` of truth values to predicates (i.e. every instantiation of the
   parameters): the impl's where-clause holds exactly when the item's own predicates hold and every
   listed entry satisfies the trait (or its custom bound).  A parameter that is not listed occurs in
   no generated predicate. *)
Theorem C01_applies_iff :
  forall (holds : toks -> bool) (g : generics) (it : item) (w : dw) (dt : derive_trait),
    forallb holds (fst (where_preds g it w dt)) =
    forallb holds (item_preds g) && forallb (fun e => holds (generic_pred it dt e)) (dw_generics w).
Proof.
  intros holds g it w dt. destruct (C01_where_exact g it w dt) as [-> _].
  rewrite forallb_app. f_equal. induction (dw_generics w) as [|e l IH]; cbn; [reflexivity|]. rewrite IH. reflexivity.
Qed.

Check C01_applies_iff :
  forall (holds : toks -> bool) (g : generics) (it : item) (w : dw) (dt : derive_trait),
    forallb holds (fst (where_preds g it w dt)) =
    forallb holds (item_preds g) && forallb (fun e => holds (generic_pred it dt e)) (dw_generics w).
Print Assumptions C01_applies_iff.

(* Bounds never leak between attributes: merging adjacent attributes with equal bound lists
   preserves, in order, the list of (trait, bound list) pairs; and the impl of a pair is a function of
   the item and that pair only (render_impl takes nothing else). *)
Definition pairs (l : list dw) : list (derive_trait * list generic) :=
  flat_map (fun w => map (fun dt => (dt, dw_generics w)) (dw_traits w)) l.

Lemma toks_eqb_eq a b : toks_eqb a b = true -> a = b.
Proof.
  unfold toks_eqb. revert b; induction a as [|x a IH]; intros [|y b] H; cbn in H; try discriminate; [reflexivity|].
  apply andb_true_iff in H. destruct H as [H1 H2]. apply String.eqb_eq in H1. subst. f_equal. auto.
Qed.

Lemma generics_eqb_eq a b : list_eqb generic_eqb a b = true -> a = b.
Proof.
  revert b; induction a as [|x a IH]; intros [|y b] H; cbn in H; try discriminate; [reflexivity|].
  apply andb_true_iff in H. destruct H as [H1 H2]. f_equal; [|auto].
  destruct x, y; cbn in H1; try discriminate; f_equal; apply toks_eqb_eq; assumption.
Qed.

Theorem C01_no_leak : forall l : list dw, pairs (merge_dws l) = pairs l.
Proof.
  assert (G : forall rest cur, pairs (merge_into cur rest) = pairs (cur :: rest)).
  { induction rest as [|d r IH]; intros cur; [reflexivity|]. cbn [merge_into].
    destruct (list_eqb generic_eqb (dw_generics d) (dw_generics cur)) eqn:E.
    - rewrite IH. apply generics_eqb_eq in E. unfold pairs. cbn. rewrite map_app, E, <- app_assoc. reflexivity.
    - unfold pairs in *. cbn. f_equal. apply IH. }
  intros [|d r]; [reflexivity | apply G].
Qed.

Check C01_no_leak : forall l : list dw, pairs (merge_dws l) = pairs l.
Print Assumptions C01_no_leak.

(* impl generics and type generics come from the item alone: lifetimes first, defaults dropped,
   inline bounds kept; nothing is added for the derived trait *)
Theorem C01_generics_verbatim :
  forall (c : cfg) (i : input) (w : dw) (dt : derive_trait),
    io_header (render_impl c i w dt) =
    ["#"; "["; "automatically_derived"; "]"; "impl"] ++ impl_generics (in_generics i) ++ path_toks (impl_path dt) ++
    ["for"; item_ident (in_item i)] ++ ty_generics (in_generics i) ++ where_clause (in_generics i) (in_item i) w dt.
Proof. reflexivity. Qed.

Check C01_generics_verbatim :
  forall (c : cfg) (i : input) (w : dw) (dt : derive_trait),
    io_header (render_impl c i w dt) =
    ["#"; "["; "automatically_derived"; "]"; "impl"] ++ impl_generics (in_generics i) ++ path_toks (impl_path dt) ++
    ["for"; item_ident (in_item i)] ++ ty_generics (in_generics i) ++ where_clause (in_generics i) (in_item i) w dt.
Print Assumptions C01_generics_verbatim.

(* Non-vacuity: ex_struct = #[derive_where(Clone, Debug, PartialEq, Hash, Default; T)] struct S<T, U> *)
Example C01_nonvacuous :
  exists i w, from_input cfg_default ex_struct = Ok i /\ In w (in_dws i) /\
    flatten (where_clause (in_generics i) (in_item i) w (mkDT Clone None)) =
      ["where"; "T"; ":"; ":"; ":"; "core"; ":"; ":"; "clone"; ":"; ":"; "Clone"] /\
    flatten (impl_generics (in_generics i)) = ["<"; "T"; ","; "U"; ">"].
Proof.
  destruct (from_input cfg_default ex_struct) as [i| |] eqn:E; try (vm_compute in E; discriminate).
  vm_compute in E. injection E as <-. eexists; eexists. split; [reflexivity|]. split; [left; reflexivity|]. split; reflexivity.
Qed.
