(* C13 - feature flags change strategy, never observable results. *)
From DW Require Import Proofs_cfg Examples.
From DW.Props Require C04.
Open Scope nat_scope.

(* The front end looks at the configuration only through the zeroize flag (which trait / group names
   exist) and, for enums, through nightly (whether #[repr] is inspected and discriminants recorded):
   an item accepted under two configurations that agree on zeroize is parsed into the same attributes,
   generics and item shape. *)
Theorem C13_frontend :
  forall (c1 c2 : cfg) (r : raw_item) (i1 i2 : input),
    c_zeroize c1 = c_zeroize c2 -> from_input c1 r = Ok i1 -> from_input c2 r = Ok i2 ->
    in_dws i1 = in_dws i2 /\ in_generics i1 = in_generics i2 /\ same_shape (in_item i1) (in_item i2).
Proof. exact from_input_shape. Qed.

Check C13_frontend :
  forall (c1 c2 : cfg) (r : raw_item) (i1 i2 : input),
    c_zeroize c1 = c_zeroize c2 -> from_input c1 r = Ok i1 -> from_input c2 r = Ok i2 ->
    in_dws i1 = in_dws i2 /\ in_generics i1 = in_generics i2 /\ same_shape (in_item i1) (in_item i2).
Print Assumptions C13_frontend.

(* The comparison traits - the only ones whose code depends on safe / nightly - return identical
   results under any two configurations that accept the item: pointer read, casts, const-fn table,
   intrinsic; unreachable_unchecked vs unreachable!: same answers for all values and field behaviours. *)
Theorem C13_comparisons_cfg_independent :
  forall (fval : Type) (feq : fval -> fval -> bool) (fpcmp : fval -> fval -> option comparison) (fcmp : fval -> fval -> comparison)
         (c1 c2 : cfg) (raw : raw_item) (i1 i2 : input) (w : dw) (dt : derive_trait) (a b : value fval) ord_impl,
    c_zeroize c1 = c_zeroize c2 -> from_input c1 raw = Ok i1 -> from_input c2 raw = Ok i2 ->
    In w (in_dws i1) -> In dt (dw_traits w) ->
    valid_rust_enum raw -> uncastable_fieldless raw = false ->
    wf_value (in_item i1) a -> wf_value (in_item i1) b -> wf_value (in_item i2) a -> wf_value (in_item i2) b ->
    match gen_body c1 (in_item i1) w dt, gen_body c2 (in_item i2) w dt with
    | BPartialEq e1, BPartialEq e2 => eval_partial_eq feq e1 a b = eval_partial_eq feq e2 a b
    | BPartialOrd o1, BPartialOrd o2 =>
        shortcut w Ord = false ->
        eval_partial_ord fpcmp (rust_enum_of raw) ord_impl o1 a b = eval_partial_ord fpcmp (rust_enum_of raw) ord_impl o2 a b
    | BOrd o1, BOrd o2 => eval_ord fcmp (rust_enum_of raw) o1 a b = eval_ord fcmp (rust_enum_of raw) o2 a b
    | _, _ => True
    end.
Proof.
  intros fval feq fpcmp fcmp c1 c2 raw i1 i2 w dt a b ord_impl Hz H1 H2 Hw Hdt V F6 Wa1 Wb1 Wa2 Wb2.
  destruct (from_input_shape c1 c2 raw i1 i2 Hz H1 H2) as [Ed [_ S]].
  assert (Hw2 : In w (in_dws i2)) by (rewrite <- Ed; assumption).
  destruct (spec_shape feq fpcmp fcmp (fun x : fval => x) (in_item i1) (in_item i2) (rust_enum_of raw) a b S) as [Se [Sp [Sc _]]].
  destruct (gen_body c1 (in_item i1) w dt) eqn:G1; try exact I; destruct (gen_body c2 (in_item i2) w dt) eqn:G2; try exact I.
  - (* PartialEq *)
    assert (Ht : dt_trait dt = PartialEq).
    { unfold gen_body in G1. destruct (dt_trait dt); try (destruct (item_is_union (in_item i1)); discriminate); try discriminate; try reflexivity;
        try (destruct (gen_ord c1 (in_item i1) w); [destruct (item_is_union (in_item i1))|]; discriminate);
        try (destruct (gen_partial_ord c1 (in_item i1) w); [destruct (item_is_union (in_item i1))|]; discriminate). }
    assert (NU1 : item_is_union (in_item i1) = false) by (apply (derives_not_union c1 raw i1 w dt H1 Hw Hdt); rewrite Ht; reflexivity).
    assert (NU2 : item_is_union (in_item i2) = false) by (apply (derives_not_union c2 raw i2 w dt H2 Hw2 Hdt); rewrite Ht; reflexivity).
    unfold gen_body in G1, G2. rewrite Ht, NU1 in G1. rewrite Ht, NU2 in G2. inversion G1; inversion G2; subst.
    rewrite (gen_partial_eq_correct feq c1 (in_item i1) a b (from_input_wf c1 raw i1 H1) NU1 Wa1 Wb1).
    rewrite (gen_partial_eq_correct feq c2 (in_item i2) a b (from_input_wf c2 raw i2 H2) NU2 Wa2 Wb2).
    rewrite Se. reflexivity.
  - (* PartialOrd *)
    assert (Ht : dt_trait dt = PartialOrd).
    { unfold gen_body in G1. destruct (dt_trait dt); try (destruct (item_is_union (in_item i1)); discriminate); try discriminate; try reflexivity;
        try (destruct (gen_ord c1 (in_item i1) w); [destruct (item_is_union (in_item i1))|]; discriminate);
        try (destruct (gen_partial_ord c1 (in_item i1) w); [destruct (item_is_union (in_item i1))|]; discriminate). }
    intros Hs.
    destruct (C04.C04_partial_cmp fval fpcmp c1 raw i1 w dt a b ord_impl H1 Hw Hdt Ht Hs V F6 Wa1 Wb1) as [o1 [E1 R1]].
    destruct (C04.C04_partial_cmp fval fpcmp c2 raw i2 w dt a b ord_impl H2 Hw2 Hdt Ht Hs V F6 Wa2 Wb2) as [o2 [E2 R2]].
    rewrite G1 in E1. rewrite G2 in E2. inversion E1; inversion E2; subst. rewrite R1, R2, Sp. reflexivity.
  - (* Ord *)
    assert (Ht : dt_trait dt = Ord).
    { unfold gen_body in G1. destruct (dt_trait dt); try (destruct (item_is_union (in_item i1)); discriminate); try discriminate; try reflexivity;
        try (destruct (gen_ord c1 (in_item i1) w); [destruct (item_is_union (in_item i1))|]; discriminate);
        try (destruct (gen_partial_ord c1 (in_item i1) w); [destruct (item_is_union (in_item i1))|]; discriminate). }
    destruct (C04.C04_cmp fval fcmp c1 raw i1 w dt a b H1 Hw Hdt Ht V F6 Wa1 Wb1) as [o1 [E1 R1]].
    destruct (C04.C04_cmp fval fcmp c2 raw i2 w dt a b H2 Hw2 Hdt Ht V F6 Wa2 Wb2) as [o2 [E2 R2]].
    rewrite G1 in E1. rewrite G2 in E2. inversion E1; inversion E2; subst. rewrite R1, R2, Sc. reflexivity.
Qed.

Check C13_comparisons_cfg_independent :
  forall (fval : Type) (feq : fval -> fval -> bool) (fpcmp : fval -> fval -> option comparison) (fcmp : fval -> fval -> comparison)
         (c1 c2 : cfg) (raw : raw_item) (i1 i2 : input) (w : dw) (dt : derive_trait) (a b : value fval) ord_impl,
    c_zeroize c1 = c_zeroize c2 -> from_input c1 raw = Ok i1 -> from_input c2 raw = Ok i2 ->
    In w (in_dws i1) -> In dt (dw_traits w) ->
    valid_rust_enum raw -> uncastable_fieldless raw = false ->
    wf_value (in_item i1) a -> wf_value (in_item i1) b -> wf_value (in_item i2) a -> wf_value (in_item i2) b ->
    match gen_body c1 (in_item i1) w dt, gen_body c2 (in_item i2) w dt with
    | BPartialEq e1, BPartialEq e2 => eval_partial_eq feq e1 a b = eval_partial_eq feq e2 a b
    | BPartialOrd o1, BPartialOrd o2 =>
        shortcut w Ord = false ->
        eval_partial_ord fpcmp (rust_enum_of raw) ord_impl o1 a b = eval_partial_ord fpcmp (rust_enum_of raw) ord_impl o2 a b
    | BOrd o1, BOrd o2 => eval_ord fcmp (rust_enum_of raw) o1 a b = eval_ord fcmp (rust_enum_of raw) o2 a b
    | _, _ => True
    end.
Print Assumptions C13_comparisons_cfg_independent.

(* All other traits: the generated code itself does not depend on the configuration at all
   (except that Drop uses zeroize_or_on_drop under zeroize-on-drop), so neither do results, formatting or hasher input;
   in particular enabling the zeroize features does not alter the impls of the std traits. *)
Theorem C13_other_traits_cfg_free :
  forall (c1 c2 : cfg) (it : item) (w : dw) (dt : derive_trait),
    match dt_trait dt with
    | Clone | Copy | Debug | Default | Eq | Hash | Zeroize => gen_body c1 it w dt = gen_body c2 it w dt
    | ZeroizeOnDrop => c_zod c1 = c_zod c2 -> gen_body c1 it w dt = gen_body c2 it w dt
    | PartialEq | PartialOrd | Ord =>
        c_safe c1 = c_safe c2 -> c_nightly c1 = c_nightly c2 -> gen_body c1 it w dt = gen_body c2 it w dt
    end.
Proof.
  intros c1 c2 it w dt. unfold gen_body. destruct (dt_trait dt); try reflexivity.
  - intros Hs Hn. unfold gen_ord, gen_ord_signature, gen_strategy, unreachable_rest. rewrite Hs, Hn. reflexivity.
  - intros Hs Hn. unfold gen_partial_eq, unreachable_rest. rewrite Hs. reflexivity.
  - intros Hs Hn. unfold gen_partial_ord, gen_ord_signature, gen_strategy, unreachable_rest. rewrite Hs, Hn. reflexivity.
  - intros Hz. unfold gen_drop. rewrite Hz. reflexivity.
Qed.

Check C13_other_traits_cfg_free :
  forall (c1 c2 : cfg) (it : item) (w : dw) (dt : derive_trait),
    match dt_trait dt with
    | Clone | Copy | Debug | Default | Eq | Hash | Zeroize => gen_body c1 it w dt = gen_body c2 it w dt
    | ZeroizeOnDrop => c_zod c1 = c_zod c2 -> gen_body c1 it w dt = gen_body c2 it w dt
    | PartialEq | PartialOrd | Ord =>
        c_safe c1 = c_safe c2 -> c_nightly c1 = c_nightly c2 -> gen_body c1 it w dt = gen_body c2 it w dt
    end.
Print Assumptions C13_other_traits_cfg_free.

(* the reference semantics of every trait is the same for two items of the same shape *)
Theorem C13_spec_shape :
  forall (fval hval : Type) (feq : fval -> fval -> bool) (fpcmp : fval -> fval -> option comparison) (fcmp : fval -> fval -> comparison)
         (fhash : fval -> hval) (it1 it2 : item) (re : rust_enum) (a b : value fval),
    same_shape it1 it2 ->
    spec_eq feq it1 a b = spec_eq feq it2 a b /\ spec_pcmp fpcmp it1 re a b = spec_pcmp fpcmp it2 re a b /\
    spec_cmp fcmp it1 re a b = spec_cmp fcmp it2 re a b /\ spec_hash fhash it1 a = spec_hash fhash it2 a /\
    spec_debug it1 a = spec_debug it2 a /\ spec_zeroize it1 a = spec_zeroize it2 a.
Proof. intros. apply spec_shape. assumption. Qed.

Check C13_spec_shape :
  forall (fval hval : Type) (feq : fval -> fval -> bool) (fpcmp : fval -> fval -> option comparison) (fcmp : fval -> fval -> comparison)
         (fhash : fval -> hval) (it1 it2 : item) (re : rust_enum) (a b : value fval),
    same_shape it1 it2 ->
    spec_eq feq it1 a b = spec_eq feq it2 a b /\ spec_pcmp fpcmp it1 re a b = spec_pcmp fpcmp it2 re a b /\
    spec_cmp fcmp it1 re a b = spec_cmp fcmp it2 re a b /\ spec_hash fhash it1 a = spec_hash fhash it2 a /\
    spec_debug it1 a = spec_debug it2 a /\ spec_zeroize it1 a = spec_zeroize it2 a.
Print Assumptions C13_spec_shape.

(* Non-vacuity: ex_repr is accepted under default, safe and nightly, with different strategies and the same shape. *)
Example C13_nonvacuous :
  exists i1 i2 i3, from_input cfg_default ex_repr = Ok i1 /\ from_input cfg_safe ex_repr = Ok i2 /\ from_input cfg_nightly ex_repr = Ok i3 /\
    same_shape (in_item i1) (in_item i3) /\
    gen_body cfg_default (in_item i1) (mkDw [mkDT Ord None] []) (mkDT Ord None) <> gen_body cfg_safe (in_item i2) (mkDw [mkDT Ord None] []) (mkDT Ord None).
Proof.
  destruct (from_input cfg_default ex_repr) as [i1| |] eqn:E1; try (vm_compute in E1; discriminate).
  destruct (from_input cfg_safe ex_repr) as [i2| |] eqn:E2; try (vm_compute in E2; discriminate).
  destruct (from_input cfg_nightly ex_repr) as [i3| |] eqn:E3; try (vm_compute in E3; discriminate).
  vm_compute in E1, E2, E3. injection E1 as <-. injection E2 as <-. injection E3 as <-.
  eexists; eexists; eexists. split; [reflexivity|]. split; [reflexivity|]. split; [reflexivity|].
  split; [repeat split; reflexivity|]. vm_compute. discriminate.
Qed.
