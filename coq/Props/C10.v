(* C10 - Debug output matches the standard derive, minus skipped fields. *)
From DW Require Import Proofs_simple Proofs_frontend Examples.

(* At the level both derives share - the calls into core::fmt's builders - the generated `fmt`
   makes exactly the calls of the standard derive on the item without its skipped fields:
   same style (struct / tuple / unit), the name without r#, each remaining field under its
   unrawed name in declaration order, and `finish_non_exhaustive` (`..`) iff a braced shape
   omits at least one field. *)
Theorem C10_trace :
  forall (fval : Type) (c : cfg) (raw : raw_item) (i : input) (w : dw) (dt : derive_trait) (a : value fval),
    from_input c raw = Ok i -> In w (in_dws i) -> In dt (dw_traits w) -> dt_trait dt = Debug ->
    wf_value (in_item i) a ->
    exists arms t, gen_body c (in_item i) w dt = BDebug arms /\
                   spec_debug (in_item i) a = Some t /\
                   eval_debug (item_variants (in_item i)) arms a = Val t.
Proof.
  intros fval c raw i w dt a Hin Hw Hdt Ht Wa.
  assert (NU : item_is_union (in_item i) = false) by (eapply derives_not_union; eauto; rewrite Ht; reflexivity).
  pose proof (from_input_wf c raw i Hin) as W.
  assert (Hs : exists t, spec_debug (in_item i) a = Some t).
  { destruct Wa as [da [Hda La]]. unfold spec_debug, variant_of. rewrite Hda.
    assert (NUa : d_shape da <> ShUnion) by (eapply wf_item_not_union; eauto using nth_error_In).
    destruct (d_shape da); try congruence; eexists; reflexivity. }
  destruct Hs as [t Hs].
  exists (map debug_arm (item_variants (in_item i))), t. split; [|split].
  - unfold gen_body. rewrite Ht, NU. reflexivity.
  - assumption.
  - apply gen_debug_correct; assumption.
Qed.

Check C10_trace :
  forall (fval : Type) (c : cfg) (raw : raw_item) (i : input) (w : dw) (dt : derive_trait) (a : value fval),
    from_input c raw = Ok i -> In w (in_dws i) -> In dt (dw_traits w) -> dt_trait dt = Debug ->
    wf_value (in_item i) a ->
    exists arms t, gen_body c (in_item i) w dt = BDebug arms /\
                   spec_debug (in_item i) a = Some t /\
                   eval_debug (item_variants (in_item i)) arms a = Val t.
Print Assumptions C10_trace.

(* the printed names never carry the raw-identifier prefix *)
Theorem C10_names_unrawed :
  forall (fval : Type) (it : item) (a : value fval) (t : dbg_trace fval) (d : data),
    variant_of it a = Some d -> spec_debug it a = Some t ->
    tr_name t = unraw (d_ident d) /\
    Forall (fun p => match fst p with
                     | Some n => exists f, In f (d_fields d) /\ n = member_display (f_member f)
                     | None => True end) (tr_fields t).
Proof.
  intros fval it a t d Hd Hs. unfold spec_debug in Hs. rewrite Hd in Hs.
  destruct (d_shape d); inversion Hs; subst t; cbn; split; try reflexivity; try constructor.
  - apply Forall_forall. intros p Hp. apply in_map_iff in Hp. destruct Hp as [[f x] [<- Hp]]. cbn.
    apply filter_In in Hp. destruct Hp as [Hp _]. apply in_combine_l in Hp. eauto.
  - apply Forall_forall. intros p Hp. apply in_map_iff in Hp. destruct Hp as [[f x] [<- Hp]]. cbn. exact I.
Qed.

Check C10_names_unrawed :
  forall (fval : Type) (it : item) (a : value fval) (t : dbg_trace fval) (d : data),
    variant_of it a = Some d -> spec_debug it a = Some t ->
    tr_name t = unraw (d_ident d) /\
    Forall (fun p => match fst p with
                     | Some n => exists f, In f (d_fields d) /\ n = member_display (f_member f)
                     | None => True end) (tr_fields t).
Print Assumptions C10_names_unrawed.

(* Non-vacuity: ex_struct skips field b for Debug: one field shown, `..` printed. *)
Example C10_nonvacuous :
  exists i w dt, from_input cfg_default ex_struct = Ok i /\ In w (in_dws i) /\ In dt (dw_traits w) /\ dt_trait dt = Debug /\
    spec_debug (in_item i) (mkValue 0 [3; 4]) = Some (mkTrace DbgStruct "S" [(Some "a", 3)] true).
Proof.
  destruct (from_input cfg_default ex_struct) as [i| |] eqn:E; try (vm_compute in E; discriminate).
  vm_compute in E. injection E as <-.
  eexists; eexists; eexists. split; [reflexivity|]. split; [left; reflexivity|].
  split; [right; left; reflexivity|]. split; reflexivity.
Qed.
