(* C15 - invariant-breaking or meaningless attribute combinations are rejected.
   Stated as: what EVERY accepted item satisfies (the contrapositive of each rejection class),
   plus: a non-accepted item gets an ordinary error (never a panic, never impls). *)
From DW Require Import Proofs_reject Examples.
Open Scope nat_scope.

(* not accepted = rejected with an error *)
Theorem C15_rejected_is_error :
  forall (c : cfg) (r : raw_item), raw_ok r -> (forall i, from_input c r <> Ok i) -> is_err (from_input c r) = true.
Proof.
  intros c r H N. pose proof (np_from_input c r H) as P. unfold np in P.
  destruct (from_input c r) as [i| |]; [exfalso; eapply N; reflexivity | reflexivity | discriminate].
Qed.

Check C15_rejected_is_error :
  forall (c : cfg) (r : raw_item), raw_ok r -> (forall i, from_input c r <> Ok i) -> is_err (from_input c r) = true.
Print Assumptions C15_rejected_is_error.

(* incomparable: never together with Eq or Ord (in any attribute), only with PartialEq or PartialOrd,
   never on both the item and a variant *)
Theorem C15_incomparable :
  forall (c : cfg) (r : raw_item) (i : input),
    from_input c r = Ok i ->
    (forall w dt, In w (in_dws i) -> In dt (dw_traits w) -> (dt_trait dt = Eq \/ dt_trait dt = Ord) ->
       item_inc_flag (in_item i) = false /\ forall d, In d (item_variants (in_item i)) -> d_incomparable d = false) /\
    (forall d, In d (item_variants (in_item i)) -> d_incomparable d = true ->
       derives (in_dws i) PartialEq \/ derives (in_dws i) PartialOrd) /\
    no_item_variant_incomparable (in_item i).
Proof.
  intros c r i H. destruct (accepted_invariants c r i H) as [_ [_ [_ [Hvs [Hit [Hflag [Hboth _]]]]]]].
  split; [intros w dt Hw Hdt Ht; eapply total_no_incomparable; eauto|]. split; [|assumption].
  intros d Hd Hi. destruct (in_item i) as [d0|disc id inc vs] eqn:E; cbn in Hd.
  - destruct Hd as [<-|[]]. destruct (Hit d0 eq_refl) as [_ [_ K]]. apply K. assumption.
  - rewrite Forall_forall in Hvs. destruct (Hvs d Hd) as [_ [_ [_ [_ K]]]].
    assert (Hv : d_is_variant d = true).
    { pose proof (from_input_wf c r i H) as [_ W]. rewrite E in W. rewrite Forall_forall in W. apply W. assumption. }
    apply (K Hv Hi).
Qed.

Check C15_incomparable :
  forall (c : cfg) (r : raw_item) (i : input),
    from_input c r = Ok i ->
    (forall w dt, In w (in_dws i) -> In dt (dw_traits w) -> (dt_trait dt = Eq \/ dt_trait dt = Ord) ->
       item_inc_flag (in_item i) = false /\ forall d, In d (item_variants (in_item i)) -> d_incomparable d = false) /\
    (forall d, In d (item_variants (in_item i)) -> d_incomparable d = true ->
       derives (in_dws i) PartialEq \/ derives (in_dws i) PartialOrd) /\
    no_item_variant_incomparable (in_item i).
Print Assumptions C15_incomparable.

(* skip / skip_inner: every group named is derived, no group is repeated, nothing is redundant with
   the parent's skip_inner, a bare skip needs a skippable trait, no skip_inner on a field-less variant
   or on an enum item *)
Theorem C15_skip :
  forall (c : cfg) (r : raw_item) (i : input),
    from_input c r = Ok i ->
    (forall d, In d (item_variants (in_item i)) ->
       skip_ok (in_dws i) None (d_skip_inner d) /\
       Forall (fun f => skip_ok (in_dws i) (Some (d_skip_inner d)) (f_skip f)) (d_fields d) /\
       (d_is_variant d = true -> d_fields d = [] -> d_skip_inner d = SkipNone)) /\
    (forall a, In a (ri_attrs r) -> bad_item_attr (raw_is_enum r) a = false).
Proof.
  intros c r i H. destruct (accepted_invariants c r i H) as [_ [_ [_ [Hvs [Hit _]]]]]. split.
  - intros d Hd. destruct (in_item i) as [d0|disc id inc vs] eqn:E; cbn in Hd.
    + destruct Hd as [<-|[]]. destruct (Hit d0 eq_refl) as [K1 [K2 _]]. split; [assumption|]. split; [assumption|].
      pose proof (from_input_wf c r i H) as [_ W]. rewrite E in W. intros X. congruence.
    + rewrite Forall_forall in Hvs. destruct (Hvs d Hd) as [K1 [K2 [K3 _]]]. auto.
  - intros a Ha. eapply accepted_no_bad_attr; eauto.
Qed.

Check C15_skip :
  forall (c : cfg) (r : raw_item) (i : input),
    from_input c r = Ok i ->
    (forall d, In d (item_variants (in_item i)) ->
       skip_ok (in_dws i) None (d_skip_inner d) /\
       Forall (fun f => skip_ok (in_dws i) (Some (d_skip_inner d)) (f_skip f)) (d_fields d) /\
       (d_is_variant d = true -> d_fields d = [] -> d_skip_inner d = SkipNone)) /\
    (forall a, In a (ri_attrs r) -> bad_item_attr (raw_is_enum r) a = false).
Print Assumptions C15_skip.

(* Default on an enum needs exactly one `default` variant; `default` needs Default; unions only Clone/Copy *)
Theorem C15_default_and_union :
  forall (c : cfg) (r : raw_item) (i : input),
    from_input c r = Ok i ->
    (derives (in_dws i) Default -> forall (fd : toks -> nat), exists v, spec_default fd (in_item i) = Some v) /\
    (forall d, In d (item_variants (in_item i)) -> d_is_variant d = true -> d_default d = true -> derives (in_dws i) Default) /\
    (item_is_union (in_item i) = true -> forall w dt, In w (in_dws i) -> In dt (dw_traits w) -> supports_union (dt_trait dt) = true).
Proof.
  intros c r i H. split; [|split].
  - intros Hd fd. unfold derives in Hd. apply existsb_exists in Hd. destruct Hd as [w [Hw Hc]]. eapply default_exists; eauto.
  - intros d Hd Hv Hdef. destruct (accepted_invariants c r i H) as [_ [_ [_ [Hvs _]]]].
    destruct (in_item i) as [d0|disc id inc vs] eqn:E; cbn in Hd.
    + destruct Hd as [<-|[]]. pose proof (from_input_wf c r i H) as [_ W]. rewrite E in W. congruence.
    + rewrite Forall_forall in Hvs. destruct (Hvs d Hd) as [_ [_ [_ [K _]]]]. auto.
  - intros U w dt Hw Hdt. eapply union_traits; eauto.
Qed.

Check C15_default_and_union :
  forall (c : cfg) (r : raw_item) (i : input),
    from_input c r = Ok i ->
    (derives (in_dws i) Default -> forall (fd : toks -> nat), exists v, spec_default fd (in_item i) = Some v) /\
    (forall d, In d (item_variants (in_item i)) -> d_is_variant d = true -> d_default d = true -> derives (in_dws i) Default) /\
    (item_is_union (in_item i) = true -> forall w dt, In w (in_dws i) -> In dt (dw_traits w) -> supports_union (dt_trait dt) = true).
Print Assumptions C15_default_and_union.

(* traits: something to derive, no trait twice under the same bounds (in one or in several attributes),
   no empty item, no lifetime predicate, and not what the standard derive already does *)
Theorem C15_traits_and_items :
  forall (c : cfg) (r : raw_item) (i : input),
    from_input c r = Ok i ->
    in_dws i <> [] /\
    (forall w, In w (in_dws i) -> has_dup (dw_traits w) = false) /\ has_cross_dup (in_dws i) = false /\
    not_empty_item (in_item i) /\
    (forall elems gens, In (IADw (DAList elems (Some gens))) (ri_attrs r) ->
       Forall (fun g => match g with GRLifetime _ | GRBad _ => False | _ => True end) gens) /\
    use_case_ok c (in_generics i) (in_item i)
      (item_inc_flag (in_item i) || existsb d_incomparable (match in_item i with IEnum _ _ _ vs => vs | IItem _ => [] end)) (in_dws i) = true.
Proof.
  intros c r i H. destruct (accepted_invariants c r i H) as [A [B [C [_ [_ [_ [_ [D E]]]]]]]].
  repeat split; try assumption. intros elems gens Hin. eapply accepted_no_lifetime_predicate; eauto.
Qed.

Check C15_traits_and_items :
  forall (c : cfg) (r : raw_item) (i : input),
    from_input c r = Ok i ->
    in_dws i <> [] /\
    (forall w, In w (in_dws i) -> has_dup (dw_traits w) = false) /\ has_cross_dup (in_dws i) = false /\
    not_empty_item (in_item i) /\
    (forall elems gens, In (IADw (DAList elems (Some gens))) (ri_attrs r) ->
       Forall (fun g => match g with GRLifetime _ | GRBad _ => False | _ => True end) gens) /\
    use_case_ok c (in_generics i) (in_item i)
      (item_inc_flag (in_item i) || existsb d_incomparable (match in_item i with IEnum _ _ _ vs => vs | IItem _ => [] end)) (in_dws i) = true.
Print Assumptions C15_traits_and_items.

(* Inhabitants: one documented-invalid item per class is rejected with the documented error, next to ex_enum (accepted). *)
Definition S1 (attrs : list item_attr) (fattrs : list field_attr) : raw_item :=
  mkRawItem attrs [] "S" gen_T (KStruct RNamed [fld "a" ["T"] fattrs; fld "b" ["u8"] []]).
Definition E2 (attrs : list item_attr) (a1 a2 : list field_attr) : raw_item :=
  mkRawItem attrs [] "E" gen_T (KEnum [mkRawVariant a1 "A" RUnnamed [ufld ["T"] []] None; mkRawVariant a2 "B" RUnit [] None]).
Definition inc_item : item_attr := IADw (DAList [M1Path (pid "incomparable")] None).
Definition skip_inner_item (gs : list string) : item_attr :=
  IADw (DAList [M1List (pid "skip_inner") (Some (map (fun g => M2Path (pid g)) gs))] None).

Example C15_classes :
  from_input cfg_default (E2 [dw_of ["PartialEq"; "Eq"] None] [] [sub_of ["incomparable"]]) = Err ENonPartialIncomparable /\
  from_input cfg_default (E2 [dw_of ["PartialEq"] None; dw_of ["Ord"] (Some [GRType ["T"]])] [] [sub_of ["incomparable"]]) = Err ENonPartialIncomparable /\
  from_input cfg_default (E2 [dw_of ["Clone"] None] [] [sub_of ["incomparable"]]) = Err EIncomparable /\
  from_input cfg_default (E2 [dw_of ["PartialEq"] None; inc_item] [] [sub_of ["incomparable"]]) = Err EIncomparableOnItemAndVariant /\
  from_input cfg_default (E2 [dw_of ["PartialEq"] None] [] [sub_of ["incomparable"; "incomparable"]]) = Err EOptionDuplicate /\
  from_input cfg_default (S1 [dw_of ["Clone"; "Debug"] None] [skip_groups "skip" ["EqHashOrd"]]) = Err EOptionSkipTrait /\
  from_input cfg_default (S1 [dw_of ["Debug"] None] [skip_groups "skip" ["Debug"; "Debug"]]) = Err EOptionSkipDuplicate /\
  from_input cfg_default (S1 [dw_of ["Debug"] None; skip_inner_item ["Debug"]] [skip_groups "skip" ["Debug"]]) = Err EOptionSkipInner /\
  from_input cfg_default (E2 [dw_of ["Debug"] None; IADw (DAList [M1Path (pid "skip_inner")] None)] [] []) = Err EOptionEnumSkipInner /\
  from_input cfg_default (E2 [dw_of ["Debug"] None] [] [sub_of ["skip_inner"]]) = Err EOptionSkipEmpty /\
  from_input cfg_default (S1 [dw_of ["Clone"] None] [sub_of ["skip"]]) = Err EOptionSkipNoTrait /\
  from_input cfg_default (E2 [dw_of ["Default"] None] [] []) = Err EDefaultMissing /\
  from_input cfg_default (E2 [dw_of ["Default"] None] [sub_of ["default"]] [sub_of ["default"]]) = Err EDefaultDuplicate /\
  from_input cfg_default (E2 [dw_of ["Clone"] None] [sub_of ["default"]] []) = Err EDefault /\
  from_input cfg_default (mkRawItem [dw_of ["Debug"] None] [] "U" gen_T (KUnion [fld "a" ["T"] []])) = Err EUnion /\
  from_input cfg_default (S1 [dw_of ["Clone"; "Foo"] None] []) = Err ETrait /\
  from_input cfg_default (S1 [dw_of ["Clone"; "Clone"] None] []) = Err ETraitDuplicate /\
  from_input cfg_default (S1 [dw_of ["Clone"] (Some [GRType ["T"]]); dw_of ["Debug"] None; dw_of ["Clone"] (Some [GRType ["T"]])] []) = Err ETraitDuplicate /\
  from_input cfg_default (S1 [IADw (DAList [] None)] []) = Err EEmpty /\
  from_input cfg_default (S1 [inc_item] []) = Err ENone /\
  from_input cfg_default (mkRawItem [dw_of ["Clone"] None] [] "S" gen_T (KStruct RUnit [])) = Err EItemEmpty /\
  from_input cfg_default (S1 [dw_of ["Clone"] (Some [GRLifetime ["'"; "a"; ":"; "'"; "static"]])] []) = Err EGeneric /\
  from_input cfg_default (S1 [dw_of ["Clone"] (Some [GRType ["T"]])] []) = Err EUseCase /\
  from_input cfg_default (S1 [dw_of ["Zeroize"] None] []) = Err ETrait /\
  is_ok (from_input cfg_default ex_enum) = true.
Proof. repeat split; vm_compute; reflexivity. Qed.
