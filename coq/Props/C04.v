(* C04 - PartialOrd/Ord order by discriminant value, then fields lexicographically. *)
From DW Require Import Proofs_ord Examples.
Open Scope nat_scope.

(* The discriminant expressions the macro builds (`expr`, `(expr) + k`, `k`) evaluate to Rust's
   numbering: explicit value, else previous + 1, first 0 - for every variant list. *)
Theorem C04_build_discriminants :
  forall vs : list data, map eval_dexpr (discs vs) = rust_discs (map disc_opt vs) None.
Proof. exact build_discriminants_correct. Qed.

Check C04_build_discriminants :
  forall vs : list data, map eval_dexpr (discs vs) = rust_discs (map disc_opt vs) None.
Print Assumptions C04_build_discriminants.

(* The integer type the macro reads / casts to is Rust's tag type for every consistent #[repr] list. *)
Theorem C04_tag_type :
  forall (attrs : list item_attr) (h : option repr),
    consistent_reprs attrs = true -> repr_scan attrs None = Ok h -> h = rust_tag attrs.
Proof. exact repr_scan_tag. Qed.

Check C04_tag_type :
  forall (attrs : list item_attr) (h : option repr),
    consistent_reprs attrs = true -> repr_scan attrs None = Ok h -> h = rust_tag attrs.
Print Assumptions C04_tag_type.

(* partial_cmp without the Ord shortcut: for every accepted item (valid for rustc, outside the
   known class F6), all value pairs, every feature configuration and EVERY field-level partial_cmp:
   None if either operand is incomparable; the lexicographic first-non-Equal field result (None
   included) within one variant; otherwise the comparison of the Rust discriminant values. *)
Theorem C04_partial_cmp :
  forall (fval : Type) (fpcmp : fval -> fval -> option comparison) (c : cfg) (raw : raw_item) (i : input)
         (w : dw) (dt : derive_trait) (a b : value fval) ord_impl,
    from_input c raw = Ok i -> In w (in_dws i) -> In dt (dw_traits w) -> dt_trait dt = PartialOrd ->
    shortcut w Ord = false -> valid_rust_enum raw -> uncastable_fieldless raw = false ->
    wf_value (in_item i) a -> wf_value (in_item i) b ->
    exists o, gen_body c (in_item i) w dt = BPartialOrd o /\
              eval_partial_ord fpcmp (rust_enum_of raw) ord_impl o a b =
              Val (spec_pcmp fpcmp (in_item i) (rust_enum_of raw) a b).
Proof.
  intros fval fpcmp c raw i w dt a b ord_impl Hin Hw Hdt Ht Hs V F6 Wa Wb.
  assert (NU : item_is_union (in_item i) = false) by (eapply derives_not_union; eauto; rewrite Ht; reflexivity).
  destruct (gen_ord_signature_some c raw i w PartialOrd true Hin) as [o Ho].
  exists o. split.
  - unfold gen_body, gen_partial_ord. rewrite Ht, Hs, Ho, NU. reflexivity.
  - eapply gen_partial_ord_sig_correct; eauto using from_input_wf.
    intros inc be s Eo. subst o. eapply oracle_of_input; eauto.
Qed.

Check C04_partial_cmp :
  forall (fval : Type) (fpcmp : fval -> fval -> option comparison) (c : cfg) (raw : raw_item) (i : input)
         (w : dw) (dt : derive_trait) (a b : value fval) ord_impl,
    from_input c raw = Ok i -> In w (in_dws i) -> In dt (dw_traits w) -> dt_trait dt = PartialOrd ->
    shortcut w Ord = false -> valid_rust_enum raw -> uncastable_fieldless raw = false ->
    wf_value (in_item i) a -> wf_value (in_item i) b ->
    exists o, gen_body c (in_item i) w dt = BPartialOrd o /\
              eval_partial_ord fpcmp (rust_enum_of raw) ord_impl o a b =
              Val (spec_pcmp fpcmp (in_item i) (rust_enum_of raw) a b).
Print Assumptions C04_partial_cmp.

(* cmp: the same with total field comparisons (no incomparable marker can be present). *)
Theorem C04_cmp :
  forall (fval : Type) (fcmp : fval -> fval -> comparison) (c : cfg) (raw : raw_item) (i : input)
         (w : dw) (dt : derive_trait) (a b : value fval),
    from_input c raw = Ok i -> In w (in_dws i) -> In dt (dw_traits w) -> dt_trait dt = Ord ->
    valid_rust_enum raw -> uncastable_fieldless raw = false ->
    wf_value (in_item i) a -> wf_value (in_item i) b ->
    exists o, gen_body c (in_item i) w dt = BOrd o /\
              eval_ord fcmp (rust_enum_of raw) o a b = Val (spec_cmp fcmp (in_item i) (rust_enum_of raw) a b).
Proof.
  intros fval fcmp c raw i w dt a b Hin Hw Hdt Ht V F6 Wa Wb.
  assert (NU : item_is_union (in_item i) = false) by (eapply derives_not_union; eauto; rewrite Ht; reflexivity).
  destruct (gen_ord_signature_some c raw i w Ord false Hin) as [o Ho].
  destruct (total_no_incomparable c raw i w dt Hin Hw Hdt (or_intror Ht)) as [Hflag Hninc].
  exists o. split.
  - unfold gen_body, gen_ord. rewrite Ht, Ho, NU. reflexivity.
  - eapply gen_ord_sig_correct; eauto using from_input_wf.
    intros inc be s Eo. subst o. eapply oracle_of_input; eauto.
Qed.

Check C04_cmp :
  forall (fval : Type) (fcmp : fval -> fval -> comparison) (c : cfg) (raw : raw_item) (i : input)
         (w : dw) (dt : derive_trait) (a b : value fval),
    from_input c raw = Ok i -> In w (in_dws i) -> In dt (dw_traits w) -> dt_trait dt = Ord ->
    valid_rust_enum raw -> uncastable_fieldless raw = false ->
    wf_value (in_item i) a -> wf_value (in_item i) b ->
    exists o, gen_body c (in_item i) w dt = BOrd o /\
              eval_ord fcmp (rust_enum_of raw) o a b = Val (spec_cmp fcmp (in_item i) (rust_enum_of raw) a b).
Print Assumptions C04_cmp.

(* PartialOrd and Ord look at the same fields *)
Lemma project_pord_ord {fval} d (v : value fval) : project d PartialOrd v = project d Ord v.
Proof. reflexivity. Qed.

Lemma lex_consistent {fval} (fpcmp : fval -> fval -> option comparison) fcmp :
  (forall x y, fpcmp x y = Some (fcmp x y)) -> forall xs ys, lex_p fpcmp xs ys = Some (lex_t fcmp xs ys).
Proof.
  intros H xs. induction xs as [|x xs IH]; intros [|y ys]; cbn; try reflexivity.
  rewrite H. destruct (fcmp x y); [apply IH | reflexivity | reflexivity].
Qed.

(* cmp and partial_cmp agree whenever both are derived and the field types' own partial_cmp agrees
   with their cmp (the std contract of Ord); this also covers the `Some(Ord::cmp(self, other))` shortcut. *)
Theorem C04_agree :
  forall (fval : Type) (fpcmp : fval -> fval -> option comparison) (fcmp : fval -> fval -> comparison)
         (it : item) (re : rust_enum) (a b : value fval),
    (forall x y, fpcmp x y = Some (fcmp x y)) ->
    incomparable_value it a = false -> incomparable_value it b = false ->
    spec_pcmp fpcmp it re a b = Some (spec_cmp fcmp it re a b).
Proof.
  intros fval fpcmp fcmp it re a b Hc Ha Hb. unfold spec_pcmp, spec_cmp. rewrite Ha, Hb. cbn [orb].
  destruct (Nat.eqb (v_idx a) (v_idx b)); [|reflexivity].
  destruct (variant_of it a); [|reflexivity]. rewrite !project_pord_ord. apply lex_consistent. assumption.
Qed.

Check C04_agree :
  forall (fval : Type) (fpcmp : fval -> fval -> option comparison) (fcmp : fval -> fval -> comparison)
         (it : item) (re : rust_enum) (a b : value fval),
    (forall x y, fpcmp x y = Some (fcmp x y)) ->
    incomparable_value it a = false -> incomparable_value it b = false ->
    spec_pcmp fpcmp it re a b = Some (spec_cmp fcmp it re a b).
Print Assumptions C04_agree.

Theorem C04_via_ord :
  forall (fval : Type) (fpcmp : fval -> fval -> option comparison) (fcmp : fval -> fval -> comparison)
         (c : cfg) (raw : raw_item) (i : input) (w : dw) (dt dto : derive_trait) (a b : value fval),
    from_input c raw = Ok i -> In w (in_dws i) -> In dt (dw_traits w) -> dt_trait dt = PartialOrd ->
    In dto (dw_traits w) -> dt_trait dto = Ord -> shortcut w Ord = true ->
    valid_rust_enum raw -> uncastable_fieldless raw = false ->
    wf_value (in_item i) a -> wf_value (in_item i) b ->
    (forall x y, fpcmp x y = Some (fcmp x y)) ->
    exists o oo, gen_body c (in_item i) w dt = BPartialOrd o /\ gen_body c (in_item i) w dto = BOrd oo /\
      eval_partial_ord fpcmp (rust_enum_of raw) (Some (eval_ord fcmp (rust_enum_of raw) oo)) o a b =
      Val (spec_pcmp fpcmp (in_item i) (rust_enum_of raw) a b).
Proof.
  intros fval fpcmp fcmp c raw i w dt dto a b Hin Hw Hdt Ht Hdto Hto Hs V F6 Wa Wb Hc.
  assert (NU : item_is_union (in_item i) = false) by (apply (derives_not_union c raw i w dt Hin Hw Hdt); rewrite Ht; reflexivity).
  destruct (C04_cmp fval fcmp c raw i w dto a b Hin Hw Hdto Hto V F6 Wa Wb) as [oo [Hoo Heo]].
  exists OViaOrd, oo. split; [|split].
  - unfold gen_body. rewrite Ht. unfold gen_partial_ord. rewrite Hs, NU. reflexivity.
  - assumption.
  - cbn [eval_partial_ord]. rewrite Heo. cbn [obind].
    destruct (total_no_incomparable c raw i w dto Hin Hw Hdto (or_intror Hto)) as [Hflag Hninc].
    assert (Hv : forall v : value fval, wf_value (in_item i) v -> incomparable_value (in_item i) v = false).
    { intros v [d [Hd _]]. unfold incomparable_value, variant_of. rewrite Hd, Hflag. apply Hninc. eapply nth_error_In; eauto. }
    rewrite (C04_agree fval fpcmp fcmp (in_item i) (rust_enum_of raw) a b Hc (Hv a Wa) (Hv b Wb)). reflexivity.
Qed.

Check C04_via_ord :
  forall (fval : Type) (fpcmp : fval -> fval -> option comparison) (fcmp : fval -> fval -> comparison)
         (c : cfg) (raw : raw_item) (i : input) (w : dw) (dt dto : derive_trait) (a b : value fval),
    from_input c raw = Ok i -> In w (in_dws i) -> In dt (dw_traits w) -> dt_trait dt = PartialOrd ->
    In dto (dw_traits w) -> dt_trait dto = Ord -> shortcut w Ord = true ->
    valid_rust_enum raw -> uncastable_fieldless raw = false ->
    wf_value (in_item i) a -> wf_value (in_item i) b ->
    (forall x y, fpcmp x y = Some (fcmp x y)) ->
    exists o oo, gen_body c (in_item i) w dt = BPartialOrd o /\ gen_body c (in_item i) w dto = BOrd oo /\
      eval_partial_ord fpcmp (rust_enum_of raw) (Some (eval_ord fcmp (rust_enum_of raw) oo)) o a b =
      Val (spec_pcmp fpcmp (in_item i) (rust_enum_of raw) a b).
Print Assumptions C04_via_ord.

(* Known finding F6: a field-less enum with a tuple-like variant carrying an explicit discriminant
   (`A() = 3`) is treated as unit-only, and with Clone/Copy in the attribute the generated `as` cast
   is one Rust does not allow (E0605): the full statement without the F6 hypothesis is false. *)
Definition ex_f6 : raw_item :=
  mkRawItem [IARepr (ReprIdents ["u8"]); dw_of ["PartialOrd"; "Clone"; "PartialEq"] None] [] "E" gen_T
    (KEnum [mkRawVariant [] "A" RUnnamed [] (Some (["3"], 3%Z));
            mkRawVariant [sub_of ["incomparable"]] "B" RUnit [] None;
            mkRawVariant [] "C" RUnit [] None]).

(* The sentence of the property about comparison within one variant, in propositional form: for comparable operands
   of the same variant, partial_cmp is the result of the FIRST non-skipped field pair (declaration order) whose own
   partial_cmp is not Some(Equal) - whatever it is, None included - and Some(Equal) when every pair is Some(Equal).
   Any field `partial_cmp`, no law assumed. *)
Theorem C04_first_non_equal_field :
  forall (fval : Type) (fpcmp : fval -> fval -> option comparison) (it : item) (re : rust_enum) (a b : value fval) (d : data),
    incomparable_value it a = false -> incomparable_value it b = false ->
    v_idx a = v_idx b -> variant_of it a = Some d ->
    (forall px py x y xs ys,
       project d PartialOrd a = px ++ x :: xs -> project d PartialOrd b = py ++ y :: ys ->
       Forall2 (fun u v => fpcmp u v = Some Datatypes.Eq) px py -> fpcmp x y <> Some Datatypes.Eq ->
       spec_pcmp fpcmp it re a b = fpcmp x y) /\
    (Forall2 (fun u v => fpcmp u v = Some Datatypes.Eq) (project d PartialOrd a) (project d PartialOrd b) ->
       spec_pcmp fpcmp it re a b = Some Datatypes.Eq).
Proof. exact spec_pcmp_first_non_equal. Qed.

Check C04_first_non_equal_field :
  forall (fval : Type) (fpcmp : fval -> fval -> option comparison) (it : item) (re : rust_enum) (a b : value fval) (d : data),
    incomparable_value it a = false -> incomparable_value it b = false ->
    v_idx a = v_idx b -> variant_of it a = Some d ->
    (forall px py x y xs ys,
       project d PartialOrd a = px ++ x :: xs -> project d PartialOrd b = py ++ y :: ys ->
       Forall2 (fun u v => fpcmp u v = Some Datatypes.Eq) px py -> fpcmp x y <> Some Datatypes.Eq ->
       spec_pcmp fpcmp it re a b = fpcmp x y) /\
    (Forall2 (fun u v => fpcmp u v = Some Datatypes.Eq) (project d PartialOrd a) (project d PartialOrd b) ->
       spec_pcmp fpcmp it re a b = Some Datatypes.Eq).
Print Assumptions C04_first_non_equal_field.

(* The rest of the property's sentence in propositional form: operands of DIFFERENT variants are ordered by the numeric
   value of their discriminants (cmp always; partial_cmp when neither is incomparable), and within one variant cmp is the
   result of the first non-skipped field pair that is not Equal, Equal when all are. *)
Theorem C04_order_sentence :
  forall (fval : Type) (fpcmp : fval -> fval -> option comparison) (fcmp : fval -> fval -> comparison)
         (it : item) (re : rust_enum) (a b : value fval),
    (v_idx a <> v_idx b ->
       spec_cmp fcmp it re a b = Z.compare (Spec.disc_of re a) (Spec.disc_of re b) /\
       (incomparable_value it a = false -> incomparable_value it b = false ->
        spec_pcmp fpcmp it re a b = Some (Z.compare (Spec.disc_of re a) (Spec.disc_of re b)))) /\
    (forall d, v_idx a = v_idx b -> variant_of it a = Some d ->
       (forall px py x y xs ys,
          project d Ord a = px ++ x :: xs -> project d Ord b = py ++ y :: ys ->
          Forall2 (fun u v => fcmp u v = Datatypes.Eq) px py -> fcmp x y <> Datatypes.Eq ->
          spec_cmp fcmp it re a b = fcmp x y) /\
       (Forall2 (fun u v => fcmp u v = Datatypes.Eq) (project d Ord a) (project d Ord b) ->
          spec_cmp fcmp it re a b = Datatypes.Eq)).
Proof. exact spec_cmp_order. Qed.

Check C04_order_sentence :
  forall (fval : Type) (fpcmp : fval -> fval -> option comparison) (fcmp : fval -> fval -> comparison)
         (it : item) (re : rust_enum) (a b : value fval),
    (v_idx a <> v_idx b ->
       spec_cmp fcmp it re a b = Z.compare (Spec.disc_of re a) (Spec.disc_of re b) /\
       (incomparable_value it a = false -> incomparable_value it b = false ->
        spec_pcmp fpcmp it re a b = Some (Z.compare (Spec.disc_of re a) (Spec.disc_of re b)))) /\
    (forall d, v_idx a = v_idx b -> variant_of it a = Some d ->
       (forall px py x y xs ys,
          project d Ord a = px ++ x :: xs -> project d Ord b = py ++ y :: ys ->
          Forall2 (fun u v => fcmp u v = Datatypes.Eq) px py -> fcmp x y <> Datatypes.Eq ->
          spec_cmp fcmp it re a b = fcmp x y) /\
       (Forall2 (fun u v => fcmp u v = Datatypes.Eq) (project d Ord a) (project d Ord b) ->
          spec_cmp fcmp it re a b = Datatypes.Eq)).
Print Assumptions C04_order_sentence.

Theorem C04_F6_refuted :
  exists i w o, from_input cfg_default ex_f6 = Ok i /\ In w (in_dws i) /\
    valid_rust_enum ex_f6 /\ uncastable_fieldless ex_f6 = true /\
    gen_partial_ord cfg_default (in_item i) w = Some o /\
    eval_partial_ord (fun _ _ : nat => Some Datatypes.Eq) (rust_enum_of ex_f6) None o (mkValue 0 []) (mkValue 2 []) = Stuck.
Proof.
  destruct (from_input cfg_default ex_f6) as [i| |] eqn:E; try (vm_compute in E; discriminate).
  vm_compute in E. injection E as <-.
  eexists; eexists; eexists. split; [reflexivity|]. split; [left; reflexivity|].
  split; [split; [reflexivity | repeat constructor]|]. split; [reflexivity|]. split; reflexivity.
Qed.

Check C04_F6_refuted :
  exists i w o, from_input cfg_default ex_f6 = Ok i /\ In w (in_dws i) /\
    valid_rust_enum ex_f6 /\ uncastable_fieldless ex_f6 = true /\
    gen_partial_ord cfg_default (in_item i) w = Some o /\
    eval_partial_ord (fun _ _ : nat => Some Datatypes.Eq) (rust_enum_of ex_f6) None o (mkValue 0 []) (mkValue 2 []) = Stuck.
Print Assumptions C04_F6_refuted.

(* Non-vacuity: #[repr(u8)] enum R { A(T) = 5, B, C = 2 }: B (=6) > A (=5) > C (=2); within A by field. *)
Example C04_nonvacuous :
  exists i w dt, from_input cfg_default ex_repr = Ok i /\ In w (in_dws i) /\ In dt (dw_traits w) /\ dt_trait dt = PartialOrd /\
    valid_rust_enum ex_repr /\ uncastable_fieldless ex_repr = false /\
    re_discs (rust_enum_of ex_repr) = [5; 6; 2]%Z /\
    spec_pcmp (fun x y : nat => Some (Nat.compare x y)) (in_item i) (rust_enum_of ex_repr) (mkValue 1 []) (mkValue 0 [7]) = Some Gt /\
    spec_pcmp (fun x y : nat => Some (Nat.compare x y)) (in_item i) (rust_enum_of ex_repr) (mkValue 2 []) (mkValue 0 [7]) = Some Lt /\
    spec_pcmp (fun x y : nat => Some (Nat.compare x y)) (in_item i) (rust_enum_of ex_repr) (mkValue 0 [3]) (mkValue 0 [7]) = Some Lt /\
    spec_pcmp (fun x y : nat => None) (in_item i) (rust_enum_of ex_repr) (mkValue 0 [3]) (mkValue 0 [7]) = None.
Proof.
  destruct (from_input cfg_default ex_repr) as [i| |] eqn:E; try (vm_compute in E; discriminate).
  vm_compute in E. injection E as <-.
  eexists; eexists; eexists. split; [reflexivity|]. split; [left; reflexivity|].
  split; [left; reflexivity|]. split; [reflexivity|].
  split; [split; [reflexivity | repeat constructor]|]. repeat split; reflexivity.
Qed.
