(* C16 - failures are clean diagnostics: no panic, and the item stays defined. *)
From DW Require Import Proofs_nopanic StageA Examples.
Open Scope nat_scope.

(* The model contains every unreachable!/expect/assert! of the source as an explicit Panic at the
   same place (from_attr's assert!, Skip::add_attribute's expect, Field::from_named's expect, the
   non-list #[repr] unreachable!, "unexpected trait for union", build_ord_signature's expect and
   unreachable!).  For every item that syn can parse (braced fields have names) and that is valid
   without its derive_where attributes (#[repr] is a list), in every feature configuration and for
   every attribute content expressible in the model: both macro stages end in impls or in an
   ordinary error - never in a panic. *)
Theorem C16_no_panic :
  forall (c : cfg) (r : raw_item) (s : item_src),
    raw_ok r -> is_panic (expand c r) = false /\ is_panic (stage_a r s) = false.
Proof.
  intros c r s H. split; [apply np_expand; assumption|].
  unfold stage_a. apply np_bind.
  - apply np_foldM. intros cur a _. unfold crate_of_attr.
    destruct a as [[ts|elems semi]|rp|p ts]; try reflexivity.
    destruct (comma_view elems semi) as [[|m [|m' ms]]|]; try reflexivity.
    destruct m as [p|p e|p args|ts]; try reflexivity.
    + destruct (is_ident p "crate"); reflexivity.
    + destruct (is_ident p "crate"); [|reflexivity].
      apply np_bind; [apply np_parse_crate_value|]. intros q _.
      destruct (path_eqb q (path_from_strs ["derive_where"])); [reflexivity|]. destruct cur; reflexivity.
    + destruct (is_ident p "crate"); reflexivity.
  - intros cr _. destruct (existsb _ (ri_attrs r)); reflexivity.
Qed.

Check C16_no_panic :
  forall (c : cfg) (r : raw_item) (s : item_src),
    raw_ok r -> is_panic (expand c r) = false /\ is_panic (stage_a r s) = false.
Print Assumptions C16_no_panic.

(* code generation itself cannot panic on an accepted item *)
Theorem C16_codegen_no_panic :
  forall (c : cfg) (r : raw_item) (i : input) (w : dw) (dt : derive_trait),
    from_input c r = Ok i -> In w (in_dws i) -> In dt (dw_traits w) ->
    forall site, gen_body c (in_item i) w dt <> BPanic site.
Proof. exact gen_body_no_panic. Qed.

Check C16_codegen_no_panic :
  forall (c : cfg) (r : raw_item) (i : input) (w : dw) (dt : derive_trait),
    from_input c r = Ok i -> In w (in_dws i) -> In dt (dw_traits w) ->
    forall site, gen_body c (in_item i) w dt <> BPanic site.
Print Assumptions C16_codegen_no_panic.

(* What is re-emitted when the attribute macro reports an error is the item itself with exactly the
   derive_where attributes removed, at item, variant and field level, and nothing else changed. *)
Definition no_dw_field (f : raw_field) : Prop := Forall (fun a => is_dw_field_attr a = false) (rf_attrs f).

Theorem C16_strip :
  forall (r : raw_item) (s : item_src),
    Forall (fun a => is_dw_item_attr a = false) (ri_attrs (strip_raw r)) /\
    ri_attrs (strip_raw r) = filter (fun a => negb (is_dw_item_attr a)) (ri_attrs r) /\
    ri_vis (strip_raw r) = ri_vis r /\ ri_name (strip_raw r) = ri_name r /\ ri_generics (strip_raw r) = ri_generics r /\
    match ri_kind r, ri_kind (strip_raw r) with
    | KStruct sh fs, KStruct sh' fs' => sh' = sh /\ fs' = map strip_field fs /\ Forall no_dw_field fs'
    | KUnion fs, KUnion fs' => fs' = map strip_field fs /\ Forall no_dw_field fs'
    | KEnum vs, KEnum vs' =>
        vs' = map strip_variant vs /\
        Forall (fun v => Forall (fun a => is_dw_field_attr a = false) (rv_attrs v) /\ Forall no_dw_field (rv_fields v)) vs'
    | _, _ => False
    end.
Proof.
  intros r s.
  assert (Ff : forall fs, Forall no_dw_field (map strip_field fs)).
  { intros fs. apply Forall_forall. intros f Hf. apply in_map_iff in Hf. destruct Hf as [g [<- _]].
    unfold no_dw_field, strip_field. cbn. apply Forall_forall. intros a Ha. apply filter_In in Ha. destruct Ha as [_ Ha].
    apply negb_true_iff in Ha. assumption. }
  split; [|split; [reflexivity|]].
  - cbn. apply Forall_forall. intros a Ha. apply filter_In in Ha. destruct Ha as [_ Ha]. apply negb_true_iff in Ha. assumption.
  - cbn. repeat split; try reflexivity. destruct (ri_kind r) as [sh fs|vs|fs]; repeat split; try apply Ff.
    apply Forall_forall. intros v Hv. apply in_map_iff in Hv. destruct Hv as [u [<- _]]. unfold strip_variant. cbn. split; [|apply Ff].
    apply Forall_forall. intros a Ha. apply filter_In in Ha. destruct Ha as [_ Ha]. apply negb_true_iff in Ha. assumption.
Qed.

Check C16_strip :
  forall (r : raw_item) (s : item_src),
    Forall (fun a => is_dw_item_attr a = false) (ri_attrs (strip_raw r)) /\
    ri_attrs (strip_raw r) = filter (fun a => negb (is_dw_item_attr a)) (ri_attrs r) /\
    ri_vis (strip_raw r) = ri_vis r /\ ri_name (strip_raw r) = ri_name r /\ ri_generics (strip_raw r) = ri_generics r /\
    match ri_kind r, ri_kind (strip_raw r) with
    | KStruct sh fs, KStruct sh' fs' => sh' = sh /\ fs' = map strip_field fs /\ Forall no_dw_field fs'
    | KUnion fs, KUnion fs' => fs' = map strip_field fs /\ Forall no_dw_field fs'
    | KEnum vs, KEnum vs' =>
        vs' = map strip_variant vs /\
        Forall (fun v => Forall (fun a => is_dw_field_attr a = false) (rv_attrs v) /\ Forall no_dw_field (rv_fields v)) vs'
    | _, _ => False
    end.
Print Assumptions C16_strip.

(* On success the attribute macro re-emits the whole item - every attribute kept, so that the
   derive stage sees them - preceded by #[derive(<crate>::DeriveWhere)] and marked as visited. *)
Theorem C16_stage_a_keeps_item :
  forall (r : raw_item) (s : item_src) (ts : toks),
    stage_a r s = Ok ts ->
    exists crate_ : path,
      ts = ["#"; "["; "derive"; "("] ++ path_toks (path_from_root_and_strs crate_ ["DeriveWhere"]) ++ [")"; "]"] ++
           print_item (fun _ => true) (fun _ => true)
                      (print_attr (path_toks (path_from_root_and_strs crate_ ["derive_where_visited"]))) r s.
Proof.
  intros r s ts H. unfold stage_a in H.
  destruct (foldM (fun cur a => crate_of_attr a cur) (ri_attrs r) None) as [cr| |]; cbn [bind] in H; try discriminate.
  destruct (existsb _ (ri_attrs r)); [discriminate|]. inversion H; subst ts.
  eexists. reflexivity.
Qed.

Check C16_stage_a_keeps_item :
  forall (r : raw_item) (s : item_src) (ts : toks),
    stage_a r s = Ok ts ->
    exists crate_ : path,
      ts = ["#"; "["; "derive"; "("] ++ path_toks (path_from_root_and_strs crate_ ["DeriveWhere"]) ++ [")"; "]"] ++
           print_item (fun _ => true) (fun _ => true)
                      (print_attr (path_toks (path_from_root_and_strs crate_ ["derive_where_visited"]))) r s.
Print Assumptions C16_stage_a_keeps_item.

(* Non-vacuity: ex_enum satisfies raw_ok; an item with an unknown trait is rejected with an ordinary error. *)
Definition ex_bad : raw_item :=
  mkRawItem [dw_of ["Clone"; "Foo"] None] [] "S" gen_T (KStruct RNamed [fld "a" ["T"] []]).

Ltac solve_named := unfold variant_ok, named_ok; cbn; let H := fresh in intros H; try discriminate H; repeat constructor; discriminate.

Example C16_nonvacuous :
  raw_ok ex_enum /\ raw_ok ex_bad /\ expand cfg_default ex_bad = Err ETrait /\
  is_ok (expand cfg_default ex_enum) = true.
Proof.
  split.
  { split; [intros H; cbn in H; intuition discriminate|]. cbn. repeat (constructor; [solve_named|]). constructor. }
  split.
  { split; [intros H; cbn in H; intuition discriminate|]. cbn. solve_named. }
  split; vm_compute; reflexivity.
Qed.
