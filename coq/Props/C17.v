(* C17 - Eq and union Clone are only granted when the field types justify them. *)
From DW Require Import Proofs_simple Proofs_frontend Examples.
Open Scope nat_scope.

(* the types named by `let _: __AssertEq<ty>;` in the rendered body *)
Definition asserted_types (vs : list data) (asserts : list arm) : list toks :=
  flat_map (fun p => map (fun i => f_ty (field_at (fst p) i)) (snd p)) (with_all vs asserts).

Lemma getfs_nth {A} (l : list A) def : forall ps xs, getfs l ps = Some xs -> map (fun i => nth i l def) ps = xs.
Proof.
  induction ps as [|p ps IH]; cbn; intros xs H; [inversion H; reflexivity|].
  destruct (nth_error l p) as [x|] eqn:E; [|discriminate].
  destruct (getfs l ps) as [ys|]; [|discriminate]. inversion H; subst xs.
  f_equal; [exact (nth_error_nth_some l p x def E) | apply IH; reflexivity].
Qed.

Lemma with_all_map {A} (f : data -> A) vs : with_all vs (map f vs) = map (fun d => (d, f d)) vs.
Proof. induction vs as [|v vs IH]; cbn; [reflexivity|]. rewrite IH. reflexivity. Qed.

(* The Eq impl asserts `ty: Eq` for exactly the fields not skipped for Eq, over ALL variants,
   in declaration order: every non-skipped field is asserted, no skipped field is. *)
Theorem C17_asserts :
  forall (c : cfg) (raw : raw_item) (i : input) (w : dw) (dt : derive_trait),
    from_input c raw = Ok i -> In w (in_dws i) -> In dt (dw_traits w) -> dt_trait dt = Eq ->
    exists asserts,
      gen_body c (in_item i) w dt = BEq asserts /\
      asserted_types (item_variants (in_item i)) asserts =
      flat_map (fun d => map f_ty (filter (visible d Eq) (d_fields d))) (item_variants (in_item i)).
Proof.
  intros c raw i w dt Hin Hw Hdt Ht.
  pose proof (from_input_wf c raw i Hin) as W.
  exists (map (fun d => positions d Eq) (item_variants (in_item i))). split.
  - unfold gen_body. rewrite Ht. reflexivity.
  - unfold asserted_types. rewrite with_all_map.
    assert (G : forall vs, Forall wf_data vs ->
      flat_map (fun p : data * arm => map (fun i => f_ty (field_at (fst p) i)) (snd p)) (map (fun d => (d, positions d Eq)) vs) =
      flat_map (fun d => map f_ty (filter (visible d Eq) (d_fields d))) vs).
    { induction vs as [|v vs IH]; intros F; cbn; [reflexivity|]. inversion F; subst.
      rewrite IH by assumption. f_equal.
      rewrite positions_visible by assumption.
      rewrite <- (getfs_nth (d_fields v) (mkField SkipNone false (MUnnamed 0) []) _ _ (getfs_fields_visible v Eq)).
      rewrite map_map. apply map_ext_in. intros p Hp. unfold field_at.
      (* the default element is never used: every position is in range *)
      unfold visible_positions in Hp. apply in_map_iff in Hp. destruct Hp as [[q f] [<- Hq]]. cbn.
      apply filter_In in Hq. destruct Hq as [Hq _]. apply nth_error_indexed_from in Hq. rewrite Nat.sub_0_r in Hq. destruct Hq as [_ Hq].
      rewrite (nth_error_nth_some _ _ _ (mkField SkipNone false (MUnnamed q) []) Hq).
      rewrite (nth_error_nth_some _ _ _ (mkField SkipNone false (MUnnamed 0) []) Hq). reflexivity. }
    apply G. destruct W as [W _]. exact W.
Qed.

Check C17_asserts :
  forall (c : cfg) (raw : raw_item) (i : input) (w : dw) (dt : derive_trait),
    from_input c raw = Ok i -> In w (in_dws i) -> In dt (dw_traits w) -> dt_trait dt = Eq ->
    exists asserts,
      gen_body c (in_item i) w dt = BEq asserts /\
      asserted_types (item_variants (in_item i)) asserts =
      flat_map (fun d => map f_ty (filter (visible d Eq) (d_fields d))) (item_variants (in_item i)).
Print Assumptions C17_asserts.

Lemma flat_map_map {A B C} (g : B -> list C) (h : A -> B) l : flat_map g (map h l) = flat_map (fun x => g (h x)) l.
Proof. induction l as [|x l IH]; cbn; [reflexivity|]. rewrite IH. reflexivity. Qed.

(* the rendered body consists of the assert struct and one `let _: __AssertEq<ty>;` per asserted type *)
Theorem C17_rendered :
  forall (vs : list data) (asserts : list arm),
    render_eq_asserts vs asserts =
    ["#"; "["; "inline"; "]"; "fn"; "assert_receiver_is_total_eq"; "("; "&"; "self"; ")"; "{"] ++
    assert_struct "__AssertEq" (std_path Eq) ++
    flat_map (fun ty => ["let"; "_"; ":"; "__AssertEq"; "<"] ++ ty ++ [">"; ";"]) (asserted_types vs asserts) ++ ["}"].
Proof.
  intros vs asserts. unfold render_eq_asserts, asserted_types. do 2 f_equal. f_equal.
  induction (with_all vs asserts) as [|[d a] l IH]; [reflexivity|].
  cbn [flat_map fst snd]. rewrite flat_map_app. rewrite IH. f_equal.
  rewrite flat_map_map. reflexivity.
Qed.

Check C17_rendered :
  forall (vs : list data) (asserts : list arm),
    render_eq_asserts vs asserts =
    ["#"; "["; "inline"; "]"; "fn"; "assert_receiver_is_total_eq"; "("; "&"; "self"; ")"; "{"] ++
    assert_struct "__AssertEq" (std_path Eq) ++
    flat_map (fun ty => ["let"; "_"; ":"; "__AssertEq"; "<"] ++ ty ++ [">"; ";"]) (asserted_types vs asserts) ++ ["}"].
Print Assumptions C17_rendered.

(* a union's Clone is behind __AssertCopy<Self> (or is the `*self` of a Copy type) and demands Copy of plain bounds *)
Theorem C17_union_clone :
  forall (it : item) (w : dw) (dt : derive_trait),
    item_is_union it = true -> dt_trait dt = Clone ->
    (gen_clone it w = CUnion \/ (gen_clone it w = CCopy /\ dw_contains w Copy = true)) /\
    where_bounds it dt = path_toks (trait_path dt) ++ "+" :: std_path Copy.
Proof.
  intros it w dt U Ht. split.
  - unfold gen_clone. destruct (shortcut w Copy) eqn:S.
    + right. split; [reflexivity|]. unfold shortcut in S. apply andb_true_iff in S. tauto.
    + rewrite U. left. reflexivity.
  - unfold where_bounds. rewrite Ht, U. reflexivity.
Qed.

Check C17_union_clone :
  forall (it : item) (w : dw) (dt : derive_trait),
    item_is_union it = true -> dt_trait dt = Clone ->
    (gen_clone it w = CUnion \/ (gen_clone it w = CCopy /\ dw_contains w Copy = true)) /\
    where_bounds it dt = path_toks (trait_path dt) ++ "+" :: std_path Copy.
Print Assumptions C17_union_clone.

Example C17_nonvacuous :
  exists i w dt asserts, from_input cfg_default ex_enum = Ok i /\ In w (in_dws i) /\ In dt (dw_traits w) /\ dt_trait dt = Eq /\
    gen_body cfg_default (in_item i) w dt = BEq asserts /\
    asserted_types (item_variants (in_item i)) asserts = [["T"]; ["T"]].
Proof.
  destruct (from_input cfg_default ex_enum) as [i| |] eqn:E; try (vm_compute in E; discriminate).
  vm_compute in E. injection E as <-.
  eexists; eexists; eexists; eexists. split; [reflexivity|]. split; [left; reflexivity|].
  split; [do 3 right; left; reflexivity|]. split; [reflexivity|]. split; reflexivity.
Qed.
