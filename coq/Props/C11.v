(* C11 - default() builds the marked variant or the struct from field defaults. *)
From DW Require Import Proofs_simple Proofs_frontend Proofs_decl Examples.

(* For every accepted item deriving Default there is exactly one constructor expression in
   `fn default()`: the struct, or the single variant marked `default`; every field (skip
   markers never remove one) gets its type's own Default. *)
Theorem C11_default :
  forall (fval : Type) (fdefault : toks -> fval) (c : cfg) (raw : raw_item) (i : input) (w : dw) (dt : derive_trait),
    from_input c raw = Ok i -> In w (in_dws i) -> In dt (dw_traits w) -> dt_trait dt = Default ->
    exists ctors v,
      gen_body c (in_item i) w dt = BDefault ctors /\
      spec_default fdefault (in_item i) = Some v /\
      eval_default fdefault (item_variants (in_item i)) ctors = Val v.
Proof.
  intros fval fdefault c raw i w dt Hin Hw Hdt Ht.
  assert (NU : item_is_union (in_item i) = false) by (eapply derives_not_union; eauto; rewrite Ht; reflexivity).
  assert (Hc : dw_contains w Default = true).
  { unfold dw_contains. apply existsb_exists. exists dt. split; [assumption|]. rewrite Ht. reflexivity. }
  destruct (default_exists fdefault c raw i w Hin Hw Hc) as [v Hv].
  exists (map default_ctor (item_variants (in_item i))), v. split; [|split].
  - unfold gen_body. rewrite Ht, NU. reflexivity.
  - assumption.
  - apply gen_default_correct; [eapply from_input_wf; eauto | assumption].
Qed.

Check C11_default :
  forall (fval : Type) (fdefault : toks -> fval) (c : cfg) (raw : raw_item) (i : input) (w : dw) (dt : derive_trait),
    from_input c raw = Ok i -> In w (in_dws i) -> In dt (dw_traits w) -> dt_trait dt = Default ->
    exists ctors v,
      gen_body c (in_item i) w dt = BDefault ctors /\
      spec_default fdefault (in_item i) = Some v /\
      eval_default fdefault (item_variants (in_item i)) ctors = Val v.
Print Assumptions C11_default.

(* the reference value: the marked variant with all its fields, each defaulted by type *)
Theorem C11_spec_shape :
  forall (fval : Type) (fdefault : toks -> fval) (it : item) (v : value fval),
    spec_default fdefault it = Some v ->
    exists d, nth_error (item_variants it) (v_idx v) = Some d /\
              v_fields v = map (fun f => fdefault (f_ty f)) (d_fields d) /\
              (item_is_enum it = true -> d_default d = true).
Proof.
  intros fval fdefault it v H. unfold spec_default in H.
  destruct (default_index it) as [j|] eqn:Hj; [|discriminate].
  destruct (nth_error (item_variants it) j) as [d|] eqn:Hd; [|discriminate].
  inversion H; subst v. cbn. exists d. split; [assumption|]. split; [reflexivity|].
  intros He. destruct it as [d0|disc id inc vs]; [discriminate|]. cbn in *.
  destruct (filter (fun p => d_default (snd p)) (indexed vs)) as [|[k dk] [|q l]] eqn:Ef; try discriminate.
  inversion Hj; subst k.
  assert (Hin : In (j, dk) (filter (fun p => d_default (snd p)) (indexed vs))) by (rewrite Ef; left; reflexivity).
  apply filter_In in Hin. destruct Hin as [Hin Hdef]. cbn in Hdef.
  apply nth_error_indexed_from in Hin. rewrite Nat.sub_0_r in Hin. destruct Hin as [_ Hin]. congruence.
Qed.

Check C11_spec_shape :
  forall (fval : Type) (fdefault : toks -> fval) (it : item) (v : value fval),
    spec_default fdefault it = Some v ->
    exists d, nth_error (item_variants it) (v_idx v) = Some d /\
              v_fields v = map (fun f => fdefault (f_ty f)) (d_fields d) /\
              (item_is_enum it = true -> d_default d = true).
Print Assumptions C11_spec_shape.

(* The variant that `default()` builds is the one carrying a `default` option - in whichever position of
   whichever derive_where attribute on that variant. *)
Theorem C11_marker_as_written :
  forall (c : cfg) (r : raw_item) (i : input) rvs disc id inc vs,
    from_input c r = Ok i -> ri_kind r = KEnum rvs -> in_item i = IEnum disc id inc vs ->
    Forall2 (fun rv d => d_default d = existsb (fun m => meta1_is m "default") (metas_of (rv_attrs rv))) rvs vs.
Proof.
  intros c r i rvs disc id inc vs H Hk Hi. pose proof (accepted_variants_declarative c r i rvs disc id inc vs H Hk Hi) as F.
  clear -F. induction F as [|rv d rvs vs [_ [B _]] F IH]; constructor; assumption.
Qed.

Check C11_marker_as_written :
  forall (c : cfg) (r : raw_item) (i : input) rvs disc id inc vs,
    from_input c r = Ok i -> ri_kind r = KEnum rvs -> in_item i = IEnum disc id inc vs ->
    Forall2 (fun rv d => d_default d = existsb (fun m => meta1_is m "default") (metas_of (rv_attrs rv))) rvs vs.
Print Assumptions C11_marker_as_written.

Example C11_nonvacuous :
  exists i w dt, from_input cfg_default ex_enum = Ok i /\ In w (in_dws i) /\ In dt (dw_traits w) /\ dt_trait dt = Default /\
    spec_default (fun ty => ty) (in_item i) = Some (mkValue 1 [["T"]]).
Proof.
  destruct (from_input cfg_default ex_enum) as [i| |] eqn:E; try (vm_compute in E; discriminate).
  vm_compute in E. injection E as <-.
  eexists; eexists; eexists. split; [reflexivity|]. split; [left; reflexivity|].
  split; [do 2 right; left; reflexivity|]. split; reflexivity.
Qed.

(* The `default` option of a variant is valid exactly when SOME derive_where attribute of the item requests Default - the first,
   the last or one in between, whatever the other attributes request (and it is refused when given twice). *)
Theorem C11_default_option_any_attribute :
  forall (dws : list dw) (p : path),
    (default_add dws (M1Path p) false = Ok true <-> existsb (fun d => dw_contains d Default) dws = true) /\
    (existsb (fun d => dw_contains d Default) dws = false -> default_add dws (M1Path p) false = Err EDefault) /\
    default_add dws (M1Path p) true = Err EOptionDuplicate.
Proof.
  intros dws p. unfold default_add. destruct (existsb (fun d => dw_contains d Default) dws); repeat split; intros; try reflexivity; try discriminate.
Qed.

Check C11_default_option_any_attribute :
  forall (dws : list dw) (p : path),
    (default_add dws (M1Path p) false = Ok true <-> existsb (fun d => dw_contains d Default) dws = true) /\
    (existsb (fun d => dw_contains d Default) dws = false -> default_add dws (M1Path p) false = Err EDefault) /\
    default_add dws (M1Path p) true = Err EOptionDuplicate.
Print Assumptions C11_default_option_any_attribute.

(* non-vacuity: Default requested by the FIRST of two attributes (the second asks for Clone under a bound) *)
Example C11_default_first_attribute :
  default_add [mkDw [mkDT Default None] []; mkDw [mkDT Clone None] [GNoBound ["T"]]] (M1Path (pid "default")) false = Ok true /\
  default_add [mkDw [mkDT Clone None] [GNoBound ["T"]]; mkDw [mkDT Default None] []] (M1Path (pid "default")) false = Ok true /\
  default_add [mkDw [mkDT Clone None] [GNoBound ["T"]]] (M1Path (pid "default")) false = Err EDefault.
Proof. vm_compute. repeat split; reflexivity. Qed.
