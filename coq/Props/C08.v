(* C08 - Hash feeds the variant and every non-skipped field, and nothing else. *)
From DW Require Import Proofs_simple Proofs_frontend Examples.

(* The hasher sees, for every accepted item deriving Hash and every value: the variant
   (enums only, through mem::discriminant), then each field not skipped for Hash, in
   declaration order, each through its own Hash impl; nothing else. *)
Theorem C08_transcript :
  forall (fval hval : Type) (fhash : fval -> hval) (c : cfg) (raw : raw_item) (i : input)
         (w : dw) (dt : derive_trait) (a : value fval),
    from_input c raw = Ok i -> In w (in_dws i) -> In dt (dw_traits w) -> dt_trait dt = Hash ->
    wf_value (in_item i) a ->
    exists arms, gen_body c (in_item i) w dt = BHash arms /\
                 eval_hash fhash arms a = Val (spec_hash fhash (in_item i) a).
Proof.
  intros fval hval fhash c raw i w dt a Hin Hw Hdt Ht Wa.
  assert (NU : item_is_union (in_item i) = false) by (eapply derives_not_union; eauto; rewrite Ht; reflexivity).
  exists (map hash_arm_of (item_variants (in_item i))). split.
  - unfold gen_body. rewrite Ht, NU. reflexivity.
  - apply gen_hash_correct; [eapply from_input_wf; eauto | assumption].
Qed.

Check C08_transcript :
  forall (fval hval : Type) (fhash : fval -> hval) (c : cfg) (raw : raw_item) (i : input)
         (w : dw) (dt : derive_trait) (a : value fval),
    from_input c raw = Ok i -> In w (in_dws i) -> In dt (dw_traits w) -> dt_trait dt = Hash ->
    wf_value (in_item i) a ->
    exists arms, gen_body c (in_item i) w dt = BHash arms /\
                 eval_hash fhash arms a = Val (spec_hash fhash (in_item i) a).
Print Assumptions C08_transcript.

Lemma map_HField_inj {hval} (l1 l2 : list hval) : map (@HField hval) l1 = map HField l2 -> l1 = l2.
Proof. revert l2; induction l1 as [|x l1 IH]; intros [|y l2] H; cbn in H; try discriminate; [reflexivity|]. inversion H. f_equal. auto. Qed.

(* Two values feed the same sequence iff they are the same variant and their hashed fields hash alike;
   with injective field hashes: iff they agree on every hashed field. *)
Theorem C08_iff :
  forall (fval hval : Type) (fhash : fval -> hval) (it : item) (a b : value fval) (da db : data),
    variant_of it a = Some da -> variant_of it b = Some db ->
    (spec_hash fhash it a = spec_hash fhash it b <->
     (item_is_enum it = true -> v_idx a = v_idx b) /\
     map fhash (project da Hash a) = map fhash (project db Hash b)).
Proof.
  intros fval hval fhash it a b da db Ha Hb. unfold spec_hash. rewrite Ha, Hb.
  rewrite <- (map_map fhash HField (project da Hash a)), <- (map_map fhash HField (project db Hash b)).
  destruct (item_is_enum it); cbn [app]; split.
  - intros H. injection H as Hi Hf. apply map_HField_inj in Hf. split; [intros _; exact Hi | exact Hf].
  - intros [Hi Hf]. rewrite (Hi eq_refl), Hf. reflexivity.
  - intros H. split; [discriminate|]. apply map_HField_inj in H. exact H.
  - intros [_ Hf]. rewrite Hf. reflexivity.
Qed.

Check C08_iff :
  forall (fval hval : Type) (fhash : fval -> hval) (it : item) (a b : value fval) (da db : data),
    variant_of it a = Some da -> variant_of it b = Some db ->
    (spec_hash fhash it a = spec_hash fhash it b <->
     (item_is_enum it = true -> v_idx a = v_idx b) /\
     map fhash (project da Hash a) = map fhash (project db Hash b)).
Print Assumptions C08_iff.

Theorem C08_injective :
  forall (fval hval : Type) (fhash : fval -> hval), (forall x y, fhash x = fhash y -> x = y) ->
  forall (xs ys : list fval), map fhash xs = map fhash ys <-> xs = ys.
Proof.
  intros fval hval fhash Hinj xs. induction xs as [|x xs IH]; intros [|y ys]; cbn; split; intros H; try discriminate; try reflexivity.
  - inversion H. f_equal; [apply Hinj; assumption | apply IH; assumption].
  - inversion H; subst. reflexivity.
Qed.

Check C08_injective :
  forall (fval hval : Type) (fhash : fval -> hval), (forall x y, fhash x = fhash y -> x = y) ->
  forall (xs ys : list fval), map fhash xs = map fhash ys <-> xs = ys.
Print Assumptions C08_injective.

(* Non-vacuity: field `b` of variant A is skipped for EqHashOrd, so it is not in the transcript. *)
Example C08_nonvacuous :
  exists i w dt, from_input cfg_default ex_enum = Ok i /\ In w (in_dws i) /\ In dt (dw_traits w) /\ dt_trait dt = Hash /\
    wf_value (in_item i) (mkValue 0 [1; 2]) /\
    spec_hash (fun x : nat => x) (in_item i) (mkValue 0 [1; 2]) = [HDisc 0; HField 1] /\
    spec_hash (fun x : nat => x) (in_item i) (mkValue 1 [7]) = [HDisc 1; HField 7].
Proof.
  destruct (from_input cfg_default ex_enum) as [i| |] eqn:E; try (vm_compute in E; discriminate).
  vm_compute in E. injection E as <-.
  eexists; eexists; eexists. split; [reflexivity|]. split; [left; reflexivity|].
  split; [do 4 right; left; reflexivity|]. split; [reflexivity|].
  split; [eexists; split; reflexivity|]. split; reflexivity.
Qed.
