From DW Require Import Run Observe.
From Coq Require Extraction.
From Coq Require Import ExtrOcamlBasic.
Extraction Language OCaml.
Extraction "../ocaml/model.ml" run_expand digest_result trait_name error_name run_stage_a run_strip observe run_cells.
