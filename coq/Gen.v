(* Gen.v - the decisions taken by generate_body / build_signature / build_body
   of every trait (src/lib.rs, src/trait_/*.rs), producing the IR. *)
From DW Require Export IR Frontend.

Definition positions (d : data) (t : trait) : arm := map fst (iter_fields d t).

Definition is_struct_or_tuple (d : data) : bool :=
  match d_shape d with ShStruct | ShTuple => true | _ => false end.

(* the `*self` / `Ord::cmp` shortcut condition *)
Definition shortcut (w : dw) (other : trait) : bool :=
  all_custom_bound w && dw_contains w other.

(* ---- Clone ---- *)
Definition clone_arm (d : data) : option arm :=
  match d_shape d with
  | ShStruct | ShTuple => Some (positions d Clone)
  | ShUnit => Some []
  | ShUnion => None
  end.

Definition gen_clone (it : item) (w : dw) : clone_body :=
  if shortcut w Copy then CCopy
  else if item_is_union it then CUnion
  else CMatch (map clone_arm (item_variants it)).

(* ---- Debug ---- *)
Definition debug_arm (d : data) : dbg_arm :=
  match d_shape d with
  | ShStruct => mkDbgArm (positions d Debug)
                         (data_any_skip_trait d Debug && negb (match d_fields d with [] => true | _ => false end))
  | _ => mkDbgArm (positions d Debug) false
  end.

(* ---- Default ---- *)
Definition default_ctor (d : data) : option arm :=
  if data_is_default d then Some (positions d Default) else None.

(* ---- Hash ---- *)
Definition hash_arm_of (d : data) : hash_arm := mkHashArm (d_is_variant d) (positions d Hash).

(* ---- PartialEq ---- *)
Definition cmp_arm (t : trait) (check_inc : bool) (d : data) : option arm :=
  if data_is_empty d t || (check_inc && d_incomparable d) then None
  else if is_struct_or_tuple d then Some (positions d t) else None.

Definition unreachable_rest (c : cfg) : rest :=
  if c_safe c then RUnreachablePanic else RUnreachableUnchecked.

Definition has_empty_comparable (t : trait) (vs : list data) : bool :=
  existsb (fun v => data_is_empty v t && negb (d_incomparable v)) vs.

Definition gen_partial_eq (c : cfg) (it : item) : eq_body :=
  let t := PartialEq in
  let arms := map (cmp_arm t true) (item_variants it) in
  if item_is_incomparable it then EqFalse
  else match it with
       | IEnum _ _ _ vs =>
           if (1 <? length vs)%nat then
             if negb (item_is_empty it t) then
               EqDisc arms (map d_incomparable vs)
                      (if has_empty_comparable t vs then RTrue else unreachable_rest c)
             else EqDiscAllEmpty (map d_incomparable vs)
           else if item_is_empty it t then EqTrue else EqMatch arms
       | IItem _ => if item_is_empty it t then EqTrue else EqMatch arms
       end.

(* ---- common_ord.rs ---- *)
Fixpoint build_discriminants (vs : list data) (last : option (option (toks * Z) * nat)) : list dexpr :=
  match vs with
  | [] => []
  | v :: rest =>
      match d_disc v with
      | Some (ts, z) => DExplicit ts z :: build_discriminants rest (Some (Some (ts, z), 0))
      | None =>
          match last with
          | Some (Some (ts, z), k) => DPlus ts z (S k) :: build_discriminants rest (Some (Some (ts, z), S k))
          | Some (None, k) => DLit (S k) :: build_discriminants rest (Some (None, S k))
          | None => DLit 0 :: build_discriminants rest (Some (None, 0))
          end
      end
  end.

Definition discs (vs : list data) : list dexpr := build_discriminants vs None.

Definition gen_strategy (c : cfg) (disc : discriminant) (vs : list data) (w : dw) : option strategy :=
  if c_nightly c then Some SIntrinsic
  else match disc with
       | DSingle => None       (* unreachable!("we should only generate this code with multiple variants") *)
       | DUnit =>
           let validate := existsb (fun v => isSome (d_disc v)) vs in
           if dw_contains w Copy then Some (SCast ViaCopy None (if validate then Some (discs vs) else None))
           else if dw_contains w Clone then Some (SCast ViaClone None (if validate then Some (discs vs) else None))
           else Some (SConstFn None validate (discs vs))
       | DData => Some (SConstFn None false (discs vs))
       | DUnitRepr r =>
           if dw_contains w Copy then Some (SCast ViaCopy (Some r) None)
           else if dw_contains w Clone then Some (SCast ViaClone (Some r) None)
           else if c_safe c then Some (SConstFn (Some r) false (discs vs))
           else Some (SPtrRead r)
       | DDataRepr r =>
           if c_safe c then Some (SConstFn (Some r) false (discs vs)) else Some (SPtrRead r)
       end.

(* build_ord_signature; `check_inc` is true for PartialOrd (its build_body drops incomparable variants) *)
Definition gen_ord_signature (c : cfg) (it : item) (w : dw) (t : trait) (check_inc : bool) : option ord_body :=
  let arms := map (cmp_arm t check_inc) (item_variants it) in
  if item_is_incomparable it then Some ONone
  else match it with
       | IEnum disc _ _ vs =>
           if (1 <? length vs)%nat then
             let body_equal :=
               if item_is_empty it t then None
               else if has_empty_comparable t vs then Some (mkOrdMatch arms REqual)
               else Some (mkOrdMatch arms (unreachable_rest c)) in
             let inc := map d_incomparable vs in
             match filter (fun v => negb (d_incomparable v)) vs with
             | [comparable] =>
                 if existsb d_incomparable vs then
                   Some (OSingle inc (if data_is_empty comparable t then None else body_equal))
                 else None       (* incomparable.expect("there should be > 1 variants") *)
             | _ =>
                 match gen_strategy c disc vs w with
                 | Some s => Some (OMulti inc body_equal s)
                 | None => None
                 end
             end
           else if item_is_empty it t then Some OEqual else Some (OMatch arms)
       | IItem _ => if item_is_empty it t then Some OEqual else Some (OMatch arms)
       end.

Definition gen_partial_ord (c : cfg) (it : item) (w : dw) : option ord_body :=
  if shortcut w Ord then Some OViaOrd else gen_ord_signature c it w PartialOrd true.

Definition gen_ord (c : cfg) (it : item) (w : dw) : option ord_body :=
  gen_ord_signature c it w Ord false.

(* ---- Zeroize / ZeroizeOnDrop ---- *)
Definition zeroize_arm (d : data) : zarm :=
  if data_is_empty d Zeroize then ZWild
  else ZFields (map (fun p => (fst p, f_fqs (snd p))) (iter_fields d Zeroize)).

Definition gen_zeroize (it : item) : zeroize_body :=
  match it with
  | IItem d => if data_is_empty d Zeroize then ZEmpty else ZMatch [zeroize_arm d]
  | IEnum _ _ _ vs => ZMatch (map zeroize_arm vs)
  end.

Definition drop_arm (d : data) : darm :=
  if data_is_empty d ZeroizeOnDrop then DWild else DFields (positions d ZeroizeOnDrop).

Definition gen_drop (c : cfg) (it : item) : drop_body :=
  let mk vs := if c_zod c then DrMatch (map drop_arm vs)
               else DrDelegate (map (fun d => negb (data_is_empty d ZeroizeOnDrop)) vs) in
  match it with
  | IItem d => if data_is_empty d ZeroizeOnDrop then DrEmpty else mk [d]
  | IEnum _ _ _ vs => mk vs
  end.

(* generate_body *)
Definition gen_body (c : cfg) (it : item) (w : dw) (dt : derive_trait) : body :=
  let vs := item_variants it in
  let no_union (b : body) := if item_is_union it then BPanic "unexpected trait for union" else b in
  match dt_trait dt with
  | Clone => BClone (gen_clone it w)
  | Copy => BCopy
  | Debug => no_union (BDebug (map debug_arm vs))
  | Default => no_union (BDefault (map default_ctor vs))
  | Eq => BEq (map (fun d => positions d Eq) vs)
  | Hash => no_union (BHash (map hash_arm_of vs))
  | PartialEq => no_union (BPartialEq (gen_partial_eq c it))
  | PartialOrd =>
      match gen_partial_ord c it w with
      | Some b => no_union (BPartialOrd b)
      | None => BPanic "build_ord_signature"
      end
  | Ord =>
      match gen_ord c it w with
      | Some b => no_union (BOrd b)
      | None => BPanic "build_ord_signature"
      end
  | Zeroize => no_union (BZeroize (gen_zeroize it))
  | ZeroizeOnDrop => no_union (BDrop (gen_drop c it))
  end.
