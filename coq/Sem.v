(* Sem.v - what the generated code computes: a denotational semantics of the IR
   over abstract field values.  The behaviour of the field types (their own
   PartialEq, PartialOrd, Ord, Hash, Clone, Default impls) is a Section variable,
   so every theorem about these functions is quantified over all behaviours.

   A `match` is evaluated faithfully as "first emitted arm whose pattern matches";
   UB is produced only by reaching `unreachable_unchecked` or by reading a tag
   through a pointer of the wrong type; Stuck stands for "rustc rejects this". *)
From DW Require Export IR.

Record value (fval : Type) := mkValue { v_idx : nat; v_fields : list fval }.
Arguments mkValue {fval}. Arguments v_idx {fval}. Arguments v_fields {fval}.

(* facts about the enum that come from Rust, not from the macro:
   its tag type (None: no primitive representation) and the discriminant of each variant *)
Record rust_enum := mkRustEnum { re_tag : option repr; re_discs : list Z; re_castable : bool }.

(* integer types *)
Definition repr_signed (r : repr) : bool :=
  match r with I8 | I16 | I32 | I64 | I128 | ISize => true | _ => false end.
Definition repr_bits (r : repr) : Z :=
  match r with
  | U8 | I8 => 8 | U16 | I16 => 16 | U32 | I32 => 32 | U64 | I64 => 64 | U128 | I128 => 128
  | USize | ISize => 64
  end%Z.
Definition repr_min (r : repr) : Z := if repr_signed r then (- 2 ^ (repr_bits r - 1))%Z else 0%Z.
Definition repr_max (r : repr) : Z := if repr_signed r then (2 ^ (repr_bits r - 1) - 1)%Z else (2 ^ repr_bits r - 1)%Z.
Definition in_range (r : repr) (z : Z) : bool := (repr_min r <=? z)%Z && (z <=? repr_max r)%Z.
(* `as` between integer types truncates *)
Definition wrap (r : repr) (z : Z) : Z :=
  let m := (2 ^ repr_bits r)%Z in
  let u := (z mod m)%Z in
  if repr_signed r && (2 ^ (repr_bits r - 1) <=? u)%Z then (u - m)%Z else u.
Definition ty_or_isize (ty : option repr) : repr := match ty with Some r => r | None => ISize end.

Fixpoint getfs {A} (l : list A) (ps : list nat) : option (list A) :=
  match ps with
  | [] => Some []
  | p :: r => match nth_error l p, getfs l r with Some x, Some xs => Some (x :: xs) | _, _ => None end
  end.

Fixpoint forallb2 {A} (f : A -> A -> bool) (xs ys : list A) : bool :=
  match xs, ys with
  | x :: xs', y :: ys' => f x y && forallb2 f xs' ys'
  | _, _ => true
  end.

Inductive hevent (hval : Type) := HDisc (i : nat) | HField (h : hval).
Arguments HDisc {hval}. Arguments HField {hval}.

Inductive dbg_style := DbgStruct | DbgTuple | DbgUnit.
Record dbg_trace (fval : Type) := mkTrace {
  tr_style : dbg_style;
  tr_name : string;
  tr_fields : list (option string * fval);   (* name passed to .field(), value formatted *)
  tr_non_exhaustive : bool }.
Arguments mkTrace {fval}. Arguments tr_style {fval}. Arguments tr_name {fval}.
Arguments tr_fields {fval}. Arguments tr_non_exhaustive {fval}.

Inductive zevent := ZMethod (pos : nat) | ZFqs (pos : nat) | ZOrOnDrop (pos : nat) | ZDelegate.

Section Sem.
Variable fval : Type.
Variable hval : Type.
Variable feq : fval -> fval -> bool.
Variable fpcmp : fval -> fval -> option comparison.
Variable fcmp : fval -> fval -> comparison.
Variable fhash : fval -> hval.
Variable fclone : fval -> fval.
Variable fdefault : toks -> fval.       (* <Ty as Default>::default(), by field type *)

Notation value := (value fval).

(* the arm `(V_k{..}, V_k{..}) => ..` of a match on (self, __other) *)
Definition find2 {B} (arms : list (option B)) (a b : value) : option (nat * B) :=
  find (fun p => Nat.eqb (fst p) (v_idx a) && Nat.eqb (fst p) (v_idx b)) (emitted arms).

(* the arm `V_k{..} => ..` of a match on self *)
Definition find1 {B} (arms : list (option B)) (a : value) : option (nat * B) :=
  find (fun p => Nat.eqb (fst p) (v_idx a)) (emitted arms).

Definition is_inc (inc : list bool) (a : value) : bool := nth (v_idx a) inc false.

(* ---------------- PartialEq ---------------- *)
Definition eval_eq_arm (a b : value) (ps : arm) : outcome bool :=
  match getfs (v_fields a) ps, getfs (v_fields b) ps with
  | Some xs, Some ys => Val (forallb2 feq xs ys)
  | _, _ => Stuck
  end.

Definition eval_rest_bool (r : rest) : outcome bool :=
  match r with
  | RTrue => Val true
  | REqual => Stuck
  | RUnreachableUnchecked => UB
  | RUnreachablePanic => PanicO
  end.

Definition eval_partial_eq (e : eq_body) (a b : value) : outcome bool :=
  match e with
  | EqFalse => Val false
  | EqTrue => Val true
  | EqDisc arms inc r =>
      if Nat.eqb (v_idx a) (v_idx b) then
        match find2 arms a b with
        | Some (_, ps) => eval_eq_arm a b ps
        | None => if is_inc inc a then Val false else eval_rest_bool r
        end
      else Val false
  | EqDiscAllEmpty inc =>
      if Nat.eqb (v_idx a) (v_idx b) then (if is_inc inc a then Val false else Val true) else Val false
  | EqMatch arms =>
      match find2 arms a b with
      | Some (_, ps) => eval_eq_arm a b ps
      | None => Stuck
      end
  end.

(* ---------------- PartialOrd / Ord ---------------- *)
Fixpoint lex_p (xs ys : list fval) : option comparison :=
  match xs, ys with
  | x :: xs', y :: ys' => match fpcmp x y with Some Datatypes.Eq => lex_p xs' ys' | r => r end
  | _, _ => Some Datatypes.Eq
  end.

Fixpoint lex_t (xs ys : list fval) : comparison :=
  match xs, ys with
  | x :: xs', y :: ys' => match fcmp x y with Datatypes.Eq => lex_t xs' ys' | r => r end
  | _, _ => Datatypes.Eq
  end.

Definition eval_dexpr (e : dexpr) : Z :=
  match e with
  | DExplicit _ z => z
  | DPlus _ z k => (z + Z.of_nat k)%Z
  | DLit k => Z.of_nat k
  end.

(* value of the discriminant of variant i as obtained by a strategy *)
Definition strategy_read (re : rust_enum) (s : strategy) (i : nat) : outcome Z :=
  match s with
  | SCast _ ty _ =>
      if re_castable re then
        match nth_error (re_discs re) i with Some z => Val (wrap (ty_or_isize ty) z) | None => Stuck end
      else Stuck
  | SConstFn ty _ table =>
      match nth_error table i with
      | Some e => if in_range (ty_or_isize ty) (eval_dexpr e) then Val (eval_dexpr e) else Stuck
      | None => Stuck
      end
  | SPtrRead r =>
      match re_tag re with
      | Some t => if repr_beq t r then
                    match nth_error (re_discs re) i with Some z => Val z | None => Stuck end
                  else UB
      | None => UB
      end
  | SIntrinsic =>
      match nth_error (re_discs re) i with Some z => Val z | None => Stuck end
  end.

Definition disc_compare (re : rust_enum) (s : strategy) (a b : value) : outcome comparison :=
  obind (strategy_read re s (v_idx a)) (fun x =>
  obind (strategy_read re s (v_idx b)) (fun y => Val (Z.compare x y))).

Definition eval_pord_arm (a b : value) (ps : arm) : outcome (option comparison) :=
  match getfs (v_fields a) ps, getfs (v_fields b) ps with
  | Some xs, Some ys => Val (lex_p xs ys)
  | _, _ => Stuck
  end.

Definition eval_ord_arm (a b : value) (ps : arm) : outcome comparison :=
  match getfs (v_fields a) ps, getfs (v_fields b) ps with
  | Some xs, Some ys => Val (lex_t xs ys)
  | _, _ => Stuck
  end.

Definition eval_rest_ord {A} (equal : A) (r : rest) : outcome A :=
  match r with
  | REqual => Val equal
  | RTrue => Stuck
  | RUnreachableUnchecked => UB
  | RUnreachablePanic => PanicO
  end.

Definition eval_pord_match (m : ord_match) (a b : value) : outcome (option comparison) :=
  match find2 (om_arms m) a b with
  | Some (_, ps) => eval_pord_arm a b ps
  | None => eval_rest_ord (Some Datatypes.Eq) (om_rest m)
  end.

Definition eval_ord_match (m : ord_match) (a b : value) : outcome comparison :=
  match find2 (om_arms m) a b with
  | Some (_, ps) => eval_ord_arm a b ps
  | None => eval_rest_ord Datatypes.Eq (om_rest m)
  end.

(* `ord_impl` is the meaning of the type's own `Ord::cmp`, used by the `Some(Ord::cmp(..))` shortcut *)
Definition eval_partial_ord (re : rust_enum) (ord_impl : option (value -> value -> outcome comparison))
           (o : ord_body) (a b : value) : outcome (option comparison) :=
  match o with
  | ONone => Val None
  | OViaOrd => match ord_impl with Some f => obind (f a b) (fun c => Val (Some c)) | None => Stuck end
  | OEqual => Val (Some Datatypes.Eq)
  | OMatch arms => match find2 arms a b with Some (_, ps) => eval_pord_arm a b ps | None => Stuck end
  | OSingle inc eq =>
      if is_inc inc a || is_inc inc b then Val None
      else match eq with Some m => eval_pord_match m a b | None => Val (Some Datatypes.Eq) end
  | OMulti inc body_equal s =>
      if is_inc inc a || is_inc inc b then Val None
      else match body_equal with
           | Some m =>
               if Nat.eqb (v_idx a) (v_idx b) then eval_pord_match m a b
               else obind (disc_compare re s a b) (fun c => Val (Some c))
           | None => obind (disc_compare re s a b) (fun c => Val (Some c))
           end
  end.

(* in `cmp` an incomparable guard (`return None`) or `None` body does not type check *)
Definition eval_ord (re : rust_enum) (o : ord_body) (a b : value) : outcome comparison :=
  match o with
  | ONone | OViaOrd => Stuck
  | OEqual => Val Datatypes.Eq
  | OMatch arms => match find2 arms a b with Some (_, ps) => eval_ord_arm a b ps | None => Stuck end
  | OSingle inc eq =>
      if existsb (fun x => x) inc then Stuck
      else match eq with Some m => eval_ord_match m a b | None => Val Datatypes.Eq end
  | OMulti inc body_equal s =>
      if existsb (fun x => x) inc then Stuck
      else match body_equal with
           | Some m => if Nat.eqb (v_idx a) (v_idx b) then eval_ord_match m a b else disc_compare re s a b
           | None => disc_compare re s a b
           end
  end.

(* ---------------- Hash ---------------- *)
Definition eval_hash (arms : list hash_arm) (a : value) : outcome (list (hevent hval)) :=
  match nth_error arms (v_idx a) with
  | Some h =>
      match getfs (v_fields a) (ha_fields h) with
      | Some xs => Val ((if ha_disc h then [HDisc (v_idx a)] else []) ++ map (fun x => HField (fhash x)) xs)
      | None => Stuck
      end
  | None => Stuck
  end.

(* ---------------- Clone ---------------- *)
(* result and the positions whose Clone::clone was called, in order *)
Definition eval_clone (b : clone_body) (a : value) : outcome (value * list nat) :=
  match b with
  | CCopy | CUnion => Val (a, [])
  | CMatch arms =>
      match find1 arms a with
      | Some (_, ps) =>
          (* the constructor must name every field exactly once *)
          if list_eqb Nat.eqb ps (seq 0 (length (v_fields a))) then
            match getfs (v_fields a) ps with
            | Some xs => Val (mkValue (v_idx a) (map fclone xs), ps)
            | None => Stuck
            end
          else Stuck
      | None => Stuck
      end
  end.

(* ---------------- Default ---------------- *)
Definition eval_default (vs : list data) (ctors : list (option arm)) : outcome value :=
  match emitted ctors with
  | [(i, ps)] =>
      match nth_error vs i with
      | Some d =>
          if list_eqb Nat.eqb ps (seq 0 (length (d_fields d)))
          then Val (mkValue i (map (fun f => fdefault (f_ty f)) (d_fields d)))
          else Stuck
      | None => Stuck
      end
  | _ => Stuck      (* no constructor, or several expressions in a row *)
  end.

(* ---------------- Debug ---------------- *)
Definition eval_debug (vs : list data) (arms : list dbg_arm) (a : value) : outcome (dbg_trace fval) :=
  match nth_error vs (v_idx a), nth_error arms (v_idx a) with
  | Some d, Some da =>
      match getfs (v_fields a) (da_fields da), getfs (d_fields d) (da_fields da) with
      | Some xs, Some fs =>
          let name := unraw (d_ident d) in
          match d_shape d with
          | ShStruct => Val (mkTrace DbgStruct name (combine (map (fun f => Some (member_display (f_member f))) fs) xs) (da_non_exhaustive da))
          | ShTuple => Val (mkTrace DbgTuple name (combine (map (fun _ => None) fs) xs) false)
          | ShUnit => Val (mkTrace DbgUnit name [] false)
          | ShUnion => Stuck
          end
      | _, _ => Stuck
      end
  | _, _ => Stuck
  end.

(* ---------------- Zeroize / Drop ---------------- *)
Definition eval_zeroize (z : zeroize_body) (a : value) : outcome (list zevent) :=
  match z with
  | ZEmpty => Val []
  | ZMatch arms =>
      match nth_error arms (v_idx a) with
      | Some ZWild => Val []
      | Some (ZFields fs) =>
          if forallb (fun q => Nat.ltb (fst q) (length (v_fields a))) fs
          then Val (map (fun q : nat * bool => if snd q then ZFqs (fst q) else ZMethod (fst q)) fs)
          else Stuck
      | None => Stuck
      end
  end.

Definition eval_drop (d : drop_body) (a : value) : outcome (list zevent) :=
  match d with
  | DrEmpty => Val []
  | DrDelegate arms => Val (flat_map (fun e : bool => if e then [ZDelegate] else []) arms)
  | DrMatch arms =>
      match nth_error arms (v_idx a) with
      | Some DWild => Val []
      | Some (DFields fs) =>
          if forallb (fun p => Nat.ltb p (length (v_fields a))) fs then Val (map ZOrOnDrop fs) else Stuck
      | None => Stuck
      end
  end.

End Sem.

Arguments find2 {fval B}. Arguments find1 {fval B}. Arguments is_inc {fval}.
Arguments eval_eq_arm {fval}. Arguments eval_partial_eq {fval}.
Arguments lex_p {fval}. Arguments lex_t {fval}.
Arguments disc_compare {fval}. Arguments eval_pord_arm {fval}. Arguments eval_ord_arm {fval}.
Arguments eval_pord_match {fval}. Arguments eval_ord_match {fval}.
Arguments eval_partial_ord {fval}. Arguments eval_ord {fval}.
Arguments eval_hash {fval hval}. Arguments eval_clone {fval}. Arguments eval_default {fval}.
Arguments eval_debug {fval}. Arguments eval_zeroize {fval}. Arguments eval_drop {fval}.
