(* Proofs_decl.v - a declarative reading of the helper attributes.
   The front end (Frontend.v) folds over the attributes and their options with a state; the
   lemmas here say what the result MEANS in terms of the attributes as written: a variant is
   incomparable / the default iff SOME option of SOME derive_where attribute on it says so, and
   a field / variant / struct is skipped for a trait iff SOME skip option names a group of that
   trait (or is a bare skip and the trait is skippable).  `existsb` over the list of all options
   does not depend on their order, on how they are split over attributes, or on what stands
   between them - which is the "however it is written" of C06 / C07 / C11. *)
From DW Require Import Proofs_frontend.
From Coq Require Import Permutation.
Open Scope nat_scope.

(* every option of every #[derive_where(..)] attribute, in source order *)
Definition metas_of (attrs : list field_attr) : list meta1 :=
  flat_map (fun a => match a with FADw (SAList (Some l)) => l | _ => [] end) attrs.

(* does one group entry of a skip(..) list cover the trait? *)
Definition meta2_covers (c : cfg) (t : trait) (m : meta2) : bool :=
  match m with
  | M2Path p => match skip_group_from_path c p with
                | Ok g => existsb (trait_beq t) (group_traits g)
                | _ => false
                end
  | _ => false
  end.

(* does one skip / skip_inner option select the trait? *)
Definition meta_skips (c : cfg) (m : meta1) (t : trait) : bool :=
  match m with
  | M1Path _ => trait_supported t
  | M1List _ (Some ms) => existsb (meta2_covers c t) ms
  | _ => false
  end.

Lemma existsb_app' {A} (f : A -> bool) l1 l2 : existsb f (l1 ++ l2) = existsb f l1 || existsb f l2.
Proof. apply existsb_app. Qed.

Lemma skip_add_groups_decl c dws parent ms : forall gs gs',
  skip_add_groups c dws parent ms gs = Ok gs' ->
  forall t, existsb (fun g => existsb (trait_beq t) (group_traits g)) gs' =
            existsb (fun g => existsb (trait_beq t) (group_traits g)) gs || existsb (meta2_covers c t) ms.
Proof.
  induction ms as [|m ms IH]; cbn [skip_add_groups]; intros gs gs' H t.
  - inversion H; subst. cbn. rewrite orb_false_r. reflexivity.
  - destruct m as [p|p e|p ts]; try discriminate.
    inv_bind H.
    destruct (existsb (group_beq a) gs); [discriminate|].
    destruct (match parent with Some s => group_skipped s a | None => false end); [discriminate|].
    destruct (existsb (fun d => existsb (dw_contains d) (group_traits a)) dws); [|discriminate].
    rewrite (IH _ _ H t). rewrite existsb_app. cbn [existsb meta2_covers]. rewrite Hb. rewrite orb_false_r, orb_assoc. reflexivity.
Qed.

Lemma skip_add_attribute_decl c dws parent m self s' :
  skip_add_attribute c dws parent m self = Ok s' ->
  forall t, trait_skipped s' t = trait_skipped self t || meta_skips c m t.
Proof.
  unfold skip_add_attribute. intros H t. destruct m as [p|p e|p args|ts]; try discriminate.
  - destruct self; cbn [skip_is_none] in H.
    + destruct parent as [[| |gs]|]; try discriminate;
        destruct (existsb any_skip dws); try discriminate; inversion H; subst; reflexivity.
    + destruct (get_ident p); discriminate.
    + destruct (get_ident p); discriminate.
  - inv_bind H. unfold non_empty_metas2 in Hb. destruct args as [[|m0 ms]|]; try discriminate. inversion Hb; subst a.
    destruct self as [| |gs0]; try discriminate; inv_bind H; inversion H; subst; cbn [trait_skipped meta_skips].
    + rewrite (skip_add_groups_decl _ _ _ _ _ _ Hb0 t). reflexivity.
    + rewrite (skip_add_groups_decl _ _ _ _ _ _ Hb0 t). reflexivity.
Qed.

(* an option has one name *)
Lemma meta1_is_excl m a b : meta1_is m a = true -> a <> b -> meta1_is m b = false.
Proof.
  unfold meta1_is. destruct (meta1_path m) as [p|]; [|discriminate]. unfold is_ident.
  destruct (p_lead p); cbn; [discriminate|]. destruct (p_segs p) as [|x [|y l]]; try discriminate.
  intros Ha Hn. apply String.eqb_eq in Ha. subst x. destruct (String.eqb a b) eqn:E; [apply String.eqb_eq in E; contradiction | reflexivity].
Qed.

(* ---- variants ---- *)
Definition vattr_decl (c : cfg) (seen : list meta1) (va : vattr) : Prop :=
  va_incomparable va = existsb (fun m => meta1_is m "incomparable") seen /\
  va_default va = existsb (fun m => meta1_is m "default") seen /\
  forall t, trait_skipped (va_skip_inner va) t = existsb (fun m => meta1_is m "skip_inner" && meta_skips c m t) seen.

Lemma variant_add_meta_decl c dws v seen st m st' :
  vattr_decl c seen st -> variant_add_meta c dws v st m = Ok st' -> vattr_decl c (seen ++ [m]) st'.
Proof.
  intros [Hi [Hd Hs]] H. unfold variant_add_meta in H.
  assert (X : forall (g : meta1 -> bool), existsb g (seen ++ [m]) = existsb g seen || g m)
    by (intros g; rewrite existsb_app; cbn; rewrite orb_false_r; reflexivity).
  unfold vattr_decl.
  destruct (meta1_is m "skip_inner") eqn:E1.
  - destruct (variant_fields_empty v); [discriminate|]. inv_bind H. inversion H; subst; cbn [va_incomparable va_default va_skip_inner].
    split; [|split].
    + rewrite X, (meta1_is_excl m "skip_inner" "incomparable" E1), orb_false_r by discriminate. exact Hi.
    + rewrite X, (meta1_is_excl m "skip_inner" "default" E1), orb_false_r by discriminate. exact Hd.
    + intros t. rewrite X, E1. cbn [andb]. rewrite <- Hs. apply (skip_add_attribute_decl _ _ _ _ _ _ Hb t).
  - destruct (meta1_is m "default") eqn:E2.
    + inv_bind H. inversion H; subst; cbn [va_incomparable va_default va_skip_inner].
      split; [|split].
      * rewrite X, (meta1_is_excl m "default" "incomparable" E2), orb_false_r by discriminate. exact Hi.
      * rewrite X, E2, orb_true_r. unfold default_add in Hb. destruct m; try discriminate. destruct (va_default st); [discriminate|].
        destruct (existsb _ dws); [|discriminate]. inversion Hb. reflexivity.
      * intros t. rewrite X, E1. cbn [andb]. rewrite orb_false_r. apply Hs.
    + destruct (meta1_is m "incomparable") eqn:E3; [|discriminate].
      inv_bind H. inversion H; subst; cbn [va_incomparable va_default va_skip_inner].
      split; [|split].
      * rewrite X, E3, orb_true_r. apply (incomparable_add_bool _ _ _ _ Hb).
      * rewrite X, E2, orb_false_r. exact Hd.
      * intros t. rewrite X, E1. cbn [andb]. rewrite orb_false_r. apply Hs.
Qed.

Lemma foldM_metas_decl {S} (P : list meta1 -> S -> Prop) (f : S -> meta1 -> res S) :
  (forall seen st m st', P seen st -> f st m = Ok st' -> P (seen ++ [m]) st') ->
  forall ms seen st st', P seen st -> foldM f ms st = Ok st' -> P (seen ++ ms) st'.
Proof.
  intros Hstep ms. induction ms as [|m ms IH]; cbn [foldM]; intros seen st st' HP H.
  - inversion H; subst. rewrite app_nil_r. exact HP.
  - inv_bind H. replace (seen ++ m :: ms) with ((seen ++ [m]) ++ ms) by (rewrite <- app_assoc; reflexivity).
    eapply IH; [eapply Hstep; eassumption | exact H].
Qed.

Lemma non_empty_metas1_inv sa ms : non_empty_metas1 sa = Ok ms -> sa = SAList (Some ms).
Proof.
  unfold non_empty_metas1. destruct sa as [ts|[l|]]; try discriminate. destruct (existsb is_bad l); [discriminate|].
  destruct l; [discriminate|]. intros H; inversion H; reflexivity.
Qed.

Lemma variant_add_attr_decl c dws v attrs_seen st a st' :
  vattr_decl c (metas_of attrs_seen) st -> variant_add_attr c dws v st a = Ok st' -> vattr_decl c (metas_of (attrs_seen ++ [a])) st'.
Proof.
  intros HP H. unfold metas_of. rewrite flat_map_app. cbn [flat_map]. rewrite app_nil_r.
  destruct a as [sa|p ts]; cbn [variant_add_attr] in H.
  - inv_bind H. rewrite (non_empty_metas1_inv _ _ Hb).
    eapply (foldM_metas_decl (vattr_decl c) (variant_add_meta c dws v)); [|exact HP|exact H].
    intros; eapply variant_add_meta_decl; eassumption.
  - inversion H; subst. rewrite app_nil_r. exact HP.
Qed.

Theorem variant_attrs_declarative c dws v va :
  variant_attr_from_attrs c dws v = Ok va -> vattr_decl c (metas_of (rv_attrs v)) va.
Proof.
  unfold variant_attr_from_attrs. intros H.
  assert (G : forall attrs seen st st', vattr_decl c (metas_of seen) st -> foldM (variant_add_attr c dws v) attrs st = Ok st' ->
                                        vattr_decl c (metas_of (seen ++ attrs)) st').
  { induction attrs as [|a attrs IH]; cbn [foldM]; intros seen st st' HP HH.
    - inversion HH; subst. rewrite app_nil_r. exact HP.
    - inv_bind HH. replace (seen ++ a :: attrs) with ((seen ++ [a]) ++ attrs) by (rewrite <- app_assoc; reflexivity).
      eapply IH; [eapply variant_add_attr_decl; eassumption | exact HH]. }
  eapply (G (rv_attrs v) []); [|exact H].
  repeat split; reflexivity.
Qed.

(* ---- fields ---- *)
Definition fattr_decl (c : cfg) (seen : list meta1) (st : skip * bool) : Prop :=
  forall t, trait_skipped (fst st) t = existsb (fun m => meta1_is m "skip" && meta_skips c m t) seen.

Lemma field_add_meta_decl c dws parent seen st m st' :
  fattr_decl c seen st -> field_add_meta c dws parent st m = Ok st' -> fattr_decl c (seen ++ [m]) st'.
Proof.
  intros Hs H t. unfold field_add_meta in H. rewrite existsb_app. cbn [existsb]. rewrite orb_false_r.
  destruct (meta1_is m "skip") eqn:E1.
  - inv_bind H. inversion H; subst; cbn [fst andb]. rewrite (skip_add_attribute_decl _ _ _ _ _ _ Hb t), (Hs t). reflexivity.
  - destruct (c_zeroize c && meta1_is m "Zeroize"); [|discriminate]. inv_bind H. inversion H; subst; cbn [fst andb].
    rewrite (Hs t), orb_false_r. reflexivity.
Qed.

Theorem field_attrs_declarative c dws parent attrs st :
  field_attr_from_attrs c dws parent attrs = Ok st -> fattr_decl c (metas_of attrs) st.
Proof.
  unfold field_attr_from_attrs. intros H.
  assert (G : forall attrs seen s0 s1, fattr_decl c (metas_of seen) s0 -> foldM (field_add_attr c dws parent) attrs s0 = Ok s1 ->
                                       fattr_decl c (metas_of (seen ++ attrs)) s1).
  { induction attrs0 as [|a attrs0 IH]; cbn [foldM]; intros seen s0 s1 HP HH.
    - inversion HH; subst. rewrite app_nil_r. exact HP.
    - inv_bind HH. replace (seen ++ a :: attrs0) with ((seen ++ [a]) ++ attrs0) by (rewrite <- app_assoc; reflexivity).
      eapply IH; [|exact HH]. unfold metas_of. rewrite flat_map_app. cbn [flat_map]. rewrite app_nil_r.
      destruct a as [sa|p ts]; cbn [field_add_attr] in Hb.
      + inv_bind Hb. rewrite (non_empty_metas1_inv _ _ Hb0).
        eapply (foldM_metas_decl (fattr_decl c) (field_add_meta c dws parent)); [|exact HP|exact Hb].
        intros; eapply field_add_meta_decl; eassumption.
      + inversion Hb; subst. rewrite app_nil_r. exact HP. }
  eapply (G attrs []); [|exact H]. intros t. reflexivity.
Qed.

(* ---- the `Zeroize(fqs)` flag of a field, as written ---- *)
Definition meta2_is_fqs (m : meta2) : bool :=
  match m with M2Path p => is_ident p "fqs" | _ => false end.

Definition meta_fqs (m : meta1) : bool :=
  match m with M1List _ (Some ms) => existsb meta2_is_fqs ms | _ => false end.

Definition ffqs_decl (seen : list meta1) (st : skip * bool) : Prop :=
  snd st = existsb (fun m => meta1_is m "Zeroize" && meta_fqs m) seen.

Lemma fqs_scan_decl ms : forall self b, fqs_scan ms self = Ok b -> b = self || existsb meta2_is_fqs ms.
Proof.
  induction ms as [|m ms IH]; cbn [fqs_scan existsb]; intros self b H.
  - inversion H; subst. rewrite orb_false_r. reflexivity.
  - destruct m as [p| |]; try discriminate. cbn [meta2_is_fqs].
    destruct (is_ident p "fqs"); [|discriminate]. destruct self; [discriminate|].
    rewrite (IH _ _ H). reflexivity.
Qed.

Lemma fqs_add_decl dws m self q : fqs_add dws m self = Ok q -> q = self || meta_fqs m.
Proof.
  unfold fqs_add. destruct (negb (existsb (fun d => dw_contains d Zeroize) dws)); [discriminate|].
  destruct m as [p|p e|p args|ts]; try discriminate. intros H. inv_bind H.
  unfold non_empty_metas2 in Hb. destruct args as [[|a0 l0]|]; try discriminate. inversion Hb; subst.
  cbn [meta_fqs]. eapply fqs_scan_decl. exact H.
Qed.

Lemma field_add_meta_fqs c dws parent seen st m st' :
  ffqs_decl seen st -> field_add_meta c dws parent st m = Ok st' -> ffqs_decl (seen ++ [m]) st'.
Proof.
  unfold ffqs_decl. intros Hs H. unfold field_add_meta in H. rewrite existsb_app. cbn [existsb]. rewrite orb_false_r.
  destruct (meta1_is m "skip") eqn:E1.
  - inv_bind H. inversion H; subst; cbn [snd].
    rewrite (meta1_is_excl m "skip" "Zeroize" E1) by discriminate. cbn [andb]. rewrite orb_false_r. exact Hs.
  - destruct (c_zeroize c && meta1_is m "Zeroize") eqn:E2; [|discriminate]. apply andb_prop in E2. destruct E2 as [_ E2].
    inv_bind H. inversion H; subst; cbn [snd]. rewrite E2. cbn [andb]. rewrite (fqs_add_decl _ _ _ _ Hb), Hs. reflexivity.
Qed.

Theorem field_fqs_declarative c dws parent attrs st :
  field_attr_from_attrs c dws parent attrs = Ok st -> ffqs_decl (metas_of attrs) st.
Proof.
  unfold field_attr_from_attrs. intros H.
  assert (G : forall attrs seen s0 s1, ffqs_decl (metas_of seen) s0 -> foldM (field_add_attr c dws parent) attrs s0 = Ok s1 ->
                                       ffqs_decl (metas_of (seen ++ attrs)) s1).
  { induction attrs0 as [|a attrs0 IH]; cbn [foldM]; intros seen s0 s1 HP HH.
    - inversion HH; subst. rewrite app_nil_r. exact HP.
    - inv_bind HH. replace (seen ++ a :: attrs0) with ((seen ++ [a]) ++ attrs0) by (rewrite <- app_assoc; reflexivity).
      eapply IH; [|exact HH]. unfold metas_of. rewrite flat_map_app. cbn [flat_map]. rewrite app_nil_r.
      destruct a as [sa|p ts]; cbn [field_add_attr] in Hb.
      + inv_bind Hb. rewrite (non_empty_metas1_inv _ _ Hb0).
        eapply (foldM_metas_decl ffqs_decl (field_add_meta c dws parent)); [|exact HP|exact Hb].
        intros; eapply field_add_meta_fqs; eassumption.
      + inversion Hb; subst. rewrite app_nil_r. exact HP. }
  eapply (G attrs []); [|exact H]. reflexivity.
Qed.

(* order and grouping of the options do not matter: [existsb] is invariant under permutation *)
Lemma existsb_perm {A} (f : A -> bool) l l' : Permutation l l' -> existsb f l = existsb f l'.
Proof.
  intros HP. induction HP as [|x l l' HP IH|x y l|l l' l'' HP1 IH1 HP2 IH2]; cbn; try congruence.
  destruct (f x), (f y); reflexivity.
Qed.

(* ---- lifted to parsed variants and fields ---- *)
Definition variant_decl (c : cfg) (rv : raw_variant) (d : data) : Prop :=
  d_incomparable d = existsb (fun m => meta1_is m "incomparable") (metas_of (rv_attrs rv)) /\
  d_default d = existsb (fun m => meta1_is m "default") (metas_of (rv_attrs rv)) /\
  (forall t, trait_skipped (d_skip_inner d) t =
             existsb (fun m => meta1_is m "skip_inner" && meta_skips c m t) (metas_of (rv_attrs rv))) /\
  (Forall2 (fun rf f => forall t, trait_skipped (f_skip f) t =
                                  existsb (fun m => meta1_is m "skip" && meta_skips c m t) (metas_of (rf_attrs rf)))
           (rv_fields rv) (d_fields d) \/ rv_shape rv = RUnit).

Lemma fields_from_decl c dws parent named fs fl :
  fields_from c dws parent named fs = Ok fl ->
  Forall2 (fun rf f => forall t, trait_skipped (f_skip f) t =
                                 existsb (fun m => meta1_is m "skip" && meta_skips c m t) (metas_of (rf_attrs rf))) fs fl.
Proof.
  unfold fields_from. unfold indexed. generalize 0 as n. revert fl.
  induction fs as [|rf fs IH]; cbn [indexed_from mapM]; intros fl n H.
  - inversion H. constructor.
  - inv_bind H. inv_bind H. inversion H; subst. constructor; [|eapply IH; eassumption].
    unfold field_from in Hb. inv_bind Hb. pose proof (field_attrs_declarative _ _ _ _ _ Hb1) as D.
    destruct named; [destruct (rf_name rf); [|discriminate]|]; inversion Hb; subst; cbn [f_skip]; exact D.
Qed.

Lemma data_from_variant_decl c id dws rv d :
  data_from_variant c id dws rv = Ok d -> variant_decl c rv d.
Proof.
  unfold data_from_variant. intros H. inv_bind H. destruct (variant_attrs_declarative _ _ _ _ Hb) as [Hi [Hd Hs]].
  unfold variant_decl. destruct (rv_shape rv) eqn:E.
  - inv_bind H. inversion H; subst; cbn. repeat split; try assumption. left. eapply fields_from_decl; eassumption.
  - inv_bind H. inversion H; subst; cbn. repeat split; try assumption. left. eapply fields_from_decl; eassumption.
  - inversion H; subst; cbn. repeat split; try assumption. right. reflexivity.
Qed.

(* every variant of an accepted enum, next to the raw variant it was parsed from *)
Theorem accepted_variants_declarative c r i rvs disc id inc vs :
  from_input c r = Ok i -> ri_kind r = KEnum rvs -> in_item i = IEnum disc id inc vs ->
  Forall2 (variant_decl c) rvs vs.
Proof.
  intros H Hk Hi. destruct (from_input_inv c r i H) as [ia [_ [_ [_ K]]]]. rewrite Hk in K.
  destruct K as [disc' [vs' [fd [fi [Hm [_ [_ [_ [_ E]]]]]]]]]. rewrite Hi in E. inversion E; subst.
  apply mapM_Forall2 in Hm. clear -Hm. induction Hm; constructor; [eapply data_from_variant_decl; eassumption | assumption].
Qed.

(* ---- item level: skip_inner / incomparable given as their own attribute on the item ---- *)
Definition single_meta (a : item_attr) : list meta1 :=
  match a with
  | IADw (DAList elems semi) => match comma_view elems semi with Some [m] => [m] | _ => [] end
  | _ => []
  end.
Definition singles (attrs : list item_attr) : list meta1 := flat_map single_meta attrs.

Definition iacc_decl (seen : list item_attr) (st : iacc) : Prop :=
  ia_skips st = filter (fun m => meta1_is m "skip_inner") (singles seen) /\
  ia_incs st = filter (fun m => negb (meta1_is m "skip_inner") && meta1_is m "incomparable") (singles seen).

Lemma item_add_attr_decl c e u seen st a st' :
  iacc_decl seen st -> item_add_attr c e u st a = Ok st' -> iacc_decl (seen ++ [a]) st'.
Proof.
  intros [Hs Hi] H. unfold iacc_decl, singles. rewrite flat_map_app, !filter_app. cbn [flat_map]. rewrite app_nil_r.
  fold (singles seen). rewrite <- Hs, <- Hi.
  destruct a as [[ts|elems semi]|r|p ts]; cbn [item_add_attr single_meta] in *; try discriminate;
    try (inversion H; subst; cbn [filter]; rewrite !app_nil_r; split; reflexivity).
  destruct (comma_view elems semi) as [[|m [|m2 l]]|] eqn:E; try discriminate.
  - destruct (meta1_is m "skip_inner") eqn:E1.
    + destruct e; [discriminate|]. inversion H; subst; cbn [ia_skips ia_incs filter]. rewrite E1. cbn [negb andb]. rewrite app_nil_r. split; reflexivity.
    + destruct (meta1_is m "incomparable") eqn:E2.
      * inversion H; subst; cbn [ia_skips ia_incs filter]. rewrite E1, E2. cbn [negb andb]. rewrite app_nil_r. split; reflexivity.
      * cbn [filter]. rewrite E1, E2. cbn [negb andb]. rewrite !app_nil_r.
        destruct (meta1_is m "crate"); [inversion H; subst; split; reflexivity|].
        inv_bind H. inversion H; subst; cbn [ia_skips ia_incs]. split; reflexivity.
  - inv_bind H. inversion H; subst; cbn [ia_skips ia_incs filter]. rewrite !app_nil_r. split; reflexivity.
  - inv_bind H. inversion H; subst; cbn [ia_skips ia_incs filter]. rewrite !app_nil_r. split; reflexivity.
Qed.

Lemma foldM_item_decl c e u attrs : forall seen st st',
  iacc_decl seen st -> foldM (item_add_attr c e u) attrs st = Ok st' -> iacc_decl (seen ++ attrs) st'.
Proof.
  induction attrs as [|a attrs IH]; cbn [foldM]; intros seen st st' HP H.
  - inversion H; subst. rewrite app_nil_r. exact HP.
  - inv_bind H. replace (seen ++ a :: attrs) with ((seen ++ [a]) ++ attrs) by (rewrite <- app_assoc; reflexivity).
    eapply IH; [eapply item_add_attr_decl; eassumption | exact H].
Qed.

Lemma fold_skip_decl c dws ms : forall s s',
  foldM (fun s m => skip_add_attribute c dws None m s) ms s = Ok s' ->
  forall t, trait_skipped s' t = trait_skipped s t || existsb (fun m => meta_skips c m t) ms.
Proof.
  induction ms as [|m ms IH]; cbn [foldM]; intros s s' H t.
  - inversion H; subst. cbn. rewrite orb_false_r. reflexivity.
  - inv_bind H. rewrite (IH _ _ H t), (skip_add_attribute_decl _ _ _ _ _ _ Hb t). cbn [existsb]. rewrite orb_assoc. reflexivity.
Qed.

Lemma fold_inc_decl dws ms : forall b b',
  foldM (fun i m => incomparable_add dws m i) ms b = Ok b' -> b' = b || negb (match ms with [] => true | _ => false end).
Proof.
  induction ms as [|m ms IH]; cbn [foldM]; intros b b' H.
  - inversion H; subst. cbn. rewrite orb_false_r. reflexivity.
  - inv_bind H. rewrite (IH _ _ H). rewrite (incomparable_add_bool _ _ _ _ Hb). cbn. destruct ms; rewrite ?orb_true_r; reflexivity.
Qed.

Lemma existsb_filter {A} (p q : A -> bool) l : existsb q (filter p l) = existsb (fun x => p x && q x) l.
Proof. induction l as [|x l IH]; cbn; [reflexivity|]. destruct (p x); cbn; rewrite IH; reflexivity. Qed.

Lemma inc_filter_nonempty l :
  negb (match filter (fun m => negb (meta1_is m "skip_inner") && meta1_is m "incomparable") l with [] => true | _ => false end) =
  existsb (fun m => meta1_is m "incomparable") l.
Proof.
  induction l as [|m ms IH]; [reflexivity|]. cbn [filter existsb].
  destruct (meta1_is m "skip_inner") eqn:E1; cbn [negb andb].
  - rewrite (meta1_is_excl m "skip_inner" "incomparable" E1) by discriminate. cbn [orb]. exact IH.
  - destruct (meta1_is m "incomparable"); cbn [orb]; [reflexivity | exact IH].
Qed.

Theorem item_attrs_declarative c e u attrs ia :
  item_attr_from_attrs c e u attrs = Ok ia ->
  it_incomparable ia = existsb (fun m => meta1_is m "incomparable") (singles attrs) /\
  forall t, trait_skipped (it_skip_inner ia) t = existsb (fun m => meta1_is m "skip_inner" && meta_skips c m t) (singles attrs).
Proof.
  unfold item_attr_from_attrs. intros H. inv_bind H.
  assert (H0 : iacc_decl [] (mkIacc [] [] [])) by (split; reflexivity).
  destruct (foldM_item_decl c e u attrs [] _ _ H0 Hb) as [Hs Hi]. cbn [app] in Hs, Hi.
  destruct (ia_dws a) eqn:Ed; [discriminate|].
  destruct (existsb _ (merge_dws (d :: l))); [discriminate|]. destruct (has_cross_dup _); [discriminate|].
  inv_bind H. inv_bind H. inversion H; subst; cbn [it_incomparable it_skip_inner]. split.
  - rewrite (fold_inc_decl _ _ _ _ Hb1). cbn [orb]. rewrite Hi. apply inc_filter_nonempty.
  - intros t. rewrite (fold_skip_decl _ _ _ _ _ Hb0 t). cbn [trait_skipped orb]. rewrite Hs. apply existsb_filter.
Qed.

Lemma data_from_struct_markers c dws sk inc id sh fs d :
  data_from_struct c dws sk inc id sh fs = Ok d ->
  d_skip_inner d = sk /\ d_incomparable d = inc /\
  (sh = RUnit \/ Forall2 (fun rf f => forall t, trait_skipped (f_skip f) t =
                                       existsb (fun m => meta1_is m "skip" && meta_skips c m t) (metas_of (rf_attrs rf))) fs (d_fields d)).
Proof.
  unfold data_from_struct. intros H. destruct sh.
  - destruct (match fs with [] => negb inc | _ => false end); [discriminate|]. inv_bind H. inversion H; subst; cbn.
    repeat split. right. eapply fields_from_decl; eassumption.
  - destruct (match fs with [] => negb inc | _ => false end); [discriminate|]. inv_bind H. inversion H; subst; cbn.
    repeat split. right. eapply fields_from_decl; eassumption.
  - destruct inc; [|discriminate]. inversion H; subst; cbn. repeat split. left. reflexivity.
Qed.

(* an accepted struct: its item-level markers and the markers of its fields, as written *)
Theorem accepted_struct_declarative c r i sh fs d :
  from_input c r = Ok i -> ri_kind r = KStruct sh fs -> in_item i = IItem d ->
  d_incomparable d = existsb (fun m => meta1_is m "incomparable") (singles (ri_attrs r)) /\
  (forall t, trait_skipped (d_skip_inner d) t =
             existsb (fun m => meta1_is m "skip_inner" && meta_skips c m t) (singles (ri_attrs r))) /\
  (sh = RUnit \/ Forall2 (fun rf f => forall t, trait_skipped (f_skip f) t =
                                       existsb (fun m => meta1_is m "skip" && meta_skips c m t) (metas_of (rf_attrs rf))) fs (d_fields d)).
Proof.
  intros H Hk Hi. destruct (from_input_inv c r i H) as [ia [Ha [_ [_ K]]]]. rewrite Hk in K.
  destruct K as [d' [Hd E]]. rewrite Hi in E. inversion E; subst d'.
  destruct (item_attrs_declarative _ _ _ _ _ Ha) as [I S]. destruct (data_from_struct_markers _ _ _ _ _ _ _ _ Hd) as [A [B F]].
  rewrite A, B. repeat split; assumption.
Qed.

(* the item-level incomparable marker of an accepted enum, as written *)
Theorem accepted_enum_item_marker c r i rvs disc id inc vs :
  from_input c r = Ok i -> ri_kind r = KEnum rvs -> in_item i = IEnum disc id inc vs ->
  inc = existsb (fun m => meta1_is m "incomparable") (singles (ri_attrs r)).
Proof.
  intros H Hk Hi. destruct (from_input_inv c r i H) as [ia [Ha [_ [_ K]]]]. rewrite Hk in K.
  destruct K as [disc' [vs' [fd [fi [_ [_ [_ [_ [_ E]]]]]]]]]. rewrite Hi in E. inversion E; subst.
  apply (item_attrs_declarative _ _ _ _ _ Ha).
Qed.

(* ---- the fqs flag of every field of an accepted item, as written ---- *)
Definition fqs_as_written (rf : raw_field) (f : field) : Prop :=
  f_fqs f = existsb (fun m => meta1_is m "Zeroize" && meta_fqs m) (metas_of (rf_attrs rf)).

Lemma fields_from_fqs c dws parent named fs fl :
  fields_from c dws parent named fs = Ok fl -> Forall2 fqs_as_written fs fl.
Proof.
  unfold fields_from. unfold indexed. generalize 0 as n. revert fl.
  induction fs as [|rf fs IH]; cbn [indexed_from mapM]; intros fl n H.
  - inversion H. constructor.
  - inv_bind H. inv_bind H. inversion H; subst. constructor; [|eapply IH; eassumption].
    unfold field_from in Hb. inv_bind Hb. pose proof (field_fqs_declarative _ _ _ _ _ Hb1) as D.
    unfold fqs_as_written. destruct named; [destruct (rf_name rf); [|discriminate]|]; inversion Hb; subst; cbn [f_fqs]; exact D.
Qed.

Theorem accepted_struct_fqs c r i sh fs d :
  from_input c r = Ok i -> ri_kind r = KStruct sh fs -> in_item i = IItem d ->
  sh = RUnit \/ Forall2 fqs_as_written fs (d_fields d).
Proof.
  intros H Hk Hi. destruct (from_input_inv c r i H) as [ia [Ha [_ [_ K]]]]. rewrite Hk in K.
  destruct K as [d' [Hd E]]. rewrite Hi in E. inversion E; subst d'. clear -Hd.
  unfold data_from_struct in Hd. destruct sh.
  - destruct (match fs with [] => negb _ | _ => false end); [discriminate|]. inv_bind Hd. inversion Hd; subst; cbn.
    right. eapply fields_from_fqs; eassumption.
  - destruct (match fs with [] => negb _ | _ => false end); [discriminate|]. inv_bind Hd. inversion Hd; subst; cbn.
    right. eapply fields_from_fqs; eassumption.
  - left. reflexivity.
Qed.

Theorem accepted_variants_fqs c r i rvs disc id inc vs :
  from_input c r = Ok i -> ri_kind r = KEnum rvs -> in_item i = IEnum disc id inc vs ->
  Forall2 (fun rv d => rv_shape rv = RUnit \/ Forall2 fqs_as_written (rv_fields rv) (d_fields d)) rvs vs.
Proof.
  intros H Hk Hi. destruct (from_input_inv c r i H) as [ia [_ [_ [_ K]]]]. rewrite Hk in K.
  destruct K as [disc' [vs' [fd [fi [Hm [_ [_ [_ [_ E]]]]]]]]]. rewrite Hi in E. inversion E; subst.
  apply mapM_Forall2 in Hm. clear -Hm. induction Hm as [|rv d rvs vs Hd Hm IH]; constructor; [|assumption].
  unfold data_from_variant in Hd. inv_bind Hd. destruct (rv_shape rv) eqn:E.
  - inv_bind Hd. inversion Hd; subst; cbn. right. eapply fields_from_fqs; eassumption.
  - inv_bind Hd. inversion Hd; subst; cbn. right. eapply fields_from_fqs; eassumption.
  - left. reflexivity.
Qed.
