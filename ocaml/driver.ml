(* driver.ml - reads one s-expression per line: (case "id" cfg raw_item), runs the
   extracted model, prints the result.  Hand written; part of the trusted harness. *)
(* ---------- s-expressions ---------- *)
type sexp = A of string (* symbol or number *) | Q of string (* quoted string *) | L of sexp list

exception Parse_error of string

let parse_sexp (s : string) : sexp =
  let n = String.length s in
  let pos = ref 0 in
  let rec skip () = if !pos < n && (s.[!pos] = ' ' || s.[!pos] = '\n' || s.[!pos] = '\t') then (incr pos; skip ()) in
  let rec item () : sexp =
    skip ();
    if !pos >= n then raise (Parse_error "eof");
    match s.[!pos] with
    | '(' ->
        incr pos;
        let acc = ref [] in
        let rec loop () =
          skip ();
          if !pos >= n then raise (Parse_error "eof in list");
          if s.[!pos] = ')' then incr pos else (acc := item () :: !acc; loop ()) in
        loop ();
        L (List.rev !acc)
    | '"' ->
        incr pos;
        let b = Buffer.create 16 in
        let rec loop () =
          if !pos >= n then raise (Parse_error "eof in string");
          match s.[!pos] with
          | '"' -> incr pos
          | '\\' -> Buffer.add_char b s.[!pos + 1]; pos := !pos + 2; loop ()
          | c -> Buffer.add_char b c; incr pos; loop () in
        loop ();
        Q (Buffer.contents b)
    | _ ->
        let st = !pos in
        while !pos < n && not (List.mem s.[!pos] [' '; '('; ')'; '"'; '\n'; '\t']) do incr pos done;
        A (String.sub s st (!pos - st)) in
  item ()

(* ---------- conversions to extracted datatypes ---------- *)
open Model

let ascii_of_char (c : char) : ascii =
  let k = Char.code c in
  let b i = (k lsr i) land 1 = 1 in
  Ascii (b 0, b 1, b 2, b 3, b 4, b 5, b 6, b 7)

let char_of_ascii (Ascii (b0, b1, b2, b3, b4, b5, b6, b7)) : char =
  let v b i = if b then 1 lsl i else 0 in
  Char.chr (v b0 0 + v b1 1 + v b2 2 + v b3 3 + v b4 4 + v b5 5 + v b6 6 + v b7 7)

let cstr (s : Stdlib.String.t) : Model.string =
  let r = ref EmptyString in
  for i = String.length s - 1 downto 0 do r := String (ascii_of_char s.[i], !r) done;
  !r

let ostr (s : Model.string) : Stdlib.String.t =
  let b = Buffer.create 16 in
  let rec go = function EmptyString -> () | String (a, r) -> Buffer.add_char b (char_of_ascii a); go r in
  go s; Buffer.contents b

let rec nat_of_int (i : int) : nat = if i <= 0 then O else Model.S (nat_of_int (i - 1))

(* binary string "101" (most significant first) to positive *)
let positive_of_bits (s : Stdlib.String.t) : positive =
  let p = ref XH in
  for i = 1 to String.length s - 1 do
    p := if s.[i] = '1' then XI !p else XO !p
  done;
  !p

let z_of_string (s : Stdlib.String.t) : z =
  (* format: optional '-', then binary digits, e.g. "-101", "0" *)
  if s = "0" then Z0
  else if s.[0] = '-' then Zneg (positive_of_bits (String.sub s 1 (String.length s - 1)))
  else Zpos (positive_of_bits s)

let rec string_of_positive_bits = function XH -> "1" | XO p -> string_of_positive_bits p ^ "0" | XI p -> string_of_positive_bits p ^ "1"
let string_of_n = function N0 -> "0" | Npos p -> string_of_positive_bits p

let fail what = raise (Parse_error what)

let d_str = function Q s -> cstr s | _ -> fail "string"
let d_bool = function A "T" -> true | A "F" -> false | _ -> fail "bool"
let d_list f = function L l -> List.map f l | _ -> fail "list"
let d_opt f = function A "N" -> None | L [A "S"; x] -> Some (f x) | _ -> fail "option"
let d_toks = d_list d_str
let d_path = function L [lead; segs] -> { p_lead = d_bool lead; p_segs = d_list d_str segs } | _ -> fail "path"
let d_expr = function
  | L [A "EStr"; lit; p] -> EStr (d_str lit, d_opt d_path p)
  | L [A "EPath"; p] -> EPathE (d_path p)
  | L [A "EOther"; ts] -> EOther (d_toks ts)
  | _ -> fail "expr"
let d_meta2 = function
  | L [A "P"; p] -> M2Path (d_path p)
  | L [A "NV"; p; e] -> M2NameValue (d_path p, d_expr e)
  | L [A "L"; p; ts] -> M2List (d_path p, d_toks ts)
  | _ -> fail "meta2"
let d_meta1 = function
  | L [A "P"; p] -> M1Path (d_path p)
  | L [A "NV"; p; e] -> M1NameValue (d_path p, d_expr e)
  | L [A "L"; p; args] -> M1List (d_path p, d_opt (d_list d_meta2) args)
  | L [A "Bad"; ts] -> M1Bad (d_toks ts)
  | _ -> fail "meta1"
let d_generic = function
  | L [A "Ty"; ts] -> GRType (d_toks ts)
  | L [A "Pred"; ts] -> GRPred (d_toks ts)
  | L [A "Lt"; ts] -> GRLifetime (d_toks ts)
  | L [A "Bad"; ts] -> GRBad (d_toks ts)
  | _ -> fail "generic"
let d_dw_attr = function
  | L [A "NotList"; ts] -> DANotList (d_toks ts)
  | L [A "List"; elems; semi] -> DAList (d_list d_meta1 elems, d_opt (d_list d_generic) semi)
  | _ -> fail "dw_attr"
let d_sub_attr = function
  | L [A "NotList"; ts] -> SANotList (d_toks ts)
  | L [A "List"; args] -> SAList (d_opt (d_list d_meta1) args)
  | _ -> fail "sub_attr"
let d_repr = function
  | L [A "Idents"; ids] -> ReprIdents (d_list d_str ids)
  | L [A "Unparsable"; ts] -> ReprUnparsable (d_toks ts)
  | L [A "NotList"] -> ReprNotList
  | _ -> fail "repr"
let d_item_attr = function
  | L [A "Dw"; a] -> IADw (d_dw_attr a)
  | L [A "Repr"; r] -> IARepr (d_repr r)
  | L [A "Other"; p; ts] -> IAOther (d_path p, d_toks ts)
  | _ -> fail "item_attr"
let d_field_attr = function
  | L [A "Dw"; a] -> FADw (d_sub_attr a)
  | L [A "Other"; p; ts] -> FAOther (d_path p, d_toks ts)
  | _ -> fail "field_attr"
let d_field = function
  | L [attrs; vis; name; ty] ->
      { rf_attrs = d_list d_field_attr attrs; rf_vis = d_toks vis; rf_name = d_opt d_str name; rf_ty = d_toks ty }
  | _ -> fail "field"
let d_shape = function A "Named" -> RNamed | A "Unnamed" -> RUnnamed | A "Unit" -> RUnit | _ -> fail "shape"
let d_disc = function L [ts; A z] -> (d_toks ts, z_of_string z) | _ -> fail "disc"
let d_variant = function
  | L [attrs; name; sh; fields; disc] ->
      { rv_attrs = d_list d_field_attr attrs; rv_name = d_str name; rv_shape = d_shape sh;
        rv_fields = d_list d_field fields; rv_disc = d_opt d_disc disc }
  | _ -> fail "variant"
let d_gparam = function
  | L [A "Lt"; n; b] -> GPLifetime (d_str n, d_toks b)
  | L [A "Ty"; n; b; d] -> GPType (d_str n, d_toks b, d_toks d)
  | L [A "Const"; n; t; d] -> GPConst (d_str n, d_toks t, d_toks d)
  | _ -> fail "gparam"
let d_where = function L [ps; tr] -> (d_list d_toks ps, d_bool tr) | _ -> fail "where"
let d_generics = function
  | L [ps; tr; w] -> { g_params = d_list d_gparam ps; g_trailing = d_bool tr; g_where = d_opt d_where w }
  | _ -> fail "generics"
let d_kind = function
  | L [A "Struct"; sh; fs] -> KStruct (d_shape sh, d_list d_field fs)
  | L [A "Enum"; vs] -> KEnum (d_list d_variant vs)
  | L [A "Union"; fs] -> KUnion (d_list d_field fs)
  | _ -> fail "kind"
let d_item = function
  | L [attrs; vis; name; g; k] ->
      { ri_attrs = d_list d_item_attr attrs; ri_vis = d_toks vis; ri_name = d_str name;
        ri_generics = d_generics g; ri_kind = d_kind k }
  | _ -> fail "item"
let d_cfg = function
  | L [a; b; c; d] -> { c_safe = d_bool a; c_nightly = d_bool b; c_zeroize = d_bool c; c_zod = d_bool d }
  | _ -> fail "cfg"

let d_variant_src = function
  | L [attrs; fields] -> { vs_attrs = d_list d_toks attrs; vs_fields = d_list (d_list d_toks) fields }
  | _ -> fail "variant_src"
let d_item_src = function
  | L [attrs; fields; variants] ->
      { is_attrs = d_list d_toks attrs; is_fields = d_list (d_list d_toks) fields; is_variants = d_list d_variant_src variants }
  | _ -> fail "item_src"

let rec positive_of_int (i : int) : positive =
  if i <= 1 then XH else if i land 1 = 1 then XI (positive_of_int (i lsr 1)) else XO (positive_of_int (i lsr 1))
let n_of_int (i : int) : n = if i = 0 then N0 else Npos (positive_of_int i)
let d_int = function A s -> int_of_string s | _ -> fail "int"
let d_value = function
  | L [idx; fields] -> { v_idx = nat_of_int (d_int idx); v_fields = List.map (fun x -> n_of_int (d_int x)) (match fields with L l -> l | _ -> fail "fields") }
  | _ -> fail "value"

let print_toks oc ts = List.iter (fun t -> output_char oc '\t'; output_string oc (ostr t)) ts

let () =
  let ic = if Array.length Sys.argv > 1 then open_in Sys.argv.(1) else stdin in
  let oc = stdout in
  let want_digest = (try Sys.getenv "VERIF_DIGEST" = "1" with Not_found -> false) in
  (try
    while true do
      let line = input_line ic in
      if String.length line > 0 then begin
        match parse_sexp line with
        | L [A "case"; Q id; c; it; src] ->
            let item = d_item it in
            let isrc = d_item_src src in
            let r = run_expand (d_cfg c) item in
            Printf.fprintf oc "CASE %s\n" id;
            (match r with
             | ROk impls ->
                 Printf.fprintf oc "OK %d\n" (List.length impls);
                 List.iter (fun o ->
                   Printf.fprintf oc "I %s %d %d %d" (ostr (trait_name o.io_trait))
                     (List.length o.io_header) (List.length o.io_body) (List.length o.io_extra);
                   print_toks oc o.io_header; output_string oc "\t{"; print_toks oc o.io_body;
                   output_string oc "\t}"; print_toks oc o.io_extra; output_char oc '\n') impls
             | RErr e -> Printf.fprintf oc "ERR %s\n" (ostr (error_name e))
             | RPanic s -> Printf.fprintf oc "PANIC %s\n" (ostr s));
            (match run_stage_a item isrc with
             | AOk ts -> output_string oc "A\tOK"; print_toks oc ts; output_char oc '\n'
             | AErr e -> Printf.fprintf oc "A\tERR\t%s\n" (ostr (error_name e))
             | APanic s -> Printf.fprintf oc "A\tPANIC\t%s\n" (ostr s));
            output_string oc "S"; print_toks oc (run_strip item isrc); output_char oc '\n';
            Printf.fprintf oc "K"; List.iter (fun s -> output_char oc '\t'; output_string oc (ostr s)) (run_cells (d_cfg c) item); output_char oc '\n';
            if want_digest then Printf.fprintf oc "D %s\n" (string_of_n (digest_result r))
        | L [A "observe"; Q id; c; it; vals] ->
            let lines = observe (d_cfg c) (d_item it) (d_list d_value vals) in
            Printf.fprintf oc "OBS %s\n" id;
            List.iter (fun l -> output_string oc (ostr l); output_char oc '\n') lines;
            output_string oc "END\n"
        | _ -> raise (Parse_error "case")
      end
    done
  with End_of_file -> ());
  flush oc
