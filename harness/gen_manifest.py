"""Writes MANIFEST.json from the property table (so that it is always valid and in sync)."""
import json, os, sys
sys.path.insert(0, os.path.dirname(os.path.abspath(__file__)))
from props import PROPS

VERIF = os.path.dirname(os.path.dirname(os.path.abspath(__file__)))
CLAIMED = json.load(open(os.path.join(VERIF, 'harness', 'claimed.json')))

LEVEL_NOTE = ('Trusted: Coq 8.16.1 kernel; no axioms (Print Assumptions must say "Closed under the global context"); '
              'the hand-written Coq model of /repo/src, tied to the code by the token-for-token correspondence check on the '
              'corpus of every run (not proved equal); Sem.v as a description of Rust; extraction (ExtrOcamlBasic only) and '
              'the OCaml/Rust/Python harness; syn/quote/proc-macro2, the two proc_macro entry wrappers and rustc are outside the model and are '
              'reached only through real-rustc probes (behaviour, diagnostics, trait solver, hostile scope; Miri and coqchk in the thorough tier), '
              'which validate the model and search for failing inputs but prove nothing. ')

checks = []
for pid in sorted(PROPS):
    if pid not in CLAIMED:
        continue
    c = CLAIMED[pid]
    checks.append(dict(
        property_id=pid,
        quick_cmd='./dwv check %s --tier quick' % pid,
        thorough_cmd='./dwv check %s --tier thorough' % pid,
        evidence_file='/verif/evidence/%s.json' % pid,
        replay_cmd_template='./dwv replay {path}',
        engine='coq-model+correspondence',
        level_claimed=dict(category='proof', text=c['text'], design_ref=c.get('design_ref', 'DESIGN.md section 3, ' + pid)),
        level_note=LEVEL_NOTE + c.get('partial', ''),
        technique='machine-checked proof in Coq 8.16 of theorems about a hand-written executable model, plus differential correspondence check of the model against the macro'))

na = [dict(property_id=pid, reason='check under construction in this round: theorem file not yet written; not claimed until it is')
      for pid in sorted(PROPS) if pid not in CLAIMED]

manifest = dict(
    version=1,
    setup_cmd='./setup.sh',
    hooks=dict(guard='none (no hooks: the correspondence driver is appended to a scratch COPY of /repo/src, never to /repo)',
               enable='not applicable: checks build a scratch copy of /repo/src with harness/verif_driver.rs added as a #[cfg(test)] module',
               baseline_off_cmd='cd /repo && cargo nextest run --workspace --no-fail-fast --offline || cargo test --workspace --no-fail-fast --offline',
               source_commits=[], add_only=True),
    engines=[dict(name='coq-model+correspondence', path='/verif/coq, /verif/harness, /verif/ocaml',
                  serves_properties=sorted(CLAIMED),
                  kind_free_text='Coq 8.16 development (model + theorems), extracted evaluator, Rust driver over a scratch copy of the macro sources')],
    checks=checks,
    not_applicable=na,
    notes='fix: commits in /repo repaired six genuine defects, five more are recorded as known findings (known_findings.json, DESIGN.md section 10.4). DESIGN.md section 10 describes the machinery as built.')
json.dump(manifest, open(os.path.join(VERIF, 'MANIFEST.json'), 'w'), indent=1)
print('MANIFEST.json written: %d checks, %d not claimed' % (len(checks), len(na)))
