"""Runs the implementation (real macro code, through the driver appended to a scratch
copy of /repo/src) and the extracted Coq model on the same cases."""
import concurrent.futures
import hashlib
import json
import os
import shutil
import subprocess
import tempfile
import time

from items import CFGS, item_txt, sx_case

VERIF = os.path.dirname(os.path.dirname(os.path.abspath(__file__)))
REPO = os.environ.get('VERIF_REPO', '/repo')
CACHE = os.path.join(VERIF, '.cache')
MODEL_DRIVER = os.path.join(VERIF, 'ocaml', 'model_driver')
SCRATCH_ROOT = os.environ.get('VERIF_SCRATCH', '/var/tmp')


import contextlib
import fcntl


@contextlib.contextmanager
def lock(name):
    """checks of different properties may run side by side: the one that gets here first builds, the others wait and read its cache entry"""
    os.makedirs(CACHE, exist_ok=True)
    fh = open(os.path.join(CACHE, name + '.lock'), 'w')
    try:
        fcntl.flock(fh, fcntl.LOCK_EX)
        yield
    finally:
        try:
            fcntl.flock(fh, fcntl.LOCK_UN)
        finally:
            fh.close()


class Infra(Exception):
    """the machinery itself could not run (exit code 2)"""


def repo_hash():
    h = hashlib.sha256()
    paths = []
    for root, _, files in os.walk(os.path.join(REPO, 'src')):
        for f in files:
            paths.append(os.path.join(root, f))
    paths += [os.path.join(REPO, 'Cargo.toml'), lockfile()]
    for p in sorted(paths):
        h.update(p.encode())
        with open(p, 'rb') as fh:
            h.update(fh.read())
    return h.hexdigest()


def harness_hash():
    h = hashlib.sha256()
    for f in ('verif_driver.rs',):
        with open(os.path.join(VERIF, 'harness', f), 'rb') as fh:
            h.update(fh.read())
    return h.hexdigest()


def lockfile():
    """/repo's Cargo.lock (it is git-ignored there); the pinned copy kept with the harness if it is absent"""
    p = os.path.join(REPO, 'Cargo.lock')
    return p if os.path.exists(p) else os.path.join(VERIF, 'harness', 'Cargo.lock.pinned')


def _prepare_copy(dst):
    os.makedirs(dst)
    shutil.copytree(os.path.join(REPO, 'src'), os.path.join(dst, 'src'))
    shutil.copy(lockfile(), os.path.join(dst, 'Cargo.lock'))
    toml = open(os.path.join(REPO, 'Cargo.toml')).read()
    # the copy is its own workspace root (the test crates are not copied)
    out, skipping = [], False
    for line in toml.splitlines():
        if line.strip() == '[workspace]':
            skipping = True
            out.append('[workspace]')
            continue
        if skipping and line.startswith('['):
            skipping = False
        if not skipping:
            out.append(line)
    open(os.path.join(dst, 'Cargo.toml'), 'w').write('\n'.join(out) + '\n')
    shutil.copy(os.path.join(VERIF, 'harness', 'verif_driver.rs'), os.path.join(dst, 'src', 'verif_driver.rs'))
    with open(os.path.join(dst, 'src', 'lib.rs'), 'a') as fh:
        fh.write('\n#[cfg(test)]\nmod verif_driver;\n')


def parse_impl_output(path):
    res, cur = {}, None
    with open(path, encoding='utf-8', errors='replace') as fh:
        for line in fh:
            line = line.rstrip('\n')
            if line.startswith('CASE '):
                cur = dict(status=None, impls=[], msg=None, stageA=None, strip=None)
                res[line[5:]] = cur
            elif cur is None:
                continue
            elif line.startswith('OK '):
                cur['status'] = 'ok'
            elif line.startswith('I\t') or line == 'I':
                cur['impls'].append(line.split('\t')[1:] if '\t' in line else [])
            elif line.startswith('ERR '):
                cur['status'] = 'err'
                cur['msg'] = line[4:]
            elif line == 'PANIC':
                cur['status'] = 'panic'
            elif line.startswith('SYN ') or line.startswith('LEX '):
                cur['status'] = 'unparsable'
                cur['msg'] = line
            elif line.startswith('A\t'):
                parts = line.split('\t')
                cur['stageA'] = (parts[1], parts[2:] if parts[1] == 'OK' else '\t'.join(parts[2:]))
            elif line.startswith('S\t'):
                cur['strip'] = line.split('\t')[1:]
    return res


def run_impl_cfg(cfg, cases, keep_log=None):
    """cases: list of (id, item). Returns {id: result}. Builds a scratch copy of /repo."""
    scratch = tempfile.mkdtemp(prefix='dwverif-', dir=SCRATCH_ROOT)
    try:
        dst = os.path.join(scratch, 'copy')
        _prepare_copy(dst)
        inp = os.path.join(scratch, 'in.tsv')
        outp = os.path.join(scratch, 'out.txt')
        with open(inp, 'w') as fh:
            for cid, it in cases:
                fh.write(cid + '\t' + (it if isinstance(it, str) else item_txt(it)) + '\n')
        env = dict(os.environ)
        env.update(VERIF_IN=inp, VERIF_OUT=outp, CARGO_TARGET_DIR=os.path.join(scratch, 'target'),
                   CARGO_NET_OFFLINE='true', RUSTFLAGS=env.get('RUSTFLAGS', '') + ' -Awarnings')
        cmd = ['cargo', 'test', '--offline', '--lib', '-q']
        feats = CFGS[cfg]['features']
        if feats:
            cmd += ['--features', feats]
        if cfg == 'nightly':
            env['RUSTC_BOOTSTRAP'] = '1'
        cmd += ['verif_driver::verif_dump', '--', '--exact', '--nocapture']
        p = subprocess.run(cmd, cwd=dst, env=env, stdout=subprocess.PIPE, stderr=subprocess.STDOUT, text=True, timeout=1200)
        if keep_log:
            open(keep_log, 'w').write(p.stdout)
        if p.returncode != 0 or not os.path.exists(outp):
            raise Infra('driver build/run failed for cfg %s:\n%s' % (cfg, p.stdout[-4000:]))
        return parse_impl_output(outp)
    finally:
        shutil.rmtree(scratch, ignore_errors=True)


def run_impl(cases_by_cfg):
    """cases_by_cfg: {cfg: [(id, item)]} -> {cfg: {id: result}}; one build per cfg, in parallel"""
    out = {}
    with concurrent.futures.ThreadPoolExecutor(max_workers=5) as ex:
        futs = {ex.submit(run_impl_cfg, cfg, cases): cfg for cfg, cases in cases_by_cfg.items() if cases}
        for f in concurrent.futures.as_completed(futs):
            out[futs[f]] = f.result()
    return out


def parse_model_output(text):
    res, cur = {}, None
    for line in text.split('\n'):
        if line.startswith('CASE '):
            cur = dict(status=None, impls=[], err=None, digest=None, stageA=None, strip=None, cells=[])
            res[line[5:]] = cur
        elif cur is None:
            continue
        elif line.startswith('OK '):
            cur['status'] = 'ok'
        elif line.startswith('I '):
            parts = line.split('\t')
            head = parts[0].split(' ')
            cur['impls'].append(dict(trait=head[1], hlen=int(head[2]), blen=int(head[3]), xlen=int(head[4]), toks=parts[1:]))
        elif line.startswith('ERR '):
            cur['status'] = 'err'
            cur['err'] = line[4:]
        elif line.startswith('PANIC '):
            cur['status'] = 'panic'
            cur['err'] = line[6:]
        elif line.startswith('D '):
            cur['digest'] = line[2:]
        elif line.startswith('A\t'):
            parts = line.split('\t')
            cur['stageA'] = (parts[1], parts[2:] if parts[1] == 'OK' else (parts[2] if len(parts) > 2 else ''))
        elif line == 'S' or line.startswith('S\t'):
            cur['strip'] = line.split('\t')[1:]
        elif line == 'K' or line.startswith('K\t'):
            cur['cells'] = line.split('\t')[1:]
    return res


def run_model(cases_by_cfg, shards=16):
    """{cfg: [(id, item)]} -> {cfg: {id: result}} using the extracted model"""
    if not os.path.exists(MODEL_DRIVER):
        raise Infra('model driver not built: run setup')
    lines = []
    for cfg, cases in cases_by_cfg.items():
        for cid, it in cases:
            lines.append(sx_case(cfg + '/' + cid, cfg, it))
    chunks = [lines[i::shards] for i in range(shards)]
    chunks = [c for c in chunks if c]

    def one(chunk):
        p = subprocess.run([MODEL_DRIVER], input='\n'.join(chunk) + '\n', stdout=subprocess.PIPE, stderr=subprocess.PIPE, text=True, timeout=1200)
        if p.returncode != 0:
            raise Infra('model driver failed: ' + p.stderr[-2000:])
        return parse_model_output(p.stdout)

    merged = {}
    with concurrent.futures.ThreadPoolExecutor(max_workers=shards) as ex:
        for r in ex.map(one, chunks):
            merged.update(r)
    out = {cfg: {} for cfg in cases_by_cfg}
    for k, v in merged.items():
        cfg, cid = k.split('/', 1)
        out[cfg][cid] = v
    return out
