"""Items: the harness-side representation of a raw item, its Rust source text and its
serialisation for the extracted Coq model (one s-expression, see ocaml/driver.ml).

Everything is plain tuples/dicts so that generators stay short:

path      = (lead: bool, [seg, ...])
expr      = ('EStr', lit_tok, path|None) | ('EPath', path) | ('EOther', [tok])
meta2     = ('P', path) | ('NV', path, expr) | ('L', path, [tok])
meta1     = ('P', path) | ('NV', path, expr) | ('L', path, [meta2]|None, raw_toks) | ('Bad', [tok])
generic   = ('Ty', [tok]) | ('Pred', [tok]) | ('Lt', [tok]) | ('Bad', [tok])
item attr = ('Dw', ('List', [meta1], [generic]|None, style)) | ('Dw', ('NotList', [tok]))
          | ('Repr', ('Idents', [id])) | ('Repr', ('Unparsable', [tok])) | ('Repr', ('NotList',))
          | ('Other', path, [tok])
sub attr  = ('Dw', ('List', [meta1]|None, raw_toks)) | ('Dw', ('NotList', [tok])) | ('Other', path, [tok])
field     = dict(attrs, vis, name|None, ty)
variant   = dict(attrs, name, shape, fields, disc=(toks, int)|None)
gparam    = ('Lt', name, bounds) | ('Ty', name, bounds, default) | ('Const', name, ty, default)
generics  = dict(params, trailing, where=None|([pred_toks], trailing))
kind      = ('Struct', shape, fields) | ('Enum', variants) | ('Union', fields)
item      = dict(attrs, vis, name, generics, kind)

Tokens here are SOURCE level ('::', "'a", '=>').  `flat` turns them into what
proc_macro2 presents (single punctuation characters; a lifetime is `'` + ident).
"""

PUNCT = set("!#$%&'()*+,-./:;<=>?@[\\]^`{|}~")


def flat_tok(t):
    if len(t) > 1 and t[0] == "'" and not t.endswith("'"):
        return ["'", t[1:]]
    if t and t[0] == '"':
        return [t]
    if len(t) > 1 and all(c in PUNCT for c in t):
        return list(t)
    return [t]


def flat(ts):
    out = []
    for t in ts:
        out.extend(flat_tok(t))
    return out


# ---------------------------------------------------------------- text
def path_txt(p):
    lead, segs = p
    return ('::' if lead else '') + '::'.join(segs)


def toks_txt(ts):
    return ' '.join(ts)


def expr_txt(e):
    if e[0] == 'EStr':
        return e[1]
    if e[0] == 'EPath':
        return path_txt(e[1])
    return toks_txt(e[1])


def meta2_txt(m):
    if m[0] == 'P':
        return path_txt(m[1])
    if m[0] == 'NV':
        return path_txt(m[1]) + ' = ' + expr_txt(m[2])
    return path_txt(m[1]) + '(' + toks_txt(m[2]) + ')'


def meta1_txt(m):
    if m[0] == 'P':
        return path_txt(m[1])
    if m[0] == 'NV':
        return path_txt(m[1]) + ' = ' + expr_txt(m[2])
    if m[0] == 'L':
        if m[2] is None:
            return path_txt(m[1]) + '(' + toks_txt(m[3]) + ')'
        return path_txt(m[1]) + '(' + ', '.join(meta2_txt(x) for x in m[2]) + ')'
    return toks_txt(m[1])


def generic_txt(g):
    return toks_txt(g[1])


def dw_attr_txt(a):
    if a[0] == 'NotList':
        return '#[derive_where' + (' ' + toks_txt(a[1]) if a[1] else '') + ']'
    _, elems, semi, style = a
    s = ', '.join(meta1_txt(m) for m in elems)
    if style.get('tc_elems') and elems:
        s += ','
    if semi is not None:
        s += '; ' + ', '.join(generic_txt(g) for g in semi)
        if style.get('tc_generics') and semi:
            s += ','
    return '#[derive_where(' + s + ')]'


def sub_attr_txt(a):
    if a[0] == 'NotList':
        return '#[derive_where' + (' ' + toks_txt(a[1]) if a[1] else '') + ']'
    _, args, raw = a
    if args is None:
        return '#[derive_where(' + toks_txt(raw) + ')]'
    return '#[derive_where(' + ', '.join(meta1_txt(m) for m in args) + ')]'


def item_attr_txt(a):
    if a[0] == 'Dw':
        return dw_attr_txt(a[1])
    if a[0] == 'Repr':
        r = a[1]
        if r[0] == 'Idents':
            return '#[repr(' + ', '.join(r[1]) + ')]'
        if r[0] == 'Unparsable':
            return '#[repr(' + toks_txt(r[1]) + ')]'
        return '#[repr]'
    return '#[' + path_txt(a[1]) + (' ' + toks_txt(a[2]) if a[2] else '') + ']'


def field_attr_txt(a):
    if a[0] == 'Dw':
        return sub_attr_txt(a[1])
    return '#[' + path_txt(a[1]) + (' ' + toks_txt(a[2]) if a[2] else '') + ']'


def field_txt(f):
    s = ' '.join(field_attr_txt(a) for a in f['attrs'])
    if f['vis']:
        s += ' ' + toks_txt(f['vis'])
    if f['name'] is not None:
        s += ' ' + f['name'] + ':'
    return (s + ' ' + toks_txt(f['ty'])).strip()


def fields_txt(shape, fields):
    if shape == 'Named':
        return '{ ' + ', '.join(field_txt(f) for f in fields) + ' }'
    if shape == 'Unnamed':
        return '(' + ', '.join(field_txt(f) for f in fields) + ')'
    return ''


def gparam_txt(p):
    if p[0] == 'Lt':
        return "'" + p[1] + (': ' + toks_txt(p[2]) if p[2] else '')
    if p[0] == 'Ty':
        return p[1] + (': ' + toks_txt(p[2]) if p[2] else '') + (' = ' + toks_txt(p[3]) if p[3] else '')
    return 'const ' + p[1] + ': ' + toks_txt(p[2]) + (' = ' + toks_txt(p[3]) if p[3] else '')


def generics_txt(g):
    if not g['params']:
        return ''
    return '<' + ', '.join(gparam_txt(p) for p in g['params']) + (',' if g['trailing'] else '') + '>'


def where_txt(g):
    if g['where'] is None:
        return ''
    ps, tr = g['where']
    return ' where ' + ', '.join(toks_txt(p) for p in ps) + (',' if tr and ps else '')


def variant_txt(v):
    s = ' '.join(field_attr_txt(a) for a in v['attrs'])
    s += ' ' + v['name'] + fields_txt(v['shape'], v['fields'])
    if v['disc'] is not None:
        s += ' = ' + toks_txt(v['disc'][0])
    return s.strip()


def item_txt(it):
    s = ' '.join(item_attr_txt(a) for a in it['attrs'])
    if it['vis']:
        s += ' ' + toks_txt(it['vis'])
    k = it['kind']
    g = it['generics']
    if k[0] == 'Struct':
        s += ' struct ' + it['name'] + generics_txt(g)
        if k[1] == 'Named':
            s += where_txt(g) + ' ' + fields_txt('Named', k[2])
        elif k[1] == 'Unnamed':
            s += fields_txt('Unnamed', k[2]) + where_txt(g) + ';'
        else:
            s += where_txt(g) + ';'
    elif k[0] == 'Enum':
        s += ' enum ' + it['name'] + generics_txt(g) + where_txt(g) + ' { ' + ', '.join(variant_txt(v) for v in k[1]) + ' }'
    else:
        s += ' union ' + it['name'] + generics_txt(g) + where_txt(g) + ' ' + fields_txt('Named', k[1])
    return s.strip()


# ---------------------------------------------------------------- attribute tokens (what is inside `#[ ... ]`)
def path_tk(p):
    lead, segs = p
    out = ['::'] if lead else []
    for i, sg in enumerate(segs):
        if i:
            out.append('::')
        out.append(sg)
    return out


def commas(lists, trailing=False):
    out = []
    for i, l in enumerate(lists):
        if i:
            out.append(',')
        out.extend(l)
    if trailing and lists:
        out.append(',')
    return out


def expr_tk(e):
    if e[0] == 'EStr':
        return [e[1]]
    if e[0] == 'EPath':
        return path_tk(e[1])
    return list(e[1])


def meta2_tk(m):
    if m[0] == 'P':
        return path_tk(m[1])
    if m[0] == 'NV':
        return path_tk(m[1]) + ['='] + expr_tk(m[2])
    return path_tk(m[1]) + ['('] + list(m[2]) + [')']


def meta1_tk(m):
    if m[0] == 'P':
        return path_tk(m[1])
    if m[0] == 'NV':
        return path_tk(m[1]) + ['='] + expr_tk(m[2])
    if m[0] == 'L':
        if m[2] is None:
            return path_tk(m[1]) + ['('] + list(m[3]) + [')']
        return path_tk(m[1]) + ['('] + commas([meta2_tk(x) for x in m[2]]) + [')']
    return list(m[1])


def dw_attr_tk(a):
    if a[0] == 'NotList':
        return ['derive_where'] + list(a[1])
    _, elems, semi, style = a
    inner = commas([meta1_tk(m) for m in elems], style.get('tc_elems'))
    if semi is not None:
        inner += [';'] + commas([list(g[1]) for g in semi], style.get('tc_generics'))
    return ['derive_where', '('] + inner + [')']


def sub_attr_tk(a):
    if a[0] == 'NotList':
        return ['derive_where'] + list(a[1])
    _, args, raw = a
    if args is None:
        return ['derive_where', '('] + list(raw) + [')']
    return ['derive_where', '('] + commas([meta1_tk(m) for m in args]) + [')']


def item_attr_tk(a):
    if a[0] == 'Dw':
        return dw_attr_tk(a[1])
    if a[0] == 'Repr':
        r = a[1]
        if r[0] == 'Idents':
            return ['repr', '('] + commas([[i] for i in r[1]]) + [')']
        if r[0] == 'Unparsable':
            return ['repr', '('] + list(r[1]) + [')']
        return ['repr']
    return path_tk(a[1]) + list(a[2])


def field_attr_tk(a):
    if a[0] == 'Dw':
        return sub_attr_tk(a[1])
    return path_tk(a[1]) + list(a[2])


def sx_item_src(it):
    k = it['kind']
    attrs = sx_list(sx_toks(item_attr_tk(a)) for a in it['attrs'])

    def fsrc(fs):
        return sx_list(sx_list(sx_toks(field_attr_tk(a)) for a in f['attrs']) for f in fs)
    if k[0] == 'Struct':
        return '(' + attrs + ' ' + fsrc(k[2]) + ' ())'
    if k[0] == 'Union':
        return '(' + attrs + ' ' + fsrc(k[1]) + ' ())'
    vs = sx_list('(' + sx_list(sx_toks(field_attr_tk(a)) for a in v['attrs']) + ' ' + fsrc(v['fields']) + ')' for v in k[1])
    return '(' + attrs + ' () ' + vs + ')'


# ---------------------------------------------------------------- s-expression
def q(s):
    return '"' + s.replace('\\', '\\\\').replace('"', '\\"') + '"'


def sx_list(xs):
    return '(' + ' '.join(xs) + ')'


def sx_toks(ts):
    return sx_list(q(t) for t in flat(ts))


def sx_bool(b):
    return 'T' if b else 'F'


def sx_opt(x, f):
    return 'N' if x is None else '(S ' + f(x) + ')'


def sx_path(p):
    return '(' + sx_bool(p[0]) + ' ' + sx_list(q(s) for s in p[1]) + ')'


def sx_expr(e):
    if e[0] == 'EStr':
        return '(EStr ' + q(e[1]) + ' ' + sx_opt(e[2], sx_path) + ')'
    if e[0] == 'EPath':
        return '(EPath ' + sx_path(e[1]) + ')'
    return '(EOther ' + sx_toks(e[1]) + ')'


def sx_meta2(m):
    if m[0] == 'P':
        return '(P ' + sx_path(m[1]) + ')'
    if m[0] == 'NV':
        return '(NV ' + sx_path(m[1]) + ' ' + sx_expr(m[2]) + ')'
    return '(L ' + sx_path(m[1]) + ' ' + sx_toks(m[2]) + ')'


def sx_meta1(m):
    if m[0] == 'P':
        return '(P ' + sx_path(m[1]) + ')'
    if m[0] == 'NV':
        return '(NV ' + sx_path(m[1]) + ' ' + sx_expr(m[2]) + ')'
    if m[0] == 'L':
        return '(L ' + sx_path(m[1]) + ' ' + sx_opt(m[2], lambda l: sx_list(sx_meta2(x) for x in l)) + ')'
    return '(Bad ' + sx_toks(m[1]) + ')'


def sx_generic(g):
    return '(' + g[0] + ' ' + sx_toks(g[1]) + ')'


def sx_dw_attr(a):
    if a[0] == 'NotList':
        return '(NotList ' + sx_toks(a[1]) + ')'
    return '(List ' + sx_list(sx_meta1(m) for m in a[1]) + ' ' + sx_opt(a[2], lambda l: sx_list(sx_generic(g) for g in l)) + ')'


def sx_sub_attr(a):
    if a[0] == 'NotList':
        return '(NotList ' + sx_toks(a[1]) + ')'
    return '(List ' + sx_opt(a[1], lambda l: sx_list(sx_meta1(m) for m in l)) + ')'


def sx_item_attr(a):
    if a[0] == 'Dw':
        return '(Dw ' + sx_dw_attr(a[1]) + ')'
    if a[0] == 'Repr':
        r = a[1]
        if r[0] == 'Idents':
            return '(Repr (Idents ' + sx_list(q(i) for i in r[1]) + '))'
        if r[0] == 'Unparsable':
            return '(Repr (Unparsable ' + sx_toks(r[1]) + '))'
        return '(Repr (NotList))'
    return '(Other ' + sx_path(a[1]) + ' ' + sx_toks(a[2]) + ')'


def sx_field_attr(a):
    if a[0] == 'Dw':
        return '(Dw ' + sx_sub_attr(a[1]) + ')'
    return '(Other ' + sx_path(a[1]) + ' ' + sx_toks(a[2]) + ')'


def sx_field(f):
    return '(' + sx_list(sx_field_attr(a) for a in f['attrs']) + ' ' + sx_toks(f['vis']) + ' ' + \
        sx_opt(f['name'], q) + ' ' + sx_toks(f['ty']) + ')'


def sx_z(n):
    if n == 0:
        return '0'
    return ('-' if n < 0 else '') + bin(abs(n))[2:]


def sx_variant(v):
    return '(' + sx_list(sx_field_attr(a) for a in v['attrs']) + ' ' + q(v['name']) + ' ' + v['shape'] + ' ' + \
        sx_list(sx_field(f) for f in v['fields']) + ' ' + \
        sx_opt(v['disc'], lambda d: '(' + sx_toks(d[0]) + ' ' + sx_z(d[1]) + ')') + ')'


def sx_gparam(p):
    if p[0] == 'Lt':
        return '(Lt ' + q(p[1]) + ' ' + sx_toks(p[2]) + ')'
    if p[0] == 'Ty':
        return '(Ty ' + q(p[1]) + ' ' + sx_toks(p[2]) + ' ' + sx_toks(p[3]) + ')'
    return '(Const ' + q(p[1]) + ' ' + sx_toks(p[2]) + ' ' + sx_toks(p[3]) + ')'


def sx_generics(g):
    return '(' + sx_list(sx_gparam(p) for p in g['params']) + ' ' + sx_bool(g['trailing']) + ' ' + \
        sx_opt(g['where'], lambda w: '(' + sx_list(sx_toks(p) for p in w[0]) + ' ' + sx_bool(w[1] and bool(w[0])) + ')') + ')'


def sx_kind(k):
    if k[0] == 'Struct':
        return '(Struct ' + k[1] + ' ' + sx_list(sx_field(f) for f in k[2]) + ')'
    if k[0] == 'Enum':
        return '(Enum ' + sx_list(sx_variant(v) for v in k[1]) + ')'
    return '(Union ' + sx_list(sx_field(f) for f in k[1]) + ')'


def sx_item(it):
    return '(' + sx_list(sx_item_attr(a) for a in it['attrs']) + ' ' + sx_toks(it['vis']) + ' ' + q(it['name']) + ' ' + \
        sx_generics(it['generics']) + ' ' + sx_kind(it['kind']) + ')'


CFGS = {
    'default': dict(safe=False, nightly=False, zeroize=False, zod=False, features=''),
    'safe': dict(safe=True, nightly=False, zeroize=False, zod=False, features='safe'),
    'nightly': dict(safe=False, nightly=True, zeroize=False, zod=False, features='nightly'),
    'zeroize': dict(safe=False, nightly=False, zeroize=True, zod=False, features='zeroize'),
    'zeroize-on-drop': dict(safe=False, nightly=False, zeroize=True, zod=True, features='zeroize-on-drop'),
}


def sx_cfg(name):
    c = CFGS[name]
    return '(' + ' '.join(sx_bool(c[k]) for k in ('safe', 'nightly', 'zeroize', 'zod')) + ')'


def sx_case(cid, cfg, it):
    return '(case ' + q(cid) + ' ' + sx_cfg(cfg) + ' ' + sx_item(it) + ' ' + sx_item_src(it) + ')'


# ---------------------------------------------------------------- builders
def P(name):
    """single-identifier path"""
    return (False, [name])


def mpath(name):
    return ('P', P(name))


def ty(*toks):
    return list(toks)


def field(name, ty_toks, attrs=(), vis=()):
    return dict(attrs=list(attrs), vis=list(vis), name=name, ty=list(ty_toks))


def variant(name, shape='Unit', fields=(), attrs=(), disc=None):
    return dict(attrs=list(attrs), name=name, shape=shape, fields=list(fields), disc=disc)


def generics(params=(), where=None, trailing=False):
    return dict(params=list(params), trailing=trailing, where=where)


def tparam(name, bounds=(), default=()):
    return ('Ty', name, list(bounds), list(default))


def dw(traits, gens=None, **style):
    """item-level #[derive_where(Traits..; generics..)]; traits: names or meta1 tuples;
    gens: None or list of generic tuples / bare names"""
    elems = [mpath(t) if isinstance(t, str) else t for t in traits]
    if gens is not None:
        gens = [('Ty', [g]) if isinstance(g, str) else g for g in gens]
    return ('Dw', ('List', elems, gens, style))


def sub(*metas):
    """variant/field-level #[derive_where(..)]"""
    return ('Dw', ('List', [mpath(m) if isinstance(m, str) else m for m in metas], None))


def skip_meta(name, groups=None):
    if groups is None:
        return mpath(name)
    return ('L', P(name), [mpath(g) for g in groups], None)


def item(kind, name, attrs, gen=None, vis=()):
    return dict(attrs=list(attrs), vis=list(vis), name=name, generics=gen or generics(), kind=kind)


# ---------------------------------------------------------------- Coq terms (for the vm_compute cross-check of the extracted evaluator)
def cq_str(s):
    return '"' + s.replace('"', '""') + '"'


def cq_list(xs):
    return '[' + '; '.join(xs) + ']'


def cq_toks(ts):
    return cq_list(cq_str(t) for t in flat(ts))


def cq_bool(b):
    return 'true' if b else 'false'


def cq_opt(x, f):
    return 'None' if x is None else '(Some ' + f(x) + ')'


def cq_path(p):
    return '(mkPath ' + cq_bool(p[0]) + ' ' + cq_list(cq_str(s) for s in p[1]) + ')'


def cq_expr(e):
    if e[0] == 'EStr':
        return '(EStr ' + cq_str(e[1]) + ' ' + cq_opt(e[2], cq_path) + ')'
    if e[0] == 'EPath':
        return '(EPathE ' + cq_path(e[1]) + ')'
    return '(EOther ' + cq_toks(e[1]) + ')'


def cq_meta2(m):
    if m[0] == 'P':
        return '(M2Path ' + cq_path(m[1]) + ')'
    if m[0] == 'NV':
        return '(M2NameValue ' + cq_path(m[1]) + ' ' + cq_expr(m[2]) + ')'
    return '(M2List ' + cq_path(m[1]) + ' ' + cq_toks(m[2]) + ')'


def cq_meta1(m):
    if m[0] == 'P':
        return '(M1Path ' + cq_path(m[1]) + ')'
    if m[0] == 'NV':
        return '(M1NameValue ' + cq_path(m[1]) + ' ' + cq_expr(m[2]) + ')'
    if m[0] == 'L':
        return '(M1List ' + cq_path(m[1]) + ' ' + cq_opt(m[2], lambda l: cq_list(cq_meta2(x) for x in l)) + ')'
    return '(M1Bad ' + cq_toks(m[1]) + ')'


def cq_generic(g):
    return '(' + {'Ty': 'GRType', 'Pred': 'GRPred', 'Lt': 'GRLifetime', 'Bad': 'GRBad'}[g[0]] + ' ' + cq_toks(g[1]) + ')'


def cq_item_attr(a):
    if a[0] == 'Dw':
        d = a[1]
        if d[0] == 'NotList':
            return '(IADw (DANotList ' + cq_toks(d[1]) + '))'
        return '(IADw (DAList ' + cq_list(cq_meta1(m) for m in d[1]) + ' ' + cq_opt(d[2], lambda l: cq_list(cq_generic(g) for g in l)) + '))'
    if a[0] == 'Repr':
        r = a[1]
        if r[0] == 'Idents':
            return '(IARepr (ReprIdents ' + cq_list(cq_str(i) for i in r[1]) + '))'
        if r[0] == 'Unparsable':
            return '(IARepr (ReprUnparsable ' + cq_toks(r[1]) + '))'
        return '(IARepr ReprNotList)'
    return '(IAOther ' + cq_path(a[1]) + ' ' + cq_toks(a[2]) + ')'


def cq_field_attr(a):
    if a[0] == 'Dw':
        d = a[1]
        if d[0] == 'NotList':
            return '(FADw (SANotList ' + cq_toks(d[1]) + '))'
        return '(FADw (SAList ' + cq_opt(d[1], lambda l: cq_list(cq_meta1(m) for m in l)) + '))'
    return '(FAOther ' + cq_path(a[1]) + ' ' + cq_toks(a[2]) + ')'


def cq_field(f):
    return '(mkRawField ' + cq_list(cq_field_attr(a) for a in f['attrs']) + ' ' + cq_toks(f['vis']) + ' ' + cq_opt(f['name'], cq_str) + ' ' + cq_toks(f['ty']) + ')'


def cq_z(n):
    return '(%d)%%Z' % n


def cq_variant(v):
    return '(mkRawVariant ' + cq_list(cq_field_attr(a) for a in v['attrs']) + ' ' + cq_str(v['name']) + ' R' + v['shape'] + ' ' + \
        cq_list(cq_field(f) for f in v['fields']) + ' ' + cq_opt(v['disc'], lambda d: '(' + cq_toks(d[0]) + ', ' + cq_z(d[1]) + ')') + ')'


def cq_gparam(p):
    if p[0] == 'Lt':
        return '(GPLifetime ' + cq_str(p[1]) + ' ' + cq_toks(p[2]) + ')'
    if p[0] == 'Ty':
        return '(GPType ' + cq_str(p[1]) + ' ' + cq_toks(p[2]) + ' ' + cq_toks(p[3]) + ')'
    return '(GPConst ' + cq_str(p[1]) + ' ' + cq_toks(p[2]) + ' ' + cq_toks(p[3]) + ')'


def cq_generics(g):
    return '(mkGenerics ' + cq_list(cq_gparam(p) for p in g['params']) + ' ' + cq_bool(g['trailing']) + ' ' + \
        cq_opt(g['where'], lambda w: '(' + cq_list(cq_toks(p) for p in w[0]) + ', ' + cq_bool(w[1] and bool(w[0])) + ')') + ')'


def cq_kind(k):
    if k[0] == 'Struct':
        return '(KStruct R' + k[1] + ' ' + cq_list(cq_field(f) for f in k[2]) + ')'
    if k[0] == 'Enum':
        return '(KEnum ' + cq_list(cq_variant(v) for v in k[1]) + ')'
    return '(KUnion ' + cq_list(cq_field(f) for f in k[1]) + ')'


def cq_item(it):
    return '(mkRawItem ' + cq_list(cq_item_attr(a) for a in it['attrs']) + ' ' + cq_toks(it['vis']) + ' ' + cq_str(it['name']) + ' ' + \
        cq_generics(it['generics']) + ' ' + cq_kind(it['kind']) + ')'


def cq_cfg(name):
    c = CFGS[name]
    return '(mkCfg ' + ' '.join(cq_bool(c[k]) for k in ('safe', 'nightly', 'zeroize', 'zod')) + ')'
