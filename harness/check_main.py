"""Entry point of `dwv`: proof audit + correspondence + evidence for one property."""
import argparse
import gzip
import hashlib
import json
import os
import pickle
import re
import subprocess
import sys
import time

import corpus
import runner
import tiea
from items import item_txt
from props import PROPS, ALL_CFGS, owns

VERIF = runner.VERIF
COQ = os.path.join(VERIF, 'coq')
# seeded-change trials set these so that the committed evidence (which must describe /repo itself) is never overwritten by them
EVID = os.environ.get('VERIF_EVIDENCE_DIR') or os.path.join(VERIF, 'evidence')
REPLAYS = os.environ.get('VERIF_REPLAY_DIR') or os.path.join(VERIF, 'replays')

FORBIDDEN = re.compile(r'\b(Admitted|admit|Axiom|Axioms|Parameter|Parameters|Conjecture|Admit Obligations|Unset Guard Checking|'
                       r'Unset Positivity Checking|Unset Universe Checking|bypass_check|type-in-type|impredicative-set)\b')
ALLOWED_AXIOMS = set()   # names that `Print Assumptions` may list; empty: every theorem must be closed

TRUSTED_BASE = [
    'Coq 8.16.1 kernel (coqc); vm_compute is used in non-vacuity examples and finite-table lemmas; native_compute is not used',
    'axioms: none (Print Assumptions must report "Closed under the global context" for every property theorem)',
    'the hand-written Coq model of /repo/src (coq/Syntax,Core,Frontend,IR,Gen,Render.v): tied to the code only by the correspondence check on the corpus, not proved equal to it',
    'Sem.v as a description of Rust (match semantics, mem::discriminant, casts, pointer reads of tags, trait default methods, core::fmt builders): validated by behaviour probes, not proved',
    'extraction of the model to OCaml with ExtrOcamlBasic only (Extract Inductive for bool, option, unit, list, prod, sumbool, sumor; no Extract Constant); nat/N/Z/string stay the extracted Coq datatypes; ocamlfind ocamlopt 4.13.1',
    'the harness: corpus generators (harness/corpus.py), item printers/serialisers (harness/items.py), ocaml/driver.ml (s-expression decoder), harness/verif_driver.rs (flattening of TokenStreams), comparison code',
    'syn/quote/proc-macro2 (parsing of the item and of token soup, split_for_impl, ToTokens) and rustc are outside the model',
    'the two proc_macro entry wrappers (derive_where, derive_where_actual) are not modelled: exercised through rustc by the behaviour, diagnostics, trait-solver and hostile-scope probes',
    'real-rustc probes (tie B behaviour, tie C diagnostics and -Zunpretty=expanded, tie D trait solver, tie E hostile scope / no_std, Miri in the thorough tier) are differential tests that validate the model against the code and search for failing inputs; they are not proofs',
    'rustc 1.95 (stable) and the installed nightly (nightly feature set, Miri); cargo offline with the lockfile of /repo',
]


def sh(cmd, cwd=None, timeout=3000, env=None):
    p = subprocess.run(cmd, cwd=cwd, stdout=subprocess.PIPE, stderr=subprocess.STDOUT, text=True, timeout=timeout, env=env)
    return p.returncode, p.stdout


# ------------------------------------------------------------------ proof audit
def coq_sources():
    out = []
    for root, _, files in os.walk(COQ):
        for f in files:
            if f.endswith('.v'):
                out.append(os.path.join(root, f))
    return sorted(out)


def strip_comments(text):
    out, depth, i = [], 0, 0
    while i < len(text):
        if text.startswith('(*', i):
            depth += 1
            i += 2
        elif text.startswith('*)', i) and depth:
            depth -= 1
            i += 2
        else:
            if depth == 0:
                out.append(text[i])
            i += 1
    return ''.join(out)


def audit_sources():
    """no Admitted / Axiom / ... anywhere; no Variable/Hypothesis outside a Section"""
    problems = []
    for p in coq_sources():
        text = strip_comments(open(p).read())
        text = re.sub(r'"[^"]*"', '""', text)
        for m in FORBIDDEN.finditer(text):
            problems.append('%s: forbidden `%s`' % (os.path.relpath(p, VERIF), m.group(0)))
        depth = 0
        for line in text.split('\n'):
            s = line.strip()
            if re.match(r'Section\b', s):
                depth += 1
            elif re.match(r'End\b', s) and depth:
                depth -= 1
            elif re.match(r'(Variable|Variables|Hypothesis|Hypotheses|Context)\b', s) and depth == 0:
                problems.append('%s: `%s` outside a Section' % (os.path.relpath(p, VERIF), s[:40]))
    return problems


def build_coq():
    with runner.lock('coq-build'):      # one `make` at a time; a second check finds everything up to date
        if not os.path.exists(os.path.join(COQ, 'Makefile.coq')):
            rc, out = sh(['coq_makefile', '-f', '_CoqProject', '-o', 'Makefile.coq'], cwd=COQ)
            if rc != 0:
                return False, out
        rc, out = sh(['make', '-f', 'Makefile.coq', '-j16'], cwd=COQ, timeout=3000)
        if rc == 0:
            # the evaluator the correspondence runs is the extraction of the model just checked
            oc = os.path.join(VERIF, 'ocaml')
            srcs = [os.path.join(oc, f) for f in ('model.mli', 'model.ml', 'driver.ml')]
            if all(os.path.exists(f) for f in srcs) and (not os.path.exists(runner.MODEL_DRIVER)
                    or os.path.getmtime(runner.MODEL_DRIVER) < max(os.path.getmtime(f) for f in srcs)):
                rc2, out2 = sh(['ocamlfind', 'ocamlopt', '-O2', '-w', '-a', '-package', 'str', 'model.mli', 'model.ml', 'driver.ml', '-o', 'model_driver'], cwd=oc, timeout=1800)
                if rc2 != 0:
                    raise runner.Infra('the extracted model does not build: ' + out2[-1500:])
    return rc == 0, out


def audit_property(prop):
    """compile Props/<prop>.v again, collect the pinned statements and assumption reports"""
    res = dict(theorems=[], obligations=0, discharged=0, failures=[], statements=[])
    path = os.path.join(COQ, 'Props', prop + '.v')
    if not os.path.exists(path):
        res['failures'].append('no theorem file Props/%s.v' % prop)
        return res
    src = strip_comments(open(path).read())
    theorems = re.findall(r'^\s*Theorem\s+(\w+)', src, re.M)
    examples = re.findall(r'^\s*Example\s+(\w+)', src, re.M)
    res['theorems'] = theorems
    res['examples'] = examples
    res['obligations'] = len(theorems)
    # compile to a private output file: checks of different properties may run side by side and must not rewrite shared .vo files
    import shutil
    import tempfile
    tmpd = tempfile.mkdtemp(prefix='dwcoq-', dir=runner.SCRATCH_ROOT)
    try:
        rc, out = sh(['coqc', '-noglob', '-Q', '.', 'DW', '-o', os.path.join(tmpd, prop + '.vo'), 'Props/%s.v' % prop], cwd=COQ, timeout=1800)
    finally:
        shutil.rmtree(tmpd, ignore_errors=True)
    if rc != 0:
        res['failures'].append('Props/%s.v does not compile: %s' % (prop, out[-1500:]))
        return res
    # the output is a sequence of: `<name>\n     : <statement>` (Check) and assumption reports
    for name in theorems:
        if not re.search(r'^\s*Check\s+%s\s*:' % name, src, re.M):
            res['failures'].append('theorem %s has no `Check %s : <statement>` pin' % (name, name))
        if not re.search(r'^\s*Print Assumptions\s+%s\s*\.' % name, src, re.M):
            res['failures'].append('theorem %s has no `Print Assumptions`' % name)
    reports = re.findall(r'(Closed under the global context|Axioms:\n(?:.+\n?)+?(?=\n\S|\Z))', out)
    n_print = len(re.findall(r'^\s*Print Assumptions\s+\w+\s*\.', src, re.M))
    if len(reports) != n_print:
        res['failures'].append('expected %d assumption reports, found %d' % (n_print, len(reports)))
    closed = 0
    for r in reports:
        if r.startswith('Closed'):
            closed += 1
        else:
            names = set(re.findall(r'^(\S+)\s*:', r, re.M)) - {'Axioms'}
            if names <= ALLOWED_AXIOMS:
                closed += 1
            else:
                res['failures'].append('theorem depends on axioms: ' + ', '.join(sorted(names)))
    res['discharged'] = min(closed, len(theorems)) if not res['failures'] else min(closed, len(theorems))
    # pinned statements (for the evidence samples)
    for m in re.finditer(r'^\s*Check\s+(\w+)\s*:\s*(.*?)\.\s*$', src, re.M | re.S):
        pass
    for name in theorems:
        m = re.search(r'Check\s+%s\s*:(.*?)\.\s*\n\s*Print Assumptions' % name, src, re.S)
        if m:
            res['statements'].append(name + ' : ' + ' '.join(m.group(1).split()))
    return res


def coqchk_property(prop):
    """thorough tier: the independent checker re-checks the compiled theorem file and everything it depends on"""
    key = 'coqchk-' + hashlib.sha256((model_hash() + prop).encode()).hexdigest()[:32]
    got = cache_get(key)
    if got is None:
        rc, out = sh(['coqchk', '-o', '-silent', '-Q', '.', 'DW', 'DW.Props.' + prop], cwd=COQ, timeout=3000)
        m = re.search(r'\* Axioms:\s*(.*?)\n\s*\n', out, re.S)
        got = dict(rc=rc, axioms=(m.group(1).strip() if m else None),
                   type_in_type='type-in-type: <none>' in out, unsafe_fix='unsafe (co)fixpoints: <none>' in out, positivity='positivity is assumed: <none>' in out,
                   tail=out[-600:])
        cache_put(key, got)
    failures = []
    if got['rc'] != 0:
        failures.append('coqchk rejects DW.Props.%s: %s' % (prop, got['tail']))
    elif got['axioms'] != '<none>' or not (got['type_in_type'] and got['unsafe_fix'] and got['positivity']):
        failures.append('coqchk context summary of DW.Props.%s is not clean: axioms=%r' % (prop, got['axioms']))
    return got, failures


# ------------------------------------------------------------------ correspondence (tie A)
def corpus_for(tier, seed):
    cases = corpus.quick_corpus(seed)
    if tier == 'thorough':
        seen = {c[0] for c in cases}
        for s in range(seed + 1, seed + 9):
            for cid, it in list(corpus.s2_random(s, 600)) + list(corpus.s2_random2(s, 1500)):
                if cid not in seen:
                    seen.add(cid)
                    cases.append((cid, it))
    return cases


def cache_get(key):
    p = os.path.join(runner.CACHE, key + '.pkl.gz')
    if os.path.exists(p):
        try:
            with gzip.open(p, 'rb') as fh:
                return pickle.load(fh)
        except Exception:
            return None
    return None


def cache_put(key, val):
    os.makedirs(runner.CACHE, exist_ok=True)
    import threading
    tmp = os.path.join(runner.CACHE, key + '.tmp%d.%d' % (os.getpid(), threading.get_ident()))
    with gzip.open(tmp, 'wb') as fh:
        pickle.dump(val, fh)
    os.replace(tmp, os.path.join(runner.CACHE, key + '.pkl.gz'))


def impl_observations(cases, cfgs):
    """observations of the real macro code, cached by the hash of /repo's sources (text only)"""
    rh = runner.repo_hash()
    hh = runner.harness_hash()
    ch = hashlib.sha256('\n'.join(cid + '\t' + item_txt(it) for cid, it in cases).encode()).hexdigest()
    def load():
        out, todo = {}, {}
        for c in cfgs:
            key = hashlib.sha256(('impl|%s|%s|%s|%s' % (rh, hh, ch, c)).encode()).hexdigest()[:32]
            got = cache_get(key)
            if got is None:
                todo[c] = key
            else:
                out[c] = got
        return out, todo
    out, todo = load()
    built = []
    if todo:
        with runner.lock('impl-' + rh[:16] + ch[:16]):
            out, todo = load()          # a check running side by side may have built it meanwhile
            if todo:
                res = runner.run_impl({c: cases for c in todo})
                for c, key in todo.items():
                    cache_put(key, res[c])
                    out[c] = res[c]
                built = list(todo)
    return out, dict(repo_hash=rh, cached=[c for c in cfgs if c not in built], built=built)


def model_observations(cases, cfgs):
    """output of the extracted Coq model, cached per (model sources, cfg, case list): it does not depend on /repo"""
    from items import sx_item
    h = hashlib.sha256()
    h.update(model_hash().encode())
    for cid, it in cases:
        h.update(cid.encode())
        h.update(sx_item(it).encode())
    ch = h.hexdigest()[:24]
    def load():
        out, todo = {}, []
        for c in cfgs:
            got = cache_get('model-%s-%s' % (c, ch))
            if got is None:
                todo.append(c)
            else:
                out[c] = got
        return out, todo
    out, todo = load()
    if todo:
        with runner.lock('model-' + ch):
            out, todo = load()
            if todo:
                res = runner.run_model({c: cases for c in todo})
                for c in todo:
                    cache_put('model-%s-%s' % (c, ch), res[c])
                    out[c] = res[c]
    return out


def tie_a(prop, tier, seed):
    cases = corpus_for(tier, seed)
    cfgs = PROPS[prop]['cfgs']
    t = time.time()
    ires, meta = impl_observations(cases, ALL_CFGS)   # all five at once: the other properties reuse them
    t_impl = time.time() - t
    t = time.time()
    mres = model_observations(cases, cfgs)
    t_model = time.time() - t
    dis, stats = [], dict(cases=len(cases), cfgs=cfgs, compared=0, impls_compared=0, tokens_compared=0, accepted=0, rejected=0,
                          by_stream={}, class_mismatch=0, generator_errors=0, t_impl=round(t_impl, 2), t_model=round(t_model, 2))
    stats.update(meta)
    classes = {}
    accepted_ids = set()
    for c in cfgs:
        for cid, it in cases:
            m, i = mres[c].get(cid), ires[c].get(cid)
            if m is None or i is None:
                raise runner.Infra('missing result for %s/%s' % (c, cid))
            stats['compared'] += 1
            stream = cid.split('/')[0]
            stats['by_stream'][stream] = stats['by_stream'].get(stream, 0) + 1
            if i['status'] == 'ok':
                stats['accepted'] += 1
                accepted_ids.add(cid)
                stats['impls_compared'] += len(i['impls'])
                stats['tokens_compared'] += sum(len(x) for x in i['impls'])
            elif i['status'] == 'err':
                stats['rejected'] += 1
                if m['status'] == 'err':
                    cls = tiea.classify(i['msg'])
                    classes[m['err']] = classes.get(m['err'], 0) + 1
                    if cls is not None and cls != m['err']:
                        stats['class_mismatch'] += 1
            d = tiea.compare_case(m, i)
            if d:
                if d['kind'] == 'generator':
                    stats['generator_errors'] += 1
                    continue
                d.update(cfg=c, case=cid, src=item_txt(it))
                dis.append(d)
            for d in tiea.compare_stage_a(m, i):
                stats['stage_a_disagreements'] = stats.get('stage_a_disagreements', 0) + 1
                d.update(cfg=c, case=cid, src=item_txt(it))
                dis.append(d)
            if i.get('stageA') is not None:
                stats['stage_a_compared'] = stats.get('stage_a_compared', 0) + 1
    stats['error_classes'] = classes
    stats['distinct_accepted_items'] = len(accepted_ids)
    if prop == 'C12' and 'safe' in cfgs:
        # the literal second sentence of C12 on the REAL expansions: no `unsafe` token under the `safe` feature
        n = 0
        for cid, it in cases:
            i = ires['safe'].get(cid)
            if i and i['status'] == 'ok':
                n += 1
                for k, toks in enumerate(i['impls']):
                    if 'unsafe' in toks:
                        dis.append(dict(kind='unsafe-under-safe', cfg='safe', case=cid, src=item_txt(it), impl_index=k,
                                        at=toks.index('unsafe'), context=' '.join(toks[max(0, toks.index('unsafe') - 8):toks.index('unsafe') + 8])))
                        break
        stats['safe_expansions_scanned_for_unsafe'] = n
    import collections
    import cells
    by = {}
    for c in cfgs:
        cnt = collections.Counter()
        for cid, it in cases:
            if mres[c][cid]['status'] == 'ok' and ires[c][cid]['status'] == 'ok':
                for k in mres[c][cid].get('cells', []):
                    cnt[k] += 1
        by[c] = cnt
    stats['decision_cells'] = cells.coverage(by)
    return cases, dis, stats


# ------------------------------------------------------------------ extraction cross-check
def model_hash():
    h = hashlib.sha256()
    for p in coq_sources() + [os.path.join(VERIF, 'ocaml', 'driver.ml')]:
        h.update(open(p, 'rb').read())
    return h.hexdigest()


def extraction_crosscheck(cases, seed):
    """the extracted evaluator agrees with Coq's vm_compute on a sample (cached per model version)"""
    import xcheck
    key = 'xcheck-' + hashlib.sha256((model_hash() + '|%d' % seed).encode()).hexdigest()[:32]
    got = cache_get(key)
    if got is None:
        got = xcheck.run(cases, ALL_CFGS, seed)
        cache_put(key, got)
    if got['disagree']:
        raise runner.Infra('extracted evaluator disagrees with vm_compute on ' + ', '.join(got['disagree'][:5]))
    return got


TAG_OF_TRAIT = {'PartialEq': 'eq', 'Ord': 'cmp', 'PartialOrd': 'pcmp', 'Hash': 'hash', 'Clone': 'clone', 'Default': 'default', 'Debug': 'debug',
                'Zeroize': 'zeroize', 'ZeroizeOnDrop': 'drop'}


def derived_tags(src):
    """observation tags of the traits an item's source text requests (for attributing a compile failure of an accepted item)"""
    out = set()
    for t, tag in TAG_OF_TRAIT.items():
        if re.search(r'\b%s\b' % t, src):
            out.add(tag)
            if tag == 'debug':
                out.add('debugp')
    return out


# ------------------------------------------------------------------ behaviour correspondence (tie B)
ALL_TAGS = ['eq', 'cmp', 'pcmp', 'hash', 'clone', 'default', 'debug', 'debugp', 'zeroize', 'drop']
TIEB_TAGS = {
    'C02': ALL_TAGS, 'C03': ['eq'], 'C04': ['cmp', 'pcmp'], 'C05': ['eq', 'cmp', 'pcmp', 'hash'], 'C06': ALL_TAGS,
    'C07': ['eq', 'pcmp'], 'C08': ['hash'], 'C09': ['clone'], 'C10': ['debug', 'debugp'], 'C11': ['default'],
    'C12': ['eq', 'cmp', 'pcmp'], 'C13': ALL_TAGS, 'C18': ['zeroize'], 'C19': ['drop'],
}


def tie_b(prop, cases, seed, tier, priority):
    """compile the probe crate with the real macro, run it, compare with Sem(Gen) and Spec.  Returns (stats, problems)."""
    import concurrent.futures
    import tieb
    if prop not in TIEB_TAGS:
        return None, []
    cfgs = PROPS[prop]['cfgs']
    limit = 250 if tier == 'quick' else 1200
    out, problems = {}, []
    with concurrent.futures.ThreadPoolExecutor(max_workers=5) as ex:
        futs = {ex.submit(tieb.run, c, cases, seed, limit, None, None, priority): c for c in cfgs}
        for f in concurrent.futures.as_completed(futs):
            st, pr = f.result()
            out[futs[f]] = st
            problems += pr
    # C18 / C19: the items whose zeroize path comes from a `crate = ..` option (they cannot live in the probe crate above)
    if prop in ('C18', 'C19'):
        for c in cfgs:
            st, pr = tieb.run_crateopt(c)
            out[c]['crate_option_items'] = st['items']
            for q in pr:
                q['tag'] = 'zeroize' if prop == 'C18' else 'drop'
            problems += pr
    # the glue around the macro (macro paths, cfg, macro_rules!, `Self`, defaults): fixed crate, judged against the standard derive
    if prop in ('C02', 'C03', 'C04', 'C09', 'C10'):
        for c in cfgs:
            st, pr = tieb.run_extras(c)
            out[c]['glue_items'] = st['items']
            problems += pr
    # C12, thorough: the default-feature binary once more under Miri, which checks every executed operation for UB
    if prop == 'C12' and (tier == 'thorough' or os.environ.get('VERIF_MIRI') == '1'):
        st, pr = tieb.run('default', cases, seed, 160, r'^(disc|inc|skip|skip_inner|basic|rand)/', None, priority, False, True)
        out['default (Miri)'] = st
        problems += pr
    # C13: the real observations must be identical under default / safe / nightly (and zeroize for std traits)
    if prop == 'C13':
        base = out.get('default', {}).get('_iobs', {})
        for c in cfgs:
            if c == 'default':
                continue
            for cid, io in out[c].get('_iobs', {}).items():
                b = base.get(cid)
                if b is None or io is None:
                    continue
                for tag in sorted(set(b) & set(io)):
                    if b[tag] != io[tag]:
                        problems.append(dict(kind='cfg-difference', cfg=c, case=cid, tag=tag[2:], default=b[tag][:3], other=io[tag][:3],
                                             src=next(item_txt(it) for k, it in cases if k == cid)))
                        break
    stats = dict(items=sum(s['compared'] for s in out.values()), values=sum(s['values'] for s in out.values()),
                 observations=sum(s['observations'] for s in out.values()),
                 per_cfg={c: {k: v for k, v in s.items() if not k.startswith('_')} for c, s in out.items()},
                 samples=[x for s in out.values() for x in s.get('_samples', [])][:3])
    return stats, problems


# ------------------------------------------------------------------ rustc diagnostics of rejected items (tie C)
def tie_c(prop, cases, seed, tier):
    """rejected items and attribute token soups through the REAL proc-macro entry points, judged from rustc's JSON diagnostics"""
    import concurrent.futures
    import diag
    if prop not in ('C15', 'C16'):
        return None, []
    cfgs = PROPS[prop]['cfgs']
    n_soup = 400 if tier == 'quick' else 4000
    out, problems = {}, []
    with concurrent.futures.ThreadPoolExecutor(max_workers=10) as ex:
        futs = {ex.submit(diag.run, c, cases): ('rejected', c) for c in cfgs}
        futs.update({ex.submit(diag.run_non_adt, c): ('non_adt', c) for c in cfgs})
        if prop == 'C16':
            futs.update({ex.submit(diag.run_soups, c, seed, n_soup): ('soups', c) for c in cfgs})
        for f in concurrent.futures.as_completed(futs):
            st, pr = f.result()
            out.setdefault(futs[f][0], {})[futs[f][1]] = st
            problems += pr
    mine = []
    for p in problems:
        no_error = p['why'].startswith('the real macro raised no error')
        if (prop == 'C15' and no_error) or (prop == 'C16' and not no_error):
            mine.append(p)
    stats = dict(rejected_items_checked=sum(s['checked'] for s in out['rejected'].values()),
                 ill_posed_discarded=sum(s['ill_posed'] for s in out['rejected'].values()),
                 errors_seen=sum(s['errors_seen'] for s in out['rejected'].values()),
                 non_adt_items=sum(s['items'] for s in out.get('non_adt', {}).values()),
                 soups=sum(s['soups'] for s in out.get('soups', {}).values()),
                 soups_accepted=sum(s['accepted_without_error'] for s in out.get('soups', {}).values()),
                 per_cfg={k: {c: {a: b for a, b in s.items() if not a.startswith('_')} for c, s in v.items()} for k, v in out.items()},
                 samples=[x for s in out['rejected'].values() for x in s.get('_samples', [])][:2])
    return stats, mine


# ------------------------------------------------------------------ rustc's trait solver on the generated impls (tie D)
def tie_d(prop, tier, cases=(), priority=()):
    """trait-implemented probes for marker instantiations (D1) and must-fail / must-compile pairs (D2), real rustc, real macro"""
    import concurrent.futures
    import solver
    if prop not in ('C01', 'C02', 'C06', 'C09', 'C17'):
        return None, []
    cfgs = ['default', 'zeroize-on-drop'] if tier == 'quick' else PROPS[prop]['cfgs']
    cfgs = [c for c in cfgs if c in PROPS[prop]['cfgs']]
    jobs = []
    if prop in ('C01', 'C02', 'C09'):
        jobs += [('d1', c) for c in cfgs]
    if prop in ('C02', 'C06', 'C17'):
        jobs += [('d2', c) for c in cfgs]
    out, problems = {}, []
    with concurrent.futures.ThreadPoolExecutor(max_workers=6) as ex:
        extra = solver.corpus_items(cases, priority)
        futs = {(ex.submit(solver.run_d1, c, None, extra) if k == 'd1' else ex.submit(solver.run_d2, c)): (k, c) for k, c in jobs}
        for f in concurrent.futures.as_completed(futs):
            st, pr = f.result()
            out.setdefault(futs[f][0], {})[futs[f][1]] = st
            problems += pr
    mine = []
    for p in problems:
        cid = p['case']
        if prop == 'C01':
            ok = cid.startswith('d1/')
        elif prop == 'C09':
            ok = cid.startswith('d1/') and (p.get('trait') in ('Clone', 'Copy') or 'union' in cid)
        elif prop == 'C17':
            ok = cid.startswith('d2/eq') or cid.startswith('d2/union/')
        elif prop == 'C06':
            ok = cid.startswith('d2/traitless/') or cid.startswith('d2/eq')
        else:
            ok = True
        if ok:
            mine.append(p)
    stats = dict(trait_implemented_answers=sum(s['answers'] for s in out.get('d1', {}).values()),
                 items=sum(s['items'] for v in out.values() for s in v.values()),
                 must_fail_items=sum(s['must_fail'] for s in out.get('d2', {}).values()),
                 per_cfg={k: {c: {a: b for a, b in s.items() if not a.startswith('_')} for c, s in v.items()} for k, v in out.items()},
                 samples=[x for s in out.get('d1', {}).values() for x in s.get('_samples', [])][:2])
    return stats, mine


# ------------------------------------------------------------------ hostile scopes (tie E, C14)
def tie_e(prop, cases, seed, tier, priority):
    """the probe items inside a module that redefines every std name the expansion mentions (no prelude, inherent look-alike methods on
    the field type), run and compared with the model as in tie B; and inside a #![no_std] library crate (type-check only)"""
    import concurrent.futures
    import tieb
    if prop != 'C14':
        return None, []
    cfgs = PROPS[prop]['cfgs']
    limit = 160 if tier == 'quick' else 800
    out, problems = {}, []
    with concurrent.futures.ThreadPoolExecutor(max_workers=10) as ex:
        futs = {ex.submit(tieb.run, c, cases, seed, limit, None, None, priority, True): ('hostile', c) for c in cfgs}
        futs.update({ex.submit(tieb.run_nostd, c, cases, seed, limit * 2, priority): ('no_std', c) for c in cfgs})
        futs.update({ex.submit(tieb.run_crateopt, c): ('crate_option', c) for c in cfgs})
        for f in concurrent.futures.as_completed(futs):
            st, pr = f.result()
            out.setdefault(futs[f][0], {})[futs[f][1]] = {k: v for k, v in st.items() if not k.startswith('_')}
            for p in pr:
                p.setdefault('scope', futs[f][0])
                problems.append(p)
    known_f4 = [p for p in problems if p['kind'] == 'compile' and any('E0599' in e and '`from`' in e and 'raw pointer' in e for e in p['errors'])]
    rest = [p for p in problems if p not in known_f4]
    stats = dict(hostile_items=sum(s.get('compared', 0) for s in out['hostile'].values()), hostile_observations=sum(s.get('observations', 0) for s in out['hostile'].values()),
                 no_std_items=sum(s['items'] for s in out['no_std'].values()), crate_option_items=sum(s['items'] for s in out['crate_option'].values()),
                 known_F4_class_items=len(known_f4), per_cfg=out)
    return stats, rest


# ------------------------------------------------------------------ known findings
def known_findings(prop, cases):
    """open findings of this property whose witness still shows the failing construct in the REAL expansion"""
    path = os.path.join(VERIF, 'known_findings.json')
    if not os.path.exists(path):
        return []
    kf = json.load(open(path))
    out = []
    by_id = dict(cases)
    for f in kf.get('open', []):
        if prop not in f['properties'] or f['case'] not in by_id:
            continue
        ires, _ = impl_observations(cases, [f['cfg']])
        r = ires[f['cfg']].get(f['case'])
        if not r or r['status'] != 'ok':
            continue
        pat = f['tokens']
        hit = any(any(toks[j:j + len(pat)] == pat for j in range(len(toks) - len(pat) + 1)) for toks in r['impls'])
        if hit:
            out.append(f)
    return out


# ------------------------------------------------------------------ main
def write_evidence(prop, ev):
    os.makedirs(EVID, exist_ok=True)
    tmp = os.path.join(EVID, prop + '.json.tmp')
    with open(tmp, 'w') as fh:
        json.dump(ev, fh, indent=1, sort_keys=True)
    os.replace(tmp, os.path.join(EVID, prop + '.json'))


def write_replay(prop, n, payload):
    os.makedirs(REPLAYS, exist_ok=True)
    p = os.path.join(REPLAYS, '%s-%d.json' % (prop, n))
    with open(p, 'w') as fh:
        json.dump(payload, fh, indent=1)
    return p


def check(prop, tier, seed):
    t0 = time.time()
    violations = []     # (replay payload, found_input: bool)
    # 1. proofs
    ok, out = build_coq()
    src_problems = audit_sources()
    if not ok:
        m = re.search(r'File "\./([^"]+)", line (\d+)', out)
        audit = dict(theorems=[], obligations=1, discharged=0, statements=[], examples=[],
                     failures=['the Coq development does not build' + (' (%s line %s)' % (m.group(1), m.group(2)) if m else '') + ': ' + out[-800:]])
    else:
        audit = audit_property(prop)
    audit['failures'] += src_problems
    chk = None
    if ok and tier == 'thorough':
        chk, fs = coqchk_property(prop)
        audit['failures'] += fs
    for f in audit['failures']:
        violations.append((dict(kind='proof', property=prop, what=f, theorem_file='coq/Props/%s.v' % prop,
                                replay_cmd='cd /verif/coq && make -f Makefile.coq && coqc -Q . DW Props/%s.v' % prop), False))
    # 2. correspondence
    cases, dis, stats = tie_a(prop, tier, seed)
    xc = extraction_crosscheck(cases, seed)
    uncovered = {c: v['missing'] for c, v in stats['decision_cells'].items() if v['missing']}
    if uncovered and not dis:
        raise runner.Infra('the corpus of this run does not reach every decision cell of the generator: %r' % uncovered)
    mine = [d for d in dis if owns(prop, d)]
    others = len(dis) - len(mine)
    for d in sorted(mine, key=lambda d: len(d['src']))[:5]:
        payload = dict(kind='correspondence', property=prop, disagreement=d,
                       theorems_not_transferred=audit.get('theorems', []),
                       note='the Coq model and the implementation differ on this item in a slice this property owns; '
                            'the theorems of coq/Props/%s.v are about the model and no longer transfer to the code' % prop,
                       replay_cmd='./dwv replay <this file>')
        violations.append((payload, False))
    # 3. behaviour: real rustc, real macro; doubles as the search for a failing input
    bstats, bprobs = tie_b(prop, cases, seed, tier, {d['case'] for d in mine})
    kf_cases = {}
    if os.path.exists(os.path.join(VERIF, 'known_findings.json')):
        kf_cases = {f['case']: f for f in json.load(open(os.path.join(VERIF, 'known_findings.json'))).get('open', [])}
    tieA_cases = {(d['cfg'], d['case']) for d in dis}
    model_sem_mismatch = []
    found_cases = set()
    def known_symptom(p):
        # a problem on the witness of an open finding belongs to that finding only if it IS the recorded failure
        f = kf_cases.get(p['case'])
        if not f or not f.get('symptom') or p.get('kind') != 'compile':
            return False
        return any(re.search(f['symptom'], e) for e in p.get('errors', []))
    for p in bprobs:
        if known_symptom(p):
            continue
        owned = False
        if p['kind'] == 'behaviour' and p['against'] == 'R':
            owned = p['tag'] in TIEB_TAGS.get(prop, [])
        elif p['kind'] == 'behaviour' and p['against'] == 'G':
            if (p['cfg'], p['case']) in tieA_cases:
                continue        # the expansions differ on this item: the comparison with Spec (R) decides
            # The crate-private path produces the model's tokens for this item, yet what the REAL entry points expand to behaves
            # differently from Sem(Gen) - which the theorems equate with the reference semantics. Sem.v agrees with rustc on the
            # unchanged tree, so the difference was introduced outside tie A's reach (the proc_macro wrappers) or in Sem.v itself;
            # either way the property is no longer shown for this input, and the input is the replay.
            model_sem_mismatch.append(p)
            owned = p['tag'] in TIEB_TAGS.get(prop, [])
        elif p['kind'] == 'compile' and p.get('scope') == 'crate-option':
            owned = prop in ('C18', 'C19', 'C14')
        elif p.get('scope') == 'extras':
            # the fixed glue crate: it does not build (C02), or an observation differs from the standard derive's on the mirror type
            owned = prop == 'C02' or p['kind'] == 'std-mirror'
        elif p['kind'] == 'compile':
            # an accepted item whose real expansion does not compile: C02's subject, and a failing input for whichever property owns
            # the slice in which the model and the implementation differ on that very item
            owned = prop == 'C02' or p['case'] in {d['case'] for d in mine} or bool(derived_tags(p.get('src', '')) & set(TIEB_TAGS.get(prop, [])))
        elif p['kind'] == 'abort':
            owned = prop in ('C12', 'C02') or p.get('tag') in TIEB_TAGS.get(prop, [])
        elif p['kind'] == 'cfg-difference':
            owned = prop == 'C13'
        if owned and len(found_cases) < 5:
            found_cases.add(p['case'])
            q = {k: v for k, v in p.items() if k != 'values'}
            violations.insert(0, (dict(kind='failing-input', property=prop, observed=q,
                                       note='the real macro, compiled by rustc and run on this input, contradicts the reference semantics of the property',
                                       replay_cmd='./dwv replay <this file>'), True))
    cstats, cprobs = tie_c(prop, cases, seed, tier)
    for p in cprobs[:5]:
        found_cases.add(p['case'])
        violations.insert(0, (dict(kind='diagnostics', property=prop, observed=p,
                                   note='rustc, running the real proc-macro entry points on this item, reports diagnostics that contradict the property',
                                   replay_cmd='./dwv replay <this file>'), True))
    estats, eprobs = tie_e(prop, cases, seed, tier, {d['case'] for d in mine})
    for p in [p for p in eprobs if not known_symptom(p)][:5]:
        q = {k: v for k, v in p.items() if k != 'values'}
        violations.insert(0, (dict(kind='failing-input', property=prop, observed=q, hostile_scope=True,
                                   note='inside a hostile invocation scope (std names redefined, no prelude, look-alike inherent methods) or a no_std crate, '
                                        'the real expansion of this item does not compile or behaves differently',
                                   replay_cmd='./dwv replay <this file>'), True))
    dstats, dprobs = tie_d(prop, tier, cases, {d['case'] for d in mine})
    for p in dprobs[:5]:
        violations.insert(0, (dict(kind='solver', property=prop, observed=p,
                                   note='rustc, compiling the real expansion of this item, answers a trait query (or a compile pair) differently from what the property requires',
                                   replay_cmd='./dwv replay <this file>'), True))
    # a correspondence break that the behaviour run explains counts as found
    if found_cases:
        violations = [v for v in violations if v[1] or v[0].get('kind') != 'correspondence' or v[0]['disagreement']['case'] not in found_cases]
    for n, (payload, found) in enumerate(violations):
        if payload.get('kind') == 'correspondence' and payload['disagreement']['kind'] == 'unsafe-under-safe':
            violations[n] = (payload, True)      # the item whose real expansion contains `unsafe` under `safe` is the failing input
    # accept/reject flips and panics ARE the failing input for the front-end properties
    for n, (payload, found) in enumerate(violations):
        if not found and payload.get('kind') == 'correspondence' and payload['disagreement']['kind'] == 'status':
            violations[n] = (payload, True)
    known = known_findings(prop, cases)
    wall = time.time() - t0
    samples = list(audit.get('statements', []))[:2]
    for cid, it in cases[:1] + cases[len(cases) // 2:len(cases) // 2 + 1] + cases[-1:]:
        samples.append(dict(case=cid, item=item_txt(it)))
    ev = dict(
        property_id=prop, tier=tier, seed=seed, level='proof', wall_s=round(wall, 2), violations=len(violations),
        coverage=dict(
            obligations=max(1, audit['obligations']), discharged=audit['discharged'] if not audit['failures'] else 0,
            checker_cmd='make -C coq -f Makefile.coq (coqc, full .vo build) ; coqc -Q . DW Props/%s.v (statement pins + Print Assumptions)' % prop,
            trusted_base=TRUSTED_BASE,
            theorems=audit.get('theorems', []), nonvacuity_examples=audit.get('examples', []),
            coqchk=({k: v for k, v in chk.items() if k != 'tail'} if chk else 'thorough tier only'),
            evaluations=stats['compared'], distinct_nontrivial=stats['distinct_accepted_items'],
            rule='corpus S1 (systematic), S2 (random, seeded), S3 (invalid); every case is expanded by the real macro code and by the '
                 'extracted Coq model in each feature configuration of the property and compared token for token; evaluations = cases x feature sets; distinct_nontrivial = distinct items (ids are unique, generators never repeat an item) that the macro accepts in at least one feature set',
            programs=stats['cases'], traces_validated_against_impl=stats['compared'],
            correspondence=stats, disagreements_owned=len(mine), disagreements_other_properties=others,
            known_findings_reproduced=[k['id'] for k in known],
            behaviour=bstats if bstats else 'not applicable to this property',
            rustc_diagnostics=cstats if cstats else 'not applicable to this property',
            rustc_trait_solver=dstats if dstats else 'not applicable to this property',
            hostile_scopes=estats if estats else 'not applicable to this property',
            extraction_crosscheck_vm_compute=xc,
            samples=samples, exhaustive=False),
        assumptions=TRUSTED_BASE)
    write_evidence(prop, ev)
    print('%s %s: %d/%d theorems closed; correspondence: %d cases x %d cfgs, %d impls, %d tokens, %d disagreements (%d owned); %.1fs'
          % (prop, tier, ev['coverage']['discharged'], audit['obligations'], stats['cases'], len(stats['cfgs']), stats['impls_compared'],
             stats['tokens_compared'], len(dis), len(mine), wall))
    for k in known:
        print('KNOWN-FINDING: property=%s %s %s' % (prop, k['id'], k['what']))
    if bstats:
        print('behaviour (real rustc): %d items, %d values, %d observations compared with Sem(Gen) and Spec; %d problems (%d on known-finding witnesses)' % (bstats['items'], bstats['values'], bstats['observations'], len(bprobs), len([p for p in bprobs if known_symptom(p)])))
    if cstats:
        print('diagnostics (real rustc, real entry points): %d rejected items (%d errors, %d ill-posed discarded), %d token soups (%d accepted); %d problems'
              % (cstats['rejected_items_checked'], cstats['errors_seen'], cstats['ill_posed_discarded'], cstats['soups'], cstats['soups_accepted'], len(cprobs)))
    if estats:
        print('hostile scopes (real rustc): %d items run inside a scope redefining every std name (%d observations agree with the model), %d items type-checked in a no_std crate; '
              '%d items fail only with the known F4 diagnostic; %d problems' % (estats['hostile_items'], estats['hostile_observations'], estats['no_std_items'], estats['known_F4_class_items'],
                                                                         len([p for p in eprobs if not known_symptom(p)])))
    if dstats:
        print('trait solver (real rustc): %d items, %d `Item<M1, M2>: Trait` answers compared with the documented rule and the model\'s where-clauses, %d must-fail items; %d problems'
              % (dstats['items'], dstats['trait_implemented_answers'], dstats['must_fail_items'], len(dprobs)))
    if model_sem_mismatch:
        p = model_sem_mismatch[0]
        print('note: the real entry points and Sem(Gen) differ although the crate-private expansion equals the model\'s (%d observations, first: %s %s tag=%s)'
              % (len(model_sem_mismatch), p['cfg'], p['case'], p['tag']))
    if stats['generator_errors']:
        print('note: %d generated items were not parsable Rust (generator bug, ignored)' % stats['generator_errors'])
    if not violations:
        return 0
    for n, (payload, found) in enumerate(violations[:5]):
        p = write_replay(prop, n, payload)
        print('VIOLATION property=%s replay=%s%s' % (prop, p, '' if found else ' no-failing-input-found'))
    return 1


def cleanup_stale_scratch(max_age_s=3 * 3600):
    """scratch copies are removed by the code that makes them; a killed run can leave one behind: remove ours once they are old"""
    import shutil
    root = runner.SCRATCH_ROOT
    try:
        for n in os.listdir(root):
            if n.startswith(('dwcoq-', 'dwverif-', 'dwprobe-', 'dwdiag-', 'dwsolver-', 'dwnostd-', 'dwcrateopt-', 'dwextras-', 'dwmut-')):
                p = os.path.join(root, n)
                age = max_age_s * (6 if n.startswith('dwmut-') else 1)     # a mutation run legitimately lasts hours
                if os.path.isdir(p) and time.time() - os.path.getmtime(p) > age:
                    shutil.rmtree(p, ignore_errors=True)
    except OSError:
        pass
    # the observation cache is keyed by source hashes, so entries of trees that no longer exist are never read again
    try:
        now = time.time()
        ents = [(os.path.getmtime(os.path.join(runner.CACHE, n)), os.path.getsize(os.path.join(runner.CACHE, n)), n) for n in os.listdir(runner.CACHE)]
        total = sum(e[1] for e in ents)
        for mt, sz, n in sorted(ents):
            if now - mt > 36 * 3600 or total > 3 * 2 ** 30:
                try:
                    os.remove(os.path.join(runner.CACHE, n))
                    total -= sz
                except OSError:
                    pass
    except OSError:
        pass


def main(argv):
    ap = argparse.ArgumentParser(prog='dwv')
    sp = ap.add_subparsers(dest='cmd', required=True)
    c = sp.add_parser('check')
    c.add_argument('prop')
    c.add_argument('--tier', default=os.environ.get('VERIF_TIER', 'quick'), choices=['quick', 'thorough'])
    r = sp.add_parser('replay')
    r.add_argument('path')
    a = ap.parse_args(argv)
    seed = int(os.environ.get('VERIF_SEED', '1') or 1)
    cleanup_stale_scratch()
    try:
        if a.cmd == 'check':
            if a.prop not in PROPS:
                print('unknown property', a.prop)
                return 2
            return check(a.prop, a.tier, seed)
        else:
            import replay
            return replay.main(a.path)
    except runner.Infra as e:
        print('INFRASTRUCTURE FAILURE (no verdict):', e)
        return 2
    except Exception:
        import traceback
        print('INFRASTRUCTURE FAILURE (no verdict): the machinery itself raised an exception')
        traceback.print_exc()
        return 2
