//! Correspondence driver: appended (as a `#[cfg(test)]` module) to a scratch COPY of
//! derive-where's `src/`. Reads `id<TAB>item source` lines from `$VERIF_IN`, runs the
//! crate-private entry points on each and writes flattened token lists to `$VERIF_OUT`.
use std::{
	io::{BufRead, Write},
	iter,
};

use proc_macro2::{Delimiter, TokenStream, TokenTree};
use quote::ToTokens;
use syn::{spanned::Spanned, DeriveInput};

use crate::{generate_impl, input::Input};

fn flat(ts: TokenStream, out: &mut Vec<String>) {
	for tt in ts {
		match tt {
			TokenTree::Group(g) => {
				let (o, c) = match g.delimiter() {
					Delimiter::Parenthesis => ("(", ")"),
					Delimiter::Brace => ("{", "}"),
					Delimiter::Bracket => ("[", "]"),
					Delimiter::None => ("", ""),
				};
				if !o.is_empty() {
					out.push(o.into());
				}
				flat(g.stream(), out);
				if !c.is_empty() {
					out.push(c.into());
				}
			}
			TokenTree::Ident(i) => out.push(i.to_string()),
			TokenTree::Punct(p) => out.push(p.as_char().to_string()),
			TokenTree::Literal(l) => out.push(l.to_string()),
		}
	}
}

fn line_of(ts: TokenStream) -> String {
	let mut v = Vec::new();
	flat(ts, &mut v);
	v.join("\t")
}

fn one(src: &str, o: &mut dyn Write) {
	let ts: TokenStream = match src.parse() {
		Ok(ts) => ts,
		Err(e) => {
			writeln!(o, "LEX {:?}", e).unwrap();
			return;
		}
	};
	let span = ts.span();
	let item = match syn::parse2::<DeriveInput>(ts) {
		Ok(i) => i,
		Err(e) => {
			writeln!(o, "SYN {}", e).unwrap();
			return;
		}
	};
	// stage B: what `derive_where_actual` does
	let r = std::panic::catch_unwind(|| -> Result<Vec<String>, String> {
		let Input {
			derive_wheres,
			generics,
			item,
			..
		} = Input::from_input(span, &item).map_err(|e| e.to_string())?;
		Ok(derive_wheres
			.iter()
			.flat_map(|dw| iter::repeat(dw).zip(&dw.traits))
			.map(|(dw, t)| line_of(generate_impl(dw, t, &item, &generics)))
			.collect())
	});
	match r {
		Ok(Ok(impls)) => {
			writeln!(o, "OK {}", impls.len()).unwrap();
			for i in impls {
				writeln!(o, "I\t{}", i).unwrap();
			}
		}
		Ok(Err(e)) => writeln!(o, "ERR {}", e.replace('\n', " ")).unwrap(),
		Err(_) => writeln!(o, "PANIC").unwrap(),
	}
	// stage A: the attribute macro
	let item2 = item.clone();
	match std::panic::catch_unwind(move || crate::derive_where_internal(item2)) {
		Ok(Ok(ts)) => writeln!(o, "A\tOK\t{}", line_of(ts)).unwrap(),
		Ok(Err(e)) => writeln!(o, "A\tERR\t{}", e.to_string().replace('\n', " ")).unwrap(),
		Err(_) => writeln!(o, "A\tPANIC").unwrap(),
	}
	let item3 = item.clone();
	match std::panic::catch_unwind(move || {
		crate::input_without_derive_where_attributes(item3).into_token_stream()
	}) {
		Ok(ts) => writeln!(o, "S\t{}", line_of(ts)).unwrap(),
		Err(_) => writeln!(o, "S\tPANIC").unwrap(),
	}
}

#[test]
fn verif_dump() {
	let inp = std::env::var("VERIF_IN").unwrap();
	let outp = std::env::var("VERIF_OUT").unwrap();
	let f = std::io::BufReader::new(std::fs::File::open(inp).unwrap());
	let mut o = std::io::BufWriter::new(std::fs::File::create(outp).unwrap());
	std::panic::set_hook(Box::new(|_| {}));
	for line in f.lines() {
		let line = line.unwrap();
		let (id, src) = match line.split_once('\t') {
			Some(x) => x,
			None => continue,
		};
		writeln!(o, "CASE {}", id).unwrap();
		one(src, &mut o);
	}
	o.flush().unwrap();
}
