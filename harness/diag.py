"""Tie (C): rustc diagnostics of REJECTED items through the real proc-macro entry points.

The driver of tie (A) cannot call the two `proc_macro` wrappers (`derive_where`, `derive_where_actual`): a
`proc_macro::TokenStream` only exists inside a compiler invocation.  This probe covers exactly that glue.  A library
crate with one module per corpus item that the macro must reject is checked by rustc against /repo (path dependency);
the JSON diagnostics are attributed to modules by line range.  For every such item (C15, C16):

  * it owns at least one error                                    (the macro refused instead of generating impls)
  * none of its errors is a proc-macro panic                      (C16)
  * all of its errors are the macro's own `compile_error!`s       (no error code; C16: "the only errors the user sees")
  * a later use of the item (`pub type Use = Item<..>;`) resolves (C16: the item stays defined)

A control crate with the same items stripped of every derive_where attribute must compile; an item that does not is
not "valid Rust once its derive_where attributes are removed" and is discarded as ill-posed.  A built-in control
module referring to a missing type must produce a resolution error, so that the fourth clause cannot pass blindly.
"""
import copy
import json
import os
import random
import re
import shutil
import subprocess
import sys
import tempfile

sys.path.insert(0, os.path.dirname(os.path.abspath(__file__)))
import runner
from items import CFGS, item_txt


def has_crate_option(it):
    for a in it['attrs']:
        if a[0] == 'Dw' and a[1][0] == 'List':
            for m in a[1][1]:
                if m[0] == 'NV' or (m[0] in ('P', 'L') and m[1][1] == ['crate']):
                    return True
    return False


def foreign_macro_attr(it):
    for a in it['attrs']:
        if a[0] == 'Other' and any('derive_where' in t for t in a[1][1]):
            return True
    return False


def strip_dw(it):
    it = copy.deepcopy(it)
    it['attrs'] = [a for a in it['attrs'] if a[0] != 'Dw']
    k = it['kind']
    if k[0] == 'Enum':
        for v in k[1]:
            v['attrs'] = [a for a in v['attrs'] if a[0] != 'Dw']
            for f in v['fields']:
                f['attrs'] = [a for a in f['attrs'] if a[0] != 'Dw']
    else:
        for f in k[2] if k[0] == 'Struct' else k[1]:
            f['attrs'] = [a for a in f['attrs'] if a[0] != 'Dw']
    return it


def fields_of(it):
    k = it['kind']
    if k[0] == 'Enum':
        return [f for v in k[1] for f in v['fields']]
    return k[2] if k[0] == 'Struct' else k[1]


def adapt(it):
    """unions: wrap the field types so that the item is valid Rust on its own"""
    it = copy.deepcopy(it)
    it['vis'] = ['pub']
    if it['kind'][0] == 'Union':
        for f in fields_of(it):
            f['ty'] = ['::', 'core', '::', 'mem', '::', 'ManuallyDrop', '<'] + f['ty'] + ['>']
    return it


def instantiation(it):
    args = []
    for p in it['generics']['params']:
        if p[0] == 'Lt':
            args.append("'static")
        elif p[0] == 'Ty':
            args.append('u8')
        else:
            args.append('3')
    return ('<' + ', '.join(args) + '>') if args else ''


def module(idx, it, use=True):
    return 'pub mod m%d {\n%s\n%s\npub type Use = %s%s;\n}' % (idx, '#[allow(unused_imports)] use derive_where::derive_where;' if use else '', item_txt(it), it['name'], instantiation(it))


CONTROL = 'pub mod control {\npub type Use = MissingItemOfTheControlModule<u8>;\n}'


def check_crate(cfg, mods, with_dep=True, expanded=None):
    """mods: [(idx, text)] -> {idx: [diag]}, control_seen; diag = dict(code, message, line, on_use)"""
    feats = CFGS[cfg]['features']
    scratch = tempfile.mkdtemp(prefix='dwdiag-', dir=runner.SCRATCH_ROOT)
    try:
        os.makedirs(os.path.join(scratch, 'src'))
        dep = 'derive-where = { path = "%s"%s }' % (runner.REPO, (', features = ["%s"]' % feats) if feats else '')
        deps = (dep if with_dep else '') + ('\nzeroize = "1"' if CFGS[cfg]['zeroize'] and with_dep else '')
        open(os.path.join(scratch, 'Cargo.toml'), 'w').write('[package]\nname = "diagprobe"\nversion = "0.0.0"\nedition = "2021"\n[workspace]\n[dependencies]\n%s\n' % deps)
        shutil.copy(runner.lockfile(), os.path.join(scratch, 'Cargo.lock'))
        head = '#![allow(dead_code, unused)]\n' + ('#![allow(internal_features)]\n' if cfg == 'nightly' else '')
        src, ranges, n = head, [], head.count('\n')
        for idx, text in mods + [(-1, CONTROL)]:
            lines = text.count('\n') + 1
            ranges.append((n + 1, n + lines, idx, text))
            src += text + '\n'
            n += lines
        open(os.path.join(scratch, 'src', 'lib.rs'), 'w').write(src)
        env = dict(os.environ)
        env.update(CARGO_TARGET_DIR=os.path.join(scratch, 'target'), CARGO_NET_OFFLINE='true')
        cmd = ['cargo'] + (['+nightly'] if cfg == 'nightly' else []) + ['check', '--offline', '-q', '--message-format=json']
        p = subprocess.run(cmd, cwd=scratch, env=env, stdout=subprocess.PIPE, stderr=subprocess.PIPE, text=True, timeout=3000)
        out = {idx: [] for idx, _ in mods}
        control = False
        seen_any = False
        for line in p.stdout.split('\n'):
            if not line.startswith('{'):
                continue
            try:
                j = json.loads(line)
            except ValueError:
                continue
            if j.get('reason') != 'compiler-message' or j.get('target', {}).get('name') != 'diagprobe':
                continue
            msg = j['message']
            if msg.get('level') != 'error':
                continue
            seen_any = True
            spans = [s for s in msg.get('spans', []) if s.get('is_primary')] or msg.get('spans', [])
            if not spans:
                continue
            ln = spans[0]['line_start']
            for lo, hi, idx, text in ranges:
                if lo <= ln <= hi:
                    if idx == -1:
                        control = True
                    else:
                        out[idx].append(dict(code=(msg.get('code') or {}).get('code'), message=msg['message'], line=ln - lo,
                                             on_use=(ln == hi - 1)))
        if not seen_any and p.returncode != 0:
            raise runner.Infra('diagnostics probe crate could not be checked:\n' + p.stderr[-3000:])
        # what the two entry points really emitted: rustc prints the expanded crate even when expansion reported errors
        if with_dep and expanded is not None:
            env['RUSTC_BOOTSTRAP'] = '1'
            cmd = ['cargo'] + (['+nightly'] if cfg == 'nightly' else []) + ['rustc', '--offline', '-q', '--', '-Zunpretty=expanded']
            q = subprocess.run(cmd, cwd=scratch, env=env, stdout=subprocess.PIPE, stderr=subprocess.DEVNULL, text=True, timeout=3000)
            cur = None
            for line in q.stdout.split('\n'):
                mm = re.match(r'pub mod ([ms])(\d+) \{$', line)
                if mm:
                    cur = int(mm.group(2))
                    expanded[cur] = ''
                elif line == '}':
                    cur = None
                elif cur is not None:
                    expanded[cur] += line + '\n'
        return out, control
    finally:
        shutil.rmtree(scratch, ignore_errors=True)


def cached(cfg, mods, with_dep=True):
    import gzip
    import hashlib
    import pickle
    h = hashlib.sha256()
    h.update((runner.repo_hash() if with_dep else 'control').encode())
    h.update(cfg.encode())
    h.update(open(os.path.abspath(__file__), 'rb').read())
    for i, m in mods:
        h.update(m.encode())
    key = os.path.join(runner.CACHE, 'diag-' + h.hexdigest()[:32] + '.pkl.gz')
    if os.path.exists(key):
        try:
            with gzip.open(key, 'rb') as fh:
                return pickle.load(fh)
        except Exception:
            pass
    with runner.lock(os.path.basename(key)):
        if os.path.exists(key):     # built meanwhile by a check running side by side
            try:
                with gzip.open(key, 'rb') as fh:
                    return pickle.load(fh)
            except Exception:
                pass
        expanded = {}
        res = check_crate(cfg, mods, with_dep, expanded)
        res = res + (expanded,)
        os.makedirs(runner.CACHE, exist_ok=True)
        import threading
        tmp = key + '.tmp%d.%d' % (os.getpid(), threading.get_ident())
        with gzip.open(tmp, 'wb') as fh:
            pickle.dump(res, fh)
        os.replace(tmp, key)
    return res


def select(cases, cfg, only=None):
    """items the MODEL rejects (stage A, or stage B with stage A accepting and no crate redirection)"""
    cand = [(cid, adapt(it)) for cid, it in cases if (not only or re.search(only, cid)) and not foreign_macro_attr(it)
            and any(a[0] == 'Dw' for a in it['attrs'])]      # without an item-level attribute the macro is never invoked
    ms = runner.run_model({cfg: cand})[cfg]
    sel = []
    for cid, it in cand:
        m = ms[cid]
        if m['stageA'] is None:
            continue
        if m['stageA'][0] == 'ERR':
            sel.append((cid, it, 'A', m['stageA'][1]))
        elif m['stageA'][0] == 'OK' and m['status'] == 'err' and not has_crate_option(it):
            sel.append((cid, it, 'B', m['err']))
    return sel


def run(cfg, cases, only=None, limit=None, seed=1):
    sel = select(cases, cfg, only)
    if limit and len(sel) > limit:
        random.Random(seed).shuffle(sel)
        sel = sorted(sel[:limit])
    stats = dict(cfg=cfg, rejected_items=len(sel), ill_posed=0, checked=0, errors_seen=0, by_stage={'A': 0, 'B': 0}, classes={})
    if not sel:
        return stats, []
    # control: the same items without any derive_where attribute must be valid Rust
    ctl_mods = [(i, module(i, strip_dw(it), use=False)) for i, (cid, it, st, cls) in enumerate(sel)]
    ctl, _, _ = cached(cfg if cfg == 'nightly' else 'default', ctl_mods, with_dep=False)
    good = [i for i in range(len(sel)) if not ctl[i]]
    stats['ill_posed'] = len(sel) - len(good)
    mods = [(i, module(i, sel[i][1])) for i in good]
    res, control, expanded = cached(cfg, mods)
    problems = []
    if not control:
        # rustc stopped before name resolution: a fatal error (e.g. the recursion limit, when a re-emitted item re-triggers the macro)
        fatal = [(i, d) for i in good for d in res[i] if d['code'] or re.search(r'recursion limit|panicked', d['message'])]
        for i, d in fatal[:5]:
            cid, it, stage, cls = sel[i]
            problems.append(dict(kind='diagnostics', cfg=cfg, case=cid, src=item_txt(it), stage=stage, model_class=cls,
                                 why='rustc stopped at a fatal error raised while expanding this item', errors=[(d['code'], d['message'][:200])]))
        if not problems:
            raise runner.Infra('diagnostics probe: the control module produced no resolution error, later uses cannot be judged')
        return stats, problems
    if len(expanded) != len(mods):
        raise runner.Infra('diagnostics probe: rustc printed %d of %d expanded modules' % (len(expanded), len(mods)))
    for i in good:
        cid, it, stage, cls = sel[i]
        ds = res[i]
        stats['checked'] += 1
        stats['by_stage'][stage] += 1
        stats['classes'][cls] = stats['classes'].get(cls, 0) + 1
        stats['errors_seen'] += len(ds)
        why = None
        if not ds:
            why = 'the real macro raised no error for an item the model rejects (%s)' % cls
        elif any('panicked' in d['message'] for d in ds):
            why = 'proc-macro panic'
        elif any(d['on_use'] for d in ds):
            why = 'a later use of the item does not resolve: the item was not re-emitted'
        elif any(d['code'] for d in ds):
            why = 'errors other than the macro\'s own diagnostics: ' + ', '.join(sorted({d['code'] for d in ds if d['code']}))
        else:
            # the item as the entry points left it (rustc's pretty-printed expansion of this module)
            x = expanded[i]
            kw = {'Struct': 'struct', 'Enum': 'enum', 'Union': 'union'}[it['kind'][0]]
            left = len(re.findall(r'derive_where\s*[(\[{\]=]', x))
            want = 0 if stage == 'A' else len(re.findall(r'derive_where\s*[(\[{\]=]', item_txt(it)))
            if not re.search(r'\b%s\s+%s\b' % (kw, re.escape(it['name'])), x):
                why = 'the item is not defined after the failed expansion (it was not re-emitted)'
            elif left != want:
                why = 'after the failed expansion the item carries %d derive_where attributes, expected %d' % (left, want)
            stats['expanded_items_inspected'] = stats.get('expanded_items_inspected', 0) + 1
        if why:
            problems.append(dict(kind='diagnostics', cfg=cfg, case=cid, src=item_txt(it), stage=stage, model_class=cls, why=why,
                                 errors=[(d['code'], d['message'][:160]) for d in ds[:4]]))
    stats['_samples'] = [dict(case=sel[i][0], item=item_txt(sel[i][1]), rustc=[d['message'][:100] for d in res[i][:2]]) for i in good[:2]]
    return stats, problems


# ---------------------------------------------------------------- the attribute on something that is not a struct, enum or union
NON_ADT = [
    ('fn', '#[derive_where(Clone)] pub fn f() {}', 'pub const USE: fn() = f;'),
    ('fn_generic', '#[derive_where(Clone; T)] pub fn g<T>(_: T) {}', 'pub const USE: fn(u8) = g::<u8>;'),
    ('type_alias', '#[derive_where(Debug)] pub type A<T> = ::core::marker::PhantomData<T>;', 'pub type Use = A<u8>;'),
    ('trait', '#[derive_where(Clone)] pub trait Tr {}', 'pub type Use = dyn Tr;'),
    ('const', '#[derive_where(Clone)] pub const K: u8 = 3;', 'pub const USE: u8 = K;'),
    ('static', '#[derive_where(Clone)] pub static ST: u8 = 3;', 'pub const USE: &u8 = &ST;'),
    ('mod', '#[derive_where(Clone)] pub mod inner { pub struct X; }', 'pub type Use = inner::X;'),
    ('impl', 'pub struct X; #[derive_where(Clone)] impl X { pub fn g() {} }', 'pub const USE: fn() = X::g;'),
    ('use', '#[derive_where(Clone)] pub use ::core::marker::PhantomData as PD;', 'pub type Use = PD<u8>;'),
    ('fn_with_options', '#[derive_where(skip_inner, incomparable)] pub fn h() {}', 'pub const USE: fn() = h;'),
]


def run_non_adt(cfg):
    """`derive_where` on an item that is not a struct, enum or union: nothing to derive from.  The third exit of the attribute
    entry point (syn cannot parse a DeriveInput) must report an ordinary error and still emit the item unchanged."""
    mods = [(i, 'pub mod m%d {\n#[allow(unused_imports)] use derive_where::derive_where;\n%s\n%s\n}' % (i, item, use)) for i, (tag, item, use) in enumerate(NON_ADT)]
    res, control, expanded = cached(cfg, mods)
    stats = dict(cfg=cfg, items=len(mods), errors_seen=sum(len(v) for v in res.values()))
    problems = []
    if not control:
        raise runner.Infra('non-ADT probe: the control module produced no resolution error, later uses cannot be judged')
    for i, (tag, item, use) in enumerate(NON_ADT):
        ds = res[i]
        why = None
        if not ds:
            why = 'the real macro raised no error for an item it cannot derive anything from (not a struct, enum or union)'
        elif any('panicked' in d['message'] for d in ds):
            why = 'proc-macro panic'
        elif any(d['on_use'] for d in ds):
            why = 'a later use of the item does not resolve: the item was not re-emitted'
        elif any(d['code'] for d in ds):
            why = 'errors other than the macro\'s own diagnostics: ' + ', '.join(sorted({d['code'] for d in ds if d['code']}))
        if why:
            problems.append(dict(kind='diagnostics', cfg=cfg, case='non_adt/' + tag, src=item, stage='A', model_class='not a DeriveInput', why=why,
                                 errors=[(d['code'], d['message'][:160]) for d in ds[:4]]))
    return stats, problems


# ---------------------------------------------------------------- S4: token soups below the meta-tree level (C16)
VOCAB = ['Clone', 'Copy', 'Debug', 'Default', 'Eq', 'Hash', 'Ord', 'PartialEq', 'PartialOrd', 'Zeroize', 'ZeroizeOnDrop',
         'skip', 'skip_inner', 'incomparable', 'default', 'crate', 'fqs', 'EqHashOrd', 'T', 'U', 'x', 'Self', 'for', 'where', 'dyn', 'impl',
         ',', ',', ';', ';', '=', '::', ':', '+', '<', '>', '?', '!', '&', '*', '-', '#', '.', '..', '=>', '->', '|', "'a", '"s"', '"::x"', '1', '1.5', "'c'", 'r#type', 'true']
BASES = [
    ('S', 'pub struct S<T, U> { %(f)s pub a: T, pub b: ::core::marker::PhantomData<U> }'),
    ('E', 'pub enum E<T, U> { %(v)s A(T), B { %(f)s x: ::core::marker::PhantomData<U> }, C }'),
    ('U', 'pub union U<T, U> { %(f)s a: ::core::mem::ManuallyDrop<T>, b: ::core::marker::PhantomData<U> }'),
    ('Tp', 'pub struct Tp<T, U>(%(f)s pub T, pub ::core::marker::PhantomData<U>);'),
]


def soup(rng, depth=0):
    out = []
    for _ in range(rng.choice([0, 1, 1, 2, 3, 4, 6, 9])):
        r = rng.random()
        if r < 0.18 and depth < 3:
            o, c = rng.choice(['()', '()', '[]', '{}'])
            out.append(o + ' ' + soup(rng, depth + 1) + ' ' + c)
        else:
            out.append(rng.choice(VOCAB))
    return ' '.join(out)


def near_valid(rng, level='item'):
    """a valid attribute body with one token-level mutation"""
    bodies = ['skip', 'skip(Debug)', 'skip(Debug, EqHashOrd)', 'skip(Hash)'] if level == 'field' else ['skip_inner', 'skip_inner(Debug)', 'incomparable', 'default'] if level == 'variant' else ['Clone, Debug; T', 'Clone; T', 'PartialEq, PartialOrd; T, T: Clone', 'Zeroize(crate = "x", fqs)', 'crate = ::dw', 'skip(Debug, EqHashOrd)',
              'skip_inner(Hash)', 'incomparable', 'default', 'Clone(x)', 'Default, Hash; T', 'Eq, PartialEq, Ord, PartialOrd; T', 'Clone, Copy; T',
              'Debug; Vec<T>', 'Hash; T: ::core::hash::Hash']
    toks = rng.choice(bodies).replace('(', ' ( ').replace(')', ' ) ').replace(',', ' , ').replace(';', ' ; ').split()
    k = rng.randrange(len(toks) + 1)
    r = rng.random()
    bal = {'(': ')', ')': '('}
    if r < 0.25:
        pass
    elif r < 0.4:
        toks.insert(k, rng.choice([t for t in VOCAB]))
    elif r < 0.6 and toks:
        j = rng.randrange(len(toks))
        if toks[j] not in bal:
            del toks[j]
    elif r < 0.8 and toks:
        j = rng.randrange(len(toks))
        if toks[j] not in bal:
            toks[j] = rng.choice(VOCAB)
    else:
        toks = toks + [rng.choice([',', ';', ',,', ';;'])]
    return ' '.join(toks)


def soup_modules(seed, n):
    rng = random.Random('soup/%d' % seed)
    mods = []
    for i in range(n):
        name, base = BASES[rng.randrange(len(BASES))]
        where = rng.choice(['item', 'item', 'item2', 'field', 'variant'])
        if name != 'E' and where == 'variant':
            where = 'field'
        if name == 'U' and where != 'item':
            name, base = BASES[0]
        gen = (lambda: near_valid(rng, where)) if rng.random() < 0.6 else (lambda: soup(rng))
        item_attrs, f, v = [], '', ''
        if where == 'item':
            item_attrs = ['#[derive_where(%s)]' % gen()]
        elif where == 'item2':
            item_attrs = ['#[derive_where(%s)]' % rng.choice(['Clone; T', 'Hash; T', 'Debug; T']), '#[derive_where(%s)]' % gen()]
            if rng.random() < 0.5:
                item_attrs.reverse()
        else:
            item_attrs = ['#[derive_where(%s)]' % rng.choice(['Clone, Debug, PartialEq; T', 'Debug, Default, Hash; T'])]
            form = rng.choice(['#[derive_where(%s)]', '#[derive_where(%s)]', '#[derive_where %s]', '#[derive_where = %s]'])
            body = gen()
            if form.endswith(' %s]'):
                body = rng.choice(['[%s]', '{%s}']) % body
            if form.endswith('= %s]'):
                body = rng.choice(['"x"', '1', 'skip'])
            if where == 'field':
                f = form % body
            else:
                v = form % body
        text = 'pub mod s%d {\n#[allow(unused_imports)] use derive_where::derive_where;\n%s\n%s\npub type Use = %s<u8, u8>;\n}' % (
            i, ' '.join(item_attrs), base % dict(f=f, v=v), name)
        mods.append((i, text))
    return mods


def run_soups(cfg, seed=1, n=400):
    mods = soup_modules(seed, n)
    res, control, expanded = cached(cfg, mods)
    stats = dict(cfg=cfg, soups=n, accepted_without_error=0, rejected=0, messages={})
    problems = []
    if not control:
        for i, text in mods:
            for d in res[i]:
                if re.search(r'recursion limit|panicked', d['message']) and len(problems) < 5:
                    problems.append(dict(kind='diagnostics', cfg=cfg, case='soup/%d/%d' % (seed, i), src=text.split('\n')[2] + ' ' + text.split('\n')[3], stage='?', model_class=None,
                                         why='rustc stopped at a fatal error raised while expanding this item', errors=[(d['code'], d['message'][:200])]))
        if not problems:
            raise runner.Infra('diagnostics probe: the control module produced no resolution error')
        return stats, problems
    for i, text in mods:
        ds = res[i]
        if not ds:
            stats['accepted_without_error'] += 1
        else:
            stats['rejected'] += 1
            k = re.sub(r'`[^`]*`', '`_`', ds[0]['message'])[:60]
            stats['messages'][k] = stats['messages'].get(k, 0) + 1
        why = None
        name = re.search(r'pub type Use = (\w+)<', text).group(1)
        if any('panicked' in d['message'] for d in ds):
            why = 'proc-macro panic'
        elif any(d['on_use'] for d in ds):
            why = 'a later use of the item does not resolve: the item was not re-emitted'
        elif not re.search(r'\b(struct|enum|union)\s+%s\b' % name, expanded.get(i, '')):
            why = 'the item is not defined after the expansion (it was not re-emitted)'
        if why:
            problems.append(dict(kind='diagnostics', cfg=cfg, case='soup/%d/%d' % (seed, i), src=text.split('\n')[2] + ' ' + text.split('\n')[3], stage='?', model_class=None, why=why,
                                 errors=[(d['code'], d['message'][:160]) for d in ds[:4]]))
    return stats, problems


if __name__ == '__main__':
    import corpus
    cfg = sys.argv[1] if len(sys.argv) > 1 else 'default'
    only = sys.argv[2] if len(sys.argv) > 2 else None
    if only == 'soup':
        st, pr = run_soups(cfg, 1, 400)
    else:
        st, pr = run(cfg, corpus.quick_corpus(1), only)
    print(st)
    for p in pr[:30]:
        print(p)
    print(len(pr), 'problems')
