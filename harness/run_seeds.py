"""Runs every check against every seeded change (applied to $VERIF_REPO, reverted afterwards) and
records which checks raise which violations.  Usage: python3 harness/run_seeds.py [seed-id ...]"""
import json
import os
import re
import subprocess
import sys

VERIF = os.path.dirname(os.path.dirname(os.path.abspath(__file__)))
REPO = os.environ.get('VERIF_REPO', '/repo')
PROPS = ['C%02d' % i for i in range(1, 20)]


def sh(cmd, **kw):
    return subprocess.run(cmd, stdout=subprocess.PIPE, stderr=subprocess.STDOUT, text=True, **kw)


def main():
    os.environ.setdefault('VERIF_EVIDENCE_DIR', '/var/tmp/dw-seed-evidence')
    os.environ.setdefault('VERIF_REPLAY_DIR', '/var/tmp/dw-seed-replays')
    seeds = sys.argv[1:] or sorted(d for d in os.listdir(os.path.join(VERIF, 'seeded')) if os.path.isdir(os.path.join(VERIF, 'seeded', d)))
    results = {}
    for s in seeds:
        patch = os.path.join(VERIF, 'seeded', s, 'patch.diff')
        r = sh(['git', '-C', REPO, 'apply', patch])
        if r.returncode != 0:
            results[s] = dict(error='patch does not apply: ' + r.stdout[-300:])
            print(s, 'PATCH FAILED', flush=True)
            continue
        try:
            row = {}
            for p in PROPS:
                r = sh([os.path.join(VERIF, 'dwv'), 'check', p], cwd=VERIF, timeout=3000)
                viol = re.findall(r'^VIOLATION property=\S+ replay=\S+(.*)$', r.stdout, re.M)
                row[p] = dict(exit=r.returncode, violations=len(viol), with_failing_input=sum(1 for v in viol if 'no-failing-input-found' not in v))
            results[s] = row
            hit = [p for p in PROPS if row[p]['exit'] == 1]
            found = [p for p in PROPS if row[p]['with_failing_input']]
            infra = [p for p in PROPS if row[p]['exit'] not in (0, 1)]
            print('%s raised by %s ; failing input found by %s%s' % (s, ','.join(hit) or '-', ','.join(found) or '-', (' ; NO VERDICT from ' + ','.join(infra)) if infra else ''), flush=True)
        finally:
            sh(['git', '-C', REPO, 'checkout', '--', '.'])
    out = os.path.join(VERIF, 'seeded', 'results.json')
    old = json.load(open(out)) if os.path.exists(out) else {}
    old.update(results)
    json.dump(old, open(out, 'w'), indent=1, sort_keys=True)


if __name__ == '__main__':
    main()
