"""Tie (B) driver: compile probe crates with the real macro, run, compare with Sem(Gen) and Spec."""
import os
import random
import re
import subprocess
import sys
import time

sys.path.insert(0, os.path.dirname(os.path.abspath(__file__)))
import corpus
import probe
import runner
from items import CFGS, item_txt


def rust_discs(it):
    k = it['kind']
    if k[0] != 'Enum':
        return []
    out, prev = [], None
    for v in k[1]:
        if v['disc'] is not None:
            prev = v['disc'][1]
        else:
            prev = 0 if prev is None else prev + 1
        out.append(prev)
    return out


def select(cases, cfg, limit, seed, only=None, priority=()):
    zero = CFGS[cfg]['zeroize']
    cand = []
    for cid, it in cases:
        if only and not re.search(only, cid):
            continue
        if not probe.probe_supported(it, zero):
            continue
        pit = probe.probe_item(it, zero)
        if pit is None:
            continue
        cand.append((cid, it, pit))
    # the model decides which probe items the macro accepts
    ms = runner.run_model({cfg: [(cid, pit) for cid, it, pit in cand]})[cfg]
    sel = []
    for cid, it, pit in cand:
        if ms[cid]['status'] != 'ok' or not ms[cid]['stageA'] or ms[cid]['stageA'][0] != 'OK':
            continue
        ts = set(probe.item_traits(it))
        if zero and not CFGS[cfg]['zod'] and 'ZeroizeOnDrop' in ts and 'Zeroize' not in ts:
            continue
        sel.append((cid, it, pit))
    if limit and len(sel) > limit:
        rng = random.Random(seed)
        first = [c for c in sel if c[0] in priority]
        # the order/* metamorphs repeat items of the other families in another order: they are probed when tie A disagrees
        # on them (priority), and otherwise leave the behaviour budget to the families they were derived from
        sel = [c for c in sel if c[0] not in priority and not c[0].startswith('order/')]
        limit = max(0, limit - len(first))
        # keep a spread over streams: round-robin over id prefixes
        groups = {}
        for c in sel:
            groups.setdefault('/'.join(c[0].split('/')[:2]), []).append(c)
        keys = sorted(groups)
        out = []
        while len(out) < limit and any(groups[k] for k in keys):
            for k in keys:
                if groups[k] and len(out) < limit:
                    out.append(groups[k].pop(rng.randrange(len(groups[k]))))
        sel = first + out
    return sel


def expected_from_model(tag, it, vals, mlines, prefix):
    """turn the model's lines for `tag` into the strings the implementation prints"""
    ls = mlines.get(prefix + '-' + tag)
    if ls is None:
        return None
    if tag in ('eq', 'cmp', 'pcmp', 'default'):
        return ls
    if tag == 'hash':
        return ls
    if tag == 'clone':
        out = []
        for (vi, fv), l in zip(vals, ls):
            if l in ('S', 'U', 'P'):
                out.append(l)
                continue
            view, pos = l.split('|')
            positions = [int(x) for x in pos.split(',') if x]
            out.append(view + '|' + ''.join('%d,' % fv[p] for p in positions))
        return out
    if tag in ('debug', 'debugp'):
        src = mlines.get(prefix + '-debug')
        if src is None:
            return None
        return [l if l in ('S', 'U', 'P') else probe.render_trace(l, tag == 'debugp').replace('\\', '\\\\').replace('\n', '\\n') for l in src]
    if tag == 'zeroize':
        out = []
        for (vi, fv), l in zip(vals, ls):
            if l in ('S', 'U', 'P'):
                out.append(l)
                continue
            st, log = list(fv), []
            for e in [x for x in l.split(';') if x]:
                p = int(e[1:])
                log.append(st[p] + (50 if e[0] == 'm' else 0))      # method-call syntax reaches the probe's inherent look-alike
                st[p] = 0
            out.append('%d:%s|%s' % (vi, ''.join('%d,' % x for x in st), ''.join('%d,' % x for x in log)))
        return out
    if tag == 'drop' and prefix == 'R':
        # the property itself: at release every unskipped field of the live variant is zero, the others keep their value
        out = []
        for (vi, fv), l in zip(vals, ls):
            st = list(fv)
            for e in [x for x in l.split(';') if x]:
                st[int(e[1:])] = 0
            out.append('released:' + ''.join('%d,' % x for x in st))
        return out
    if tag == 'drop':
        zl = mlines.get(prefix + '-zeroize') or mlines.get('G-zeroize')
        out = []
        for n, ((vi, fv), l) in enumerate(zip(vals, ls)):
            if l in ('S', 'U', 'P'):
                out.append(l)
                continue
            st, log = list(fv), []
            for e in [x for x in l.split(';') if x]:
                if e == 'D':
                    if zl is None:
                        return None
                    for z in [x for x in zl[n].split(';') if x]:
                        p = int(z[1:])
                        log.append(st[p] + (50 if z[0] == 'm' else 0))
                        st[p] = 0
                else:
                    p = int(e[1:])
                    log.append(st[p] + (50 if e[0] == 'm' else 0))
                    st[p] = 0
            log += [100 + x for x in st]
            out.append('%d:%s|%s' % (vi, ''.join('%d,' % x for x in fv), ''.join('%d,' % x for x in log)))
        return out
    return None


def normalise_impl(tag, it, vals, ls):
    if tag != 'hash':
        return ls
    discs = rust_discs(it)
    out = []
    for (vi, fv), l in zip(vals, ls):
        nums = [int(x) for x in l.split(';') if x]
        pairs = list(zip(nums[0::2], [-x for x in nums[1::2]]))
        s = ''
        if it['kind'][0] == 'Enum':
            if not pairs:
                out.append('<no discriminant write>')
                continue
            v, ln = pairs[0]
            mod = 1 << (8 * ln)
            idx = [i for i, d in enumerate(discs) if d % mod == v % mod]
            s += 'd%s;' % (idx[0] if len(idx) == 1 else '?%d' % v)
            pairs = pairs[1:]
        s += ''.join('%d;' % v for v, ln in pairs)
        out.append(s)
    return out


def cached_build_and_run(cfg, modules, keep_src, hostile=False, miri=False):
    """observations of the real expansions are cached (text only), keyed by the sources of /repo and of the probe crate"""
    import hashlib, gzip, pickle
    h = hashlib.sha256()
    h.update(runner.repo_hash().encode())
    h.update(cfg.encode())
    h.update(open(os.path.join(os.path.dirname(os.path.abspath(__file__)), 'probe.py'), 'rb').read())
    h.update(probe.PRELUDE.encode())
    h.update(probe.ZPRELUDE.encode())
    h.update(b'hostile' if hostile else b'plain')
    h.update(b'miri' if miri else b'native')
    for i, m in modules:
        h.update(m.encode())
    key = os.path.join(runner.CACHE, 'probe-' + h.hexdigest()[:32] + '.pkl.gz')
    if os.path.exists(key) and not keep_src:
        try:
            with gzip.open(key, 'rb') as fh:
                return pickle.load(fh)
        except Exception:
            pass
    with runner.lock(os.path.basename(key)):
        if os.path.exists(key) and not keep_src:
            try:
                with gzip.open(key, 'rb') as fh:
                    return pickle.load(fh)
            except Exception:
                pass
        res = probe.build_and_run(cfg, modules, runner.REPO, runner.SCRATCH_ROOT, keep_src, hostile, miri)
        _store(key, res)
    return res


def _store(key, res):
    import gzip, pickle, threading
    os.makedirs(runner.CACHE, exist_ok=True)
    import threading
    tmp = key + '.tmp%d.%d' % (os.getpid(), threading.get_ident())
    with gzip.open(tmp, 'wb') as fh:
        pickle.dump(res, fh)
    os.replace(tmp, key)
    return res


TAGS = ['eq', 'cmp', 'pcmp', 'hash', 'clone', 'default', 'debug', 'debugp', 'zeroize', 'drop']


def run(cfg, cases, seed=1, limit=300, only=None, keep_src=None, priority=(), hostile=False, miri=False):
    t0 = time.time()
    if hostile:
        cases = [c for c in cases if probe.hostile_ok(c[1])]
    sel = select(cases, cfg, limit, seed, only, priority)
    rng = random.Random(seed)
    zero = CFGS[cfg]['zeroize']
    plan, modules, lines = [], [], []
    for idx, (cid, it0, pit) in enumerate(sel):
        it = pit
        ts = set(probe.item_traits(it))
        dom = [1, 2] if zero else ([0, 1, 2] if ts & {'Eq', 'Ord'} else [0, 1, 2, 3])
        vals = probe.enum_values(it, dom, random.Random('%d/%s' % (seed, cid)))
        plan.append((cid, it, pit, vals))
        modules.append((idx, probe.item_module(idx, cid, it, vals, zero, hostile)))
        lines.append(probe.sx_observe(cid, cfg, pit, vals))
    stats = dict(cfg=cfg, selected=len(sel), values=sum(len(p[3]) for p in plan), compared=0, observations=0, compile_errors=0, aborted=None)
    if not sel:
        return stats, []
    ok, out, err = cached_build_and_run(cfg, modules, keep_src, hostile, miri)
    problems = []
    # items whose real expansion does not compile are attributed by line number, reported, and left out of the next build; rustc
    # reports in passes (resolution and type errors first, deny-by-default lints such as `overflowing_literals` only once those are
    # gone), so this is repeated until the crate builds
    all_bad = set()
    for round_ in range(6):
        if ok:
            break
        stats['compile_errors'] += err.count('error')
        cur = [m for m in modules if m[0] not in all_bad]
        src = probe.PRELUDE + (probe.ZPRELUDE if zero else '') + (probe.HOSTILE_PRELUDE if hostile else '')
        base = src.count('\n')
        starts, n = [], base
        for idx, m in cur:
            starts.append((n + 1, idx))
            n += m.count('\n') + 1
        bad = {}
        for mm in re.finditer(r'src/main\.rs:(\d+):\d+: error(\[E\d+\])?: (.*)', err):
            ln = int(mm.group(1))
            owner = None
            for st, idx in starts:
                if st <= ln:
                    owner = idx
            if owner is not None:
                bad.setdefault(owner, []).append((mm.group(2) or '') + ' ' + mm.group(3))
        for idx, msgs in bad.items():
            cid, it, pit, vals = plan[idx]
            problems.append(dict(kind='compile', cfg=cfg, case=cid, src=item_txt(pit), errors=msgs[:4]))
        if not bad:
            raise runner.Infra('probe crate failed to build%s:\n' % (' after removing failing items' if all_bad else '') + err[-3000:])
        all_bad |= set(bad)
        ok, out, err = cached_build_and_run(cfg, [m for m in modules if m[0] not in all_bad], None, hostile, miri)
    if not ok:
        raise runner.Infra('probe crate failed to build after removing failing items six times:\n' + err[-3000:])
    if all_bad:
        plan = [p for i, p in enumerate(plan) if i not in all_bad]
        lines = [probe.sx_observe(cid, cfg, pit, vals) for cid, it, pit, vals in plan]
    iobs = probe.parse_obs(out)
    aborted = {}
    lines_out = out.split('\n')
    for n, l in enumerate(lines_out):
        if l.startswith('ABORTED '):
            aborted[l[8:]] = (lines_out[n + 1] if n + 1 < len(lines_out) else '', lines_out[n + 2][8:].split() if n + 2 < len(lines_out) and lines_out[n + 2].startswith('PARTIAL') else [])
    stats['aborted'] = sorted(aborted) or None
    p = subprocess.run([runner.MODEL_DRIVER], input='\n'.join(lines) + '\n', stdout=subprocess.PIPE, stderr=subprocess.PIPE, text=True, timeout=1200)
    if p.returncode != 0:
        raise runner.Infra('model driver failed: ' + p.stderr[-2000:])
    mobs = probe.parse_obs(p.stdout)
    for cid, it, pit, vals in plan:
        io, mo = iobs.get(cid), mobs.get(cid)
        if cid in aborted:
            stderr, partial = aborted[cid]
            order = [('PartialEq', 'eq'), ('Ord', 'cmp'), ('PartialOrd', 'pcmp'), ('Hash', 'hash'), ('Clone', 'clone'), ('Default', 'default'),
                     ('Debug', 'debug'), ('Zeroize', 'zeroize'), ('ZeroizeOnDrop', 'drop')]
            mine = [tg for tr, tg in order if tr in probe.item_traits(pit)]
            tag = None
            for tg in mine:
                n = partial.count('I-' + tg)
                if n < (1 if tg == 'default' else len(vals)):
                    tag = tg
                    break
            row = partial.count('I-' + tag) if tag else None
            problems.append(dict(kind='abort', cfg=cfg, case=cid, src=item_txt(pit), stderr=stderr[-500:], tag=tag,
                                 value=vals[row] if row is not None and row < len(vals) else None, values=vals))
            continue
        if io is None:
            problems.append(dict(kind='missing', cfg=cfg, case=cid, src=item_txt(pit)))
            continue
        stats['compared'] += 1
        # Debug against the STANDARD derive on a mirror type (items without any skip): no model involved
        for a, b, tg in (('I-debug', 'I-stddebug', 'debug'), ('I-debugp', 'I-stddebugp', 'debugp'), ('I-eq', 'I-stdeq', 'eq'), ('I-cmp', 'I-stdcmp', 'cmp'),
                         ('I-pcmp', 'I-stdpcmp', 'pcmp')):      # (not the hasher input: std omits the discriminant of single-variant enums; C08 does not ask for std's bytes)
            if b in io and a in io:
                stats['std_derive_compared'] = stats.get('std_derive_compared', 0) + len(io[b])
                if io[a] != io[b]:
                    k = next((j for j in range(min(len(io[a]), len(io[b]))) if io[a][j] != io[b][j]), 0)
                    problems.append(dict(kind='behaviour', against='R', what='the standard derive on a mirror type', tag=tg, cfg=cfg, case=cid, src=item_txt(pit),
                                         value=vals[k] if k < len(vals) else None, values=vals, implementation=io[a][k] if k < len(io[a]) else None, model=io[b][k] if k < len(io[b]) else None))
        for tag in TAGS:
            il = io.get('I-' + tag)
            if il is None:
                continue
            il = normalise_impl(tag, it, vals, il)
            for prefix, what in (('G', 'semantics of the generated code (Sem o Gen)'), ('R', 'reference semantics (Spec)')):
                ex = expected_from_model(tag, it, vals, mo or {}, prefix)
                if ex is None:
                    continue
                if tag == 'drop' and prefix == 'R':
                    il = ['released:' + ''.join('%d,' % (int(x) - 100) for x in l.split('|')[1].split(',') if x and int(x) >= 100) for l in il]
                stats['observations'] += len(il)
                if ex != il:
                    k = next((j for j in range(min(len(ex), len(il))) if ex[j] != il[j]), min(len(ex), len(il)))
                    problems.append(dict(kind='behaviour', against=prefix, what=what, tag=tag, cfg=cfg, case=cid, src=item_txt(pit),
                                         value=vals[k] if k < len(vals) else None, values=vals,
                                         implementation=il[k] if k < len(il) else None, model=ex[k] if k < len(ex) else None))
    stats['wall_s'] = round(time.time() - t0, 1)
    stats['_iobs'] = {cid: iobs.get(cid) for cid, it, pit, vals in plan}
    stats['_samples'] = [dict(case=cid, item=item_txt(pit), values=vals[:4]) for cid, it, pit, vals in plan[:2]]
    return stats, problems


NOSTD_PRELUDE = r'''#![no_std]
#![allow(warnings)]
use core::{cmp::Ordering, fmt, hash::{Hash, Hasher}, marker::PhantomData};
use derive_where::derive_where;
pub trait Tr {}
pub trait Tr2 {}
#[derive(Clone, Copy, Debug, Default, PartialEq, Eq, PartialOrd, Ord, Hash)]
pub struct X;
impl Tr for X {}
impl Tr2 for X {}
impl Tr for u8 {}
impl Tr2 for u8 {}
pub struct P<TT: ?Sized>(pub u8, pub PhantomData<TT>);
impl<TT: ?Sized> Clone for P<TT> { fn clone(&self) -> Self { P(self.0, PhantomData) } }
impl<TT: ?Sized> Copy for P<TT> {}
impl<TT: ?Sized> PartialEq for P<TT> { fn eq(&self, o: &Self) -> bool { self.0 == o.0 } }
impl<TT: ?Sized> Eq for P<TT> {}
impl<TT: ?Sized> PartialOrd for P<TT> { fn partial_cmp(&self, o: &Self) -> Option<Ordering> { Some(self.0.cmp(&o.0)) } }
impl<TT: ?Sized> Ord for P<TT> { fn cmp(&self, o: &Self) -> Ordering { self.0.cmp(&o.0) } }
impl<TT: ?Sized> Hash for P<TT> { fn hash<H: Hasher>(&self, s: &mut H) { s.write_u8(self.0) } }
impl<TT: ?Sized> Default for P<TT> { fn default() -> Self { P(0, PhantomData) } }
impl<TT: ?Sized> fmt::Debug for P<TT> { fn fmt(&self, f: &mut fmt::Formatter<'_>) -> fmt::Result { f.write_str("p") } }
'''
NOSTD_ZPRELUDE = r'''
impl zeroize::Zeroize for X { fn zeroize(&mut self) {} }
pub struct Z<TT: ?Sized>(pub u8, pub PhantomData<TT>);
impl<TT: ?Sized> zeroize::Zeroize for Z<TT> { fn zeroize(&mut self) { self.0 = 0; } }
impl<TT: ?Sized> Clone for Z<TT> { fn clone(&self) -> Self { Z(self.0, PhantomData) } }
impl<TT: ?Sized> fmt::Debug for Z<TT> { fn fmt(&self, f: &mut fmt::Formatter<'_>) -> fmt::Result { f.write_str("z") } }
impl<TT: ?Sized> PartialEq for Z<TT> { fn eq(&self, o: &Self) -> bool { self.0 == o.0 } }
impl<TT: ?Sized> Eq for Z<TT> {}
impl<TT: ?Sized> PartialOrd for Z<TT> { fn partial_cmp(&self, o: &Self) -> Option<Ordering> { Some(self.0.cmp(&o.0)) } }
impl<TT: ?Sized> Ord for Z<TT> { fn cmp(&self, o: &Self) -> Ordering { self.0.cmp(&o.0) } }
impl<TT: ?Sized> Hash for Z<TT> { fn hash<H: Hasher>(&self, s: &mut H) { s.write_u8(self.0) } }
impl<TT: ?Sized> Default for Z<TT> { fn default() -> Self { Z(0, PhantomData) } }
'''


def run_nostd(cfg, cases, seed=1, limit=300, priority=()):
    """the same probe items inside a #![no_std] library crate: must type-check (C14)"""
    import hashlib, gzip, pickle, json, shutil, tempfile, threading
    sel = select(cases, cfg, limit, seed, None, priority)
    zero = CFGS[cfg]['zeroize']
    src = NOSTD_PRELUDE + (NOSTD_ZPRELUDE if zero else '')
    ranges, n = [], src.count('\n')
    for idx, (cid, it0, pit) in enumerate(sel):
        text = 'pub mod m%d {\nuse super::*;\n%s\n}' % (idx, item_txt(pit))
        lines = text.count('\n') + 1
        ranges.append((n + 1, n + lines, idx))
        src += text + '\n'
        n += lines
    key = os.path.join(runner.CACHE, 'nostd-' + hashlib.sha256((runner.repo_hash() + cfg + src).encode()).hexdigest()[:32] + '.pkl.gz')
    errs = None
    if os.path.exists(key):
        try:
            with gzip.open(key, 'rb') as fh:
                errs = pickle.load(fh)
        except Exception:
            errs = None
    if errs is None:
        scratch = tempfile.mkdtemp(prefix='dwnostd-', dir=runner.SCRATCH_ROOT)
        try:
            os.makedirs(os.path.join(scratch, 'src'))
            feats = CFGS[cfg]['features']
            dep = 'derive-where = { path = "%s"%s }' % (runner.REPO, (', features = ["%s"]' % feats) if feats else '')
            deps = dep + ('\nzeroize = { version = "1", default-features = false }' if zero else '')
            open(os.path.join(scratch, 'Cargo.toml'), 'w').write('[package]\nname = "nostdprobe"\nversion = "0.0.0"\nedition = "2021"\n[workspace]\n[dependencies]\n%s\n' % deps)
            shutil.copy(runner.lockfile(), os.path.join(scratch, 'Cargo.lock'))
            open(os.path.join(scratch, 'src', 'lib.rs'), 'w').write(src)
            env = dict(os.environ)
            env.update(CARGO_TARGET_DIR=os.path.join(scratch, 'target'), CARGO_NET_OFFLINE='true')
            cmd = ['cargo'] + (['+nightly'] if cfg == 'nightly' else []) + ['check', '--offline', '-q', '--message-format=json']
            p = subprocess.run(cmd, cwd=scratch, env=env, stdout=subprocess.PIPE, stderr=subprocess.PIPE, text=True, timeout=3000)
            errs = []
            for line in p.stdout.split('\n'):
                if line.startswith('{'):
                    try:
                        j = json.loads(line)
                    except ValueError:
                        continue
                    if j.get('reason') == 'compiler-message' and j.get('target', {}).get('name') == 'nostdprobe' and j['message'].get('level') == 'error':
                        sp = [x for x in j['message'].get('spans', []) if x.get('is_primary')] or j['message'].get('spans', [])
                        errs.append(dict(line=sp[0]['line_start'] if sp else 0, code=(j['message'].get('code') or {}).get('code'), message=j['message']['message']))
            if p.returncode != 0 and not errs:
                raise runner.Infra('no_std probe crate could not be checked:\n' + p.stderr[-3000:])
        finally:
            shutil.rmtree(scratch, ignore_errors=True)
        os.makedirs(runner.CACHE, exist_ok=True)
        tmp = key + '.tmp%d.%d' % (os.getpid(), threading.get_ident())
        with gzip.open(tmp, 'wb') as fh:
            pickle.dump(errs, fh)
        os.replace(tmp, key)
    problems = []
    by = {}
    for e in errs:
        for lo, hi, idx in ranges:
            if lo <= e['line'] <= hi:
                by.setdefault(idx, []).append(e)
    if errs and not by:
        raise runner.Infra('no_std probe crate failed outside the items: ' + repr(errs[:2]))
    for idx, es in by.items():
        cid, it0, pit = sel[idx]
        problems.append(dict(kind='compile', scope='no_std', cfg=cfg, case=cid, src=item_txt(pit), errors=['[%s] %s' % (e['code'], e['message'][:200]) for e in es[:3]]))
    return dict(cfg=cfg, items=len(sel), errors=len(errs)), problems


CRATEOPT_SRC = r'''#![allow(warnings)]
use std::marker::PhantomData;
pub mod reexp { pub use ::derive_where; ZREEXP }
use ::derive_where as dwalias;
extern crate derive_where as dw_root;
ZALIAS
pub struct NoTraits;
pub mod a { use super::*; use ::derive_where::derive_where;
    #[derive_where(crate = crate::reexp::derive_where)] #[derive_where(Clone, Debug, PartialEq; T)] pub struct S<T, U>(pub T, pub PhantomData<U>); }
pub mod b { use super::*; use ::derive_where::derive_where;
    #[derive_where(crate = dwalias)] #[derive_where(Clone, Debug, PartialEq; T)] pub enum S<T, U> { A(T), B { x: PhantomData<U> } } }
pub mod c { use std::marker::PhantomData; pub mod inner { pub use ::derive_where; } use ::derive_where::derive_where;
    #[derive_where(crate = self::inner::derive_where)] #[derive_where(Clone, Debug, PartialEq; T)] pub struct S<T, U>(pub T, pub PhantomData<U>); }
pub mod d { use std::marker::PhantomData; use ::derive_where::derive_where;
    #[derive_where(crate = super::reexp::derive_where)] #[derive_where(Clone, Debug, PartialEq; T)] pub struct S<T, U>(pub T, pub PhantomData<U>); }
pub mod e { use std::marker::PhantomData; use ::derive_where::derive_where;
    #[derive_where(crate = "crate::reexp::derive_where")] #[derive_where(Clone, Debug, PartialEq; T)] pub struct S<T, U>(pub T, pub PhantomData<U>); }
pub mod f { use std::marker::PhantomData; use ::derive_where::derive_where;
    /// a local module named like the renamed crate: only the path WITH its leading `::` reaches the real crate
    pub mod dw_root {}
    #[derive_where(crate = ::dw_root)] #[derive_where(Clone, Debug, PartialEq; T)] pub struct S<T, U>(pub T, pub PhantomData<U>); }
ZMODS
fn main() {
    let x = a::S::<u8, NoTraits>(3, PhantomData); assert!(x.clone() == x); assert_eq!(format!("{:?}", x), "S(3, PhantomData<crateopt::NoTraits>)");
    let y = b::S::<u8, NoTraits>::A(4); assert!(y.clone() == y && y != b::S::B { x: PhantomData });
    let z = c::S::<u8, NoTraits>(5, PhantomData); assert!(z.clone() == z);
    let w = d::S::<u8, NoTraits>(6, PhantomData); assert!(w.clone() == w);
    let v = e::S::<u8, NoTraits>(7, PhantomData); assert!(v.clone() == v);
    let u = f::S::<u8, NoTraits>(8, PhantomData); assert!(u.clone() == u);
    ZMAIN
    println!("CRATEOPT-OK");
}
'''
CRATEOPT_Z = dict(
    ZREEXP='pub use ::zeroize;',
    ZALIAS='use ::zeroize as zalias; extern crate zeroize as zz_root;',
    ZMODS=r'''pub mod za { use super::*; use ::derive_where::derive_where;
    #[derive_where(Zeroize(crate = crate::reexp::zeroize); T)] pub struct S<T, U>(pub T, pub PhantomData<U>); }
pub mod zd { use super::*; use ::derive_where::derive_where;
    /// a local module named like the renamed zeroize crate: only `::zz_root` with its leading `::` reaches the real one
    pub mod zz_root {}
    #[derive_where(Zeroize(crate = ::zz_root); T)] pub struct S<T, U>(pub T, pub PhantomData<U>); }
pub mod zb { use super::*; use ::derive_where::derive_where;
    #[derive_where(Zeroize(crate = zalias), ZeroizeOnDrop(crate = zalias))] pub enum S<T: ::zeroize::Zeroize, U> { A(T), B { x: PhantomData<U> } } }
pub mod zc { use super::*; use ::derive_where::derive_where;
    /// an inherent `zeroize` that wipes nothing: only the fully qualified call requested by `fqs` reaches the trait
    pub struct Tricky(pub u8); impl Tricky { pub fn zeroize(&mut self) {} } impl ::zeroize::Zeroize for Tricky { fn zeroize(&mut self) { self.0 = 0; } }
    #[derive_where(Zeroize(crate = "crate::reexp::zeroize"); T)] pub struct S<T, U> { #[derive_where(Zeroize(fqs))] pub a: Tricky, pub t: T, pub b: PhantomData<U> } }
''',
    ZMAIN=r'''{ use ::zeroize::Zeroize; let mut r = zd::S::<u8, NoTraits>(9, PhantomData); r.zeroize(); assert_eq!(r.0, 0); let mut s = za::S::<u8, NoTraits>(9, PhantomData); s.zeroize(); assert_eq!(s.0, 0);
      let mut t = zc::S::<u8, NoTraits> { a: zc::Tricky(9), t: 5, b: PhantomData }; t.zeroize(); assert_eq!((t.a.0, t.t), (0, 0), "the fqs field of an item with a crate option was not wiped through the trait");
      let mut u = zb::S::<u8, NoTraits>::A(9); u.zeroize(); if let zb::S::A(v) = &u { assert_eq!(*v, 0); } }''')


EXTRAS_SRC = r'''#![allow(warnings)]
use std::fmt::Debug;
use std::hash::{Hash, Hasher};
use std::marker::PhantomData;

pub struct NoTraits;

fn h<T: Hash>(t: &T) -> Vec<u8> {
    struct R(Vec<u8>);
    impl Hasher for R { fn finish(&self) -> u64 { 0 } fn write(&mut self, b: &[u8]) { self.0.extend_from_slice(b) } }
    let mut r = R(vec![]); t.hash(&mut r); r.0
}

/// the same observations on values of a `derive_where` type and on the corresponding values of a std-derive mirror type
macro_rules! same {
    ($what:expr, [$($a:expr),+], [$($m:expr),+]) => {{
        let xs = vec![$($a),+]; let ms = vec![$($m),+];
        assert_eq!(xs.len(), ms.len());
        for i in 0..xs.len() { for j in 0..xs.len() {
            assert_eq!(xs[i] == xs[j], ms[i] == ms[j], "{}: == on values {} {}", $what, i, j);
            assert_eq!(xs[i] != xs[j], ms[i] != ms[j], "{}: != on values {} {}", $what, i, j);
            assert_eq!(xs[i].partial_cmp(&xs[j]), ms[i].partial_cmp(&ms[j]), "{}: partial_cmp on values {} {}", $what, i, j);
            assert_eq!(xs[i].cmp(&xs[j]), ms[i].cmp(&ms[j]), "{}: cmp on values {} {}", $what, i, j);
            assert_eq!(h(&xs[i]) == h(&xs[j]), h(&ms[i]) == h(&ms[j]), "{}: hash on values {} {}", $what, i, j);
        }
            assert_eq!(format!("{:?}", xs[i]), format!("{:?}", ms[i]), "{}: Debug of value {}", $what, i);
            assert_eq!(format!("{:#?}", xs[i]), format!("{:#?}", ms[i]), "{}: alternate Debug of value {}", $what, i);
            assert_eq!(format!("{:?}", xs[i].clone()), format!("{:?}", ms[i].clone()), "{}: clone of value {}", $what, i);
        }
    }};
}

// ---- the macro reached through other paths than a plain `use derive_where::derive_where`
pub mod p1 { use super::*;
    #[::derive_where::derive_where(Clone, Debug, PartialEq, Eq, PartialOrd, Ord, Hash; T)] pub struct S<T, U>(pub T, pub PhantomData<U>); }
pub mod p2 { use super::*; extern crate derive_where as dwc;
    #[dwc::derive_where(Clone, Debug, PartialEq, Eq, PartialOrd, Ord, Hash; T)] pub enum S<T, U> { A(T), B { x: PhantomData<U> }, C } }
pub mod p3 { use super::*; use ::derive_where::derive_where as dw;
    #[dw(Clone, Debug; T)] #[derive_where(PartialEq, Eq, PartialOrd, Ord, Hash; T, (U,))] pub struct S<T, U>(pub T, pub PhantomData<U>); }
pub mod p4 { use super::*;
    #[derive_where::derive_where(Clone, Debug, PartialEq, Eq, PartialOrd, Ord, Hash; T)] #[derive_where(skip_inner(Debug))] pub struct S<T, U>(pub T, pub PhantomData<U>); }
pub mod m { use super::*;
    #[derive(Clone, Debug, PartialEq, Eq, PartialOrd, Ord, Hash)] pub struct S<T, U>(pub T, pub PhantomData<U>);
    #[derive(Clone, Debug, PartialEq, Eq, PartialOrd, Ord, Hash)] pub enum E<T, U> { A(T), B { x: PhantomData<U> }, C } }

// ---- fields / variants / helper attributes under #[cfg] and #[cfg_attr]
pub mod c1 { use super::*; use ::derive_where::derive_where;
    #[derive_where(Clone, Debug, PartialEq, Eq, PartialOrd, Ord, Hash; T)]
    pub struct S<T, U> { pub a: T, #[cfg(any())] pub gone: NoTraits, #[cfg(all())] pub b: u8, pub p: PhantomData<U> }
    #[derive_where(Clone, Debug, PartialEq, Eq, PartialOrd, Ord, Hash; T)]
    pub enum E<T, U> { A(T), #[cfg(any())] Gone(NoTraits), B { #[cfg(any())] g: NoTraits, x: u8 }, #[cfg(all())] C(PhantomData<U>) }
    #[derive_where(Clone, Debug, PartialEq; T)]
    pub struct K<T, U> { pub a: T, #[cfg_attr(all(), derive_where(skip(Debug)))] pub secret: u8, #[cfg_attr(any(), derive_where(skip))] pub shown: u8, pub p: PhantomData<U> }
}
pub mod c1m { use super::*;
    #[derive(Clone, Debug, PartialEq, Eq, PartialOrd, Ord, Hash)] pub struct S<T, U> { pub a: T, pub b: u8, pub p: PhantomData<U> }
    #[derive(Clone, Debug, PartialEq, Eq, PartialOrd, Ord, Hash)] pub enum E<T, U> { A(T), B { x: u8 }, C(PhantomData<U>) } }

// ---- items written by macro_rules!: captured `$t:ty`, `$e:expr`, `$f:ident` arrive as None-delimited groups
macro_rules! mk { ($(#[$a:meta])+ $name:ident, $t:ty, $f:ident) => {
    $(#[$a])+ pub struct $name<T, U> { pub $f: $t, pub t: T, pub p: PhantomData<U> } } }
macro_rules! mke { ($(#[$a:meta])+ $name:ident, $e:expr, $t:ty) => {
    $(#[$a])+ #[repr(i8)]
    pub enum $name<T, U> { A(T) = $e, B, C($t, PhantomData<U>) = -3, D } } }
pub mod g { use super::*; use ::derive_where::derive_where;
    mk!(#[derive_where(Clone, Debug, PartialEq, Eq, PartialOrd, Ord, Hash; T)] M, (u8, i16), val);
    mke!(#[derive_where(Clone, Debug, PartialEq, Eq, PartialOrd, Ord, Hash; T)] ME, 2 - 1, [u8; 2]);
    mke!(#[derive_where(Clone, Debug, PartialEq, Eq, PartialOrd, Ord, Hash; T)] MF, 100 + 20, Option<u8>); }
pub mod gm { use super::*;
    mk!(#[derive(Clone, Debug, PartialEq, Eq, PartialOrd, Ord, Hash)] M, (u8, i16), val);
    mke!(#[derive(Clone, Debug, PartialEq, Eq, PartialOrd, Ord, Hash)] ME, 2 - 1, [u8; 2]);
    mke!(#[derive(Clone, Debug, PartialEq, Eq, PartialOrd, Ord, Hash)] MF, 100 + 20, Option<u8>); }

// ---- `Self` in field types, defaults and inline bounds on parameters, other attributes around
pub mod s1 { use super::*; use ::derive_where::derive_where;
    #[derive_where(Clone, Debug, PartialEq, Eq, PartialOrd, Ord, Hash; T)]
    pub struct Node<T, U> { pub next: Option<Box<Self>>, pub v: T, pub p: PhantomData<U> }
    /// docs
    #[derive_where(Clone, Debug, PartialEq, Eq, PartialOrd, Ord, Hash; T)]
    #[non_exhaustive] #[must_use]
    pub enum D<T: Clone = u8, U = (), const N: usize = 2> where T: Debug { #[doc = "a"] A([T; N]), #[non_exhaustive] B { #[doc(hidden)] x: PhantomData<U> } }
    #[derive_where(Clone, Debug, PartialEq, Eq, PartialOrd, Ord, Hash; T)] #[repr(transparent)] pub struct Tr<T, U>(pub T, pub PhantomData<U>);
    #[derive_where(Clone, Debug, PartialEq, Eq, PartialOrd, Ord, Hash; T)] #[repr(C, align(8))] pub struct Al<T, U>(pub T, pub PhantomData<U>);
}
pub mod s1m { use super::*;
    #[derive(Clone, Debug, PartialEq, Eq, PartialOrd, Ord, Hash)] pub struct Node<T, U> { pub next: Option<Box<Self>>, pub v: T, pub p: PhantomData<U> }
    #[derive(Clone, Debug, PartialEq, Eq, PartialOrd, Ord, Hash)] pub enum D<T: Clone = u8, U = (), const N: usize = 2> where T: Debug { A([T; N]), B { x: PhantomData<U> } }
    #[derive(Clone, Debug, PartialEq, Eq, PartialOrd, Ord, Hash)] pub struct Tr<T, U>(pub T, pub PhantomData<U>);
    #[derive(Clone, Debug, PartialEq, Eq, PartialOrd, Ord, Hash)] pub struct Al<T, U>(pub T, pub PhantomData<U>); }

// ---- unions: cloned bitwise, Copy a marker under the declared bounds
pub mod u1 { use super::*; use ::derive_where::derive_where;
    #[derive_where(Clone, Copy; T)] pub union Un<T: Copy, U> { pub a: T, pub b: u32, pub p: PhantomData<U> }
    #[derive_where(Clone; T: Copy)] #[derive_where(Copy; T: Copy, T: Copy)] #[repr(C)] pub union Un2<T: Copy, U> { pub a: (T, T), pub b: [u8; 8], pub p: PhantomData<U> } }

fn main() {
    let pd = PhantomData::<u8>;
    { let u = u1::Un::<u8, NoTraits> { b: 0xAABB_CCDD }; let v = u.clone(); let w = u; let x = u;
      unsafe { assert_eq!((v.b, w.b, x.b), (0xAABB_CCDD, 0xAABB_CCDD, 0xAABB_CCDD), "union clone is a bitwise copy"); }
      let u2 = u1::Un2::<u16, NoTraits> { b: [1, 2, 3, 4, 5, 6, 7, 8] }; let v2 = u2.clone(); let w2 = u2;
      unsafe { assert_eq!((v2.b, w2.b), ([1, 2, 3, 4, 5, 6, 7, 8], [1, 2, 3, 4, 5, 6, 7, 8]), "union clone is a bitwise copy (split attributes)"); } }
    same!("macro path ::derive_where::derive_where", [p1::S(1u8, pd), p1::S(2u8, pd)], [m::S(1u8, pd), m::S(2u8, pd)]);
    same!("macro path through `extern crate .. as`", [p2::S::A(1u8), p2::S::A(2u8), p2::S::B { x: pd }, p2::S::C], [m::E::A(1u8), m::E::A(2u8), m::E::B { x: pd }, m::E::C]);
    same!("renamed import + second attribute under the plain name", [p3::S(1u8, pd), p3::S(2u8, pd)], [m::S(1u8, pd), m::S(2u8, pd)]);
    { let a = p4::S(1u8, pd); assert!(a == a.clone() && a < p4::S(2u8, pd)); assert_eq!(format!("{:?}", a), "S"); }
    same!("cfg'd fields", [c1::S { a: 1u8, b: 1, p: pd }, c1::S { a: 1u8, b: 2, p: pd }, c1::S { a: 0u8, b: 3, p: pd }], [c1m::S { a: 1u8, b: 1, p: pd }, c1m::S { a: 1u8, b: 2, p: pd }, c1m::S { a: 0u8, b: 3, p: pd }]);
    same!("cfg'd variants", [c1::E::A(1u8), c1::E::B { x: 1 }, c1::E::B { x: 0 }, c1::E::C(pd)], [c1m::E::A(1u8), c1m::E::B { x: 1 }, c1m::E::B { x: 0 }, c1m::E::C(pd)]);
    { let k = c1::K { a: 1u8, secret: 7, shown: 8, p: PhantomData::<NoTraits> };
      assert_eq!(format!("{:?}", k), "K { a: 1, shown: 8, p: PhantomData<extras::NoTraits>, .. }", "cfg_attr'd helper attributes");
      assert!(k == k.clone() && k != c1::K { a: 1u8, secret: 6, shown: 8, p: PhantomData }); }
    same!("macro_rules struct with $t:ty field", [g::M { val: (1, 2), t: 1u8, p: pd }, g::M { val: (1, 3), t: 0u8, p: pd }], [gm::M { val: (1, 2), t: 1u8, p: pd }, gm::M { val: (1, 3), t: 0u8, p: pd }]);
    same!("macro_rules enum with $e:expr discriminant", [g::ME::A(1u8), g::ME::B, g::ME::C([1, 2], pd), g::ME::C([1, 3], pd), g::ME::D], [gm::ME::A(1u8), gm::ME::B, gm::ME::C([1, 2], pd), gm::ME::C([1, 3], pd), gm::ME::D]);
    same!("macro_rules enum with large $e:expr discriminant", [g::MF::A(1u8), g::MF::B, g::MF::C(None, pd), g::MF::C(Some(3), pd), g::MF::D], [gm::MF::A(1u8), gm::MF::B, gm::MF::C(None, pd), gm::MF::C(Some(3), pd), gm::MF::D]);
    same!("Self in a field type", [s1::Node { next: None, v: 1u8, p: pd }, s1::Node { next: Some(Box::new(s1::Node { next: None, v: 0u8, p: pd })), v: 1u8, p: pd }],
          [s1m::Node { next: None, v: 1u8, p: pd }, s1m::Node { next: Some(Box::new(s1m::Node { next: None, v: 0u8, p: pd })), v: 1u8, p: pd }]);
    same!("parameter defaults, inline bounds, where clause, foreign attributes", [s1::D::<u8, u8, 2>::A([1, 2]), s1::D::A([1, 3]), s1::D::B { x: pd }], [s1m::D::<u8, u8, 2>::A([1, 2]), s1m::D::A([1, 3]), s1m::D::B { x: pd }]);
    same!("repr(transparent)", [s1::Tr(1u8, pd), s1::Tr(2u8, pd)], [s1m::Tr(1u8, pd), s1m::Tr(2u8, pd)]);
    same!("repr(C, align(8))", [s1::Al(1u8, pd), s1::Al(2u8, pd)], [s1m::Al(1u8, pd), s1m::Al(2u8, pd)]);
    // an item inside a function body, with a lifetime and a const parameter
    { use ::derive_where::derive_where;
      #[derive_where(Clone, Debug, PartialEq, PartialOrd; T)] struct L<'a, T, U, const N: usize> where T: 'a { a: &'a [T; N], p: PhantomData<U> }
      let arr = [1u8, 2]; let brr = [1u8, 3];
      let x = L::<u8, NoTraits, 2> { a: &arr, p: PhantomData }; let y = L::<u8, NoTraits, 2> { a: &brr, p: PhantomData };
      assert!(x == x.clone() && x != y && x < y); assert_eq!(format!("{:?}", x), "L { a: [1, 2], p: PhantomData<extras::NoTraits> }"); }
    println!("EXTRAS-OK");
}
'''


def run_extras(cfg):
    """the glue rustc puts around the macro, which neither the model nor the generated probe items reach: the macro invoked
    through qualified / renamed paths, fields, variants and helper attributes under #[cfg] / #[cfg_attr], items written by
    macro_rules! (captured `$t:ty` / `$e:expr` arrive as None-delimited groups), `Self` in field types, parameter defaults and
    inline bounds, foreign attributes, items inside a function body.  Every observation is compared with the STANDARD derive
    on a mirror type (or with a literal where the standard derive has no counterpart)."""
    import hashlib, gzip, pickle, shutil, tempfile, threading
    src = EXTRAS_SRC
    key = os.path.join(runner.CACHE, 'extras-' + hashlib.sha256((runner.repo_hash() + cfg + src).encode()).hexdigest()[:32] + '.pkl.gz')
    res = None
    with runner.lock(os.path.basename(key)):
        if os.path.exists(key):
            try:
                with gzip.open(key, 'rb') as fh:
                    res = pickle.load(fh)
            except Exception:
                res = None
        if res is None:
            scratch = tempfile.mkdtemp(prefix='dwextras-', dir=runner.SCRATCH_ROOT)
            try:
                os.makedirs(os.path.join(scratch, 'src'))
                feats = CFGS[cfg]['features']
                dep = 'derive-where = { path = "%s"%s }' % (runner.REPO, (', features = ["%s"]' % feats) if feats else '')
                open(os.path.join(scratch, 'Cargo.toml'), 'w').write('[package]\nname = "extras"\nversion = "0.0.0"\nedition = "2021"\n[workspace]\n[dependencies]\n%s\n' % dep)
                shutil.copy(runner.lockfile(), os.path.join(scratch, 'Cargo.lock'))
                open(os.path.join(scratch, 'src', 'main.rs'), 'w').write(src)
                env = dict(os.environ)
                env.update(CARGO_TARGET_DIR=os.path.join(scratch, 'target'), CARGO_NET_OFFLINE='true', RUST_BACKTRACE='0')
                cmd = ['cargo'] + (['+nightly'] if cfg == 'nightly' else []) + ['run', '--offline', '-q']
                p = subprocess.run(cmd, cwd=scratch, env=env, stdout=subprocess.PIPE, stderr=subprocess.PIPE, text=True, timeout=3000)
                errs = [l for l in p.stderr.split('\n') if l.startswith('error') or 'panicked' in l or l.startswith('assertion') or l.startswith('  left') or l.startswith(' right')]
                res = (p.returncode, p.stdout[-500:], '\n'.join(errs)[:2000] or p.stderr[-800:])
            finally:
                shutil.rmtree(scratch, ignore_errors=True)
            os.makedirs(runner.CACHE, exist_ok=True)
            tmp = key + '.tmp%d.%d' % (os.getpid(), threading.get_ident())
            with gzip.open(tmp, 'wb') as fh:
                pickle.dump(res, fh)
            os.replace(tmp, key)
    rc, out, err = res
    problems = []
    if rc != 0 or 'EXTRAS-OK' not in out:
        problems.append(dict(kind='compile' if 'panicked' not in err else 'std-mirror', scope='extras', cfg=cfg, case='extras',
                             src='items reached through qualified macro paths, cfg / cfg_attr, macro_rules!, `Self` field types, defaults (harness/tieb.py EXTRAS_SRC)',
                             errors=[l[:300] for l in err.split('\n')[:6]]))
    return dict(cfg=cfg, items=21, ok=not problems), problems


def run_crateopt(cfg):
    """C14: a `crate = path` option is used verbatim - relative, `crate::`, `self::`, `super::` paths and aliases must work"""
    import hashlib, gzip, pickle, shutil, tempfile, threading
    zero = CFGS[cfg]['zeroize']
    src = CRATEOPT_SRC
    for k, v in CRATEOPT_Z.items():
        src = src.replace(k, v if zero else '')
    key = os.path.join(runner.CACHE, 'crateopt-' + hashlib.sha256((runner.repo_hash() + cfg + src).encode()).hexdigest()[:32] + '.pkl.gz')
    res = None
    if os.path.exists(key):
        try:
            with gzip.open(key, 'rb') as fh:
                res = pickle.load(fh)
        except Exception:
            res = None
    if res is None:
        scratch = tempfile.mkdtemp(prefix='dwcrateopt-', dir=runner.SCRATCH_ROOT)
        try:
            os.makedirs(os.path.join(scratch, 'src'))
            feats = CFGS[cfg]['features']
            dep = 'derive-where = { path = "%s"%s }' % (runner.REPO, (', features = ["%s"]' % feats) if feats else '')
            open(os.path.join(scratch, 'Cargo.toml'), 'w').write('[package]\nname = "crateopt"\nversion = "0.0.0"\nedition = "2021"\n[workspace]\n[dependencies]\n%s\n%s' % (dep, 'zeroize = "1"\n' if zero else ''))
            shutil.copy(runner.lockfile(), os.path.join(scratch, 'Cargo.lock'))
            open(os.path.join(scratch, 'src', 'main.rs'), 'w').write(src)
            env = dict(os.environ)
            env.update(CARGO_TARGET_DIR=os.path.join(scratch, 'target'), CARGO_NET_OFFLINE='true')
            cmd = ['cargo'] + (['+nightly'] if cfg == 'nightly' else []) + ['run', '--offline', '-q']
            p = subprocess.run(cmd, cwd=scratch, env=env, stdout=subprocess.PIPE, stderr=subprocess.PIPE, text=True, timeout=3000)
            res = (p.returncode, p.stdout[-500:], '\n'.join(l for l in p.stderr.split('\n') if l.startswith('error'))[:1500] or p.stderr[-800:])
        finally:
            shutil.rmtree(scratch, ignore_errors=True)
        os.makedirs(runner.CACHE, exist_ok=True)
        tmp = key + '.tmp%d.%d' % (os.getpid(), threading.get_ident())
        with gzip.open(tmp, 'wb') as fh:
            pickle.dump(res, fh)
        os.replace(tmp, key)
    rc, out, err = res
    problems = []
    if rc != 0 or 'CRATEOPT-OK' not in out:
        problems.append(dict(kind='compile', scope='crate-option', cfg=cfg, case='crateopt', src='items with `crate = <relative path | crate:: | self:: | super:: | alias | "string">` options (harness/tieb.py CRATEOPT_SRC)',
                             errors=[l[:300] for l in err.split('\n')[:4]]))
    return dict(cfg=cfg, items=6 + (4 if zero else 0), ok=not problems), problems


if __name__ == '__main__':
    cfg = sys.argv[1] if len(sys.argv) > 1 else 'default'
    only = sys.argv[2] if len(sys.argv) > 2 else None
    limit = int(sys.argv[3]) if len(sys.argv) > 3 else 200
    cases = corpus.quick_corpus(1)
    if os.environ.get('CRATEOPT') == '1':
        st, pr = run_crateopt(cfg)
    elif os.environ.get('NOSTD') == '1':
        st, pr = run_nostd(cfg, cases, 1, limit)
    else:
        st, pr = run(cfg, cases, 1, limit, only, keep_src='/tmp/probe_main.rs', hostile=os.environ.get('HOSTILE') == '1', miri=os.environ.get('DW_MIRI') == '1')
    st.pop('_iobs', None)
    print(st)
    for p in pr[:15]:
        print(p)
    print(len(pr), 'problems')
