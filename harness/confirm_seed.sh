#!/bin/bash
# confirm_seed.sh <seed-id> <worktree>: re-confirm a seeded change independently:
#  the pinned tests pass with it; the demo fails with it and passes without it.
# Saves patch.diff + demo under /verif/seeded/<seed-id>/ and prints a verdict.
id=$1; wt=$2; out=/verif/seeded/$id
mkdir -p $out
cd $wt || exit 2
git diff -- src > $out/patch.diff
[ -s $out/patch.diff ] || { echo "NO PATCH"; exit 2; }
rm -rf $out/demo; mkdir -p $out/demo
(cd $wt/demo && find . -path ./target -prune -o -type f -print | grep -v '/target/' | while read f; do mkdir -p $out/demo/$(dirname $f); cp $f $out/demo/$f; done)
t_with=$(cargo test --workspace --offline 2>&1 | grep -E "^test result" | awk '{p+=$4; f+=$6} END {print p" passed "f" failed"}')
demo_cmd="cargo run --offline -q"
[ -f $wt/demo/CMD ] && demo_cmd=$(cat $wt/demo/CMD)
(cd demo && timeout 600 $demo_cmd >/tmp/$id.with.log 2>&1); rc_with=$?
git apply -R $out/patch.diff
(cd demo && timeout 600 $demo_cmd >/tmp/$id.without.log 2>&1); rc_without=$?
git apply $out/patch.diff
echo "seed=$id tests_with_change: $t_with; demo rc with=$rc_with without=$rc_without"
tail -3 /tmp/$id.with.log | sed 's/^/   with: /'
tail -2 /tmp/$id.without.log | sed 's/^/   without: /'
