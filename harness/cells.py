"""Decision-cell coverage: every branch of the generator that the corpus must exercise in a run.
A cell is the string `Run.body_cell` computes from the IR of one impl; REQUIRED lists, per feature
configuration, regular expressions each of which must match at least one cell hit by an accepted item."""
import re

REPRS = ['u8', 'u16', 'u32', 'u64', 'u128', 'usize', 'i8', 'i16', 'i32', 'i64', 'i128', 'isize']

COMMON = [
    r'clone:copy', r'clone:match', r'clone:union', r'copy',
    r'debug:exhaustive', r'debug:nonexhaustive', r'default:first', r'default:later',
    r'eq:asserts', r'eq:none', r'hash:enum', r'hash:struct',
    r'peq:false', r'peq:true', r'peq:match', r'peq:allempty-inc', r'peq:allempty-noinc',
    r'peq:disc-inc-true', r'peq:disc-noinc-true',
    r'pord:none', r'pord:viaord', r'pord:equal', r'pord:match', r'ord:equal', r'ord:match',
    r'pord:single-nobody',      # (single-body-equal is unreachable: the only comparable variant would have to be empty)
    r'pord:multi-inc-nobody', r'pord:multi-inc-body-equal', r'pord:multi-noinc-nobody', r'pord:multi-noinc-body-equal',
    r'ord:multi-noinc-nobody', r'ord:multi-noinc-body-equal',
]
UNCHECKED = [r'peq:disc-inc-unchecked', r'peq:disc-noinc-unchecked', r'pord:single-body-unchecked',
             r'pord:multi-inc-body-unchecked', r'pord:multi-noinc-body-unchecked', r'ord:multi-noinc-body-unchecked']
PANIC = [x.replace('unchecked', 'panic') for x in UNCHECKED]
STRATS = [r'cast-copy-isize$', r'cast-copy-isize-validate', r'cast-clone-isize$', r'cast-clone-isize-validate',
          r'constfn-isize$', r'constfn-isize-validate', r'constfn-\w+(-validate)?-plus', r'constfn-\w+(-validate)?(-plus)?-explicit'] + \
         [r'cast-copy-%s$' % r for r in REPRS] + [r'cast-clone-(%s)$' % '|'.join(REPRS)]
PTR = [r'ptr-%s$' % r for r in REPRS]
CONSTFN_REPR = [r'constfn-%s(-|$)' % r for r in REPRS if r != 'isize']

REQUIRED = {
    'default': COMMON + UNCHECKED + STRATS + PTR,
    'safe': COMMON + PANIC + STRATS + CONSTFN_REPR,
    'nightly': COMMON + UNCHECKED + [r'intrinsic'],
    'zeroize': COMMON + [r'z:empty', r'z:match', r'z:match\S*-wild', r'z:match\S*-fqs', r'z:match\S*-method',
                         r'drop:empty', r'drop:delegate-0', r'drop:delegate-1', r'drop:delegate-many'],
    'zeroize-on-drop': COMMON + [r'z:match', r'drop:empty', r'drop:match$', r'drop:match-wild'],
}


def coverage(cells_by_cfg):
    """cells_by_cfg: {cfg: Counter(cell -> hits)} -> dict(hit, required, missing)"""
    out = {}
    for cfg, cnt in cells_by_cfg.items():
        req = REQUIRED.get(cfg, [])
        missing = [r for r in req if not any(re.search(r, c) for c in cnt)]
        out[cfg] = dict(distinct_cells_hit=len(cnt), required_families=len(req), missing=missing)
    return out
