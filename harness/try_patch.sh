#!/bin/bash
# try_patch.sh <patch.diff> [cfgs] : apply to /repo, run tie A, revert.
p=$1; cfgs=${2:-default,safe,nightly,zeroize,zeroize-on-drop}
git -C /repo apply $p || exit 2
(cd /verif/harness && python3 tiea.py $cfgs 2>&1 | grep -v "^WARNING" | tail -${3:-25})
git -C /repo checkout -- .
git -C /repo status --short
