"""`dwv replay <file>`: re-observe a reported violation against the CURRENT /repo."""
import json
import re
import os
import sys

import corpus
import runner
import tiea
import tieb
from items import item_txt


def main(path):
    d = json.load(open(path))
    seed = int(os.environ.get('VERIF_SEED', '1') or 1)
    kind = d.get('kind')
    if kind == 'proof':
        print('proof obligation:', d['what'])
        print('re-run:', d['replay_cmd'])
        return 1
    if kind == 'failing-input':
        o = d['observed']
        cases = [c for c in corpus.quick_corpus(seed) if c[0] == o['case']]
        if not cases and o.get('scope') not in ('crate-option', 'extras'):
            print('case %s is not in the corpus for seed %d' % (o['case'], seed))
            return 2
        if o.get('scope') == 'crate-option':
            st, pr = tieb.run_crateopt(o['cfg'])
        elif o.get('scope') == 'extras':
            st, pr = tieb.run_extras(o['cfg'])
        elif o.get('scope') == 'no_std':
            st, pr = tieb.run_nostd(o['cfg'], cases, seed, None, (o['case'],))
        else:
            st, pr = tieb.run(o['cfg'], cases, seed, None, None, None, (o['case'],), o.get('scope') == 'hostile')
        for p in pr:
            p.pop('values', None)
            print(json.dumps(p, indent=1))
        print('reproduced' if pr else 'not reproduced on the current tree')
        return 1 if pr else 0
    if kind == 'diagnostics':
        import diag
        o = d['observed']
        if o['case'].startswith('soup/'):
            _, sd, idx = o['case'].split('/')
            mods = [m for m in diag.soup_modules(int(sd), int(idx) + 1) if m[0] == int(idx)]
            xp = {}
            res, _ = diag.check_crate(o['cfg'], mods, True, xp)
            ds = res[int(idx)]
            bad = [x for x in ds if 'panicked' in x['message'] or x['on_use']] or not re.search(r'\b(struct|enum|union)\s', xp.get(int(idx), ''))
            print(mods[0][1])
            print(json.dumps(ds, indent=1))
            print('reproduced' if bad else 'not reproduced on the current tree')
            return 1 if bad else 0
        if o['case'].startswith('non_adt/'):
            st, pr = diag.run_non_adt(o['cfg'])
            pr = [p for p in pr if p['case'] == o['case']]
            for p in pr:
                print(json.dumps(p, indent=1))
            print('reproduced' if pr else 'not reproduced on the current tree')
            return 1 if pr else 0
        cases = [c for c in corpus.quick_corpus(seed) if c[0] == o['case']]
        if not cases:
            print('case %s is not in the corpus for seed %d' % (o['case'], seed))
            return 2
        st, pr = diag.run(o['cfg'], cases)
        for p in pr:
            print(json.dumps(p, indent=1))
        print('reproduced' if pr else 'not reproduced on the current tree')
        return 1 if pr else 0
    if kind == 'solver':
        import solver
        o = d['observed']
        which, cid = o['case'].split('/', 1)
        if which == 'd1':
            st, pr = solver.run_d1(o['cfg'], '^' + re.escape(cid) + '$', solver.corpus_items(corpus.quick_corpus(seed), (cid.split('/', 1)[-1],)))
            if not st['items']:
                print('item %s is not among the probe items' % cid)
                return 2
        else:
            st, pr = solver.run_d2(o['cfg'])
            pr = [p for p in pr if p['case'] == o['case']]
        for p in pr[:5]:
            print(json.dumps(p, indent=1))
        print('reproduced' if pr else 'not reproduced on the current tree')
        return 1 if pr else 0
    if kind == 'correspondence':
        o = d['disagreement']
        cases = [c for c in corpus.quick_corpus(seed) if c[0] == o['case']]
        if not cases:
            print('case %s is not in the corpus for seed %d' % (o['case'], seed))
            return 2
        cfg = o['cfg']
        m = runner.run_model({cfg: cases})[cfg][o['case']]
        i = runner.run_impl({cfg: cases})[cfg][o['case']]
        print('item:', item_txt(cases[0][1]))
        dd = tiea.compare_case(m, i)
        sa = tiea.compare_stage_a(m, i)
        for x in ([dd] if dd else []) + sa:
            print(json.dumps(x, indent=1))
        print('reproduced' if (dd or sa) else 'not reproduced on the current tree')
        return 1 if (dd or sa) else 0
    print('unknown replay file')
    return 2
