"""One-off soak of tie A: fresh random streams (both generators) for many seeds, macro vs extracted Coq model, all feature sets.
Usage: python3 harness/soak.py <first seed> <last seed>   (prints one line per seed and a total; nothing is written)"""
import sys, os, time
sys.path.insert(0, os.path.dirname(os.path.abspath(__file__)))
import corpus, runner, tiea
from props import ALL_CFGS

def main():
    a, b = int(sys.argv[1]), int(sys.argv[2])
    tot = dict(items=0, pairs=0, impls=0, tokens=0, accepted=0, disagreements=0)
    for sd in range(a, b + 1):
        t = time.time()
        cases = list(corpus.s2_random(sd, 600)) + list(corpus.s2_random2(sd, 1500))
        ires = runner.run_impl({c: cases for c in ALL_CFGS})
        mres = runner.run_model({c: cases for c in ALL_CFGS})
        dis = 0
        for c in ALL_CFGS:
            for cid, it in cases:
                m, i = mres[c][cid], ires[c][cid]
                d = tiea.compare_case(m, i)
                ds = ([d] if d and d.get('kind') != 'generator' else []) + tiea.compare_stage_a(m, i)
                if ds:
                    dis += 1
                    if dis <= 3:
                        print('  DISAGREE', c, cid, ds[0].get('kind'), ds[0].get('slice'), flush=True)
                tot['pairs'] += 1
                if i['status'] == 'ok':
                    tot['accepted'] += 1
                    tot['impls'] += len(i['impls'])
                    tot['tokens'] += sum(len(x) for x in i['impls'])
        tot['items'] += len(cases)
        tot['disagreements'] += dis
        print('seed %d: %d items x %d cfgs, %d disagreements, %.0fs' % (sd, len(cases), len(ALL_CFGS), dis, time.time() - t), flush=True)
    print('TOTAL', tot, flush=True)

if __name__ == '__main__':
    main()
