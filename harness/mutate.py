"""Mutation run: how much of ModProg/derive-where's code does the expansion correspondence (tie A) watch?

Small syntactic mutants of /repo/src (test modules excluded) are applied one at a time to a scratch COPY of /repo; the
crate-private entry points are driven on the quick corpus in all five feature sets and compared with the (cached) output
of the Coq model.  A mutant is
   killed      - the implementation now differs from the model on some corpus item,
   not built   - the mutated crate does not compile,
   survivor    - no corpus item tells it from the original (equivalent mutant, or a blind spot worth a corpus item).
Usage: python3 harness/mutate.py [--max N] [--seed S] [--files a.rs,b.rs] [--out report.json]
The scratch copy lives under $VERIF_SCRATCH and is removed at the end; /repo is only read."""
import argparse
import json
import os
import random
import re
import shutil
import subprocess
import sys
import tempfile
import time

sys.path.insert(0, os.path.dirname(os.path.abspath(__file__)))

OPS = [
    (r'&&', '||'), (r'\|\|', '&&'), (r'==', '!='), (r'!=', '=='), (r'\.any\(', '.all('), (r'\.all\(', '.any('),
    (r'\btrue\b', 'false'), (r'\bfalse\b', 'true'), (r'>=', '>'), (r'<=', '<'), (r'> 1\b', '> 0'), (r'> 0\b', '> 1'),
    (r'\.is_empty\(\)', '.is_empty() == false'), (r'\.is_none\(\)', '.is_some()'), (r'\.is_some\(\)', '.is_none()'),
    (r'if !', 'if '), (r'\bTrait::PartialEq\b', 'Trait::Hash'), (r'\bTrait::Hash\b', 'Trait::PartialEq'), (r'\bTrait::Ord\b', 'Trait::PartialOrd'),
    (r'\bTrait::PartialOrd\b', 'Trait::Ord'), (r'\bTrait::Debug\b', 'Trait::Clone'), (r'\bTrait::Clone\b', 'Trait::Copy'), (r'\bTrait::Eq\b', 'Trait::PartialEq'),
    (r'\bSkipGroup::Debug\b', 'SkipGroup::Hash'), (r'\bSkipGroup::Hash\b', 'SkipGroup::EqHashOrd'), (r'\bSkipGroup::EqHashOrd\b', 'SkipGroup::Debug'),
    (r'\.iter\(\)\.skip\(1\)', '.iter()'), (r'\.rev\(\)', ''), (r'\+ 1\b', '+ 2'), (r'\.first\(\)', '.last()'), (r'\.last\(\)', '.first()'),
    (r'\bSome\(0\)', 'Some(1)'), (r'=> return Err\(', '=> return Ok(()); let _ = Err::<(), _>('),
    # second operator set
    (r'\bcontinue;', '{}'), (r'\bbreak;', '{}'), (r'\bSkip::None\b', 'Skip::All'), (r'\bSkip::All\b', 'Skip::None'),
    (r'(?<![\w.])0(?![\w.])', '1'), (r'(?<![\w.])1(?![\w.])', '0'), (r'\.next\(\)', '.last()'), (r'\.filter\(', '.skip_while('),
    (r'\bis_incomparable\(\)', 'is_incomparable() == false'), (r'\.is_ident\(', '.is_ident("") || !'), (r'\bunraw\(\)', 'clone()'),
    (r'\.zip\(', '.zip(::core::iter::empty().chain('), (r'\bSimpleType::Struct\b', 'SimpleType::Tuple'), (r'\bSimpleType::Tuple\b', 'SimpleType::Struct'),
    (r'\bRepresentation::U8\b', 'Representation::I8'), (r'\bDiscriminant::Unit\b', 'Discriminant::Data'), (r'\bDiscriminant::Data\b', 'Discriminant::Unit'),
    (r'ref mut', 'ref'), (r'\.dedup_by\(', '.retain(|_| true); let _ = ('),
    # third operator set (statement level): swallow an error, drop a validation, drop a push, disable a branch
    (r'\?;', '.ok();'), (r'\breturn Err\(', 'let _ = Err::<(), _>('), (r'\.push\(', '.len(); let _ = ('), (r'else if ', 'else if false && '),
    (r'\bmatches!\(', '!matches!('), (r'\.chain\(', '.chain(::core::iter::empty()).take(0).chain('), (r'\.extend\(', '.len(); let _ = ('),
    (r'\.any_custom_bound\(\)', '.all_custom_bound()'), (r'\.all_custom_bound\(\)', '.any_custom_bound()'), (r'\.trait_skipped\(', '.group_skipped(SkipGroup::Debug) || self.trait_skipped('),
    # fourth operator set: forced branches, forgotten first / last element, misspelt option names
    (r'\bif (?!let\b)([^{;]+) \{', 'if true || (\\1) {'), (r'\bif (?!let\b)([^{;]+) \{', 'if false && (\\1) {'),
    (r'\.iter\(\)', '.iter().skip(1)'), (r'\.iter\(\)', '.iter().take(1)'), (r'is_ident\("(\w+)"\)', 'is_ident("\\1_")'),
    (r'is_ident\((\w+::\w+)\)', 'is_ident("never")'), (r'\.supports_union\(\)', '.supports_union() || true'), (r'\.unwrap_or_default\(\)', '.map(|_| Default::default()).unwrap_or_default()'),
    # fifth: an error returned as the value of a branch (no `return`) swallowed
    (r'(?<!return )\bErr\((Error::\w+\(.*\))\)(,?)$', 'Ok({ let _ = \\1; Default::default() })\\2'),
]
OPS3_FROM = 52
OPS4_FROM = 62
OPS5_FROM = 70


def sites(repo, files=None):
    out = []
    src = os.path.join(repo, 'src')
    for root, dirs, fs in os.walk(src):
        if os.path.basename(root) == 'test':
            dirs[:] = []
            continue
        for f in sorted(fs):
            if not f.endswith('.rs') or f == 'test.rs':
                continue
            rel = os.path.relpath(os.path.join(root, f), repo)
            if files and not any(rel.endswith(x) for x in files):
                continue
            lines = open(os.path.join(root, f), encoding='utf-8').read().split('\n')
            in_doc = False
            for ln, line in enumerate(lines):
                st = line.strip()
                if st.startswith('//') or st.startswith('#[') or st.startswith('use ') or not st:
                    continue
                for oi, (pat, rep) in enumerate(OPS):
                    for m in re.finditer(pat, line):
                        out.append((rel, ln, m.start(), m.end(), oi))
    return out


def main():
    ap = argparse.ArgumentParser()
    ap.add_argument('--max', type=int, default=60)
    ap.add_argument('--seed', type=int, default=1)
    ap.add_argument('--files', default='')
    ap.add_argument('--ops-from', type=int, default=0, help='only operators with this index or above')
    ap.add_argument('--retry-survivors', action='store_true', help='re-run the survivors of the report against the current corpus')
    ap.add_argument('--out', default=os.path.join(os.path.dirname(os.path.dirname(os.path.abspath(__file__))), 'seeded', 'mutation_report.json'))
    a = ap.parse_args()
    base_repo = os.environ.get('VERIF_REPO', '/repo')
    scratch_root = os.environ.get('VERIF_SCRATCH', '/var/tmp')
    work = tempfile.mkdtemp(prefix='dwmut-', dir=scratch_root)
    try:
        repo = os.path.join(work, 'repo')
        os.makedirs(repo)
        shutil.copytree(os.path.join(base_repo, 'src'), os.path.join(repo, 'src'))
        for f in ('Cargo.toml', 'Cargo.lock'):
            if os.path.exists(os.path.join(base_repo, f)):
                shutil.copy(os.path.join(base_repo, f), os.path.join(repo, f))
        os.environ['VERIF_REPO'] = repo
        import check_main
        import corpus
        import runner
        import tiea
        from props import ALL_CFGS
        runner.REPO = repo
        cases = corpus.quick_corpus(1)
        mres = check_main.model_observations(cases, ALL_CFGS)
        all_sites = [x for x in sites(repo, [x for x in a.files.split(',') if x]) if x[4] >= a.ops_from]
        rng = random.Random(a.seed)
        rng.shuffle(all_sites)
        chosen = all_sites[:a.max]
        report = dict(total_sites=len(all_sites), seed=a.seed, mutants=[])
        if os.path.exists(a.out):
            try:
                old = json.load(open(a.out))
                report['mutants'] = old.get('mutants', [])
            except Exception:
                pass
        if a.retry_survivors:
            surv = [m for m in report['mutants'] if m['status'] == 'survivor']
            report['mutants'] = [m for m in report['mutants'] if m['status'] != 'survivor']
            opi = {'%s -> %s' % (pt, rp): k for k, (pt, rp) in enumerate(OPS)}
            chosen = []
            for m in surv:
                pt = OPS[opi[m['op']]][0]
                line = open(os.path.join(repo, m['file']), encoding='utf-8').read().split('\n')[m['line'] - 1]
                mm = [x for x in re.finditer(pt, line) if x.start() == m['col']]
                if mm:
                    chosen.append((m['file'], m['line'] - 1, mm[0].start(), mm[0].end(), opi[m['op']]))
        done = {(m['file'], m['line'], m['col'], m['op']) for m in report['mutants']}
        for rel, ln, s0, s1, oi in chosen:
            pat, rep = OPS[oi]
            key = (rel, ln + 1, s0, '%s -> %s' % (pat, rep))
            if key in done:
                continue
            path = os.path.join(repo, rel)
            orig = open(path, encoding='utf-8').read()
            lines = orig.split('\n')
            before = lines[ln]
            lines[ln] = before[:s0] + re.sub(pat, rep, before[s0:s1], count=1) + before[s1:]
            open(path, 'w', encoding='utf-8').write('\n'.join(lines))
            t = time.time()
            rec = dict(file=rel, line=ln + 1, col=s0, op='%s -> %s' % (pat, rep), before=before.strip()[:160], after=lines[ln].strip()[:160])
            try:
                ires = runner.run_impl({c: cases for c in ALL_CFGS})
                n, first = 0, None
                for c in ALL_CFGS:
                    for cid, it in cases:
                        m, i = mres[c].get(cid), ires[c].get(cid)
                        d = tiea.compare_case(m, i)
                        ds = ([d] if d and d.get('kind') != 'generator' else []) + tiea.compare_stage_a(m, i)
                        if ds:
                            n += 1
                            if first is None:
                                first = dict(cfg=c, case=cid, kind=ds[0].get('kind'), slice=ds[0].get('slice'), trait=ds[0].get('trait'))
                rec.update(status='killed' if n else 'survivor', disagreeing_cases=n, first=first)
            except runner.Infra as e:
                rec.update(status='not built', detail=str(e)[-300:].replace('\n', ' '))
            finally:
                open(path, 'w', encoding='utf-8').write(orig)
            rec['seconds'] = round(time.time() - t, 1)
            report['mutants'].append(rec)
            print('%-10s %s:%d  %s   [%s]' % (rec['status'], rel, ln + 1, rec['op'], rec.get('disagreeing_cases', '-')), flush=True)
            json.dump(report, open(a.out, 'w'), indent=1)
        ms = report['mutants']
        report['summary'] = dict(mutants=len(ms), killed=sum(m['status'] == 'killed' for m in ms), not_built=sum(m['status'] == 'not built' for m in ms),
                                 survivors=sum(m['status'] == 'survivor' for m in ms))
        json.dump(report, open(a.out, 'w'), indent=1)
        print(report['summary'])
    finally:
        shutil.rmtree(work, ignore_errors=True)


if __name__ == '__main__':
    main()
