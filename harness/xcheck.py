"""Cross-check of the extracted evaluator against Coq's own vm_compute on a sample of the corpus:
the digest of run_expand computed inside Coq must equal the digest computed by the OCaml binary."""
import os
import random
import re
import subprocess
import tempfile

import runner
from items import cq_cfg, cq_item, sx_case


def run(cases, cfgs, seed, n=24):
    rng = random.Random(seed)
    sample = rng.sample(cases, min(n, len(cases)))
    coq = os.path.join(runner.VERIF, 'coq')
    with tempfile.TemporaryDirectory(dir=runner.SCRATCH_ROOT) as d:
        lines = ['From DW Require Import Run.', 'Open Scope string_scope.']
        sx = []
        for k, (cid, it) in enumerate(sample):
            cfg = cfgs[k % len(cfgs)]
            lines.append('Eval vm_compute in (%d%%N, digest_result (run_expand %s %s)).' % (k, cq_cfg(cfg), cq_item(it)))
            sx.append(sx_case('%d' % k, cfg, it))
        open(os.path.join(d, 'xcheck.v'), 'w').write('\n'.join(lines) + '\n')
        p = subprocess.run(['coqc', '-noglob', '-Q', coq, 'DW', os.path.join(d, 'xcheck.v')], stdout=subprocess.PIPE, stderr=subprocess.STDOUT, text=True, timeout=1200)
        if p.returncode != 0:
            raise runner.Infra('vm_compute cross-check failed to compile: ' + p.stdout[-1500:])
        coq_d = {int(a): int(b) for a, b in re.findall(r'=\s*\((\d+)%N,\s*(\d+)%N\)', p.stdout)}
        env = dict(os.environ, VERIF_DIGEST='1')
        q = subprocess.run([runner.MODEL_DRIVER], input='\n'.join(sx) + '\n', stdout=subprocess.PIPE, stderr=subprocess.PIPE, text=True, env=env, timeout=600)
        ml_d, cur = {}, None
        for l in q.stdout.split('\n'):
            if l.startswith('CASE '):
                cur = int(l[5:])
            elif l.startswith('D '):
                ml_d[cur] = int(l[2:], 2)
        bad = [sample[k][0] for k in range(len(sample)) if coq_d.get(k) != ml_d.get(k)]
        return dict(sampled=len(sample), agree=len(sample) - len(bad), disagree=bad)
