"""Corpus of items (DESIGN 2.6): S0 regression, S1 systematic, S2 random, S3 invalid.
Every generator yields (id, item) pairs; ids are stable so that failures replay."""
import itertools
import random

from items import (P, dw, field, generics, item, mpath, skip_meta, sub, tparam, variant)

STD9 = ['Clone', 'Copy', 'Debug', 'Default', 'Eq', 'Hash', 'Ord', 'PartialEq', 'PartialOrd']
SKIPPABLE = ['Debug', 'Eq', 'Hash', 'Ord', 'PartialEq', 'PartialOrd']
GROUPS = ['Debug', 'EqHashOrd', 'Hash']
REPRS = ['u8', 'u16', 'u32', 'u64', 'u128', 'usize', 'i8', 'i16', 'i32', 'i64', 'i128', 'isize']

PH = ['::', 'core', '::', 'marker', '::', 'PhantomData', '<', 'T', '>']
TYPES = [['T'], PH, ['Vec', '<', 'T', '>'], ['Option', '<', 'T', '>'], ['u8'], ['(', 'T', ',', 'u8', ')'], ['[', 'T', ';', '2', ']']]

GT = generics([tparam('T')])


def named(n, tys=None, attrs=None, names=None):
    tys = tys or [PH] * n
    names = names or ['a', 'b', 'c', 'd', 'e', 'f'][:n]
    attrs = attrs or [[]] * n
    return [field(names[i], tys[i % len(tys)], attrs[i]) for i in range(n)]


def unnamed(n, tys=None, attrs=None):
    tys = tys or [PH] * n
    attrs = attrs or [[]] * n
    return [field(None, tys[i % len(tys)], attrs[i]) for i in range(n)]


def st(name, fields, attrs, shape='Named', gen=None):
    return item(('Struct', shape, fields), name, attrs, gen or GT)


def en(name, variants, attrs, gen=None):
    return item(('Enum', variants), name, attrs, gen or GT)


def un(name, fields, attrs, gen=None):
    return item(('Union', fields), name, attrs, gen or GT)


def repr_attr(*ids):
    return ('Repr', ('Idents', list(ids)))


# ----------------------------------------------------------------------------- S1
def s1_basic():
    """every trait alone and the common sets x item kinds x variant shapes"""
    sets = [[t] for t in STD9 if t != 'Default'] + [STD9[:], ['Clone', 'Copy'], ['PartialEq', 'Eq'], ['PartialOrd', 'Ord', 'PartialEq', 'Eq'],
                                                   ['PartialEq', 'PartialOrd'], ['Hash', 'PartialEq', 'Eq'], ['Clone', 'Debug'], ['Default']]
    for si, ts in enumerate(sets):
        tag = '+'.join(ts)
        yield 'basic/struct1/' + tag, st('S', named(1, [['T']]), [dw(ts)])
        yield 'basic/struct2/' + tag, st('S', named(2, [['T'], PH]), [dw(ts)])
        yield 'basic/tuple1/' + tag, st('S', unnamed(1, [['T']]), [dw(ts)], 'Unnamed')
        yield 'basic/tuple3/' + tag, st('S', unnamed(3, [['T'], ['u8'], PH]), [dw(ts)], 'Unnamed')
        dflt = [sub('default')] if 'Default' in ts else []
        yield 'basic/enum1/' + tag, en('E', [variant('A', 'Named', named(1, [['T']]), dflt)], [dw(ts)])
        yield 'basic/enum3/' + tag, en('E', [variant('A', 'Named', named(2, [['T'], ['u8']])),
                                             variant('B', 'Unnamed', unnamed(1, [['T']]), dflt),
                                             variant('C')], [dw(ts)])
        yield 'basic/enum_shapes/' + tag, en('E', [variant('A', 'Unit', [], dflt), variant('B', 'Unnamed', []), variant('C', 'Named', []),
                                                   variant('D', 'Unnamed', unnamed(2, [['T'], ['T']])), variant('F', 'Named', named(1, [PH]))], [dw(ts)])
        yield 'basic/enum_units/' + tag, en('E', [variant('A', 'Unit', [], dflt), variant('B'), variant('C')], [dw(ts)])
        if 'Default' not in ts:
            yield 'basic/enum_units_d/' + tag, en('E', [variant('A', 'Unit', [], [sub('default')]), variant('B'), variant('C')], [dw(ts + ['Default'])])
        yield 'basic/enum2data/' + tag, en('E', [variant('A', 'Unnamed', unnamed(1, [['T']]), dflt), variant('B', 'Unnamed', unnamed(2, [['T'], ['u8']]))], [dw(ts)])
    for ts in (['Clone'], ['Copy'], ['Clone', 'Copy']):
        tag = '+'.join(ts)
        yield 'basic/union/' + tag, un('U', named(2, [['T'], ['u8']]), [dw(ts)])
        yield 'basic/union_bound/' + tag, un('U', named(1, [['T']]), [dw(ts, ['T'])], generics([tparam('T'), tparam('V')]))
        yield 'basic/union_custom/' + tag, un('U', named(1, [['T']]), [dw(ts, [('Pred', ['T', ':', 'Copy'])])])


def bound_lists():
    """(tag, generics-of-item, bound list) pairs"""
    g2 = generics([tparam('T'), tparam('U')])
    yield 'none', g2, None
    yield 'empty_semi', g2, []
    yield 'T', g2, ['T']
    yield 'TU_assoc', g2, ['T', ('Ty', ['U', '::', 'Type'])]
    yield 'arbitrary', g2, [('Ty', ['Vec', '<', 'T', '>']), ('Ty', ['&', "'static", 'U'])]
    yield 'custom', g2, [('Pred', ['T', ':', 'Tr'])]
    yield 'custom2', g2, [('Pred', ['T', ':', 'Tr', '+', 'Clone']), ('Pred', ['U', ':', '?', 'Sized'])]
    yield 'hrtb', g2, [('Pred', ['for', '<', "'x", '>', 'T', ':', 'Fn', '(', '&', "'x", 'u8', ')'])]
    yield 'mixed', g2, ['T', ('Pred', ['U', ':', 'Tr'])]
    yield 'mixed_rev', g2, [('Pred', ['U', ':', 'Tr']), 'T']
    yield 'dup', g2, ['T', 'T']
    yield 'all_params3', generics([tparam('T'), tparam('U'), tparam('V')]), ['T', 'U']
    yield 'with_where', generics([tparam('T', ['Clone']), tparam('U')], ([['U', ':', 'Copy']], False)), ['T']
    yield 'with_where_tc', generics([tparam('T'), tparam('U')], ([['U', ':', 'Copy'], ['T', ':', 'Sized']], True)), ['T']
    yield 'with_where_tc_nob', generics([tparam('T'), tparam('U')], ([['U', ':', 'Copy']], True)), None
    yield 'where_empty', generics([tparam('T'), tparam('U')], ([], False)), ['U']
    yield 'lifetimes', generics([('Lt', 'a', []), ('Lt', 'b', ["'a"]), tparam('T', ["'a"]), tparam('U')]), ['T']
    yield 'const', generics([tparam('T'), ('Const', 'N', ['usize'], []), tparam('U', [], ['u8'])]), ['T']
    yield 'defaults', generics([tparam('T', ['Clone'], ['u8']), ('Const', 'N', ['usize'], ['3'])], None, True), ['T', ('Ty', ['[', 'T', ';', 'N', ']'])]
    yield 'no_generics', generics([]), [('Ty', ['u8'])]
    yield 'only_lt', generics([('Lt', 'a', [])]), [('Ty', ['&', "'a", 'u8'])]


def s1_bounds():
    sets = [['Clone'], ['Clone', 'Copy'], ['PartialOrd', 'Ord'], ['PartialEq', 'PartialOrd'], ['Debug', 'Hash'], ['Ord', 'Clone'], ['Eq']]
    for (tag, g, bl), ts in itertools.product(bound_lists(), sets):
        t = '+'.join(ts)
        tc = {'tc_generics': True} if tag in ('T', 'mixed') else {}
        tys = [['T'], ['u8']]
        yield 'bound/%s/struct/%s' % (tag, t), st('S', named(2, tys), [dw(ts, bl, **tc)], gen=g)
        yield 'bound/%s/enum/%s' % (tag, t), en('E', [variant('A', 'Unnamed', unnamed(1, [['u8']])), variant('B', 'Named', named(1, [['u16']])), variant('C')],
                                               [dw(ts, bl, **tc)], gen=g)
    for tag, g, bl in bound_lists():
        yield 'bound/%s/union' % tag, un('U', named(1, [['u8']]), [dw(['Clone'], bl)], gen=g)
        yield 'bound/%s/union_cc' % tag, un('U', named(1, [['u8']]), [dw(['Clone', 'Copy'], bl)], gen=g)


def s1_attr_split():
    """several attributes: merged when adjacent with equal bounds, separate otherwise"""
    # a third parameter that no list mentions: otherwise a list naming every parameter is what std's derive does (rejected: use_case)
    g2 = generics([tparam('T'), tparam('U'), tparam('V')])
    f = named(3, [['T'], ['U'], ['V']])
    vs = [variant('A', 'Unnamed', unnamed(1, [['T']])), variant('B', 'Named', named(2, [['U'], ['V']])), variant('C')]
    combos = [
        ('adj_same', [dw(['Clone'], ['T']), dw(['Copy'], ['T'])]),
        ('adj_same3', [dw(['Clone'], ['T']), dw(['Copy'], ['T']), dw(['Debug'], ['T'])]),
        ('adj_nobound', [dw(['PartialOrd']), dw(['Ord']), dw(['PartialEq', 'Eq'])]),
        ('diff', [dw(['Clone'], ['T']), dw(['Copy'], ['U'])]),
        ('diff_ord', [dw(['PartialOrd'], ['T']), dw(['Ord'], ['T', 'U']), dw(['PartialEq', 'Eq'], ['T'])]),
        ('nonadj', [dw(['Clone'], ['T']), dw(['Debug'], ['U']), dw(['Copy'], ['T'])]),
        ('nonadj_ord', [dw(['Ord'], ['T']), dw(['Eq', 'PartialEq'], ['U']), dw(['PartialOrd'], ['T'])]),
        ('custom_same', [dw(['Clone'], [('Pred', ['T', ':', 'Tr'])]), dw(['Copy'], [('Pred', ['T', ':', 'Tr'])])]),
        ('custom_diff', [dw(['Clone'], [('Pred', ['T', ':', 'Tr'])]), dw(['Copy'], [('Pred', ['T', ':', 'Tr2'])])]),
        ('nobound_vs_bound', [dw(['Clone']), dw(['Copy'], ['T'])]),
        ('bound_vs_nobound', [dw(['PartialOrd'], ['T']), dw(['Ord'])]),
        ('crate_first', [dw([('NV', P('crate'), ('EPath', (False, ['dw_'])))]), dw(['Clone', 'Debug'], ['T'])]),
        ('crate_str', [dw([('NV', P('crate'), ('EStr', '"::my::dw"', (True, ['my', 'dw'])))]), dw(['Hash'], ['T'])]),
        ('order', [dw(['Debug', 'Clone'], ['U', 'T']), dw(['Hash'], ['T', 'U'])]),
        # the same trait requested by two attributes under DIFFERENT bounds: two impls of one trait for one type always overlap
        ('same_trait_diff', [dw(['Clone'], ['T']), dw(['Clone'], ['U'])]),
        ('same_trait_diff_nonadj', [dw(['Clone'], ['T']), dw(['Debug'], ['U']), dw(['Clone'], ['V'])]),
        ('same_trait_custom_vs_plain', [dw(['Debug'], [('Pred', ['T', ':', 'Tr'])]), dw(['Debug'], ['T'])]),
        ('same_trait_overlap', [dw(['Clone', 'Debug'], ['T']), dw(['Debug', 'Hash'], ['U'])]),
        ('same_trait_nobound_vs_bound', [dw(['Hash']), dw(['Hash'], ['T'])]),
        # the repeated trait is not the first trait of the later attribute / the earlier attribute is not the first attribute
        ('same_trait_later_in_list', [dw(['Clone'], ['T']), dw(['Debug'], ['U']), dw(['Hash', 'Clone'], ['T'])]),
        ('same_trait_later_in_list_diff', [dw(['Clone'], ['T']), dw(['Hash', 'Debug', 'Clone'], ['U'])]),
        ('same_trait_second_and_third', [dw(['Debug'], ['U']), dw(['Clone'], ['T']), dw(['Hash'], ['V']), dw(['Clone'], ['T'])]),
        ('same_trait_second_and_third_diff', [dw(['Debug'], ['U']), dw(['Clone'], ['T']), dw(['Clone'], ['V'])]),
    ]
    # adjacent attributes: merged only when the bound LISTS are equal (not merely equal as sets)
    rel = [('equal', ['T', 'U'], ['T', 'U']), ('permuted', ['T', 'U'], ['U', 'T']), ('set_eq_a', ['T', 'U'], ['T', 'T']), ('set_eq_b', ['T', 'T'], ['T', 'U']),
           ('subset', ['T', 'U'], ['T']), ('superset', ['T'], ['T', 'U']), ('dup_len', ['T', 'T'], ['T']),
           ('custom_perm', [('Pred', ['T', ':', 'Tr']), ('Pred', ['U', ':', 'Tr'])], [('Pred', ['U', ':', 'Tr']), ('Pred', ['T', ':', 'Tr'])]),
           ('custom_vs_plain', [('Pred', ['T', ':', 'Clone'])], ['T']), ('ty_vs_pred_same_toks', [('Ty', ['Vec', '<', 'T', '>'])], [('Ty', ['Vec', '<', 'U', '>'])])]
    for rtag, la, lb in rel:
        combos.append(('rel_' + rtag, [dw(['Debug'], la), dw(['Clone'], lb)]))
        combos.append(('rel3_' + rtag, [dw(['Debug'], la), dw(['Clone'], lb), dw(['Hash'], la)]))
        combos.append(('relcc_' + rtag, [dw(['Copy'], la), dw(['Clone'], lb)]))
    for tag, attrs in combos:
        yield 'split/%s/struct' % tag, st('S', f, attrs, gen=g2)
        yield 'split/%s/enum' % tag, en('E', vs, attrs, gen=g2)
        yield 'split/%s/enum_data2' % tag, en('E', vs[:2], attrs, gen=g2)


SKIP_CHOICES = [None, ('skip', None), ('skip', ['Debug']), ('skip', ['EqHashOrd']), ('skip', ['Hash']), ('skip', ['Debug', 'Hash']),
                ('skip', ['EqHashOrd', 'Debug']), ('skip', ['Hash', 'EqHashOrd'])]


def fattr(choice):
    if choice is None:
        return []
    return [sub(skip_meta(choice[0], choice[1]))]


def s1_skip():
    all9 = [t for t in STD9 if t != 'Copy']
    # every skip choice on each field position of a two-field struct / variant
    for (i, a), (j, b) in itertools.product(enumerate(SKIP_CHOICES), enumerate(SKIP_CHOICES)):
        if i == 0 and j == 0:
            continue
        tag = '%d_%d' % (i, j)
        yield 'skip/struct/' + tag, st('S', named(2, [['T'], ['u8']], [fattr(a), fattr(b)]), [dw(all9)])
        if (i + j) % 3 == 0:
            yield 'skip/tuple/' + tag, st('S', unnamed(2, [['T'], ['u8']], [fattr(a), fattr(b)]), [dw(all9)], 'Unnamed')
        if (i + 2 * j) % 3 == 0:
            yield 'skip/enum/' + tag, en('E', [variant('A', 'Named', named(2, [['T'], ['u8']], [fattr(a), fattr(b)])),
                                               variant('B', 'Unnamed', unnamed(2, [['T'], ['u8']], [fattr(b), fattr(a)]), [sub('default')]),
                                               variant('C')], [dw(all9)])
    # skip_inner on struct / variant, with field-level skips underneath
    inner = [('skip_inner', None), ('skip_inner', ['Debug']), ('skip_inner', ['EqHashOrd']), ('skip_inner', ['Hash']), ('skip_inner', ['Debug', 'Hash'])]
    for (i, inn), (j, fa) in itertools.product(enumerate(inner), enumerate(SKIP_CHOICES)):
        tag = '%d_%d' % (i, j)
        sattr = dw([skip_meta(inn[0], inn[1])])
        yield 'skip_inner/struct/' + tag, st('S', named(2, [['T'], ['u8']], [fattr(fa), []]), [dw(all9), sattr])
        yield 'skip_inner/enum/' + tag, en('E', [variant('A', 'Named', named(2, [['T'], ['u8']], [fattr(fa), []]), [sub(skip_meta(inn[0], inn[1]))]),
                                                 variant('B', 'Unnamed', unnamed(1, [['T']]), [sub('default')]),
                                                 variant('C', 'Unnamed', unnamed(1, [['T']], [fattr(fa)]))], [dw(all9)])
    # single traits with skips (which decide emptiness per trait)
    for t in SKIPPABLE:
        for i, a in enumerate(SKIP_CHOICES[1:]):
            ts = [t] + (['PartialEq'] if t == 'Eq' else []) + (['PartialEq', 'Eq', 'PartialOrd'] if t == 'Ord' else []) + (['PartialEq'] if t == 'PartialOrd' else [])
            yield 'skip1/%s/%d/struct' % (t, i), st('S', named(2, [['T'], ['u8']], [fattr(a), []]), [dw(ts)])
            yield 'skip1/%s/%d/struct_all' % (t, i), st('S', named(2, [['T'], ['u8']], [fattr(a), fattr(a)]), [dw(ts)])
            yield 'skip1/%s/%d/enum' % (t, i), en('E', [variant('A', 'Unnamed', unnamed(1, [['T']], [fattr(a)])), variant('B', 'Named', named(1, [['T']])), variant('C')], [dw(ts)])
            yield 'skip1/%s/%d/enum_allskipped' % (t, i), en('E', [variant('A', 'Unnamed', unnamed(1, [['T']], [fattr(a)])), variant('B', 'Named', named(1, [['T']], [fattr(a)]))], [dw(ts)])
            yield 'skip1/%s/%d/enum1' % (t, i), en('E', [variant('A', 'Unnamed', unnamed(2, [['T'], ['T']], [fattr(a), []]))], [dw(ts)])
    # item-level skip_inner groups split over several attributes
    yield 'skip_inner/split2', st('S', named(2, [['T'], ['u8']]), [dw(all9), dw([skip_meta('skip_inner', ['Debug'])]), dw([skip_meta('skip_inner', ['EqHashOrd'])])])
    yield 'skip_inner/split2_rev', st('S', unnamed(2, [['T'], ['u8']]), [dw([skip_meta('skip_inner', ['Hash'])]), dw(all9), dw([skip_meta('skip_inner', ['Debug'])])], 'Unnamed')
    yield 'skip_inner/split_variant', en('E', [variant('A', 'Named', named(2, [['T'], ['u8']]), [sub(skip_meta('skip_inner', ['Debug'])), sub(skip_meta('skip_inner', ['Hash']))]),
                                               variant('B', 'Unnamed', unnamed(1, [['T']]), [sub('default'), sub(skip_meta('skip_inner', ['EqHashOrd']), 'incomparable') if False else sub('default') if False else sub(skip_meta('skip_inner', ['EqHashOrd']))] if False else [sub('default')])], [dw(all9)])
    yield 'skip_inner/one_attr_two_groups_variant', en('E', [variant('A', 'Named', named(2, [['T'], ['u8']]), [sub(skip_meta('skip_inner', ['Debug']), skip_meta('skip_inner', ['Hash']), 'default')]), variant('B')], [dw(all9)])
    # attributes split over several field attributes / combined in one
    yield 'skip/multi_attr', st('S', [field('a', ['T'], [sub(skip_meta('skip', ['Debug'])), sub(skip_meta('skip', ['Hash']))]), field('b', ['u8'])], [dw(all9)])
    yield 'skip/one_attr_two', st('S', [field('a', ['T'], [sub(skip_meta('skip', ['Debug']), skip_meta('skip', ['EqHashOrd']))]), field('b', ['u8'])], [dw(all9)])
    # the skip table: every non-empty list of distinct groups in every ORDER, written as one list, as one attribute per group,
    # and as several lists in one attribute - as skip_inner on a variant / on the struct and as skip on a field (every group of
    # an earlier list must survive a later one, whichever comes first)
    G3 = ['Debug', 'EqHashOrd', 'Hash']
    for r in range(1, 4):
        for gs in itertools.permutations(G3, r):
            gt = '_'.join(gs)
            for lay in (('one', 'split', 'lists') if r > 1 else ('one',)):
                if lay == 'one':
                    inner_v = [sub(skip_meta('skip_inner', list(gs)))]
                    inner_s = [dw([skip_meta('skip_inner', list(gs))])]
                    fsk = [sub(skip_meta('skip', list(gs)))]
                elif lay == 'split':
                    inner_v = [sub(skip_meta('skip_inner', [g])) for g in gs]
                    inner_s = [dw([skip_meta('skip_inner', [g])]) for g in gs]
                    fsk = [sub(skip_meta('skip', [g])) for g in gs]
                else:
                    inner_v = [sub(*[skip_meta('skip_inner', [g]) for g in gs])]
                    inner_s = [dw([skip_meta('skip_inner', [g]) for g in gs])]
                    fsk = [sub(*[skip_meta('skip', [g]) for g in gs])]
                yield 'skip/groups/variant/%s/%s' % (gt, lay), en('E', [variant('A', 'Unnamed', unnamed(2, [['T'], ['u8']]), inner_v), variant('B', 'Named', named(1, [['T']])), variant('C')], [dw(all9)])
                yield 'skip/groups/struct/%s/%s' % (gt, lay), st('S', named(2, [['T'], ['u8']]), [dw(all9)] + inner_s)
                yield 'skip/groups/field/%s/%s' % (gt, lay), st('S', named(2, [['T'], ['u8']], [fsk, []]), [dw(all9)])
                yield 'skip/groups/enum_field/%s/%s' % (gt, lay), en('E', [variant('A', 'Unnamed', unnamed(2, [['T'], ['u8']], [[], fsk])), variant('B')], [dw(all9)])
    yield 'skip/foreign_attr', st('S', [field('a', ['T'], [('Other', P('doc'), ['=', '"x"']), sub('skip')]), field('b', ['u8'], [('Other', P('allow'), ['(', 'unused', ')'])])], [dw(all9)])


def s1_incomparable():
    sets = [['PartialEq'], ['PartialOrd'], ['PartialEq', 'PartialOrd'], ['PartialEq', 'PartialOrd', 'Clone', 'Debug', 'Hash'], ['PartialOrd', 'Clone', 'Copy'],
            ['PartialEq', 'PartialOrd', 'Clone', 'Debug', 'Hash', 'Default'], ['Default', 'PartialEq']]
    inc = [sub('incomparable')]
    shapes = {
        'unit': lambda a: variant('I', 'Unit', [], a),
        'tuple0': lambda a: variant('I', 'Unnamed', [], a),
        'named0': lambda a: variant('I', 'Named', [], a),
        'tuple': lambda a: variant('I', 'Unnamed', unnamed(1, [['T']]), a),
        'named': lambda a: variant('I', 'Named', named(1, [['T']]), a),
    }
    for ts in sets:
        tag = '+'.join(ts)
        yield 'inc/item_struct/' + tag, st('S', named(1, [['T']]), [dw(ts), dw(['incomparable'])])
        yield 'inc/item_unit/' + tag, st('S', [], [dw(ts), dw(['incomparable'])], 'Unit')
        yield 'inc/item_tuple0/' + tag, st('S', [], [dw(ts), dw(['incomparable'])], 'Unnamed')
        yield 'inc/item_named0/' + tag, st('S', [], [dw(ts), dw(['incomparable'])], 'Named')
        if 'Debug' in ts:
            yield 'inc/item_named0_skip_inner/' + tag, st('S', [], [dw(ts), dw(['incomparable']), dw(['skip_inner'])], 'Named')
            yield 'inc/item_tuple0_skip_inner/' + tag, st('S', [], [dw(ts), dw([skip_meta('skip_inner', ['Debug'])]), dw(['incomparable'])], 'Unnamed')
            yield 'inc/item_struct_field_skip/' + tag, st('S', named(2, [['T'], ['u8']], [[sub(skip_meta('skip', ['Debug']))], []]), [dw(ts), dw(['incomparable'])])
        yield 'inc/item_enum/' + tag, en('E', [variant('A', 'Unnamed', unnamed(1, [['T']])), variant('B')], [dw(ts), dw(['incomparable'])])
        yield 'inc/item_enum_empty/' + tag, en('E', [variant('A'), variant('B')], [dw(ts), dw(['incomparable'])])
        for sh, mk in shapes.items():
            # 0 / 1 / many comparable variants besides the incomparable one(s)
            yield 'inc/%s/only/%s' % (sh, tag), en('E', [mk(inc)], [dw(ts)])
            yield 'inc/%s/all2/%s' % (sh, tag), en('E', [mk(inc), variant('J', 'Unit', [], inc)], [dw(ts)])
            yield 'inc/%s/one_data/%s' % (sh, tag), en('E', [mk(inc), variant('A', 'Unnamed', unnamed(1, [['T']]))], [dw(ts)])
            yield 'inc/%s/one_unit/%s' % (sh, tag), en('E', [variant('A'), mk(inc)], [dw(ts)])
            yield 'inc/%s/many/%s' % (sh, tag), en('E', [variant('A', 'Unnamed', unnamed(1, [['T']])), mk(inc), variant('B', 'Named', named(2, [['T'], ['u8']]))], [dw(ts)])
            yield 'inc/%s/many_empty/%s' % (sh, tag), en('E', [variant('A'), mk(inc), variant('B', 'Named', named(1, [['T']])), variant('C', 'Unit', [], inc)], [dw(ts)])
            yield 'inc/%s/many_units/%s' % (sh, tag), en('E', [variant('A'), mk(inc), variant('B')], [dw(ts)])
        yield 'inc/skip_mix/' + tag, en('E', [variant('A', 'Unnamed', unnamed(1, [['T']], [[sub(skip_meta('skip', ['EqHashOrd']))]])), variant('I', 'Unit', [], inc),
                                              variant('B', 'Unnamed', unnamed(1, [['T']]))], [dw(ts)])
        # several options in one variant attribute, in every order
        for oi, opts in enumerate(itertools.permutations([skip_meta('skip_inner', None), 'incomparable'])):
            yield 'inc/opt_order/%d/%s' % (oi, tag), en('E', [variant('A', 'Unnamed', unnamed(1, [['T']]), [sub(*opts)]), variant('B', 'Unnamed', unnamed(1, [['T']])), variant('C', 'Named', named(1, [['u8']]))], [dw(ts)])
            yield 'inc/opt_order_g/%d/%s' % (oi, tag), en('E', [variant('A', 'Unnamed', unnamed(1, [['T']])), variant('B', 'Named', named(2, [['T'], ['u8']]), [sub(*[skip_meta('skip_inner', ['EqHashOrd']) if not isinstance(o, str) else o for o in opts])])], [dw(ts)])
        yield 'inc/two_attrs/' + tag, en('E', [variant('A', 'Unnamed', unnamed(1, [['T']])), variant('I', 'Unit', [], inc)], [dw(ts[:1]), dw(ts[1:] or ['Debug'], ['T'])])


def disc_patterns():
    yield 'implicit', [None, None, None, None]
    yield 'first', [(['5'], 5), None, None, None]
    yield 'middle', [None, (['10'], 10), None, None]
    yield 'all', [(['3'], 3), (['2'], 2), (['7'], 7), (['0'], 0)]
    yield 'descending', [(['9'], 9), (['6'], 6), (['4'], 4), (['1'], 1)]
    yield 'negative', [(['-', '2'], -2), None, None, (['5'], 5)]
    yield 'two_groups', [(['5'], 5), None, (['20'], 20), None]
    yield 'expr', [(['1', '+', '2'], 3), None, (['2', '*', '8'], 16), None]
    yield 'last', [None, None, None, (['100'], 100)]
    yield 'late', [None, None, (['10'], 10), None]
    yield 'late_adjacent', [None, None, (['3'], 3), None]
    yield 'impl_expl_impl_expl', [None, (['7'], 7), None, (['9'], 9)]


def s1_discriminant():
    sets = [['PartialOrd'], ['Ord', 'PartialOrd', 'PartialEq', 'Eq'], ['PartialOrd', 'Clone'], ['PartialOrd', 'Clone', 'Copy'], ['Ord', 'Copy', 'PartialEq', 'Eq', 'PartialOrd'],
            ['PartialOrd', 'PartialEq']]
    repr_sets = [None, ['C'], ['Rust']] + [[r] for r in REPRS] + [['C', 'u8'], ['i16', 'C'], ['C', 'i64']]
    pats = list(disc_patterns())
    n = 0
    for rs in repr_sets:
        for pi, (ptag, pat) in enumerate(pats):
            for si, ts in enumerate(sets):
                n += 1
                # covering, not the full product: all reprs x all patterns with rotating trait sets
                if (pi + si + len(rs or [])) % 3 != 0 and not (rs in (None, ['u8'], ['C', 'u8'], ['i64']) and si in (0, 2, 3)):
                    continue
                if rs and ptag == 'negative' and any(r.startswith('u') for r in rs):
                    continue
                rtag = 'none' if rs is None else '_'.join(rs)
                attrs = ([repr_attr(*rs)] if rs else []) + [dw(ts)]
                tag = '%s/%s/%s' % (rtag, ptag, '+'.join(ts))
                # unit-only enums are accepted only with a `default` (or incomparable) variant
                uattrs = ([repr_attr(*rs)] if rs else []) + [dw(ts + ['Default'])]
                yield 'disc/unit/' + tag, en('E', [variant('A', disc=pat[0]), variant('B', 'Unit', [], [sub('default')], disc=pat[1]), variant('C', disc=pat[2]), variant('D', disc=pat[3])], uattrs)
                if si in (0, 5):
                    yield 'disc/unit_inc/' + tag, en('E', [variant('A', disc=pat[0]), variant('B', disc=pat[1]), variant('C', 'Unit', [], [sub('incomparable')], disc=pat[2]), variant('D', disc=pat[3])], attrs)
                # data enums may carry explicit discriminants only with an integer repr
                has_int = rs is not None and any(r in REPRS for r in rs)
                p2 = pat if has_int else [None] * 4
                if has_int or ptag == 'implicit':
                    yield 'disc/data/' + tag, en('E', [variant('A', 'Unnamed', unnamed(1, [['T']]), disc=p2[0]), variant('B', disc=p2[1]),
                                                       variant('C', 'Named', named(1, [['T']]), disc=p2[2]), variant('D', 'Unnamed', [], disc=p2[3])], attrs)
                    yield 'disc/data_noempty/' + tag, en('E', [variant('A', 'Unnamed', unnamed(1, [['T']]), disc=p2[0]), variant('B', 'Named', named(2, [['T'], ['u8']]), disc=p2[1])], attrs)
                if ptag in ('implicit', 'first'):
                    yield 'disc/fieldless/' + tag, en('E', [variant('A', 'Unnamed', []), variant('B', 'Named', [], [sub('default')]), variant('C')], uattrs)
    # dense six-variant patterns: every implicit variant has explicit neighbours one below and one above its value, so that a
    # miscounted `(expr) + k` collides with (or jumps over) another variant and shows in the ORDER, not only in the tokens
    def lit(n):
        return ([str(n)], n) if n >= 0 else (['-', str(-n)], n)
    dense = [('dense_a', [None, None, 3, None, 5, 6]), ('dense_b', [10, None, 0, None, 2, 12]), ('dense_c', [None, 2, None, 4, None, 1]),
             ('dense_d', [None, None, None, -4, None, -2]), ('dense_e', [7, None, 9, 1, None, 3])]
    for dtag, pat in dense:
        p6 = [None if x is None else lit(x) for x in pat]
        for rs in (None, ['u8'], ['i64'], ['C', 'i16'], ['i32'], ['i8'], ['u16'], ['isize'], ['i128']):
            if rs not in (None, ['u8'], ['i64'], ['C', 'i16']) and dtag not in ('dense_d', 'dense_a'):
                continue
            if rs and any(r.startswith('u') for r in rs) and any(x is not None and x < 0 for x in pat):
                continue
            rtag = 'none' if rs is None else '_'.join(rs)
            ra = [repr_attr(*rs)] if rs else []
            for ts in (['PartialOrd', 'PartialEq'], ['Ord', 'PartialOrd', 'PartialEq', 'Eq'], ['PartialOrd', 'PartialEq', 'Clone'], ['PartialOrd', 'PartialEq', 'Clone', 'Copy']):
                tag = '%s/%s/%s' % (rtag, dtag, '+'.join(ts))
                names = 'ABCDEF'
                if 'Ord' not in ts:
                    yield 'disc/dense_unit_inc/' + tag, en('E', [variant(names[k], disc=p6[k]) for k in range(6)] + [variant('G', 'Unit', [], [sub('incomparable')], disc=lit(100))], ra + [dw(ts)])
                yield 'disc/dense_unit/' + tag, en('E', [variant(names[k], 'Unit', [], [sub('default')] if k == 1 else [], disc=p6[k]) for k in range(6)], ra + [dw(ts + ['Default'])])
                if rs is not None and 'Copy' not in ts:
                    yield 'disc/dense_data/' + tag, en('E', [variant(names[k], *(('Unnamed', unnamed(1, [['T']])) if k in (0, 3) else ('Unit', [])), disc=p6[k]) for k in range(6)], ra + [dw(ts)])
    # the extremes of every integer representation, next to small values (a tag read through the wrong type mis-orders them)
    W = {'u8': 8, 'u16': 16, 'u32': 32, 'u64': 64, 'u128': 128, 'usize': 64, 'i8': 8, 'i16': 16, 'i32': 32, 'i64': 64, 'i128': 128, 'isize': 64}
    for r in REPRS:
        lo, hi = (0, 2 ** W[r] - 1) if r.startswith('u') else (-2 ** (W[r] - 1), 2 ** (W[r] - 1) - 1)
        pat = [lit(1), lit(hi), lit(lo), lit(hi - 2), None] if r.startswith('u') else [lit(1), lit(hi), lit(lo), lit(-1), None]
        for rs in ([r], ['C', r]):
            rtag = '_'.join(rs)
            for ts in (['PartialOrd', 'PartialEq'], ['Ord', 'PartialOrd', 'PartialEq', 'Eq'], ['PartialOrd', 'PartialEq', 'Clone'], ['PartialOrd', 'PartialEq', 'Clone', 'Copy']):
                tag = '%s/%s' % (rtag, '+'.join(ts))
                names = 'ABCDE'
                if rs == [r]:
                    yield 'disc/extreme_unit/' + tag, en('E', [variant(names[k], 'Unit', [], [sub('default')] if k == 0 else [], disc=pat[k]) for k in range(5)], [repr_attr(*rs), dw(ts + ['Default'])])
                if 'Copy' not in ts:
                    yield 'disc/extreme_data/' + tag, en('E', [variant(names[k], *(('Unnamed', unnamed(1, [['T']])) if k in (1, 4) else ('Unit', [])), disc=pat[k]) for k in range(5)], [repr_attr(*rs), dw(ts)])
    # single-variant enums: Discriminant::parse answers Single before it looks at representations or discriminants
    for stag, v1 in (('tuple', variant('A', 'Unnamed', unnamed(1, [['T']]))), ('tuple_disc', variant('A', 'Unnamed', unnamed(1, [['T']]), disc=(['5'], 5))),
                     ('named_disc', variant('A', 'Named', named(1, [['T']]), disc=(['-', '1'], -1)))):
        for rtag, ra in (('none', []), ('packed', [repr_attr('packed')]), ('unknown', [repr_attr('foo')]), ('i8', [repr_attr('i8')]), ('C_unknown', [repr_attr('C', 'simd')]),
                         ('unparsable', [('Repr', ('Unparsable', ['align', '(', '8', ')']))])):
            for ts in (['PartialOrd', 'PartialEq'], ['Clone'], ['Ord', 'PartialOrd', 'PartialEq', 'Eq']):
                yield 'disc/single/%s/%s/%s' % (stag, rtag, '+'.join(ts)), en('E', [v1], ra + [dw(ts)])
    # several repr attributes, extremes
    D = [sub('default')]
    yield 'disc/two_repr_attrs', en('E', [variant('A', 'Unit', [], D), variant('B')], [repr_attr('C'), repr_attr('u16'), dw(['PartialOrd', 'Default'])])
    yield 'disc/two_int_reprs', en('E', [variant('A', 'Unit', [], D), variant('B')], [repr_attr('u8'), repr_attr('i32'), dw(['PartialOrd', 'Default'])])
    yield 'disc/u8_extreme', en('E', [variant('A', 'Unit', [], D, disc=(['0'], 0)), variant('B', disc=(['255'], 255))], [repr_attr('u8'), dw(['PartialOrd', 'PartialEq', 'Default'])])
    yield 'disc/i8_extreme', en('E', [variant('A', 'Unit', [], D, disc=(['-', '128'], -128)), variant('B', disc=(['127'], 127))], [repr_attr('i8'), dw(['PartialOrd', 'Default'])])
    yield 'disc/u128_extreme', en('E', [variant('A', 'Unit', [], D, disc=(['340282366920938463463374607431768211455'], 2**128 - 1)), variant('B', disc=(['0'], 0))], [repr_attr('u128'), dw(['Ord', 'PartialOrd', 'Eq', 'PartialEq', 'Default'])])
    yield 'disc/i128_extreme', en('E', [variant('A', 'Unit', [], D, disc=(['-', '170141183460469231731687303715884105728'], -2**127)), variant('B')], [repr_attr('i128'), dw(['PartialOrd', 'Default'])])
    yield 'disc/u8_extreme_data', en('E', [variant('A', 'Unnamed', unnamed(1, [['T']]), disc=(['254'], 254)), variant('B')], [repr_attr('u8'), dw(['PartialOrd', 'PartialEq'])])
    yield 'disc/raw_names', en('E', [variant('r#type', 'Unit', [], D, disc=(['2'], 2)), variant('r#fn'), variant('C')], [dw(['PartialOrd', 'Default'])])
    yield 'disc/raw_names_repr', en('E', [variant('r#type', 'Unit', [], D, disc=(['2'], 2)), variant('r#fn'), variant('C')], [repr_attr('i8'), dw(['Ord', 'PartialOrd', 'Eq', 'PartialEq', 'Default'])])
    yield 'disc/case_names', en('E', [variant('Http', 'Unit', [], D, disc=(['1'], 1)), variant('HTTP', disc=(['4'], 4)), variant('ab_C'), variant('Ab_c')], [dw(['PartialOrd', 'Default'])])
    yield 'disc/case_names_ord', en('E', [variant('Http', 'Unit', [], D), variant('HTTP', disc=(['4'], 4)), variant('http')], [dw(['Ord', 'PartialOrd', 'Eq', 'PartialEq', 'Default', 'Clone'])])
    yield 'disc/case_names_inc', en('E', [variant('Http', disc=(['1'], 1)), variant('HTTP', disc=(['4'], 4)), variant('Ftp'), variant('Unknown', 'Unit', [], [sub('incomparable')])], [dw(['PartialEq', 'PartialOrd'])])
    yield 'disc/generic_where', en('E', [variant('A', 'Unnamed', unnamed(1, [['T']])), variant('B', 'Unnamed', unnamed(1, [['U']]))], [dw(['PartialOrd'], ['T'])],
                                    gen=generics([('Lt', 'a', []), tparam('T', ['Clone']), tparam('U', [], ['u8']), ('Const', 'N', ['usize'], [])], ([['U', ':', "'a"]], True)))
    yield 'disc/skip_empty', en('E', [variant('A', 'Unnamed', unnamed(1, [['T']], [[sub('skip')]])), variant('B', 'Unnamed', unnamed(1, [['T']])), variant('C', 'Unnamed', unnamed(1, [['T']]))], [dw(['PartialOrd', 'Ord', 'PartialEq', 'Eq'])])
    yield 'disc/all_skipped', en('E', [variant('A', 'Unnamed', unnamed(1, [['T']], [[sub('skip')]])), variant('B', 'Named', named(1, [['T']], [[sub('skip')]]))], [dw(['PartialOrd', 'Ord', 'PartialEq', 'Eq'])])


def s1_default():
    for pos in range(3):
        for sh in ('Unit', 'Unnamed', 'Named'):
            vs = []
            for k in range(3):
                a = [sub('default')] if k == pos else []
                if k == pos:
                    f = unnamed(2, [['T'], ['u8']]) if sh == 'Unnamed' else named(2, [['T'], ['u8']]) if sh == 'Named' else []
                    vs.append(variant('V%d' % k, sh, f, a))
                else:
                    vs.append(variant('V%d' % k, 'Unnamed', unnamed(1, [['T']]), a))
            yield 'default/enum/%d/%s' % (pos, sh), en('E', vs, [dw(['Default'])])
            yield 'default/enum_b/%d/%s' % (pos, sh), en('E', vs, [dw(['Default', 'Clone'], ['T'])])
    for oi, opts in enumerate(itertools.permutations([skip_meta('skip_inner', ['Debug']), 'default', 'incomparable'])):
        yield 'default/opt_order/%d' % oi, en('E', [variant('A', 'Unnamed', unnamed(1, [['T']])), variant('B', 'Named', named(2, [['T'], ['u8']]), [sub(*opts)])], [dw(['Default', 'Debug', 'PartialEq', 'PartialOrd'])])
    for oi, opts in enumerate(itertools.permutations([skip_meta('skip_inner', None), 'default'])):
        yield 'default/opt_order2/%d' % oi, en('E', [variant('A', 'Unnamed', unnamed(1, [['T']]), [sub(*opts)]), variant('B')], [dw(['Default', 'Hash', 'Clone'])])
    yield 'default/struct_skip', st('S', named(2, [['T'], ['u8']], [[sub('skip')], []]), [dw(['Default', 'Debug'])])
    yield 'default/tuple_skip', st('S', unnamed(2, [['T'], ['u8']], [[sub('skip')], []]), [dw(['Default', 'PartialEq'])], 'Unnamed')
    yield 'default/enum_empty', en('E', [variant('A', 'Unit', [], [sub('default')])], [dw(['Default'])])
    yield 'default/enum_with_inc', en('E', [variant('A', 'Unit', [], [sub('default', 'incomparable')]), variant('B')], [dw(['Default', 'PartialEq'])])
    yield 'default/other_attr', en('E', [variant('A', 'Unit', [], [sub('default')]), variant('B')], [dw(['Clone']), dw(['Default'], ['T'])])


def s1_names():
    all9 = [t for t in STD9 if t != 'Copy']
    yield 'names/raw_struct', st('r#type', [field('r#fn', ['T']), field('r#match', ['u8'])], [dw(all9)])
    yield 'names/raw_enum', en('r#enum', [variant('r#struct', 'Named', [field('r#self_', ['T'])], [sub('default')]), variant('r#loop', 'Unnamed', unnamed(1, [['T']])), variant('r#in')], [dw(all9)])
    yield 'names/temporaries', st('S', [field('__field_a', ['T']), field('__other', ['u8']), field('__f', ['u8']), field('__state', ['u8']), field('__builder', ['u8'])], [dw(all9)])
    yield 'names/temporaries_enum', en('E', [variant('__cmp', 'Named', [field('__self_disc', ['T']), field('__other_disc', ['u8'])], [sub('default')]), variant('__this', 'Unnamed', unnamed(1, [['T']]))], [dw(all9)])
    yield 'names/generic_names', st('S', named(1, [['__T']]), [dw(all9, ['__T'])], gen=generics([tparam('__T')]))
    yield 'names/raw_generic', st('S', named(1, [['r#T']]), [dw(['Clone', 'Debug'], ['r#T'])], gen=generics([tparam('r#T'), tparam('U')]))
    yield 'names/vis', item(('Struct', 'Named', [field('a', ['T'], [], ['pub']), field('b', ['u8'], [], ['pub', '(', 'crate', ')'])]), 'S', [dw(all9)], GT, ['pub'])


def zmeta(name, crate=None):
    if crate is None:
        return mpath(name)
    return ('L', P(name), [('NV', P('crate'), crate)], None)


def s1_zeroize():
    zs = [['Zeroize'], ['ZeroizeOnDrop'], ['Zeroize', 'ZeroizeOnDrop'], ['Zeroize', 'ZeroizeOnDrop', 'Clone', 'Debug']]
    fq = [sub(('L', P('Zeroize'), [mpath('fqs')], None))]
    sk = [sub(skip_meta('skip', ['Zeroize']))]
    for ts in zs:
        tag = '+'.join(ts)
        yield 'zeroize/struct/' + tag, st('S', named(2, [['T'], ['u8']]), [dw(ts)])
        yield 'zeroize/tuple/' + tag, st('S', unnamed(2, [['T'], ['u8']]), [dw(ts)], 'Unnamed')
        yield 'zeroize/struct_skip/' + tag, st('S', named(2, [['T'], ['u8']], [sk, []]), [dw(ts)])
        yield 'zeroize/struct_skip_all/' + tag, st('S', named(2, [['T'], ['u8']], [sk, [sub('skip')]]), [dw(ts)])
        yield 'zeroize/struct_skip_inner/' + tag, st('S', named(2, [['T'], ['u8']]), [dw(ts), dw([skip_meta('skip_inner', ['Zeroize'])])])
        yield 'zeroize/enum/' + tag, en('E', [variant('A', 'Unnamed', unnamed(1, [['T']])), variant('B', 'Named', named(2, [['T'], ['u8']]))], [dw(ts)])
        yield 'zeroize/enum1/' + tag, en('E', [variant('A', 'Unnamed', unnamed(1, [['T']]))], [dw(ts)])
        yield 'zeroize/enum_unit/' + tag, en('E', [variant('A', 'Unnamed', unnamed(1, [['T']])), variant('B'), variant('C', 'Named', [])], [dw(ts)])
        yield 'zeroize/enum_skip/' + tag, en('E', [variant('A', 'Unnamed', unnamed(1, [['T']], [sk])), variant('B', 'Named', named(2, [['T'], ['u8']], [[], sk]))], [dw(ts)])
        yield 'zeroize/enum_skip_all/' + tag, en('E', [variant('A', 'Unnamed', unnamed(1, [['T']], [sk])), variant('B', 'Named', named(2, [['T'], ['u8']], [sk, [sub('skip')] if 'Debug' in ts else sk])), variant('C')], [dw(ts)])
        yield 'zeroize/bound/' + tag, st('S', named(1, [['T']]), [dw(ts, ['T'])], gen=generics([tparam('T'), tparam('U')]))
        if 'Zeroize' in ts:
            yield 'zeroize/fqs/' + tag, st('S', named(2, [['T'], ['u8']], [fq, []]), [dw(ts)])
            yield 'zeroize/fqs_enum/' + tag, en('E', [variant('A', 'Unnamed', unnamed(2, [['T'], ['u8']], [[], fq])), variant('B', 'Named', named(1, [['T']], [fq]))], [dw(ts)])
            if 'Debug' in ts:   # the same two options of ONE attribute in the other order, on a named and on a tuple field
                yield 'zeroize/skip_fqs/' + tag, st('S', named(2, [['T'], ['u8']], [[sub(skip_meta('skip', ['Debug']), ('L', P('Zeroize'), [mpath('fqs')], None))], sk]), [dw(ts)])
                yield 'zeroize/skip_fqs_enum/' + tag, en('E', [variant('A', 'Unnamed', unnamed(2, [['T'], ['u8']], [[sub(skip_meta('skip', ['Debug']), ('L', P('Zeroize'), [mpath('fqs')], None))], []])), variant('B')], [dw(ts)])
            yield 'zeroize/fqs_skip/' + tag, st('S', named(2, [['T'], ['u8']], [[sub(('L', P('Zeroize'), [mpath('fqs')], None), skip_meta('skip', ['Debug']))] if 'Debug' in ts else fq, sk]), [dw(ts)])
    # `incomparable` concerns the comparison traits only: the fields of an incomparable variant / struct are still wiped
    inc_ = [sub('incomparable')]
    for ts in (['Zeroize', 'PartialEq'], ['Zeroize', 'ZeroizeOnDrop', 'PartialEq'], ['ZeroizeOnDrop', 'Zeroize', 'PartialOrd', 'PartialEq', 'Debug']):
        tag = '+'.join(ts)
        yield 'zeroize/incomparable/variant/' + tag, en('E', [variant('A', 'Unnamed', unnamed(2, [['T'], ['u8']])), variant('B', 'Named', named(2, [['T'], ['u8']]), inc_), variant('C', 'Unit', [], inc_)], [dw(ts)])
        yield 'zeroize/incomparable/variant_first/' + tag, en('E', [variant('A', 'Unnamed', unnamed(1, [['T']]), inc_), variant('B', 'Named', named(1, [['u8']]))], [dw(ts)])
        yield 'zeroize/incomparable/struct/' + tag, st('S', named(2, [['T'], ['u8']]), [dw(ts), dw(['incomparable'])])
        yield 'zeroize/incomparable/tuple/' + tag, st('S', unnamed(2, [['T'], ['u8']]), [dw(['incomparable']), dw(ts)], 'Unnamed')
        yield 'zeroize/incomparable/enum_item/' + tag, en('E', [variant('A', 'Unnamed', unnamed(2, [['T'], ['u8']])), variant('B')], [dw(ts), dw(['incomparable'])])
        yield 'zeroize/incomparable/variant_skip/' + tag, en('E', [variant('A', 'Unnamed', unnamed(2, [['T'], ['u8']], [sk, []]), inc_), variant('B', 'Named', named(1, [['T']]))], [dw(ts)])
    # every ordered combination of up to three field-level options, under no / a partial parent skip_inner
    fo = {'skip_Debug': skip_meta('skip', ['Debug']), 'skip_Hash': skip_meta('skip', ['Hash']), 'skip_Zeroize': skip_meta('skip', ['Zeroize']),
          'fqs': ('L', P('Zeroize'), [mpath('fqs')], None)}
    tsf = ['Zeroize', 'ZeroizeOnDrop', 'Debug', 'Hash', 'PartialEq', 'Clone']
    for r in (1, 2, 3):
        for combo in itertools.permutations(sorted(fo), r):
            a = [sub(*[fo[k] for k in combo])]
            tag = '+'.join(combo)
            yield 'fopts/plain/struct/' + tag, st('S', named(3, [['u8'], ['T'], ['u16']], [[], a, []]), [dw(tsf)])
            yield 'fopts/plain/enum/' + tag, en('E', [variant('A'), variant('B', 'Unnamed', unnamed(2, [['T'], ['u8']], [[], a]))], [dw(tsf)])
            yield 'fopts/inner_EqHashOrd/struct/' + tag, st('S', named(2, [['T'], ['u8']], [a, []]), [dw(tsf), dw([skip_meta('skip_inner', ['EqHashOrd'])])])
            yield 'fopts/inner_Debug/variant/' + tag, en('E', [variant('A', 'Named', named(2, [['T'], ['u8']], [[], a]), [sub(skip_meta('skip_inner', ['Debug']))]), variant('B')], [dw(tsf)])
    # every order of a skipped, an fqs and a plain field
    for oi, perm in enumerate(itertools.permutations([sk, fq, [], [sub('skip')]], 3)):
        yield 'zeroize/perm/struct/%d' % oi, st('S', named(3, [['T'], ['u8'], ['u16']], list(perm)), [dw(['Zeroize', 'ZeroizeOnDrop', 'Debug'])])
        if oi % 2 == 0:
            yield 'zeroize/perm/enum/%d' % oi, en('E', [variant('A'), variant('B', 'Unnamed', unnamed(3, [['T'], ['u8'], ['u16']], list(perm))), variant('C', 'Named', named(2, [['T'], ['u8']], list(perm)[:2]))], [dw(['Zeroize', 'ZeroizeOnDrop'])])
    # the skip table under the zeroize features: every non-empty set of groups (one attribute, or one attribute per group) as
    # skip_inner on a variant / on the struct and as skip on a field, with every trait of the four groups derived
    all_z = ['Zeroize', 'ZeroizeOnDrop', 'Debug', 'PartialEq', 'Hash', 'Clone']
    G4 = ['Debug', 'EqHashOrd', 'Hash', 'Zeroize']
    for r in range(1, 5):
        for gs in itertools.combinations(G4, r):
            gt = '_'.join(gs)
            for st_ in (('one', 'split', 'split_rev', 'lists', 'lists_rev') if r > 1 else ('one',)):
                split = st_ != 'one'
                g2 = gs[::-1] if st_.endswith('_rev') else gs
                inner_v = [sub(skip_meta('skip_inner', [g])) for g in g2] if split else [sub(skip_meta('skip_inner', list(g2)))]
                inner_s = [dw([skip_meta('skip_inner', [g])]) for g in g2] if split else [dw([skip_meta('skip_inner', list(g2))])]
                fsk = [sub(skip_meta('skip', [g])) for g in g2] if split else [sub(skip_meta('skip', list(g2)))]
                if st_.startswith('lists'):
                    inner_v = [sub(*[skip_meta('skip_inner', [g]) for g in g2])]
                    inner_s = [dw([skip_meta('skip_inner', [g]) for g in g2])]
                    fsk = [sub(*[skip_meta('skip', [g]) for g in g2])]
                yield 'zeroize/skip_groups/variant/%s/%s' % (gt, st_), en('E', [variant('A', 'Unnamed', unnamed(2, [['T'], ['u8']]), inner_v), variant('B', 'Named', named(1, [['T']])), variant('C')], [dw(all_z)])
                yield 'zeroize/skip_groups/struct/%s/%s' % (gt, st_), st('S', named(2, [['T'], ['u8']]), [dw(all_z)] + inner_s)
                yield 'zeroize/skip_groups/field/%s/%s' % (gt, st_), st('S', named(2, [['T'], ['u8']], [fsk, []]), [dw(all_z)])
                yield 'zeroize/skip_groups/enum_field/%s/%s' % (gt, st_), en('E', [variant('A', 'Unnamed', unnamed(2, [['T'], ['u8']], [[], fsk])), variant('B')], [dw(all_z)])
    cr = ('EPath', (False, ['zeroize_']))
    cs = ('EStr', '"::my::zeroize"', (True, ['my', 'zeroize']))
    for ctag, c in (('path', cr), ('str', cs)):
        yield 'zeroize/crate_%s/z' % ctag, st('S', named(1, [['T']]), [dw([zmeta('Zeroize', c)])])
        yield 'zeroize/crate_%s/zod' % ctag, st('S', named(1, [['T']]), [dw([zmeta('ZeroizeOnDrop', c)])])
        yield 'zeroize/crate_%s/both' % ctag, en('E', [variant('A', 'Unnamed', unnamed(1, [['T']])), variant('B', 'Named', named(1, [['T']], [fq]))], [dw([zmeta('Zeroize', c), zmeta('ZeroizeOnDrop', c)])])
        yield 'zeroize/crate_%s/same_bounds_dup' % ctag, st('S', named(1, [['T']]), [dw([zmeta('Zeroize', c), 'Zeroize'])])


def s0_known():
    """witnesses of the open known findings (known_findings.json) and of the repaired defects"""
    yield 'known/F4', en('E', [variant('A', 'Unnamed', unnamed(1, [['T']])), variant('B')], [repr_attr('u8'), dw(['PartialOrd'])])
    yield 'known/F6', en('E', [variant('A', 'Unnamed', [], disc=(['3'], 3)), variant('B', 'Unit', [], [sub('incomparable')]), variant('C')], [repr_attr('u8'), dw(['PartialOrd', 'Clone', 'PartialEq'])])
    yield 'known/F8', st('S', named(1, [['::', 'core', '::', 'marker', '::', 'PhantomData', '<', '__H', '>']]), [dw(['Hash'])], gen=generics([tparam('__H')]))
    yield 'known/F9', st('S', unnamed(1, [['T']]), [dw(['PartialEq'])], 'Unnamed')
    yield 'known/F11', st('S', named(2, [['T'], ['U']]), [dw(['Zeroize', 'ZeroizeOnDrop'], ['T'])], gen=generics([tparam('T'), tparam('U')]))
    # fixed: F1 raw type / variant names in Debug, F10 field-less braced item with skip_inner(Debug)
    yield 'known/F1', en('r#type', [variant('r#fn', 'Unnamed', unnamed(1, [['T']])), variant('r#match', 'Named', named(1, [['T']])), variant('r#loop')], [dw(['Debug'])])
    yield 'known/F1s', st('r#struct', unnamed(1, [['T']]), [dw(['Debug'])], 'Unnamed')
    yield 'known/F10', item(('Struct', 'Named', []), 'S', [dw(['Debug', 'PartialEq']), dw(['incomparable']), dw([skip_meta('skip_inner', ['Debug'])])], generics([]))
    # fixed: F3 mixed bound list with the shortcut pairs
    g2 = generics([tparam('T'), tparam('U')])
    yield 'known/F3a', st('S', named(2, [['T'], ['U']]), [dw(['Clone', 'Copy'], ['T', ('Pred', ['U', ':', 'Tr'])])], gen=g2)
    yield 'known/F3b', en('E', [variant('A', 'Unnamed', unnamed(1, [['T']])), variant('B', 'Unnamed', unnamed(1, [['U']]))], [dw(['Ord', 'PartialOrd', 'Eq', 'PartialEq'], ['T', ('Pred', ['U', ':', 'Tr'])])], gen=g2)
    # fixed: F7 same trait, same bounds, non-adjacent attributes
    yield 'known/F7', st('S', named(2, [['T'], ['U']]), [dw(['Clone'], ['T']), dw(['Debug'], ['U']), dw(['Clone'], ['T'])], gen=g2)


def s1_stage_a():
    """the attribute macro: `crate` option, visited marker, printing of the whole item"""
    f2 = named(2, [['T'], ['u8']])
    cr = lambda e: dw([('NV', P('crate'), e)])
    yield 'stagea/crate_unnecessary', st('S', f2, [cr(('EPath', (True, ['derive_where']))), dw(['Clone'])])
    yield 'stagea/crate_unnecessary_str', st('S', f2, [cr(('EStr', '"::derive_where"', (True, ['derive_where']))), dw(['Clone'])])
    yield 'stagea/crate_no_lead', st('S', f2, [cr(('EPath', (False, ['derive_where']))), dw(['Clone'])])
    yield 'stagea/crate_dup', st('S', f2, [cr(('EPath', (False, ['a']))), cr(('EPath', (False, ['b']))), dw(['Clone'])])
    yield 'stagea/crate_dup_same', st('S', f2, [cr(('EPath', (False, ['a']))), dw(['Clone']), cr(('EPath', (False, ['a'])))])
    yield 'stagea/crate_bad_str', st('S', f2, [cr(('EStr', '"1 +"', None)), dw(['Clone'])])
    yield 'stagea/crate_other_expr', st('S', f2, [cr(('EOther', ['1'])), dw(['Clone'])])
    yield 'stagea/crate_bare', st('S', f2, [dw(['crate']), dw(['Clone'])])
    yield 'stagea/crate_list', st('S', f2, [dw([('L', P('crate'), [mpath('x')], None)]), dw(['Clone'])])
    yield 'stagea/crate_long', st('S', f2, [cr(('EPath', (True, ['a', 'b', 'c']))), dw(['Clone', 'Debug'])])
    yield 'stagea/crate_after', st('S', f2, [dw(['Clone']), cr(('EStr', '"my_dw"', (False, ['my_dw'])))])
    yield 'stagea/visited', st('S', f2, [dw(['Clone']), ('Other', (True, ['derive_where', 'derive_where_visited']), [])])
    yield 'stagea/visited_first', st('S', f2, [('Other', (True, ['derive_where', 'derive_where_visited']), []), dw(['Clone'])])
    yield 'stagea/visited_custom', st('S', f2, [cr(('EPath', (False, ['dw_']))), dw(['Clone']), ('Other', (False, ['dw_', 'derive_where_visited']), [])])
    yield 'stagea/visited_other_crate', st('S', f2, [cr(('EPath', (False, ['dw_']))), dw(['Clone']), ('Other', (True, ['derive_where', 'derive_where_visited']), [])])
    # somebody else's attribute with a lone `crate = ..` argument (serde has one) is not derive_where's crate option
    yield 'stagea/foreign_crate_attr', st('S', f2, [('Other', P('serde'), ['(', 'crate', '=', '"serde_"', ')']), dw(['Clone'])])
    yield 'stagea/foreign_crate_attr_after', st('S', f2, [dw(['Clone', 'Debug']), ('Other', P('other'), ['(', 'crate', '=', 'my', '::', 'path', ')'])])
    yield 'stagea/qualified_second', st('S', f2, [dw(['Clone']), ('Other', (True, ['derive_where', 'derive_where']), ['(', 'Debug', ')'])])
    yield 'stagea/other_attrs', item(('Struct', 'Named', [field('a', ['T'], [('Other', P('doc'), ['=', '"field"']), sub('skip')], ['pub']), field('b', ['u8'], [('Other', P('cfg'), ['(', 'all', '(', ')', ')'])])]),
                                      'S', [('Other', P('doc'), ['=', '"item"']), dw(['Debug']), ('Other', P('allow'), ['(', 'dead_code', ')']), repr_attr('C')], GT, ['pub', '(', 'crate', ')'])
    yield 'stagea/enum_full', item(('Enum', [variant('A', 'Named', [field('x', ['T'], [sub(skip_meta('skip', ['Debug']))], ['pub'] if False else [])], [('Other', P('doc'), ['=', '"v"']), sub('default')], disc=None),
                                             variant('B', 'Unnamed', unnamed(2, [['T'], ['u8']], [[sub('skip')], []]), [], disc=(['7'], 7)), variant('C', 'Unit', [], [('Other', P('allow'), ['(', 'unused', ')'])])]),
                                    'E', [repr_attr('u8'), dw(['Debug', 'Default', 'PartialOrd'])],
                                    generics([('Lt', 'a', []), tparam('T', ["'a", '+', 'Clone'], ['u8']), ('Const', 'N', ['usize'], ['3'])], ([['T', ':', 'Sized']], True), True))
    yield 'stagea/tuple_where', item(('Struct', 'Unnamed', unnamed(2, [['T'], ['&', "'a", 'u8']], [[sub('skip')], []])), 'S', [dw(['Debug'])],
                                      generics([('Lt', 'a', []), tparam('T')], ([['T', ':', "'a"]], False)))
    yield 'stagea/unit_where', item(('Struct', 'Unit', []), 'S', [dw(['PartialEq']), dw(['incomparable'])], generics([tparam('T')], ([['T', ':', 'Copy']], False)))
    yield 'stagea/union', item(('Union', [field('a', ['T'], [('Other', P('doc'), ['=', '"u"'])], ['pub']), field('b', ['u8'])]), 'U', [dw(['Clone', 'Copy']), repr_attr('C')], GT, ['pub'])
    # stage-A ERRORS (the attribute macro re-emits the item stripped of every derive_where attribute): one per item kind, with
    # derive_where attributes at item, variant and field level, so that a level that is not stripped shows in rustc's output
    bad = cr(('EPath', (True, ['derive_where'])))
    yield 'stagea/err_enum_levels', en('E', [variant('A', 'Named', named(2, [['T'], ['u8']], [[sub(skip_meta('skip', ['Debug']))], []]), [sub('default')]),
                                             variant('B', 'Unnamed', unnamed(1, [['T']], [[sub('skip')]]), [sub(skip_meta('skip_inner', ['Debug']))]),
                                             variant('C', 'Unit', [], [('Other', P('doc'), ['=', '"c"'])])], [bad, dw(['Debug', 'Default'])])
    yield 'stagea/err_enum_variant_only', en('E', [variant('A', 'Unnamed', unnamed(1, [['T']])), variant('B', 'Unit', [], [sub('incomparable')])], [bad, dw(['PartialEq'])])
    yield 'stagea/err_struct_levels', st('S', named(2, [['T'], ['u8']], [[sub('skip')], [sub(skip_meta('skip', ['Debug']))]]), [dw(['Debug']), bad, dw([skip_meta('skip_inner', ['Debug'])])])
    yield 'stagea/err_tuple_levels', st('S', unnamed(2, [['T'], ['u8']], [[sub('skip')], []]), [bad, dw(['Debug'])], 'Unnamed')
    yield 'stagea/err_union_levels', item(('Union', [field('a', ['T'], [sub('skip')], []), field('b', ['u8'])]), 'U', [bad, dw(['Clone', 'Copy'])], GT)
    yield 'stagea/error_keeps_attrs', st('S', named(2, [['T'], ['u8']], [[sub('skip'), ('Other', P('doc'), ['=', '"x"'])], [sub(skip_meta('skip', ['Debug']))]]), [dw(['Foo']), ('Other', P('allow'), ['(', 'dead_code', ')'])])


def s1_all():
    gens = [s0_known, s1_stage_a, s1_basic, s1_bounds, s1_attr_split, s1_skip, s1_incomparable, s1_discriminant, s1_default, s1_names, s1_zeroize]
    for g in gens:
        for x in g():
            yield x


# ----------------------------------------------------------------------------- S3 invalid
def s3_invalid():
    all9 = [t for t in STD9 if t != 'Copy']
    f2 = named(2, [['T'], ['u8']])
    base_vs = [variant('A', 'Unnamed', unnamed(1, [['T']])), variant('B')]

    def S(attrs, fields=None, shape='Named', gen=None):
        return st('S', f2 if fields is None else fields, attrs, shape, gen)

    def E(attrs, vs=None, gen=None):
        return en('E', base_vs if vs is None else vs, attrs, gen)

    inc = sub('incomparable')
    # incomparable
    for ts in (['PartialEq', 'Eq'], ['PartialOrd', 'Ord', 'PartialEq', 'Eq'], ['Eq'], ['Ord'], ['PartialEq', 'Ord']):
        yield 'inv/inc_total/variant/' + '+'.join(ts), E([dw(ts)], [variant('A', 'Unnamed', unnamed(1, [['T']])), variant('B', 'Unit', [], [inc])])
        yield 'inv/inc_total/item/' + '+'.join(ts), S([dw(ts), dw(['incomparable'])])
        yield 'inv/inc_total/split/' + '+'.join(ts), E([dw(ts[:1]), dw(ts[1:] or ['Clone'], ['T'])], [variant('A', 'Unnamed', unnamed(1, [['T']])), variant('B', 'Unit', [], [inc])])
    for ts in (['Clone'], ['Debug', 'Hash'], ['Default']):
        d = [sub('default')] if 'Default' in ts else []
        yield 'inv/inc_no_partial/variant/' + '+'.join(ts), E([dw(ts)], [variant('A', 'Unnamed', unnamed(1, [['T']]), d), variant('B', 'Unit', [], [inc])])
        yield 'inv/inc_no_partial/item/' + '+'.join(ts), S([dw(ts), dw(['incomparable'])]) if 'Default' not in ts else S([dw(['Clone']), dw(['incomparable'])])
    yield 'inv/inc_both/enum', E([dw(['PartialEq']), dw(['incomparable'])], [variant('A', 'Unnamed', unnamed(1, [['T']])), variant('B', 'Unit', [], [inc])])
    yield 'inv/inc_both/enum_first', E([dw(['incomparable']), dw(['PartialOrd'])], [variant('A', 'Unit', [], [inc]), variant('B')])
    # the variant repeating the item's `incomparable` is also the `default` one (one attribute in either order, or two attributes)
    for tag, a in (('default_first', [sub('default', 'incomparable')]), ('default_last', [sub('incomparable', 'default')]), ('split', [sub('default'), inc]), ('split_rev', [inc, sub('default')])):
        yield 'inv/inc_both/default_variant/' + tag, E([dw(['Default', 'PartialEq']), dw(['incomparable'])], [variant('A', 'Unnamed', unnamed(1, [['T']]), a), variant('B')])
        yield 'inv/inc_both/default_variant_last/' + tag, E([dw(['incomparable']), dw(['Default', 'PartialOrd', 'PartialEq'])], [variant('A', 'Unnamed', unnamed(1, [['T']])), variant('B', 'Unit', [], a)])
    # every ordered combination of up to three variant-level options, with and without the item-level `incomparable`, on the first
    # and on the last variant (what is valid is the model's business; the real macro must agree on each)
    vo = {'default': 'default', 'incomparable': 'incomparable', 'skip_inner': 'skip_inner', 'skip_inner_Debug': skip_meta('skip_inner', ['Debug'])}
    tsv = ['Default', 'PartialEq', 'PartialOrd', 'Debug', 'Hash', 'Clone']
    for r in (1, 2, 3):
        for combo in itertools.permutations(sorted(vo), r):
            if 'skip_inner' in combo and 'skip_inner_Debug' in combo:
                continue
            a = [sub(*[vo[k] for k in combo])]
            tag = '+'.join(combo)
            for itag, ia in (('plain', []), ('item_inc', [dw(['incomparable'])])):
                yield 'vopts/%s/first/%s' % (itag, tag), E([dw(tsv)] + ia, [variant('A', 'Unnamed', unnamed(2, [['T'], ['u8']]), a), variant('B', 'Named', named(1, [['T']]))])
                yield 'vopts/%s/last/%s' % (itag, tag), E(ia + [dw(tsv)], [variant('A', 'Named', named(1, [['T']])), variant('B', 'Unnamed', unnamed(2, [['T'], ['u8']]), a)])
    yield 'inv/inc_dup/variant', E([dw(['PartialEq'])], [variant('A', 'Unnamed', unnamed(1, [['T']])), variant('B', 'Unit', [], [sub('incomparable', 'incomparable')])])
    yield 'inv/inc_dup/variant2', E([dw(['PartialEq'])], [variant('A', 'Unnamed', unnamed(1, [['T']])), variant('B', 'Unit', [], [inc, inc])])
    yield 'inv/inc_dup/item', S([dw(['PartialEq']), dw(['incomparable']), dw(['incomparable'])])
    yield 'inv/inc_syntax/list', E([dw(['PartialEq'])], [variant('A', 'Unnamed', unnamed(1, [['T']])), variant('B', 'Unit', [], [sub(('L', P('incomparable'), [mpath('x')], None))])])
    yield 'inv/inc_syntax/nv', S([dw(['PartialEq']), dw([('NV', P('incomparable'), ('EOther', ['true']))])])
    yield 'inv/inc_on_field', S([dw(['PartialEq'])], [field('a', ['T'], [inc]), field('b', ['u8'])])
    # skip
    yield 'inv/skip_group_underived/field', S([dw(['Clone', 'Debug'])], named(2, [['T'], ['u8']], [[sub(skip_meta('skip', ['EqHashOrd']))], []]))
    yield 'inv/skip_group_underived/field_hash', S([dw(['PartialEq', 'Debug'])], named(2, [['T'], ['u8']], [[sub(skip_meta('skip', ['Hash']))], []]))
    yield 'inv/skip_group_underived/inner', S([dw(['PartialEq']), dw([skip_meta('skip_inner', ['Debug'])])])
    yield 'inv/skip_group_underived/variant', E([dw(['Hash'])], [variant('A', 'Unnamed', unnamed(1, [['T']]), [sub(skip_meta('skip_inner', ['Debug']))]), variant('B')])
    yield 'inv/skip_group_underived/second', S([dw(['Debug'])], named(2, [['T'], ['u8']], [[sub(skip_meta('skip', ['Debug', 'Hash']))], []]))
    yield 'inv/skip_no_trait/field', S([dw(['Clone'])], named(2, [['T'], ['u8']], [[sub('skip')], []]))
    yield 'inv/skip_no_trait/inner', S([dw(['Clone', 'Default']), dw(['skip_inner'])])
    yield 'inv/skip_no_trait/variant', E([dw(['Clone'])], [variant('A', 'Unnamed', unnamed(1, [['T']]), [sub('skip_inner')]), variant('B')])
    yield 'inv/skip_dup/bare', S([dw(all9)], named(2, [['T'], ['u8']], [[sub('skip', 'skip')], []]))
    yield 'inv/skip_dup/bare2', S([dw(all9)], named(2, [['T'], ['u8']], [[sub('skip'), sub('skip')], []]))
    yield 'inv/skip_dup/group', S([dw(all9)], named(2, [['T'], ['u8']], [[sub(skip_meta('skip', ['Debug', 'Debug']))], []]))
    yield 'inv/skip_dup/group2', S([dw(all9)], named(2, [['T'], ['u8']], [[sub(skip_meta('skip', ['Debug'])), sub(skip_meta('skip', ['Hash', 'Debug']))], []]))
    yield 'inv/skip_dup/inner', S([dw(all9), dw(['skip_inner']), dw(['skip_inner'])])
    yield 'inv/skip_all_then_list', S([dw(all9)], named(2, [['T'], ['u8']], [[sub('skip', skip_meta('skip', ['Debug']))], []]))
    yield 'inv/skip_list_then_all', S([dw(all9)], named(2, [['T'], ['u8']], [[sub(skip_meta('skip', ['Debug'])), sub('skip')], []]))
    yield 'inv/skip_redundant/all_all', S([dw(all9), dw(['skip_inner'])], named(2, [['T'], ['u8']], [[sub('skip')], []]))
    yield 'inv/skip_redundant/all_group', S([dw(all9), dw(['skip_inner'])], named(2, [['T'], ['u8']], [[sub(skip_meta('skip', ['Debug']))], []]))
    yield 'inv/skip_redundant/group_group', S([dw(all9), dw([skip_meta('skip_inner', ['Debug', 'Hash'])])], named(2, [['T'], ['u8']], [[], [sub(skip_meta('skip', ['Hash']))]]))
    yield 'inv/skip_redundant/variant', E([dw(all9)], [variant('A', 'Unnamed', unnamed(1, [['T']], [[sub(skip_meta('skip', ['EqHashOrd']))]]), [sub(skip_meta('skip_inner', ['EqHashOrd'])), sub('default')]), variant('B')])
    yield 'inv/skip_inner_on_enum', E([dw(all9), dw(['skip_inner'])], [variant('A', 'Unnamed', unnamed(1, [['T']]), [sub('default')]), variant('B')])
    yield 'inv/skip_inner_on_enum_group', E([dw(['Debug']), dw([skip_meta('skip_inner', ['Debug'])])])
    for sh in ('Unit', 'Unnamed', 'Named'):
        yield 'inv/skip_inner_empty_variant/' + sh, E([dw(['Debug'])], [variant('A', 'Unnamed', unnamed(1, [['T']])), variant('B', sh, [], [sub('skip_inner')])])
    yield 'inv/skip_unknown_group', S([dw(all9)], named(2, [['T'], ['u8']], [[sub(skip_meta('skip', ['Clone']))], []]))
    yield 'inv/skip_unknown_group2', S([dw(all9)], named(2, [['T'], ['u8']], [[sub(('L', P('skip'), [('P', (True, ['Debug']))], None))], []]))
    yield 'inv/skip_empty_list', S([dw(all9)], named(2, [['T'], ['u8']], [[sub(('L', P('skip'), [], None))], []]))
    yield 'inv/skip_syntax/nv', S([dw(all9)], named(2, [['T'], ['u8']], [[sub(('NV', P('skip'), ('EOther', ['true'])))], []]))
    yield 'inv/skip_syntax/nested', S([dw(all9)], named(2, [['T'], ['u8']], [[sub(('L', P('skip'), [('L', P('Debug'), ['x'])], None))], []]))
    yield 'inv/skip_syntax/nested_nv', S([dw(all9)], named(2, [['T'], ['u8']], [[sub(('L', P('skip'), [('NV', P('Debug'), ('EOther', ['1']))], None))], []]))
    yield 'inv/skip_on_variant', E([dw(all9)], [variant('A', 'Unnamed', unnamed(1, [['T']]), [sub('skip'), sub('default')]), variant('B')])
    yield 'inv/skip_inner_on_field', S([dw(all9)], named(2, [['T'], ['u8']], [[sub('skip_inner')], []]))
    yield 'inv/zeroize_group_without_feature', S([dw(all9)], named(2, [['T'], ['u8']], [[sub(skip_meta('skip', ['Zeroize']))], []]))
    # default
    yield 'inv/default_missing', E([dw(['Default'])])
    yield 'inv/default_missing_split', E([dw(['Clone']), dw(['Default'], ['T'])])
    yield 'inv/default_dup', E([dw(['Default'])], [variant('A', 'Unnamed', unnamed(1, [['T']]), [sub('default')]), variant('B', 'Unit', [], [sub('default')])])
    yield 'inv/default_dup_same', E([dw(['Default'])], [variant('A', 'Unnamed', unnamed(1, [['T']]), [sub('default', 'default')]), variant('B')])
    yield 'inv/default_without_Default', E([dw(['Clone'])], [variant('A', 'Unnamed', unnamed(1, [['T']]), [sub('default')]), variant('B')])
    yield 'inv/default_syntax', E([dw(['Default'])], [variant('A', 'Unnamed', unnamed(1, [['T']]), [sub(('L', P('default'), [mpath('x')], None))]), variant('B')])
    yield 'inv/default_on_struct_field', S([dw(['Default'])], named(2, [['T'], ['u8']], [[sub('default')], []]))
    # union
    for t in ('Debug', 'Default', 'Eq', 'Hash', 'Ord', 'PartialEq', 'PartialOrd'):
        yield 'inv/union/' + t, un('U', f2, [dw([t])])
        yield 'inv/union_second/' + t, un('U', f2, [dw(['Clone', t])])
    # unions with traits in list / name-value form (every feature configuration)
    for t in ('Clone', 'Copy', 'Debug', 'Hash', 'Zeroize', 'ZeroizeOnDrop'):
        yield 'inv/union_opts/list/' + t, un('U', f2, [dw([('L', P(t), [mpath('x')], None)])])
        yield 'inv/union_opts/crate/' + t, un('U', f2, [dw([('L', P(t), [('NV', P('crate'), ('EPath', (False, ['zz'])))], None)])])
        yield 'inv/union_opts/crate_second/' + t, un('U', f2, [dw(['Clone', ('L', P(t), [('NV', P('crate'), ('EPath', (False, ['zz'])))], None)])])
        yield 'inv/union_opts/nv/' + t, un('U', f2, [dw([('NV', P(t), ('EOther', ['1']))])])
        yield 'inv/union_opts/empty/' + t, un('U', f2, [dw([('L', P(t), [], None)])])
    # traits and options
    yield 'inv/unknown_trait', S([dw(['Clone', 'Foo'])])
    yield 'inv/unknown_trait_path', S([dw([('P', (True, ['core', 'clone', 'Clone']))])])
    yield 'inv/unknown_trait_path2', S([dw([('P', (False, ['std', 'Clone']))])])
    yield 'inv/crate_in_list', S([dw(['Clone', ('NV', P('crate'), ('EPath', (False, ['x'])))])])
    yield 'inv/crate_in_list_first', S([dw([('NV', P('crate'), ('EPath', (False, ['x']))), 'Clone'])])
    yield 'inv/crate_bare_in_list', S([dw(['crate', 'Clone'])])
    yield 'inv/trait_options', S([dw([('L', P('Clone'), [mpath('x')], None)])])
    yield 'inv/trait_options_nv', S([dw([('L', P('Debug'), [('NV', P('crate'), ('EPath', (False, ['x'])))], None)])])
    yield 'inv/trait_options_empty', S([dw([('L', P('Clone'), [], None)])])
    yield 'inv/trait_nv', S([dw([('NV', P('Clone'), ('EOther', ['1']))])])
    yield 'inv/trait_nv2', S([dw(['Debug', ('NV', P('Clone'), ('EOther', ['1']))])])
    yield 'inv/trait_literal', S([dw([('Bad', ['"Clone"'])])])
    yield 'inv/trait_literal2', S([dw(['Clone', ('Bad', ['1'])])])
    yield 'inv/zeroize_without_feature', S([dw(['Zeroize'])])
    yield 'inv/dup_trait', S([dw(['Clone', 'Clone'])])
    yield 'inv/dup_trait_far', S([dw(['Clone', 'Debug', 'Hash', 'Clone'])])
    yield 'inv/dup_trait_adj_attrs', S([dw(['Clone']), dw(['Clone'])])
    yield 'inv/dup_trait_adj_attrs_b', S([dw(['Clone', 'Debug'], ['T']), dw(['Hash', 'Debug'], ['T'])])
    yield 'inv/dup_trait_three', S([dw(['Clone'], ['T']), dw(['Debug'], ['T']), dw(['Clone'], ['T'])])
    yield 'inv/empty_attr', S([dw([])])
    yield 'inv/empty_attr_second', S([dw(['Clone']), dw([])])
    yield 'inv/empty_semi', S([dw([], [])])
    yield 'inv/only_generics', S([dw([], ['T'])])
    yield 'inv/not_list', S([('Dw', ('NotList', []))])
    yield 'inv/not_list_nv', S([('Dw', ('NotList', ['=', '"x"']))])
    yield 'inv/not_list_second', S([dw(['Clone']), ('Dw', ('NotList', []))])
    yield 'inv/no_traits/skip_only', S([dw(['skip_inner'])])
    yield 'inv/no_traits/inc_only', S([dw(['incomparable'])])
    yield 'inv/no_traits/crate_only', S([dw([('NV', P('crate'), ('EPath', (False, ['x'])))])])
    yield 'inv/no_traits/foreign_only', S([('Other', P('derive'), ['(', 'Clone', ')'])])
    # empty items
    yield 'inv/empty/struct_named', S([dw(['Clone'])], [])
    yield 'inv/empty/struct_tuple', S([dw(['Clone'])], [], 'Unnamed')
    yield 'inv/empty/struct_unit', S([dw(['Clone'])], [], 'Unit')
    yield 'inv/empty/union', un('U', [], [dw(['Clone'])])
    yield 'inv/empty/enum_none', E([dw(['Clone'])], [])
    yield 'inv/empty/enum_units', E([dw(['Clone'])], [variant('A'), variant('B')])
    yield 'inv/empty/enum_empty_shapes', E([dw(['Debug'])], [variant('A', 'Unnamed', []), variant('B', 'Named', []), variant('C')])
    # generics
    yield 'inv/lifetime_pred', S([dw(['Clone'], [('Lt', ["'a", ':', "'static"])])], gen=generics([('Lt', 'a', []), tparam('T')]))
    yield 'inv/lifetime_pred_second', S([dw(['Clone'], ['T', ('Lt', ["'a", ':', "'static"])])], gen=generics([('Lt', 'a', []), tparam('T')]))
    yield 'inv/generic_bad', S([dw(['Clone'], [('Bad', ['1'])])])
    yield 'inv/generic_bad2', S([dw(['Clone'], ['T', ('Bad', ['=', 'x'])])])
    # repr / discriminants
    yield 'inv/repr_unknown', en('E', [variant('A'), variant('B')], [repr_attr('packed'), dw(['PartialOrd'])])
    yield 'inv/repr_unknown_after_C', en('E', [variant('A'), variant('B')], [repr_attr('C', 'transparent'), dw(['Clone'])])
    # the same with items that are valid apart from the representation (so that accepting the repr flips the verdict)
    dv = [variant('A', 'Unnamed', unnamed(1, [['T']])), variant('B')]
    for rtag, ids in (('packed', ['packed']), ('transparent_after_C', ['C', 'transparent']), ('unknown_before_int', ['simd', 'u8']), ('unknown_after_int', ['u8', 'simd']),
                      ('align_ident', ['align']), ('rust_then_unknown', ['Rust', 'foo'])):
        yield 'inv/repr_unknown_valid/%s/PartialOrd' % rtag, en('E', dv, [repr_attr(*ids), dw(['PartialOrd', 'PartialEq'])])
        yield 'inv/repr_unknown_valid/%s/Clone' % rtag, en('E', dv, [repr_attr(*ids), dw(['Clone'])])
    yield 'inv/repr_align', en('E', [variant('A'), variant('B', 'Unnamed', unnamed(1, [['T']]))], [('Repr', ('Unparsable', ['align', '(', '8', ')'])), dw(['Clone'])])
    yield 'inv/disc_without_repr', en('E', [variant('A', 'Unnamed', unnamed(1, [['T']]), disc=(['1'], 1)), variant('B')], [dw(['Clone'])])
    yield 'inv/disc_without_repr_C', en('E', [variant('A', 'Unnamed', unnamed(1, [['T']])), variant('B', disc=(['4'], 4))], [repr_attr('C'), dw(['PartialOrd'])])
    # use-case rule
    yield 'inv/use_case/struct', S([dw(['Clone'], ['T'])])
    yield 'inv/use_case/struct2', S([dw(['Clone', 'Debug'], ['U', 'T'])], gen=generics([tparam('T'), tparam('U')]))
    yield 'inv/use_case/enum', E([dw(['PartialEq'], ['T'])])
    yield 'inv/use_case/second_attr', S([dw(['Clone']), dw(['Debug'], ['T'])])
    yield 'inv/use_case/no_generics', st('S', named(1, [['u8']]), [dw(['Clone'])], gen=generics([]))
    yield 'inv/use_case/lifetimes_only', st('S', named(1, [['&', "'a", 'u8']]), [dw(['Clone'])], gen=generics([('Lt', 'a', [])]))
    yield 'inv/use_case/default_struct', S([dw(['Default'], ['T'])])
    yield 'inv/use_case/skip_other_trait', S([dw(['Clone', 'Debug'], ['T'])], named(2, [['T'], ['u8']], [[sub(skip_meta('skip', ['Debug']))], []]))
    # valid siblings of the use-case rule (must be accepted)
    yield 'sib/use_case/default_enum', E([dw(['Default'], ['T'])], [variant('A', 'Unnamed', unnamed(1, [['T']]), [sub('default')]), variant('B')])
    yield 'sib/use_case/skip', S([dw(['Debug'], ['T'])], named(2, [['T'], ['u8']], [[sub(skip_meta('skip', ['Debug']))], []]))
    yield 'sib/use_case/incomparable', E([dw(['PartialEq'], ['T'])], [variant('A', 'Unnamed', unnamed(1, [['T']])), variant('B', 'Unit', [], [inc])])
    yield 'sib/use_case/custom', S([dw(['Clone'], [('Pred', ['T', ':', 'Clone'])])])
    yield 'sib/use_case/dup_generic', S([dw(['Clone'], ['T', 'T'])])
    yield 'sib/use_case/other_type', S([dw(['Clone'], [('Ty', ['Vec', '<', 'T', '>'])])])
    yield 'sib/use_case/all_params_plus_custom', S([dw(['Clone'], ['T', ('Pred', ['T', ':', 'Tr'])])])
    yield 'sib/use_case/custom_then_all_params', S([dw(['Clone', 'Debug'], [('Pred', ['U', ':', 'Tr']), 'T', 'U'])], gen=generics([tparam('T'), tparam('U')]))
    yield 'sib/use_case/subset', S([dw(['Clone'], ['T'])], gen=generics([tparam('T'), tparam('U')]))
    # the two zeroize escape hatches of the use-case rule: a `crate` option on the trait, `Zeroize(fqs)` on ANY field of ANY variant
    zc = lambda t: ('L', P(t), [('NV', P('crate'), ('EPath', (False, ['zz'])))], None)
    fqs_f = [sub(('L', P('Zeroize'), [mpath('fqs')], None))]
    yield 'inv/use_case/zeroize_plain', S([dw(['Zeroize'], ['T'])])
    yield 'inv/use_case/zeroize_enum_unit', E([dw(['Zeroize'], ['T'])])      # a unit variant is not a `Zeroize(fqs)` field
    yield 'inv/use_case/zeroize_enum_unit_first', E([dw(['Zeroize'], ['T'])], [variant('A'), variant('B', 'Unnamed', unnamed(1, [['T']]))])
    yield 'sib/use_case/zeroize_crate', S([dw([zc('Zeroize')], ['T'])])
    yield 'sib/use_case/zod_crate', S([dw([zc('ZeroizeOnDrop')], ['T'])])
    yield 'sib/use_case/zeroize_fqs_struct_first', S([dw(['Zeroize'], ['T'])], named(2, [['T'], ['u8']], [fqs_f, []]))
    yield 'sib/use_case/zeroize_fqs_struct_last', S([dw(['Zeroize'], ['T'])], named(2, [['T'], ['u8']], [[], fqs_f]))
    yield 'sib/use_case/zeroize_fqs_tuple', S([dw(['Zeroize'], ['T'])], unnamed(2, [['T'], ['u8']], [[], fqs_f]), 'Unnamed')
    yield 'sib/use_case/zeroize_fqs_enum_first', E([dw(['Zeroize'], ['T'])], [variant('A', 'Unnamed', unnamed(1, [['T']], [fqs_f])), variant('B', 'Named', named(1, [['u8']]))])
    yield 'sib/use_case/zeroize_fqs_enum_last', E([dw(['Zeroize'], ['T'])], [variant('A', 'Unnamed', unnamed(1, [['T']])), variant('B'), variant('C', 'Named', named(2, [['u8'], ['T']], [[], fqs_f]))])
    yield 'inv/use_case/zod_fqs_only', S([dw(['Zeroize', 'ZeroizeOnDrop'], ['T'])], named(2, [['T'], ['u8']], [fqs_f, []]))
    yield 'inv/use_case/clone_with_fqs', S([dw(['Zeroize', 'Clone'], ['T'])], named(2, [['T'], ['u8']], [fqs_f, []]))
    yield 'sib/use_case/lifetime_const_ignored', st('S', named(2, [['T'], ['u8']]), [dw(['Clone'], ['T', 'T'])], gen=generics([('Lt', 'a', []), tparam('T'), ('Const', 'N', ['usize'], [])]))
    yield 'inv/use_case/lifetime_const_ignored', st('S', named(2, [['T'], ['u8']]), [dw(['Clone'], ['T'])], gen=generics([('Lt', 'a', []), tparam('T'), ('Const', 'N', ['usize'], [])]))
    yield 'inv/use_case/enum_skip_other_variant_trait', E([dw(['Debug', 'Clone'], ['T'])], [variant('A', 'Unnamed', unnamed(1, [['T']], [[sub(skip_meta('skip', ['Debug']))]])), variant('B')])
    yield 'sib/use_case/enum_skip_last_variant', E([dw(['Debug'], ['T'])], [variant('A', 'Unnamed', unnamed(1, [['T']])), variant('B', 'Named', named(1, [['u8']], [[sub('skip')]]))])
    yield 'sib/use_case/skip_inner_variant', E([dw(['Hash'], ['T'])], [variant('A', 'Unnamed', unnamed(1, [['T']])), variant('B', 'Named', named(1, [['u8']]), [sub(skip_meta('skip_inner', ['Hash']))])])
    yield 'sib/nonadjacent_dup', S([dw(['Clone'], ['T']), dw(['Debug'], ['U']), dw(['Clone'], ['T'])], gen=generics([tparam('T'), tparam('U')]))
    yield 'sib/empty/enum_default', E([dw(['Default'])], [variant('A', 'Unit', [], [sub('default')]), variant('B')])
    yield 'sib/empty/enum_inc', E([dw(['PartialEq'])], [variant('A', 'Unit', [], [inc]), variant('B')])
    yield 'sib/empty/struct_inc', S([dw(['PartialEq']), dw(['incomparable'])], [], 'Unit')
    # zeroize options (valid only with the zeroize features; otherwise unknown trait)
    fq = lambda *m: sub(('L', P('Zeroize'), list(m), None))
    yield 'inv/z/drop', S([dw([('L', P('Zeroize'), [mpath('drop')], None)])])
    yield 'inv/z/unknown_opt', S([dw([('L', P('Zeroize'), [mpath('foo')], None)])])
    yield 'inv/z/unknown_nv', S([dw([('L', P('Zeroize'), [('NV', P('foo'), ('EPath', (False, ['x'])))], None)])])
    yield 'inv/z/crate_dup', S([dw([('L', P('Zeroize'), [('NV', P('crate'), ('EPath', (False, ['x']))), ('NV', P('crate'), ('EPath', (False, ['y'])))], None)])])
    yield 'inv/z/crate_unnecessary', S([dw([('L', P('Zeroize'), [('NV', P('crate'), ('EPath', (True, ['zeroize'])))], None)])])
    yield 'inv/z/crate_unnecessary_str', S([dw([('L', P('ZeroizeOnDrop'), [('NV', P('crate'), ('EStr', '"::zeroize"', (True, ['zeroize'])))], None)])])
    yield 'inv/z/crate_bad_str', S([dw([('L', P('Zeroize'), [('NV', P('crate'), ('EStr', '"1 +"', None))], None)])])
    yield 'inv/z/crate_not_path', S([dw([('L', P('Zeroize'), [('NV', P('crate'), ('EOther', ['1']))], None)])])
    yield 'inv/z/nested_list', S([dw([('L', P('Zeroize'), [('L', P('crate'), ['x'])], None)])])
    yield 'inv/z/empty_opts', S([dw([('L', P('Zeroize'), [], None)])])
    # ZeroizeOnDrop parses its options with its own copy of the code: every invalid option list once more for it
    nvx = lambda n, v: ('NV', P(n), ('EPath', (False, [v])))
    for tag, metas in (('unknown_nv', [nvx('foo', 'x')]), ('crate_dup', [nvx('crate', 'x'), nvx('crate', 'y')]), ('crate_then_unknown', [nvx('crate', 'x'), nvx('foo', 'y')]),
                       ('crate_unnecessary', [('NV', P('crate'), ('EPath', (True, ['zeroize'])))]), ('crate_bad_str', [('NV', P('crate'), ('EStr', '"1 +"', None))]),
                       ('crate_not_path', [('NV', P('crate'), ('EOther', ['1']))]), ('nested_list', [('L', P('crate'), ['x'])]), ('crate_then_list', [nvx('crate', 'x'), ('L', P('crate'), ['y'])]),
                       ('empty_opts', []), ('crate_then_path', [nvx('crate', 'x'), mpath('fqs')])):
        yield 'inv/zod/' + tag, S([dw([('L', P('ZeroizeOnDrop'), metas, None)])])
        yield 'inv/zod_with_zeroize/' + tag, S([dw(['Zeroize', ('L', P('ZeroizeOnDrop'), metas, None)])])
    yield 'inv/zod/nv', S([dw([('NV', P('ZeroizeOnDrop'), ('EOther', ['1']))])])
    # the attribute's own grammar: traits are separated by `,`, one `;` opens the bound list, bounds are separated by `,`
    for tag, elems, gens in (('traits_no_comma', [('Bad', ['Clone', 'Debug'])], None), ('traits_no_comma_later', ['Clone', ('Bad', ['Debug', 'Hash'])], None),
                             ('traits_no_comma_bounds', [('Bad', ['Clone', 'Debug'])], ['T']), ('trait_then_group', [('Bad', ['Clone', '[', 'x', ']'])], None),
                             ('second_semicolon', ['Clone'], [('Bad', ['T', ';', 'T'])]), ('bounds_no_comma', ['Clone'], [('Bad', ['T', 'U'])]),
                             ('double_comma', ['Clone', ('Bad', []), 'Debug'], None), ('leading_comma', [('Bad', []), 'Clone'], None),
                             ('bounds_double_comma', ['Clone'], ['T', ('Bad', []), 'U']), ('colon_instead_of_semicolon', [('Bad', ['Clone', ':', 'T'])], None),
                             ('option_no_comma', [('Bad', ['Clone', 'skip_inner'])], None), ('trait_eq', [('Bad', ['Clone', '=', 'Debug'])], None)):
        yield 'inv/grammar/' + tag, S([dw(elems, gens)], gen=generics([tparam('T'), tparam('U')]))
    yield 'inv/z/zod_opt_path', S([dw([('L', P('ZeroizeOnDrop'), [mpath('drop')], None)])])
    yield 'inv/z/nv', S([dw([('NV', P('Zeroize'), ('EOther', ['1']))])])
    yield 'inv/z/fqs_without_zeroize', S([dw(['ZeroizeOnDrop'])], named(2, [['T'], ['u8']], [[fq(mpath('fqs'))], []]))
    yield 'inv/z/fqs_dup', S([dw(['Zeroize'])], named(2, [['T'], ['u8']], [[fq(mpath('fqs'), mpath('fqs'))], []]))
    yield 'inv/z/fqs_dup2', S([dw(['Zeroize'])], named(2, [['T'], ['u8']], [[fq(mpath('fqs')), fq(mpath('fqs'))], []]))
    yield 'inv/z/fqs_unknown', S([dw(['Zeroize'])], named(2, [['T'], ['u8']], [[fq(mpath('foo'))], []]))
    yield 'inv/z/fqs_bare', S([dw(['Zeroize'])], named(2, [['T'], ['u8']], [[sub('Zeroize')], []]))
    yield 'inv/z/fqs_nv', S([dw(['Zeroize'])], named(2, [['T'], ['u8']], [[sub(('NV', P('Zeroize'), ('EOther', ['1'])))], []]))
    yield 'inv/z/fqs_inner_nv', S([dw(['Zeroize'])], named(2, [['T'], ['u8']], [[fq(('NV', P('fqs'), ('EOther', ['1'])))], []]))
    yield 'inv/z/fqs_on_variant', E([dw(['Zeroize'])], [variant('A', 'Unnamed', unnamed(1, [['T']]), [fq(mpath('fqs'))]), variant('B')])
    yield 'inv/z/skip_group_underived', S([dw(['Clone', 'Debug'])], named(2, [['T'], ['u8']], [[sub(skip_meta('skip', ['Zeroize']))], []]))
    yield 'inv/z/use_case', S([dw(['Zeroize'], ['T'])])
    yield 'sib/z/use_case_fqs', S([dw(['Zeroize'], ['T'])], named(2, [['T'], ['u8']], [[fq(mpath('fqs'))], []]))
    yield 'sib/z/use_case_crate', S([dw([('L', P('ZeroizeOnDrop'), [('NV', P('crate'), ('EPath', (False, ['zz'])))], None)], ['T'])])
    yield 'sib/z/use_case_zod_fqs', S([dw(['Zeroize', 'ZeroizeOnDrop'], ['T'])], named(2, [['T'], ['u8']], [[fq(mpath('fqs'))], []]))
    # option placement errors
    yield 'inv/unknown_option/field', S([dw(all9)], named(2, [['T'], ['u8']], [[sub('foo')], []]))
    yield 'inv/unknown_option/variant', E([dw(all9)], [variant('A', 'Unnamed', unnamed(1, [['T']]), [sub('foo'), sub('default')]), variant('B')])
    yield 'inv/unknown_option/field_second', S([dw(all9)], named(2, [['T'], ['u8']], [[sub('skip', 'foo')], []]))
    yield 'inv/sub_not_list/field', S([dw(all9)], named(2, [['T'], ['u8']], [[('Dw', ('NotList', []))], []]))
    yield 'inv/sub_not_list/variant', E([dw(all9)], [variant('A', 'Unnamed', unnamed(1, [['T']]), [('Dw', ('NotList', ['=', '1'])), sub('default')]), variant('B')])
    yield 'inv/sub_empty/field', S([dw(all9)], named(2, [['T'], ['u8']], [[('Dw', ('List', [], None))], []]))
    yield 'inv/sub_empty/variant', E([dw(all9)], [variant('A', 'Unnamed', unnamed(1, [['T']]), [('Dw', ('List', [], None)), sub('default')]), variant('B')])
    yield 'inv/sub_unparsable/field', S([dw(all9)], named(2, [['T'], ['u8']], [[('Dw', ('List', None, ['skip', ';', 'x']))], []]))
    yield 'inv/sub_unparsable/variant', E([dw(all9)], [variant('A', 'Unnamed', unnamed(1, [['T']]), [('Dw', ('List', None, ['1', '2'])), sub('default')]), variant('B')])
    yield 'inv/sub_bad_meta/field', S([dw(all9)], named(2, [['T'], ['u8']], [[sub(('Bad', ['"skip"']))], []]))


# ----------------------------------------------------------------------------- S2 random
def s2_random(seed, n):
    rng = random.Random(seed)
    for k in range(n):
        yield 'rand/%d/%d' % (seed, k), random_item(rng)


def random_item(rng):
    nparams = rng.choice([1, 1, 2, 2, 3])
    pnames = ['T', 'U', 'V'][:nparams]
    params = [tparam(p, rng.choice([[], [], ['Clone'], ["'static"]])) for p in pnames]
    if rng.random() < 0.25:
        params = [('Lt', 'a', [])] + params
    if rng.random() < 0.2:
        params.append(('Const', 'N', ['usize'], []))
    where = None
    if rng.random() < 0.3:
        where = ([[rng.choice(pnames), ':', rng.choice(['Copy', 'Sized', 'Tr'])] for _ in range(rng.choice([1, 2]))], rng.random() < 0.5)
    g = generics(params, where, rng.random() < 0.1)
    kind = rng.choice(['struct', 'tuple', 'enum', 'enum', 'enum'])
    # traits
    pool = [t for t in STD9]
    k = rng.choice([1, 2, 3, 4, 9])
    ts = rng.sample(pool, min(k, len(pool)))
    if 'Eq' in ts and 'PartialEq' not in ts:
        ts.append('PartialEq')
    if 'Ord' in ts:
        for t in ('PartialOrd', 'Eq', 'PartialEq'):
            if t not in ts:
                ts.append(t)
    if 'Copy' in ts and 'Clone' not in ts:
        ts.append('Clone')
    rng.shuffle(ts)
    # split over attributes
    nattr = rng.choice([1, 1, 2, 3])
    parts = [[] for _ in range(nattr)]
    for t in ts:
        parts[rng.randrange(nattr)].append(t)
    parts = [p for p in parts if p]
    attrs = []
    bl_choices = [None, None, [pnames[0]], pnames[:], [('Pred', [pnames[0], ':', 'Tr'])], [pnames[0], ('Pred', [pnames[-1], ':', 'Tr'])],
                  [('Ty', ['Vec', '<', pnames[0], '>'])]]
    same = rng.random() < 0.4
    bl0 = rng.choice(bl_choices)
    for p in parts:
        attrs.append(dw(p, bl0 if same else rng.choice(bl_choices)))
    derived = set(ts)
    skippable_derived = derived & set(SKIPPABLE)
    groups_ok = [gname for gname, members in (('Debug', {'Debug'}), ('EqHashOrd', {'Eq', 'Hash', 'Ord', 'PartialEq', 'PartialOrd'}), ('Hash', {'Hash'})) if derived & members]

    def rand_fattr():
        if not skippable_derived or rng.random() < 0.6:
            return []
        if rng.random() < 0.4:
            return [sub('skip')]
        gs = rng.sample(groups_ok, rng.randint(1, len(groups_ok)))
        return [sub(skip_meta('skip', gs))]

    def rand_fields(shape):
        n = rng.choice([0, 1, 1, 2, 2, 3, 5]) if shape != 'Unit' else 0
        tys = [rng.choice(TYPES) for _ in range(n)]
        at = [rand_fattr() for _ in range(n)]
        return named(n, tys, at) if shape == 'Named' else unnamed(n, tys, at)

    can_inc = bool(derived & {'PartialEq', 'PartialOrd'}) and not (derived & {'Eq', 'Ord'})
    if kind in ('struct', 'tuple'):
        shape = 'Named' if kind == 'struct' else 'Unnamed'
        fs = rand_fields(shape)
        while not fs:
            fs = rand_fields(shape)
        if skippable_derived and rng.random() < 0.15:
            attrs.append(dw(['skip_inner']))
            for f in fs:
                f['attrs'] = []
        if can_inc and rng.random() < 0.15:
            attrs.append(dw(['incomparable']))
        return st('S', fs, attrs, shape, g)
    nv = rng.choice([1, 2, 2, 3, 3, 4, 6])
    vs = []
    dpos = rng.randrange(nv)
    reprs = rng.choice([None, None, ['C'], [rng.choice(REPRS)], ['C', rng.choice(REPRS)]])
    has_int = reprs is not None and any(r in REPRS for r in reprs)
    unsigned = has_int and any(r.startswith('u') for r in reprs)
    cur = None
    used = set()
    for i in range(nv):
        shape = rng.choice(['Unit', 'Unnamed', 'Named', 'Unnamed'])
        va = []
        if 'Default' in derived and i == dpos:
            va.append(sub('default'))
        if can_inc and rng.random() < 0.25:
            va.append(sub('incomparable'))
        fs = rand_fields(shape)
        if fs and skippable_derived and rng.random() < 0.1:
            va.append(sub('skip_inner'))
            for f in fs:
                f['attrs'] = []
        disc = None
        if rng.random() < 0.3:
            val = rng.randint(0 if unsigned else -20, 100)
            while val in used or (cur is not None and False):
                val += 1
            disc = ([str(val)] if val >= 0 else ['-', str(-val)], val)
            cur = val
        else:
            cur = 0 if cur is None else cur + 1
        while cur in used:
            cur += 1
            disc = ([str(cur)] if cur >= 0 else ['-', str(-cur)], cur)      # a negative literal is two tokens
        used.add(cur)
        vs.append(variant('V%d' % i, shape, fs, va, disc))
    all_fieldless = all(not v['fields'] for v in vs)
    if not has_int and not all_fieldless:
        for v in vs:
            v['disc'] = None
    if not has_int and all_fieldless and any(v['shape'] != 'Unit' for v in vs):
        for v in vs:
            v['disc'] = None
    if reprs:
        attrs = [repr_attr(*reprs)] + attrs
    return en('E', vs, attrs, g)


def s2_random2(seed, n):
    rng = random.Random('r2/%d' % seed)
    for k in range(n):
        yield 'rand2/%d/%d' % (seed, k), random_item2(rng)


GROUP_MEMBERS = {'Debug': {'Debug'}, 'EqHashOrd': {'Eq', 'Hash', 'Ord', 'PartialEq', 'PartialOrd'}, 'Hash': {'Hash'}, 'Zeroize': {'Zeroize', 'ZeroizeOnDrop'}}


def random_item2(rng):
    """second random stream: option orders and splits, skip_inner with groups over field-level skips, unions, zeroize traits and
    options, raw / temporary-like names, denser discriminants, permuted bound lists; about one item in seven is mutated into an
    (probably) invalid one"""
    pnames = ['T', 'U', 'V'][:rng.choice([1, 2, 2, 3])]
    params = [tparam(p, rng.choice([[], [], [], ['Tr'], ["'static"]]), rng.choice([[], [], [], ['u8']]) if (p != 'T' and p == pnames[-1]) else []) for p in pnames]
    if rng.random() < 0.2:
        params = [('Lt', 'a', [])] + params
    if rng.random() < 0.15:
        params.append(('Const', 'N', ['usize'], rng.choice([[], ['3']])))
        if not params[-1][3]:       # a parameter without default after one with a default is not valid Rust
            params = [('Ty', q[1], q[2], []) if q[0] == 'Ty' else q for q in params]
    where = None
    if rng.random() < 0.25:
        where = ([[rng.choice(pnames), ':', rng.choice(['Copy', 'Tr', 'Tr2'])] for _ in range(rng.choice([1, 2]))], rng.random() < 0.5)
    g = generics(params, where, rng.random() < 0.1)
    kind = rng.choice(['struct', 'tuple', 'enum', 'enum', 'enum', 'enum', 'union'])
    zer = rng.random() < 0.25
    pool = STD9 + (['Zeroize', 'ZeroizeOnDrop'] if zer else [])
    if kind == 'union':
        ts = rng.choice([['Clone'], ['Clone', 'Copy'], ['Copy', 'Clone'], ['Clone', 'Debug']])
    else:
        ts = rng.sample(pool, min(rng.choice([1, 2, 3, 4, 5, len(pool)]), len(pool)))
        for t, sups in (('Eq', ['PartialEq']), ('Ord', ['PartialOrd', 'Eq', 'PartialEq']), ('Copy', ['Clone']), ('PartialOrd', ['PartialEq'])):
            if t in ts and rng.random() < 0.9:
                ts += [x for x in sups if x not in ts]
        rng.shuffle(ts)
    derived = set(ts)
    # bound lists: the same list, a permutation, or something else per attribute
    entries = [pnames[0], pnames[-1], ('Pred', [pnames[0], ':', 'Tr']), ('Pred', [pnames[-1], ':', 'Tr2']), ('Ty', ['Vec', '<', pnames[0], '>']), ('Ty', ['[', pnames[-1], ';', '2', ']'])]
    base = rng.sample(entries, rng.choice([0, 0, 1, 1, 2, 3]))

    def some_list():
        r = rng.random()
        if r < 0.45:
            return list(base) or None
        if r < 0.6:
            l = list(base)
            rng.shuffle(l)
            return l or None
        if r < 0.7 and base:
            return base + [base[0]]
        return rng.sample(entries, rng.choice([0, 1, 2])) or None

    nattr = rng.choice([1, 1, 1, 2, 2, 3])
    parts = [[] for _ in range(nattr)]
    for t in ts:
        parts[rng.randrange(nattr)].append(t)

    # now and then one trait is requested by two attributes (a second generator, so that the main stream stays what it was)
    r2 = random.Random(repr(ts) + repr(parts))
    if nattr > 1 and r2.random() < 0.12:
        t = r2.choice(ts)
        others = [q for q in parts if t not in q]
        if others:
            q = r2.choice(others)
            q.insert(r2.randrange(len(q) + 1), t)

    def tmeta(t):
        if t in ('Zeroize', 'ZeroizeOnDrop') and rng.random() < 0.2:
            return ('L', P(t), [('NV', P('crate'), ('EPath', (rng.random() < 0.5, ['zz'])))], None)
        return t
    attrs = [dw([tmeta(t) for t in p], some_list()) for p in parts if p]
    groups_ok = [gn for gn, mem in GROUP_MEMBERS.items() if derived & mem]
    any_skippable = bool(derived & set(SKIPPABLE + ['Zeroize', 'ZeroizeOnDrop']))

    def rand_skip(name, exclude=()):
        if not any_skippable or rng.random() < 0.55:
            return None
        cand = [x for x in groups_ok if x not in exclude]
        if rng.random() < 0.3 or not cand:
            return skip_meta(name) if not exclude else None
        return skip_meta(name, rng.sample(cand, rng.randint(1, min(2, len(cand)))))

    FNAMES = ['a', 'b', 'r#type', '__field_a', '__other', 'c', '__state', 'r#fn']

    def rand_fields(shape, parent_groups):
        n = rng.choice([0, 1, 1, 2, 2, 3, 4]) if shape != 'Unit' else 0
        names = rng.sample(FNAMES, n) if shape == 'Named' else [None] * n
        out = []
        for i in range(n):
            fa = []
            sk = None if parent_groups == 'all' else rand_skip('skip', parent_groups)
            metas = [sk] if sk else []
            if 'Zeroize' in derived and rng.random() < 0.3:
                metas.append(('L', P('Zeroize'), [mpath('fqs')], None))
            rng.shuffle(metas)
            if metas and rng.random() < 0.3 and len(metas) > 1:
                fa = [sub(m) for m in metas]
            elif metas:
                fa = [sub(*metas)]
            if rng.random() < 0.1:
                fa.insert(rng.randrange(len(fa) + 1), ('Other', P('doc'), ['=', '"f"']))
            out.append(field(names[i], rng.choice(TYPES), fa))
        return out

    def parent_groups_of(m):
        if m is None:
            return ()
        return 'all' if m[0] == 'P' else tuple(x[1][1][0] for x in m[2])

    can_inc = bool(derived & {'PartialEq', 'PartialOrd'}) and not (derived & {'Eq', 'Ord'})
    if kind == 'union':
        it = un('Un', [field(nm, rng.choice([['T'], ['u8'], PH]), []) for nm in rng.sample(['a', 'b', 'c'], rng.choice([1, 2]))], attrs, g)
    elif kind in ('struct', 'tuple'):
        shape = 'Named' if kind == 'struct' else 'Unnamed'
        inner = rand_skip('skip_inner')
        fs = rand_fields(shape, parent_groups_of(inner))
        while not fs:
            fs = rand_fields(shape, parent_groups_of(inner))
        extra = []
        if inner:
            extra.append(dw([inner]))
        if can_inc and rng.random() < 0.15:
            extra.append(dw(['incomparable']))
        for e in extra:
            attrs.insert(rng.randrange(len(attrs) + 1), e)
        it = st(rng.choice(['S', 'S', 'r#type']), fs, attrs, shape, g)
    else:
        nv = rng.choice([1, 2, 3, 3, 4, 5, 6])
        reprs = rng.choice([None, None, None, ['C'], [rng.choice(REPRS)], ['C', rng.choice(REPRS)], [rng.choice(REPRS), 'C']])
        has_int = reprs is not None and any(r in REPRS for r in reprs)
        unsigned = has_int and any(r.startswith('u') for r in reprs)
        dpos = rng.randrange(nv)
        vals, cur, used = [], None, set()
        for i in range(nv):
            if rng.random() < 0.35:
                base_v = (cur if cur is not None else 0) + rng.choice([-3, -2, 2, 3, 1, 5]) if rng.random() < 0.7 else rng.randint(0 if unsigned else -9, 40)
                if unsigned:
                    base_v = abs(base_v)
                while base_v in used:
                    base_v += 1
                cur, expl = base_v, True
            else:
                cur, expl = (0 if cur is None else cur + 1), False
                while cur in used:          # would be a duplicate discriminant in Rust: make it explicit elsewhere
                    cur, expl = cur + 1, True
            used.add(cur)
            vals.append((cur, expl))
        VN = ['A', 'B', 'r#type', 'Cc', 'cC', 'D', 'r#fn', 'E_']
        names = rng.sample(VN, nv)
        vs = []
        for i in range(nv):
            shape = rng.choice(['Unit', 'Unnamed', 'Named', 'Unnamed', 'Named'])
            inner = rand_skip('skip_inner') if shape != 'Unit' else None
            fs = rand_fields(shape, parent_groups_of(inner))
            if not fs:
                inner = None
            metas = []
            if 'Default' in derived and i == dpos:
                metas.append(mpath('default'))
            if can_inc and rng.random() < 0.25:
                metas.append(mpath('incomparable'))
            if inner:
                metas.append(inner)
            rng.shuffle(metas)
            if len(metas) > 1 and rng.random() < 0.4:
                va = [sub(m) for m in metas]
            else:
                va = [sub(*metas)] if metas else []
            v, expl = vals[i]
            disc = (([str(v)] if v >= 0 else ['-', str(-v)]), v) if expl else None
            vs.append(variant(names[i], shape, fs, va, disc))
        fieldless = all(not v['fields'] for v in vs)
        if not has_int and not (fieldless and all(v['shape'] == 'Unit' for v in vs)):
            for v in vs:
                v['disc'] = None
        if reprs:
            attrs.insert(rng.randrange(len(attrs) + 1), repr_attr(*reprs))
        it = en('E', vs, attrs, g)
    # mutate into a (probably) invalid item
    if rng.random() < 0.15:
        m = rng.choice(['dup_attr', 'unknown_option', 'empty_attr', 'drop_partial', 'inc_total', 'skip_group'])
        if m == 'dup_attr' and it['attrs']:
            it['attrs'].append(rng.choice(it['attrs']))
        elif m == 'unknown_option':
            it['attrs'].append(dw([rng.choice(['skip', 'default', 'bogus', 'incomparable'])]))
        elif m == 'empty_attr':
            it['attrs'].insert(rng.randrange(len(it['attrs']) + 1), ('Dw', ('List', [], None, {})))
        elif m == 'inc_total' and kind == 'enum':
            it['kind'][1][0]['attrs'].append(sub('incomparable'))
        elif m == 'skip_group':
            fs = [f for v in (it['kind'][1] if kind == 'enum' else [dict(fields=it['kind'][2] if kind != 'union' else it['kind'][1])]) for f in v['fields']]
            if fs:
                rng.choice(fs)['attrs'].append(sub(skip_meta('skip', [rng.choice(['Debug', 'EqHashOrd', 'Hash', 'Zeroize', 'Clone'])])))
    return it


def duplicate_discriminant(it):
    """an enum whose discriminant values (Rust's numbering) are not distinct is not valid Rust (E0081): a generator mistake"""
    k = it['kind']
    if k[0] != 'Enum':
        return False
    vals, prev = [], None
    for v in k[1]:
        prev = v['disc'][1] if v['disc'] is not None else (0 if prev is None else prev + 1)
        vals.append(prev)
    return len(set(vals)) != len(vals)


def _reorder(it, how):
    """the same item with the helper attributes of every variant and field written in another order:
    'metas' reverses the options inside each `#[derive_where(..)]` helper attribute, 'attrs' reverses the order of
    the helper attributes of one variant / field (other attributes stay where they are)"""
    import copy
    it = copy.deepcopy(it)
    changed = [False]

    def fix(attrs):
        if how == 'metas':
            for i, a in enumerate(attrs):
                if a[0] == 'Dw' and a[1][0] == 'List' and a[1][1] is not None and len(a[1][1]) > 1 and a[1][1] != a[1][1][::-1]:
                    attrs[i] = ('Dw', ('List', a[1][1][::-1], a[1][2]))
                    changed[0] = True
        else:
            idx = [i for i, a in enumerate(attrs) if a[0] == 'Dw']
            vals = [attrs[i] for i in idx]
            if len(vals) > 1 and vals != vals[::-1]:
                for i, v in zip(idx, vals[::-1]):
                    attrs[i] = v
                changed[0] = True

    k = it['kind']
    if how == 'item':       # the item's own derive_where attributes (trait lists and item-level options) in reverse order
        idx = [i for i, a in enumerate(it['attrs']) if a[0] == 'Dw']
        vals = [it['attrs'][i] for i in idx]
        if len(vals) > 1 and vals != vals[::-1]:
            for i, v in zip(idx, vals[::-1]):
                it['attrs'][i] = v
            return it
        return None
    if how == 'traits':     # the traits / options inside each item-level attribute in reverse order
        for i, a in enumerate(it['attrs']):
            if a[0] == 'Dw' and a[1][0] == 'List' and len(a[1][1]) > 1 and a[1][1] != a[1][1][::-1]:
                it['attrs'][i] = ('Dw', ('List', a[1][1][::-1]) + tuple(a[1][2:]))
                changed[0] = True
        return it if changed[0] else None
    if how == 'variants':   # variants in reverse order; implicit discriminants are made explicit first so every value stays what it was
        if k[0] != 'Enum' or len(k[1]) < 2:
            return None
        if any(v['disc'] is not None for v in k[1]):
            return None     # explicit discriminants: reversing would renumber the implicit ones (disc/* families cover orders)
        it['kind'] = ('Enum', k[1][::-1])
        return it
    if how == 'fields':     # fields of every shape in reverse order (tuple fields keep their types, named fields their names)
        if k[0] == 'Enum':
            for v in k[1]:
                if len(v['fields']) > 1:
                    v['fields'].reverse()
                    changed[0] = True
        else:
            fl = k[2] if k[0] == 'Struct' else k[1]
            if len(fl) > 1:
                fl.reverse()
                changed[0] = True
        return it if changed[0] else None
    fls = []
    if k[0] == 'Enum':
        for v in k[1]:
            fix(v['attrs'])
            fls.append(v['fields'])
    else:
        fls.append(k[2] if k[0] == 'Struct' else k[1])
    for fl in fls:
        for f in fl:
            fix(f['attrs'])
    return it if changed[0] else None


def s1_order():
    """order metamorphs of the systematic and the invalid families (the order in which options and helper attributes are
    written never matters for what is skipped / marked, only for which error is reported first)"""
    for cid, it in itertools.chain(s1_all(), s3_invalid()):
        for how in ('metas', 'attrs', 'item', 'traits', 'variants', 'fields'):
            if cid.startswith(('known/', 'inv/grammar/')):
                continue    # witnesses of the open findings stay single items; the grammar items are about positions
            if how in ('variants', 'fields', 'traits') and cid.startswith(('disc/', 'stagea/')):
                continue    # the discriminant families enumerate positions themselves (and are by far the largest)
            r = _reorder(it, how)
            if r is not None:
                yield 'order/%s/%s' % (how, cid), r


def quick_corpus(seed):
    out = []
    seen = set()
    for cid, it in itertools.chain(s1_all(), s3_invalid(), s1_order(), s2_random(seed, 300), s2_random2(seed, 900)):
        if cid in seen:
            raise RuntimeError('duplicate case id ' + cid)
        seen.add(cid)
        if duplicate_discriminant(it) and not cid.startswith(('rand', 'inv/')) and not (cid.startswith('order/') and cid.split('/')[2] == 'inv'):
            raise RuntimeError('corpus item %s has a duplicate discriminant value' % cid)
        out.append((cid, it))
    return out
