"""Tie (B): behaviour correspondence.  Corpus items are rebuilt with an instrumented field type,
compiled with the REAL macro (path dependency on /repo, real proc-macro entry points, real rustc),
run on enumerated values, and the observations are compared with the model's semantics of the
generated code (Sem o Gen) and with the reference semantics (Spec)."""
import copy
import itertools
import os
import random
import re
import shutil
import subprocess
import tempfile

from items import CFGS, item_txt, sx_cfg, sx_item, q, flat

ALLOWED_PRED = {'Tr', 'Tr2', 'Clone', 'Copy', 'Sized', '+', "'static", 'Debug', 'Default', 'Eq', 'Ord', 'PartialEq', 'PartialOrd', 'Hash'}

PRELUDE = r'''
#![allow(warnings)]
use std::{cell::RefCell, cmp::Ordering, fmt, hash::{Hash, Hasher}, marker::PhantomData};
use derive_where::derive_where;

thread_local! { pub static LOG: RefCell<Vec<u8>> = RefCell::new(Vec::new()); }
pub fn log_take() -> Vec<u8> { LOG.with(|l| std::mem::take(&mut *l.borrow_mut())) }

pub trait Tr {}
pub trait Tr2 {}
#[derive(Clone, Copy, Debug, Default, PartialEq, Eq, PartialOrd, Ord, Hash)]
pub struct X;
impl Tr for X {}
impl Tr2 for X {}
impl Tr for u8 {}
impl Tr2 for u8 {}

/// the probe field type: value 3 is NaN-like
pub struct P<TT: ?Sized>(pub u8, pub PhantomData<TT>);
impl<TT: ?Sized> P<TT> { pub fn new(v: u8) -> Self { P(v, PhantomData) } }
impl<TT: ?Sized> Clone for P<TT> { fn clone(&self) -> Self { LOG.with(|l| l.borrow_mut().push(self.0)); P(self.0, PhantomData) } }
impl<TT: ?Sized> Copy for P<TT> {}
impl<TT: ?Sized> PartialEq for P<TT> { fn eq(&self, o: &Self) -> bool { self.0 != 3 && self.0 == o.0 } }
impl<TT: ?Sized> Eq for P<TT> {}
impl<TT: ?Sized> PartialOrd for P<TT> { fn partial_cmp(&self, o: &Self) -> Option<Ordering> { if self.0 == 3 || o.0 == 3 { None } else { Some(self.0.cmp(&o.0)) } } }
impl<TT: ?Sized> Ord for P<TT> { fn cmp(&self, o: &Self) -> Ordering { self.0.cmp(&o.0) } }
impl<TT: ?Sized> Hash for P<TT> { fn hash<H: Hasher>(&self, s: &mut H) { s.write_u8(self.0) } }
impl<TT: ?Sized> Default for P<TT> { fn default() -> Self { P(0, PhantomData) } }
impl<TT: ?Sized> fmt::Debug for P<TT> { fn fmt(&self, f: &mut fmt::Formatter<'_>) -> fmt::Result { write!(f, "{}", self.0) } }

/// records every write
#[derive(Default)]
pub struct Rec(pub Vec<i128>);
impl Hasher for Rec {
	fn finish(&self) -> u64 { 0 }
	fn write(&mut self, b: &[u8]) { let mut v: u128 = 0; for (i, x) in b.iter().enumerate() { v |= (*x as u128) << (8 * i); } self.0.push(v as i128); self.0.push(-(b.len() as i128)); }
}
pub fn ch(o: Option<Ordering>) -> char { match o { Some(Ordering::Less) => 'L', Some(Ordering::Equal) => 'E', Some(Ordering::Greater) => 'G', None => 'N' } }
pub fn esc(s: String) -> String { s.replace('\\', "\\\\").replace('\n', "\\n") }
'''

# hostile invocation scope (C14): every std name the expansions mention is redefined, the prelude is off
HOSTILE_PRELUDE = r'''
/// inherent methods named like the trait methods: fully qualified calls must not pick them up
impl<TT: ?Sized> P<TT> {
	pub fn clone(&self) -> ! { panic!("inherent clone hijacked the call") }
	pub fn eq(&self, _: &Self) -> ! { panic!("inherent eq hijacked the call") }
	pub fn ne(&self, _: &Self) -> ! { panic!("inherent ne hijacked the call") }
	pub fn partial_cmp(&self, _: &Self) -> ! { panic!("inherent partial_cmp hijacked the call") }
	pub fn cmp(&self, _: &Self) -> ! { panic!("inherent cmp hijacked the call") }
	pub fn hash(&self, _: u8) -> ! { panic!("inherent hash hijacked the call") }
	pub fn fmt(&self, _: u8) -> ! { panic!("inherent fmt hijacked the call") }
	pub fn default() -> ! { panic!("inherent default hijacked the call") }
}
'''

HOSTILE_SCOPE = r'''
macro_rules! matches { ($($t:tt)*) => { compile_error!("hijacked matches!") } }
macro_rules! unreachable { ($($t:tt)*) => { compile_error!("hijacked unreachable!") } }
macro_rules! panic { ($($t:tt)*) => { compile_error!("hijacked panic!") } }
macro_rules! write { ($($t:tt)*) => { compile_error!("hijacked write!") } }
macro_rules! format_args { ($($t:tt)*) => { compile_error!("hijacked format_args!") } }
macro_rules! stringify { ($($t:tt)*) => { compile_error!("hijacked stringify!") } }
macro_rules! concat { ($($t:tt)*) => { compile_error!("hijacked concat!") } }
pub mod core {} pub mod std {} pub mod alloc {} pub mod zeroize {}
pub trait Clone {} pub trait Copy {} pub trait Debug {} pub trait Default {} pub trait Eq {} pub trait Hash {} pub trait Ord {}
pub trait PartialEq {} pub trait PartialOrd {} pub trait Zeroize {} pub trait ZeroizeOnDrop {} pub trait Drop {} pub trait Hasher {}
pub trait From {} pub trait Into {} pub trait Sized {} pub trait Fn {} pub trait AssertCopy {} pub trait AssertEq {}
pub struct Option; pub struct Some; pub struct None; pub struct Ok; pub struct Err; pub struct Result; pub struct Ordering;
pub struct Less; pub struct Equal; pub struct Greater; pub struct Formatter; pub struct PhantomData; pub struct String; pub struct Box; pub struct Vec;
pub struct DebugStruct; pub struct DebugTuple; pub struct Discriminant;
pub fn discriminant() {} pub fn drop() {} pub fn unreachable_unchecked() {} pub fn transmute() {} pub fn cast() {} pub fn forget() {}
'''

ZPRELUDE = r'''
impl zeroize::Zeroize for X { fn zeroize(&mut self) {} }
pub struct Z<TT: ?Sized>(pub u8, pub PhantomData<TT>);
impl<TT: ?Sized> Z<TT> { pub fn new(v: u8) -> Self { Z(v, PhantomData) } }
/// an inherent method named like the trait method: method-call syntax `x.zeroize()` picks THIS one, the fully qualified
/// `Zeroize::zeroize(x)` (option `fqs`) the trait's - so the two call styles are observable (log entry 50 + value vs value)
impl<TT: ?Sized> Z<TT> { pub fn zeroize(&mut self) { LOG.with(|l| l.borrow_mut().push(50 + self.0)); self.0 = 0; } }
impl<TT: ?Sized> zeroize::Zeroize for Z<TT> { fn zeroize(&mut self) { LOG.with(|l| l.borrow_mut().push(self.0)); self.0 = 0; } }
impl<TT: ?Sized> Drop for Z<TT> { fn drop(&mut self) { LOG.with(|l| l.borrow_mut().push(100 + self.0)); } }
impl<TT: ?Sized> Clone for Z<TT> { fn clone(&self) -> Self { LOG.with(|l| l.borrow_mut().push(self.0)); Z(self.0, PhantomData) } }
impl<TT: ?Sized> fmt::Debug for Z<TT> { fn fmt(&self, f: &mut fmt::Formatter<'_>) -> fmt::Result { write!(f, "{}", self.0) } }
impl<TT: ?Sized> PartialEq for Z<TT> { fn eq(&self, o: &Self) -> bool { self.0 != 3 && self.0 == o.0 } }
impl<TT: ?Sized> Eq for Z<TT> {}
impl<TT: ?Sized> PartialOrd for Z<TT> { fn partial_cmp(&self, o: &Self) -> Option<Ordering> { if self.0 == 3 || o.0 == 3 { None } else { Some(self.0.cmp(&o.0)) } } }
impl<TT: ?Sized> Ord for Z<TT> { fn cmp(&self, o: &Self) -> Ordering { self.0.cmp(&o.0) } }
impl<TT: ?Sized> Hash for Z<TT> { fn hash<H: Hasher>(&self, s: &mut H) { s.write_u8(self.0) } }
impl<TT: ?Sized> Default for Z<TT> { fn default() -> Self { Z(0, PhantomData) } }
'''


def item_traits(it):
    """[(trait name, has_options)] in attribute order"""
    out = []
    for a in it['attrs']:
        if a[0] == 'Dw' and a[1][0] == 'List':
            for m in a[1][1]:
                if m[0] in ('P', 'L') and not m[1][0] and len(m[1][1]) == 1:
                    out.append(m[1][1][0])
    return out


SUPER = {'Eq': ['PartialEq'], 'Ord': ['Eq', 'PartialOrd', 'PartialEq'], 'Copy': ['Clone'], 'PartialOrd': ['PartialEq']}


def probe_supported(it, zeroize):
    k = it['kind']
    if k[0] == 'Union':
        return False
    ts = set(item_traits(it))
    # rustc needs the supertrait impls under bounds at least as weak: require them under the same bound list
    groups = {}
    for a in it['attrs']:
        if a[0] == 'Dw' and a[1][0] == 'List':
            key = repr(a[1][2] or [])
            for m in a[1][1]:
                if m[0] in ('P', 'L') and not m[1][0] and len(m[1][1]) == 1:
                    groups.setdefault(key, set()).add(m[1][1][0])
    for key, g in groups.items():
        for t in g:
            if any(x not in g and x not in groups.get('[]', set()) for x in SUPER.get(t, [])):
                return False
    if zeroize:
        if not (ts & {'Zeroize', 'ZeroizeOnDrop'}):
            return False
        if 'Copy' in ts:
            return False        # the zeroize probe type logs its drop, so it cannot be Copy
    else:
        if ts & {'Zeroize', 'ZeroizeOnDrop'}:
            return False
    for a in it['attrs']:
        if a[0] == 'Dw' and a[1][0] == 'List':
            for m in a[1][1]:
                if m[0] == 'NV' or (m[0] == 'L' and m[1][1][0] not in ('skip_inner',) and m[2] is not None and any(x[0] == 'NV' for x in m[2])):
                    return False     # crate = .. options need the renamed crate
            for g in (a[1][2] or []):
                if g[0] == 'Ty':
                    if len(g[1]) != 1:
                        return False
                elif g[0] == 'Pred':
                    if not (len(g[1]) >= 3 and g[1][1] == ':' and all(t in ALLOWED_PRED for t in g[1][2:])):
                        return False
                else:
                    return False
        if a[0] == 'Dw' and a[1][0] == 'List' and a[1][2] and any(m[0] in ('P', 'L') and m[1][1] == ['ZeroizeOnDrop'] for m in a[1][1]):
            return False        # known finding F11: a Drop impl with extra bounds is always rejected by rustc (E0367)
        if a[0] == 'Other' and ('derive_where' in a[1][1] or a[1][1][-1] == 'derive_where_visited'):
            return False        # a second attribute-macro invocation: outside the single-invocation model
        if a[0] == 'Other' and a[1][1][-1] not in ('doc', 'allow', 'cfg', 'deprecated', 'must_use', 'non_exhaustive', 'warn', 'deny', 'forbid', 'inline'):
            return False        # somebody else's attribute (`#[serde(..)]`): rustc cannot resolve it in the probe crate
    reprs = [i for a in it['attrs'] if a[0] == 'Repr' and a[1][0] == 'Idents' for i in a[1][1]]
    ints = [r for r in reprs if r not in ('C', 'Rust')]
    INT_REPRS = ('u8', 'u16', 'u32', 'u64', 'u128', 'usize', 'i8', 'i16', 'i32', 'i64', 'i128', 'isize')
    if any(r not in INT_REPRS for r in ints):
        return False            # rustc rejects the representation itself (E0517 / E0552), whatever the macro does with it
    if len(ints) > 1:
        return False            # rustc: conflicting representation hints (E0566, also for the same hint given twice)
    if k[0] == 'Enum' and not ints and any(v['disc'] is not None for v in k[1]) and any(v['shape'] != 'Unit' for v in k[1]):
        return False            # rustc E0732: explicit discriminants on non-unit variants need an integer repr
    if k[0] == 'Enum' and 'C' in reprs and ints and not any(v['fields'] for v in k[1]):
        return False            # rustc E0566 on field-less enums
    g = it['generics']
    if g['where']:
        for p in g['where'][0]:
            if not (len(p) >= 3 and p[1] == ':' and all(t in ALLOWED_PRED or t.startswith("'") for t in p[2:])):
                return False
    for p in g['params']:
        if p[0] == 'Ty' and any(t not in ALLOWED_PRED and not t.startswith("'") for t in p[2]):
            return False
    return True


def marker_ty(it):
    g = it['generics']
    parts = []
    for p in g['params']:
        if p[0] == 'Lt':
            parts.append("&'%s ()" % p[1])
        elif p[0] == 'Ty':
            parts.append(p[1])
    return '(' + ', '.join(parts) + (',' if len(parts) == 1 else '') + ')'


def instantiation(it):
    g = it['generics']
    args = []
    for p in g['params']:
        if p[0] == 'Lt':
            args.append("'static")
        elif p[0] == 'Ty':
            args.append('X')
        else:
            args.append('3')
    return ('<' + ', '.join(args) + '>') if args else ''


def probe_item(it, zeroize):
    """the item with every field type replaced by the probe type"""
    it = copy.deepcopy(it)
    pt = ('Z' if zeroize else 'P') + '<' + marker_ty(it) + '>'
    it['vis'] = []
    if not any(v['fields'] for v in variants_of(it)):
        # no field can mention the parameters: rustc rejects unused parameters (E0392), so drop them
        it['generics'] = dict(params=[], trailing=False, where=None)
        for a in it['attrs']:
            if a[0] == 'Dw' and a[1][0] == 'List' and a[1][2] is not None:
                return None
    k = it['kind']
    fls = [k[2]] if k[0] == 'Struct' else [v['fields'] for v in k[1]]
    for fs in fls:
        for f in fs:
            f['ty'] = [pt]
            f['vis'] = []
    return it


def variants_of(it):
    k = it['kind']
    if k[0] == 'Struct':
        return [dict(name=None, shape=k[1], fields=k[2])]
    return [dict(name=v['name'], shape=v['shape'], fields=v['fields']) for v in k[1]]


def enum_values(it, domain, rng, cap_per_variant=12, cap_total=36):
    vals = []
    for vi, v in enumerate(variants_of(it)):
        n = len(v['fields'])
        allv = list(itertools.product(domain, repeat=n))
        if len(allv) > cap_per_variant:
            base = [tuple([d] * n) for d in domain[:2]]
            for pos in range(n):
                for d in domain[1:]:
                    t = [domain[0]] * n
                    t[pos] = d
                    base.append(tuple(t))
            rest = [x for x in allv if x not in base]
            rng.shuffle(rest)
            allv = (base + rest)[:cap_per_variant]
        for fv in allv:
            vals.append((vi, list(fv)))
    if len(vals) > cap_total:
        keep = []
        byv = {}
        for x in vals:
            byv.setdefault(x[0], []).append(x)
        per = max(2, cap_total // len(byv))
        for vi in sorted(byv):
            keep += byv[vi][:per]
        vals = keep[:cap_total]
    return vals


def ctor_expr(it, vi, fvals, pt):
    name = it['name']
    v = variants_of(it)[vi]
    path = name if v['name'] is None else name + '::' + v['name']
    if v['shape'] == 'Named':
        return path + ' { ' + ', '.join('%s: %s::new(%d)' % (f['name'], pt, x) for f, x in zip(v['fields'], fvals)) + ' }'
    if v['shape'] == 'Unnamed':
        return path + '(' + ', '.join('%s::new(%d)' % (pt, x) for x in fvals) + ')'
    return path


def view_fn(it, inst):
    name = it['name']
    arms = []
    for vi, v in enumerate(variants_of(it)):
        path = name if v['name'] is None else name + '::' + v['name']
        if v['shape'] == 'Named':
            binds = ', '.join('%s: ref f%d' % (f['name'], i) for i, f in enumerate(v['fields']))
            pat = path + ' { ' + binds + ' }'
        elif v['shape'] == 'Unnamed':
            pat = path + '(' + ', '.join('ref f%d' % i for i in range(len(v['fields']))) + ')'
        else:
            pat = path
        arms.append('%s => (%d, vec![%s])' % (pat, vi, ', '.join('f%d.0' % i for i in range(len(v['fields'])))))
    return 'fn view(v: &%s%s) -> (usize, Vec<u8>) { match *v { %s } }' % (name, inst, ', '.join(arms))


def hostile_ok(it):
    """the user's own bounds must not mention names the hostile scope redefines (they would mean the hostile items)"""
    toks = []
    g = it['generics']
    for p in g['params']:
        toks += list(p[2]) + (list(p[3]) if len(p) > 3 else [])
    for p in (g['where'][0] if g['where'] else []):
        toks += list(p)
    for a in it['attrs']:
        if a[0] == 'Dw' and a[1][0] == 'List':
            for gg in (a[1][2] or []):
                if gg[0] == 'Pred':
                    toks += list(gg[1][gg[1].index(':'):]) if ':' in gg[1] else list(gg[1])
    return all(t in ('Tr', 'Tr2', '+', ':', ',') or t.startswith("'") or t in [p[1] for p in g['params']] or t in ('u8', 'usize') or t.isdigit() for t in toks)


def has_skip(it):
    k = it['kind']
    def dw_metas(attrs):
        for a in attrs:
            if a[0] == 'Dw' and a[1][0] == 'List':
                for m in a[1][1]:
                    yield m
    names = lambda attrs: [m[1][1][0] for m in dw_metas(attrs) if m[0] in ('P', 'L') and len(m[1][1]) == 1]
    if any(n in ('skip', 'skip_inner') for n in names(it['attrs'])):
        return True
    vs = k[1] if k[0] == 'Enum' else [dict(attrs=[], fields=k[2] if k[0] == 'Struct' else k[1])]
    for v in vs:
        if any(n in ('skip', 'skip_inner') for n in names(v['attrs'])):
            return True
        for f in v['fields']:
            if any(n in ('skip', 'skip_inner') for n in names(f['attrs'])):
                return True
    return False


def has_marker(it, name):
    k = it['kind']
    def names(attrs):
        out = []
        for a in attrs:
            if a[0] == 'Dw' and a[1][0] == 'List':
                out += [m[1][1][0] for m in a[1][1] if m[0] in ('P', 'L') and len(m[1][1]) == 1]
        return out
    if name in names(it['attrs']):
        return True
    vs = k[1] if k[0] == 'Enum' else []
    return any(name in names(v['attrs']) for v in vs)


def item_module(idx, cid, it, vals, zeroize, hostile=False):
    """Rust source of one module running all observations of one item"""
    pit = it
    inst = instantiation(it)
    pt = 'Z' if zeroize else 'P'
    ts = item_traits(it)
    ty = it['name'] + inst
    L = []
    L.append('pub mod m%d {' % idx)
    L.append('use super::*;')
    if hostile:
        pit = copy.deepcopy(it)
        pit['vis'] = ['pub']
        k = pit['kind']
        if k[0] == 'Struct':
            for f in k[2]:
                f['vis'] = ['pub']
        L.append('#[no_implicit_prelude] pub mod h {')
        L.append('use ::derive_where::derive_where; use super::super::{%s, Tr, Tr2, X};' % pt)
        L.append(HOSTILE_SCOPE)
        L.append(item_txt(pit))
        L.append('}')
        L.append('use self::h::%s;' % it['name'])
    else:
        L.append(item_txt(pit))
    L.append(view_fn(it, inst))
    L.append('fn show(v: &%s) -> String { let (i, f) = view(v); format!("{}:{}", i, f.iter().map(|x| format!("{},", x)).collect::<String>()) }' % ty)
    L.append('pub fn run() {')
    L.append('println!("OBS %s");' % cid)
    L.append('let mk: Vec<fn() -> %s> = vec![%s];' % (ty, ', '.join('|| ' + ctor_expr(it, vi, fv, pt) for vi, fv in vals)))
    L.append('let vals: Vec<%s> = mk.iter().map(|f| f()).collect();' % ty)
    if 'PartialEq' in ts:
        L.append('for a in &vals { let mut s = String::new(); for b in &vals { let e = a == b; assert!((a != b) == !e); s.push(if e {\'1\'} else {\'0\'}); } println!("I-eq {}", s); }')
    if 'Ord' in ts:
        L.append('for a in &vals { let mut s = String::new(); for b in &vals { s.push(ch(Some(Ord::cmp(a, b)))); } println!("I-cmp {}", s); }')
    if 'PartialOrd' in ts:
        L.append('for a in &vals { let mut s = String::new(); for b in &vals { let p = a.partial_cmp(b); '
                 'assert_eq!(a < b, p == Some(Ordering::Less)); assert_eq!(a > b, p == Some(Ordering::Greater)); '
                 'assert_eq!(a <= b, matches!(p, Some(Ordering::Less | Ordering::Equal))); assert_eq!(a >= b, matches!(p, Some(Ordering::Greater | Ordering::Equal))); '
                 's.push(ch(p)); } println!("I-pcmp {}", s); }')
    if 'Hash' in ts:
        L.append('for a in &vals { let mut r = Rec::default(); a.hash(&mut r); println!("I-hash {}", r.0.iter().map(|x| format!("{};", x)).collect::<String>()); }')
    if 'Clone' in ts:
        L.append('for a in &vals { log_take(); let c = a.clone(); let l = log_take(); println!("I-clone {}|{}", show(&c), l.iter().map(|x| format!("{},", x)).collect::<String>()); std::mem::forget(c); }')
    if 'Default' in ts:
        L.append('{ let d = <%s as Default>::default(); println!("I-default {}", show(&d)); std::mem::forget(d); }' % ty)
    if 'Debug' in ts:
        L.append('for a in &vals { println!("I-debug {}", esc(format!("{:?}", a))); println!("I-debugp {}", esc(format!("{:#?}", a))); }')
        pass
    std = [t for t in ('Debug', 'PartialEq', 'Eq', 'PartialOrd', 'Ord', 'Hash') if t in ts]
    if std and not hostile and not zeroize and not has_skip(it) and not has_marker(it, 'incomparable'):
        # nothing is skipped or incomparable: the STANDARD derives on a mirror type (same names, in a sub-module) must give the same answers
        mit = copy.deepcopy(it)
        mit['attrs'] = [a for a in mit['attrs'] if a[0] == 'Repr']
        mit['vis'] = ['pub']
        kk = mit['kind']
        for v in (kk[1] if kk[0] == 'Enum' else [dict(attrs=[], fields=kk[2])]):
            v['attrs'] = []
            for f in v['fields']:
                f['attrs'] = []
                if kk[0] != 'Enum':
                    f['vis'] = ['pub']
        sup = {'Eq': ['PartialEq'], 'PartialOrd': ['PartialEq'], 'Ord': ['PartialEq', 'Eq', 'PartialOrd']}
        ders = list(std)
        for t in std:
            ders += [x for x in sup.get(t, []) if x not in ders]
        L.append('pub mod mirror { use super::super::*; #[derive(%s)] %s }' % (', '.join(ders), item_txt(mit)))
        L.append('let mkm: Vec<fn() -> mirror::%s> = vec![%s];' % (ty, ', '.join('|| mirror::' + ctor_expr(it, vi, fv, pt) for vi, fv in vals)))
        L.append('let mvals: Vec<mirror::%s> = mkm.iter().map(|f| f()).collect();' % ty)
        if 'Debug' in std:
            L.append('for a in &mvals { println!("I-stddebug {}", esc(format!("{:?}", a))); println!("I-stddebugp {}", esc(format!("{:#?}", a))); }')
        if 'PartialEq' in std:
            L.append('for a in &mvals { let mut s = String::new(); for b in &mvals { s.push(if a == b {\'1\'} else {\'0\'}); } println!("I-stdeq {}", s); }')
        if 'Ord' in std:
            L.append('for a in &mvals { let mut s = String::new(); for b in &mvals { s.push(ch(Some(Ord::cmp(a, b)))); } println!("I-stdcmp {}", s); }')
        if 'PartialOrd' in std:
            L.append('for a in &mvals { let mut s = String::new(); for b in &mvals { s.push(ch(a.partial_cmp(b))); } println!("I-stdpcmp {}", s); }')
        if 'Hash' in std:
            L.append('for a in &mvals { let mut r = Rec::default(); a.hash(&mut r); println!("I-stdhash {}", r.0.iter().map(|x| format!("{};", x)).collect::<String>()); }')
    if 'Zeroize' in ts:
        L.append('for f in &mk { let mut a = f(); log_take(); zeroize::Zeroize::zeroize(&mut a); let l = log_take(); println!("I-zeroize {}|{}", show(&a), l.iter().map(|x| format!("{},", x)).collect::<String>()); std::mem::forget(a); }')
    if 'ZeroizeOnDrop' in ts:
        L.append('for f in &mk { let a = f(); let before = show(&a); log_take(); drop(a); let l = log_take(); println!("I-drop {}|{}", before, l.iter().map(|x| format!("{},", x)).collect::<String>()); }')
        L.append('println!("I-needsdrop {}", std::mem::needs_drop::<%s>());' % ty)
    if zeroize:
        L.append('for v in vals { std::mem::forget(v); }')
    L.append('}')
    L.append('}')
    return '\n'.join(L)


def build_and_run(cfg, modules, repo, scratch_root, keep_src=None, hostile=False, miri=False):
    """returns (ok, stdout, compile_errors_json_lines)"""
    feats = CFGS[cfg]['features']
    scratch = tempfile.mkdtemp(prefix='dwprobe-', dir=scratch_root)
    try:
        os.makedirs(os.path.join(scratch, 'src'))
        dep = 'derive-where = { path = "%s"%s }' % (repo, (', features = ["%s"]' % feats) if feats else '')
        deps = dep + ('\nzeroize = "1"' if CFGS[cfg]['zeroize'] else '')
        open(os.path.join(scratch, 'Cargo.toml'), 'w').write('[package]\nname = "probe"\nversion = "0.0.0"\nedition = "2021"\n[workspace]\n[dependencies]\n%s\n[profile.dev]\ndebug = 0\n' % deps)
        import runner as _r
        shutil.copy(_r.lockfile(), os.path.join(scratch, 'Cargo.lock'))
        src = PRELUDE + (ZPRELUDE if CFGS[cfg]['zeroize'] else '') + (HOSTILE_PRELUDE if hostile else '') + '\n'.join(m for _, m in modules) + \
            '\nfn main() {\nlet skip: Vec<usize> = std::env::args().skip(1).filter_map(|a| a.parse().ok()).collect();\n' + \
            '\n'.join('if !skip.contains(&%d) { m%d::run(); }' % (i, i) for i, _ in modules) + '\nprintln!("DONE");\n}\n'
        open(os.path.join(scratch, 'src', 'main.rs'), 'w').write(src)
        if keep_src:
            shutil.copy(os.path.join(scratch, 'src', 'main.rs'), keep_src)
        env = dict(os.environ)
        env.update(CARGO_TARGET_DIR=os.path.join(scratch, 'target'), CARGO_NET_OFFLINE='true')
        cmd = ['cargo']
        if cfg == 'nightly':
            cmd.append('+nightly')
        cmd += ['build', '--offline', '-q', '--message-format=short']
        if miri:
            # the interpreter checks every executed operation: a wrong-width tag read or a reached unreachable_unchecked is reported as UB
            cmd = ['cargo', '+nightly', 'miri', 'run', '--offline', '-q', '--']
            env['MIRIFLAGS'] = '-Zmiri-disable-isolation'
        else:
            p = subprocess.run(cmd, cwd=scratch, env=env, stdout=subprocess.PIPE, stderr=subprocess.STDOUT, text=True, timeout=3000)
            if p.returncode != 0:
                return False, '', p.stdout
        # a reached unreachable_unchecked aborts the process (debug-assertion UB check): note the item, skip it, go on
        out, errs, skip = '', '', []
        ids = {}
        for i, m in modules:
            mm = re.search(r'println!\("OBS ([^"]*)"\);', m)
            ids[mm.group(1)] = i
        for attempt in range(40):
            if miri:
                r = subprocess.run(cmd + [str(x) for x in skip], cwd=scratch, env=env, stdout=subprocess.PIPE, stderr=subprocess.PIPE, text=True, timeout=3000)
                if attempt == 0 and 'OBS ' not in r.stdout and r.returncode != 0 and 'Undefined Behavior' not in r.stderr:
                    return False, '', r.stderr
            else:
                r = subprocess.run([os.path.join(scratch, 'target', 'debug', 'probe')] + [str(x) for x in skip], stdout=subprocess.PIPE, stderr=subprocess.PIPE, text=True, timeout=600)
            if 'DONE' in r.stdout:
                # keep the blocks of earlier (aborted) attempts for the aborted items only
                out = r.stdout + out
                break
            last = [l for l in r.stdout.split('\n') if l.startswith('OBS ')]
            if not last or last[-1][4:] not in ids:
                out = r.stdout + out
                errs += r.stderr[-1500:]
                break
            cid = last[-1][4:]
            skip.append(ids[cid])
            blk = r.stdout[r.stdout.rfind('OBS ' + cid):].split('\n')[1:]
            out += 'ABORTED ' + cid + '\n' + (r.stderr[r.stderr.find('Undefined Behavior') - 10:][:600] if 'Undefined Behavior' in r.stderr else r.stderr[-600:]).replace('\n', ' | ') + '\n' + 'PARTIAL ' + ' '.join(l.split(' ')[0] for l in blk if l) + '\n'
        return True, out, errs
    finally:
        shutil.rmtree(scratch, ignore_errors=True)


def parse_obs(text):
    out, cur = {}, None
    for line in text.split('\n'):
        if line.startswith('OBS '):
            cur = {}
            out[line[4:]] = cur
        elif cur is not None and ' ' in line and line[0] in 'IGR' and line[1] == '-':
            tag, rest = line.split(' ', 1)
            cur.setdefault(tag, []).append(rest)
        elif cur is not None and line and line[0] in 'IGR' and line[1:2] == '-':
            cur.setdefault(line, []).append('')
    return out


def sx_observe(cid, cfg, it, vals):
    vs = '(' + ' '.join('(%d (%s))' % (vi, ' '.join(str(x) for x in fv)) for vi, fv in vals) + ')'
    return '(observe ' + q(cid) + ' ' + sx_cfg(cfg) + ' ' + sx_item(it) + ' ' + vs + ')'


# ---- rendering of a Debug builder trace to text, as core::fmt does ----
def render_trace(tr, pretty):
    style, name, fields, nonex = tr.split('|')
    fs = [x.split('=') for x in fields.split(';') if x]
    nonex = nonex == '1'
    if style == 'U':
        return name
    if style == 'T':
        if not fs:
            return name
        if pretty:
            return name + '(\n' + ''.join('    %s,\n' % v for _, v in fs) + ')'
        return name + '(' + ', '.join(v for _, v in fs) + ')'
    if not fs:
        return name + (' { .. }' if nonex else '')
    if pretty:
        return name + ' {\n' + ''.join('    %s: %s,\n' % (n, v) for n, v in fs) + ('    ..\n' if nonex else '') + '}'
    return name + ' { ' + ', '.join('%s: %s' % (n, v) for n, v in fs) + (', ..' if nonex else '') + ' }'
