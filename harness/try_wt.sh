#!/bin/bash
# try_wt.sh <worktree-with-change-applied> <prop>...: run the quick checks of the given properties against a scratch
# checkout that carries a seeded change (nothing in /repo is touched; evidence and replays go to /var/tmp)
wt=$1; shift
export VERIF_REPO=$wt VERIF_EVIDENCE_DIR=/var/tmp/dw-seed-evidence/$(basename $wt) VERIF_REPLAY_DIR=/var/tmp/dw-seed-replays/$(basename $wt)
mkdir -p $VERIF_EVIDENCE_DIR $VERIF_REPLAY_DIR
for p in "$@"; do
  out=$(cd /verif && ./dwv check $p 2>&1 | grep -v WARNING)
  n=$(echo "$out" | grep -c "^VIOLATION")
  f=$(echo "$out" | grep "^VIOLATION" | grep -vc "no-failing-input-found")
  nv=$(echo "$out" | grep -c "no verdict")
  echo "$(basename $wt) $p: violations=$n with_failing_input=$f no_verdict=$nv"
  echo "$out" | grep "^VIOLATION" | head -3
done
