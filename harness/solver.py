"""Tie (D): what rustc's trait solver makes of the generated impls (C01, C02, C09, C17).

D1 (must compile, then runs): for generated items whose fields are `PhantomData<T>`, `PhantomData<U>` (so that every trait is
   derivable whatever T and U are), ask rustc `Item<M1, M2>: Trait` for marker types M implementing chosen subsets of the ten
   std traits and a user trait, for all ten traits.  The answers are compared with
     R: the documented rule (C01): requested in an attribute whose listed entries all satisfy the trait / the bound as written
        (plus Copy of each plain entry for Clone on a union) - never anything else (C02: no unrequested trait);
     G: the where-clause the Coq model renders for that impl, evaluated with the same marker table.
D2 (must fail in exactly the predicted items): paired items that differ in one field type or one skip marker (C17, C06):
   `Eq` with a field that is only `PartialEq`, union `Clone` without `Copy`, skipped fields of a trait-less type.
"""
import itertools
import json
import os
import random
import re
import shutil
import subprocess
import sys
import tempfile

sys.path.insert(0, os.path.dirname(os.path.abspath(__file__)))
import runner
from corpus import en, named, st, un, unnamed
from items import CFGS, dw, generics, item_txt, skip_meta, sub, tparam, variant

TRAITS = ['Clone', 'Copy', 'Debug', 'Default', 'Eq', 'Hash', 'Ord', 'PartialEq', 'PartialOrd']
PATHS = {'Clone': '::core::clone::Clone', 'Copy': '::core::marker::Copy', 'Debug': '::core::fmt::Debug', 'Default': '::core::default::Default',
         'Eq': '::core::cmp::Eq', 'Hash': '::core::hash::Hash', 'Ord': '::core::cmp::Ord', 'PartialEq': '::core::cmp::PartialEq',
         'PartialOrd': '::core::cmp::PartialOrd', 'Tr': 'Tr'}
SUPER = {'Eq': ['PartialEq'], 'Ord': ['Eq', 'PartialOrd', 'PartialEq'], 'Copy': ['Clone'], 'PartialOrd': ['PartialEq']}
# marker types: name -> set of traits
MARKERS = {
    'All': set(TRAITS) | {'Tr'}, 'Nil': set(), 'MClone': {'Clone'}, 'MCopy': {'Clone', 'Copy'}, 'MDebug': {'Debug'}, 'MDefault': {'Default'},
    'MHash': {'Hash'}, 'MPeq': {'PartialEq'}, 'MEq': {'PartialEq', 'Eq'}, 'MPord': {'PartialEq', 'PartialOrd'},
    'MOrd': {'PartialEq', 'Eq', 'PartialOrd', 'Ord'}, 'MTr': {'Tr'}, 'NoTr': set(TRAITS),
}
PHT = ['::', 'core', '::', 'marker', '::', 'PhantomData', '<', 'T', '>']
PHU = ['::', 'core', '::', 'marker', '::', 'PhantomData', '<', 'U', '>']


def prelude():
    L = ['#![allow(dead_code, unused, non_local_definitions)]', 'use derive_where::derive_where;', 'pub trait Tr {}']
    for m, ts in MARKERS.items():
        L.append('pub struct %s;' % m)
        if 'Clone' in ts:
            L.append('impl Clone for %s { fn clone(&self) -> Self { %s } }' % (m, m))
        if 'Copy' in ts:
            L.append('impl Copy for %s {}' % m)
        if 'Debug' in ts:
            L.append('impl ::core::fmt::Debug for %s { fn fmt(&self, f: &mut ::core::fmt::Formatter<\'_>) -> ::core::fmt::Result { f.write_str("m") } }' % m)
        if 'Default' in ts:
            L.append('impl Default for %s { fn default() -> Self { %s } }' % (m, m))
        if 'PartialEq' in ts:
            L.append('impl PartialEq for %s { fn eq(&self, _: &Self) -> bool { true } }' % m)
        if 'Eq' in ts:
            L.append('impl Eq for %s {}' % m)
        if 'PartialOrd' in ts:
            L.append('impl PartialOrd for %s { fn partial_cmp(&self, _: &Self) -> Option<::core::cmp::Ordering> { Some(::core::cmp::Ordering::Equal) } }' % m)
        if 'Ord' in ts:
            L.append('impl Ord for %s { fn cmp(&self, _: &Self) -> ::core::cmp::Ordering { ::core::cmp::Ordering::Equal } }' % m)
        if 'Hash' in ts:
            L.append('impl ::core::hash::Hash for %s { fn hash<H: ::core::hash::Hasher>(&self, _: &mut H) {} }' % m)
        if 'Tr' in ts:
            L.append('impl Tr for %s {}' % m)
    L.append('pub trait No { const Y: bool = false; } impl<X: ?Sized> No for X {}')
    for t in TRAITS:
        L.append('pub struct W%s<X: ?Sized>(::core::marker::PhantomData<X>); impl<X: ?Sized + %s> W%s<X> { pub const Y: bool = true; }' % (t, PATHS[t], t))
    return '\n'.join(L) + '\n'


# ------------------------------------------------------------------ evaluation of `type : bound` with the marker table
def ty_has(ty, trait, env):
    """ty: token list; env: param -> marker name"""
    if len(ty) == 1:
        t = ty[0]
        if t in env:
            return trait in MARKERS[env[t]]
        if t in MARKERS:
            return trait in MARKERS[t]
        if t in ('u8', 'u16', 'usize', 'bool'):
            return trait != 'Tr'
        raise ValueError('type ' + t)
    if ty[0] == 'Vec' and ty[1] == '<' and ty[-1] == '>':
        if trait == 'Copy' or trait == 'Tr':
            return False
        if trait == 'Default':
            return True
        return ty_has(ty[2:-1], trait, env)
    if ty[0] == '[' and ty[-1] == ']' and ty[-2] == '3' and ty[-3] == ';':
        if trait == 'Tr':
            return False
        return ty_has(ty[1:-3], trait, env)
    if ty[0] == '(' and ty[-1] == ')' and ty[-2] == ',':
        if trait == 'Tr':
            return False
        return ty_has(ty[1:-2], trait, env)
    if ty[-1] == '>' and 'PhantomData' in ty:
        return trait != 'Tr'
    raise ValueError('type ' + ' '.join(ty))


def bound_holds(ty, bound, env):
    """bound: tokens of one bound (a path, `?Sized`, or a lifetime)"""
    if bound[0] == '?' or bound[0].startswith("'") or bound == ["'", 'static']:
        return True
    name = [b for b in bound if re.match(r'[A-Za-z_]', b)][-1]
    if name == 'Sized':
        return True
    return ty_has(ty, name, env)


def split_top(toks, sep):
    out, cur, depth = [], [], 0
    for t in toks:
        if t in ('<', '(', '['):
            depth += 1
        elif t in ('>', ')', ']'):
            depth -= 1
        if t == sep and depth == 0:
            out.append(cur)
            cur = []
        else:
            cur.append(t)
    if cur:
        out.append(cur)
    return out


def pred_holds(pred, env):
    k = pred.index(':')
    ty, bounds = pred[:k], pred[k + 1:]
    # the model flattens `::` into two `:` tokens: re-join them inside the bound list
    joined, i = [], 0
    while i < len(bounds):
        if bounds[i] == ':' and i + 1 < len(bounds) and bounds[i + 1] == ':':
            joined.append('::')
            i += 2
        else:
            joined.append(bounds[i])
            i += 1
    return all(bound_holds(ty, b, env) for b in split_top(joined, '+') if b)


def spec_applies(it, trait, env):
    """the documented rule (C01), computed from the item description"""
    union = it['kind'][0] == 'Union'
    res = False
    for a in it['attrs']:
        if a[0] != 'Dw' or a[1][0] != 'List':
            continue
        names = [m[1][1][0] for m in a[1][1] if m[0] in ('P', 'L')]
        if trait not in names:
            continue
        ok = True
        for g in (a[1][2] or []):
            if g[0] == 'Ty':
                ok = ok and ty_has(g[1], trait, env)
                if union and trait == 'Clone':
                    ok = ok and ty_has(g[1], 'Copy', env)
            else:
                ok = ok and pred_holds(g[1], env)
        res = res or ok
    return res


def model_applies(mres, trait, env):
    """evaluate the where-clause the Coq model renders for the impl(s) of `trait`"""
    res = False
    for im in mres['impls']:
        if im['trait'] != trait:
            continue
        hdr = im['toks'][:im['hlen']]
        if 'where' in hdr:
            w = hdr[hdr.index('where') + 1:]
            preds = [p for p in split_top(w, ',') if p]
        else:
            preds = []
        res = res or all(pred_holds(p, env) for p in preds)
    return res


# ------------------------------------------------------------------ D1 items
def closed(ts):
    return all(s in ts for t in ts for s in SUPER.get(t, []))


def d1_items():
    g2 = generics([tparam('T'), tparam('U')])
    sets = [['Clone'], ['Clone', 'Copy'], ['Debug'], ['Default'], ['Hash'], ['PartialEq'], ['PartialEq', 'Eq'], ['PartialEq', 'PartialOrd'],
            ['PartialEq', 'Eq', 'PartialOrd', 'Ord'], TRAITS[:]]
    lists = [('none', None), ('T', ['T']), ('U', ['U']), ('TU', ['T', 'U']), ('TT', ['T', 'T']), ('cust', [('Pred', ['T', ':', 'Tr'])]),
             ('custClone', [('Pred', ['U', ':', 'Clone'])]), ('mixed', ['T', ('Pred', ['U', ':', 'Tr'])]), ('mixed_rev', [('Pred', ['T', ':', 'Tr', '+', 'Clone']), 'U']),
             ('vec', [('Ty', ['Vec', '<', 'T', '>'])]), ('arr', [('Ty', ['[', 'U', ';', '3', ']']), 'T']), ('tup', [('Ty', ['(', 'T', ',', ')'])])]

    def kinds(attrs, has_default, tag):
        yield tag + '/struct', st('S', named(2, [PHT, PHU]), attrs, gen=g2)
        yield tag + '/tuple', st('S', unnamed(2, [PHT, PHU]), attrs, 'Unnamed', gen=g2)
        dflt = [sub('default')] if has_default else []
        yield tag + '/enum', en('E', [variant('A', 'Unnamed', unnamed(1, [PHT])), variant('B', 'Named', named(1, [PHU]), dflt), variant('C')], attrs, gen=g2)

    for (ln, bl), ts in itertools.product(lists, sets):
        yield from kinds([dw(ts, bl)], 'Default' in ts, 'one/%s/%s' % (ln, '+'.join(ts)))
    # several attributes with different bound lists; supertraits always under a sub-list of the bounds
    splits = [
        ('clone_T__debug_U', [dw(['Clone'], ['T']), dw(['Debug'], ['U'])]),
        ('clone_T__debug', [dw(['Clone'], ['T']), dw(['Debug'])]),
        ('debug__clone_T', [dw(['Debug']), dw(['Clone'], ['T'])]),
        ('clone__copy_T', [dw(['Clone']), dw(['Copy'], ['T'])]),
        ('clone_T__copy_TU', [dw(['Clone'], ['T']), dw(['Copy'], ['T', 'U'])]),
        ('peq_T__eq_TU__hash_U', [dw(['PartialEq'], ['T']), dw(['Eq'], ['T', 'U']), dw(['Hash'], ['U'])]),
        ('peq__pord_T__eq_U__ord_TU', [dw(['PartialEq']), dw(['PartialOrd'], ['T']), dw(['Eq'], ['U']), dw(['Ord'], ['T', 'U'])]),
        ('adjacent_equal', [dw(['Clone'], ['T']), dw(['Debug'], ['T']), dw(['Hash'], ['U'])]),
        ('nonadjacent_equal', [dw(['Clone'], ['T']), dw(['Hash'], ['U']), dw(['Debug'], ['T'])]),
        ('cust_vs_plain', [dw(['Clone'], [('Pred', ['T', ':', 'Tr'])]), dw(['Debug'], ['T']), dw(['Default'], [('Pred', ['U', ':', 'Tr'])])]),
        ('three', [dw(['Clone', 'Debug'], ['T']), dw(['PartialEq', 'Eq'], ['U']), dw(['Hash', 'Default'])]),
    ]
    for tag, attrs in splits:
        has_default = any('Default' in [m[1][1][0] for m in a[1][1]] for a in attrs)
        yield from kinds(attrs, has_default, 'split/' + tag)
    # unions: Clone needs Copy of the union; plain entries get `+ Copy`
    for ln, bl in lists:
        yield 'union/%s/cc' % ln, un('Un', named(2, [PHT, PHU]), [dw(['Clone', 'Copy'], bl)], gen=g2)


def type_params(it):
    return [p[1] for p in it['generics']['params'] if p[0] == 'Ty']


def instantiations(n=2):
    ms = list(MARKERS)
    out = [tuple(['All'] * n), tuple(['Nil'] * n)]
    for pos in range(n):
        for m in ms:
            if m != 'All':
                t = ['All'] * n
                t[pos] = m
                if tuple(t) not in out:
                    out.append(tuple(t))
    return out


def convert(it):
    """a corpus item as a trait-solver probe: every field becomes PhantomData of all parameters / u8, so that each trait is
    derivable whatever the parameters are.  None if the item is outside what the marker table can evaluate."""
    import copy
    g = it['generics']
    if g['where'] is not None or any(p[0] != 'Ty' or p[2] or p[3] for p in g['params']):
        return None
    ps = type_params(it)
    if not (1 <= len(ps) <= 3) or it['name'] in MARKERS or it['name'] in ps:
        return None
    groups = []
    for a in it['attrs']:
        if a[0] == 'Other' or (a[0] == 'Dw' and a[1][0] != 'List'):
            return None
        if a[0] == 'Repr':
            continue
        names = []
        for m in a[1][1]:
            if m[0] != 'P' or m[1][0] or len(m[1][1]) != 1 or m[1][1][0] not in TRAITS:
                return None
            names.append(m[1][1][0])
        env = {p: 'All' for p in ps}
        try:
            for gg in (a[1][2] or []):
                if gg[0] == 'Ty':
                    ty_has(gg[1], 'Clone', env)
                elif gg[0] == 'Pred':
                    if '?' in gg[1] or 'for' in gg[1]:
                        return None
                    pred_holds(gg[1], env)
                else:
                    return None
        except (ValueError, IndexError):
            return None
        groups.append((names, {repr(x) for x in (a[1][2] or [])}))
    # well-posed for rustc: every supertrait is derived under a sub-list of the bounds
    for names, bl in groups:
        for t in names:
            for sup in SUPER.get(t, []):
                if not any(sup in n2 and b2 <= bl for n2, b2 in groups):
                    return None
    if it['kind'][0] == 'Union':
        for names, bl in groups:
            if 'Clone' in names and not any('Copy' in n2 and b2 <= bl for n2, b2 in groups):
                return None      # `__AssertCopy<Self>` cannot hold: a must-fail item (tie D2), not a trait query
    it = copy.deepcopy(it)
    ph = ['::', 'core', '::', 'marker', '::', 'PhantomData', '<', '('] + [x for p in ps for x in (p, ',')] + [')', '>']
    k = it['kind']
    fls = [k[2]] if k[0] == 'Struct' else [k[1]] if k[0] == 'Union' else [v['fields'] for v in k[1]]
    first = True
    for fs in fls:
        for f in fs:
            f['ty'] = ph if first else ['u8']
            f['attrs'] = [a for a in f['attrs'] if a[0] != 'Other']
            first = False
    if first:
        return None          # no field can mention the parameters (E0392)
    if k[0] == 'Enum':
        for v in k[1]:
            v['disc'] = None
        it['attrs'] = [a for a in it['attrs'] if a[0] != 'Repr']
    return it


def build_run(cfg, src, run=True):
    feats = CFGS[cfg]['features']
    scratch = tempfile.mkdtemp(prefix='dwsolver-', dir=runner.SCRATCH_ROOT)
    try:
        os.makedirs(os.path.join(scratch, 'src'))
        dep = 'derive-where = { path = "%s"%s }' % (runner.REPO, (', features = ["%s"]' % feats) if feats else '')
        open(os.path.join(scratch, 'Cargo.toml'), 'w').write('[package]\nname = "solverprobe"\nversion = "0.0.0"\nedition = "2021"\n[workspace]\n[dependencies]\n%s\n[profile.dev]\ndebug = 0\n' % dep)
        shutil.copy(runner.lockfile(), os.path.join(scratch, 'Cargo.lock'))
        open(os.path.join(scratch, 'src', 'main.rs'), 'w').write(src)
        env = dict(os.environ)
        env.update(CARGO_TARGET_DIR=os.path.join(scratch, 'target'), CARGO_NET_OFFLINE='true')
        cmd = ['cargo'] + (['+nightly'] if cfg == 'nightly' else []) + ['build' if run else 'check', '--offline', '-q', '--message-format=json']
        p = subprocess.run(cmd, cwd=scratch, env=env, stdout=subprocess.PIPE, stderr=subprocess.PIPE, text=True, timeout=3000)
        errs = []
        for line in p.stdout.split('\n'):
            if not line.startswith('{'):
                continue
            try:
                j = json.loads(line)
            except ValueError:
                continue
            if j.get('reason') == 'compiler-message' and j.get('target', {}).get('name') == 'solverprobe' and j['message'].get('level') == 'error':
                msg = j['message']
                sp = [s for s in msg.get('spans', []) if s.get('is_primary')] or msg.get('spans', [])
                if sp:
                    errs.append(dict(line=sp[0]['line_start'], code=(msg.get('code') or {}).get('code'), message=msg['message']))
        out = ''
        if run and p.returncode == 0:
            r = subprocess.run([os.path.join(scratch, 'target', 'debug', 'solverprobe')], stdout=subprocess.PIPE, stderr=subprocess.PIPE, text=True, timeout=600)
            out = r.stdout
        elif p.returncode != 0 and not errs:
            raise runner.Infra('solver probe crate could not be built:\n' + p.stderr[-3000:])
        return out, errs
    finally:
        shutil.rmtree(scratch, ignore_errors=True)


def cached(tag, cfg, src, run):
    import gzip
    import hashlib
    import pickle
    import threading
    h = hashlib.sha256()
    h.update((tag + runner.repo_hash() + cfg + src).encode())
    key = os.path.join(runner.CACHE, 'solver-' + h.hexdigest()[:32] + '.pkl.gz')
    if os.path.exists(key):
        try:
            with gzip.open(key, 'rb') as fh:
                return pickle.load(fh)
        except Exception:
            pass
    with runner.lock(os.path.basename(key)):
        if os.path.exists(key):     # built meanwhile by a check running side by side
            try:
                with gzip.open(key, 'rb') as fh:
                    return pickle.load(fh)
            except Exception:
                pass
        res = build_run(cfg, src, run)
        os.makedirs(runner.CACHE, exist_ok=True)
        tmp = key + '.tmp%d.%d' % (os.getpid(), threading.get_ident())
        with gzip.open(tmp, 'wb') as fh:
            pickle.dump(res, fh)
        os.replace(tmp, key)
    return res


def attribute(errs, ranges):
    by = {}
    for e in errs:
        for lo, hi, idx in ranges:
            if lo <= e['line'] <= hi:
                by.setdefault(idx, []).append(e)
    return by


def corpus_items(cases, priority=()):
    out, seen = [], set()
    for cid, it in cases:
        if not (cid in priority or cid.split('/')[0] in ('bound', 'split', 'basic')):
            continue
        c = convert(it)
        if c is None:
            continue
        key = item_txt(c)
        if key in seen:
            continue
        seen.add(key)
        out.append(('corpus/' + cid, c))
    return out


def run_d1(cfg, only=None, extra=()):
    cases = [(cid, it) for cid, it in list(d1_items()) + list(extra) if not only or re.search(only, cid)]
    ms = runner.run_model({cfg: cases})[cfg]
    src = prelude()
    ranges, n = [], src.count('\n')
    plan = []
    rejected = [cid for cid, it in cases if ms[cid]['status'] != 'ok']
    cases = [(cid, it) for cid, it in cases if ms[cid]['status'] == 'ok']
    for idx, (cid, it) in enumerate(cases):
        rows = []
        insts = instantiations(len(type_params(it)))
        for tup in insts:
            rows.append('[' + ', '.join('<W%s<%s<%s>>>::Y' % (t, it['name'], ', '.join(tup)) for t in TRAITS) + ']')
        text = 'pub mod m%d {\nuse super::*;\n%s\npub const R: [[bool; %d]; %d] = [%s];\n}' % (idx, item_txt(it), len(TRAITS), len(insts), ', '.join(rows))
        lines = text.count('\n') + 1
        ranges.append((n + 1, n + lines, idx))
        src += text + '\n'
        n += lines
        plan.append((cid, it))
    src += 'fn main() {\n' + '\n'.join('println!("M %d {}", m%d::R.iter().map(|r| r.iter().map(|b| if *b {\'1\'} else {\'0\'}).collect::<String>()).collect::<Vec<_>>().join(" "));' % (i, i)
                                       for i in range(len(plan))) + '\nprintln!("DONE");\n}\n'
    out, errs = cached('d1', cfg, src, True)
    stats = dict(cfg=cfg, items=len(plan), rejected_by_the_macro=len(rejected), from_corpus=sum(1 for c, _ in plan if c.startswith('corpus/')), answers=0, positive=0, compile_errors=len(errs))
    problems = []
    if errs:
        by = attribute(errs, ranges)
        for idx, es in list(by.items())[:5]:
            cid, it = plan[idx]
            problems.append(dict(kind='solver', cfg=cfg, case='d1/' + cid, src=item_txt(it), why='the expansion does not compile',
                                 errors=[(e['code'], e['message'][:160]) for e in es[:3]]))
        if not problems:
            raise runner.Infra('solver probe crate failed outside the items: ' + repr(errs[:2]))
        return stats, problems
    if 'DONE' not in out:
        raise runner.Infra('solver probe did not finish')
    got = {}
    for l in out.split('\n'):
        if l.startswith('M '):
            _, i, rest = l.split(' ', 2)
            got[int(i)] = rest.split(' ')
    for idx, (cid, it) in enumerate(plan):
        ps = type_params(it)
        for tup, row in zip(instantiations(len(ps)), got[idx]):
            env = dict(zip(ps, tup))
            inst = '%s<%s>' % (it['name'], ', '.join(tup))
            for t, ch in zip(TRAITS, row):
                real = ch == '1'
                stats['answers'] += 1
                stats['positive'] += real
                spec = spec_applies(it, t, env)
                mod = model_applies(ms[cid], t, env)
                if real != spec or real != mod:
                    if len(problems) < 40:
                        problems.append(dict(kind='solver', cfg=cfg, case='d1/' + cid, src=item_txt(it), trait=t, instantiation=inst,
                                             rustc=real, documented_rule=spec, model_where_clause=mod,
                                             why='`%s: %s` is %s for rustc, %s by the documented rule, %s by the model\'s where-clause' % (inst, t, real, spec, mod)))
    stats['_samples'] = [dict(case='d1/' + plan[i][0], item=item_txt(plan[i][1]), first_rows=got[i][:2]) for i in sorted({0, len(plan) // 2}) if i < len(plan)]
    return stats, problems


# ------------------------------------------------------------------ D2: items that must not compile, next to siblings that must
def d2_items():
    """(id, item, must_fail)"""
    g1 = generics([tparam('T')])
    skips = [None, 'skip', ('skip', ['EqHashOrd']), ('skip', ['Debug']), ('skip', ['Hash'])]

    def sk(s):
        if s is None:
            return []
        if s == 'skip':
            return [sub('skip')]
        return [sub(skip_meta(*s))]
    # Eq with one field that is PartialEq + Debug + Hash.. but not Eq, at each position; skipped or not
    for pos, s in itertools.product(range(3), skips):
        tys = [PHT, PHT, PHT]
        tys[pos] = ['NoEq']
        attrs = [[], [], []]
        attrs[pos] = sk(s)
        fail = s in (None, ('skip', ['Debug']), ('skip', ['Hash']))
        tag = 'eq/p%d/%s' % (pos, 'none' if s is None else s if isinstance(s, str) else 'skip_' + s[1][0])
        ts = ['PartialEq', 'Eq', 'Debug', 'Hash']
        yield tag + '/struct', st('S', named(3, tys, attrs), [dw(ts)], gen=g1), fail
        yield tag + '/tuple', st('S', unnamed(3, tys, attrs), [dw(ts)], 'Unnamed', gen=g1), fail
        vs = [variant('A', 'Unnamed', unnamed(1, [tys[0]], [attrs[0]])), variant('B', 'Named', named(1, [tys[1]], [attrs[1]])), variant('C', 'Unnamed', unnamed(2, [PHT, tys[2]], [[], attrs[2]]))]
        yield tag + '/enum', en('E', vs, [dw(ts)], gen=g1), fail
    # the skip marker sits on a SIBLING of the non-Eq field (same struct / same variant / another variant): the non-Eq field is still asserted
    for spos, s in itertools.product((0, 2), ['skip', ('skip', ['EqHashOrd']), ('skip', ['Debug'])]):
        tys = [PHT, ['NoEq'], PHT]
        attrs = [[], [], []]
        attrs[spos] = sk(s)
        tag = 'eq/sibling%d/%s' % (spos, s if isinstance(s, str) else 'skip_' + s[1][0])
        ts = ['PartialEq', 'Eq', 'Debug', 'Hash']
        yield tag + '/struct', st('S', named(3, tys, attrs), [dw(ts)], gen=g1), True
        yield tag + '/tuple', st('S', unnamed(3, tys, attrs), [dw(ts)], 'Unnamed', gen=g1), True
        yield tag + '/enum_same_variant', en('E', [variant('A', 'Unnamed', unnamed(3, tys, attrs)), variant('B')], [dw(ts)], gen=g1), True
        yield tag + '/enum_other_variant', en('E', [variant('A', 'Unnamed', unnamed(1, [PHT], [attrs[spos]])), variant('B', 'Named', named(2, [['NoEq'], PHT]))], [dw(ts)], gen=g1), True
    # skip_inner on the variant / struct holding the field
    for grp, fail in ((None, False), (['EqHashOrd'], False), (['Debug'], True)):
        a = [sub(skip_meta('skip_inner', grp))]
        tag = 'eq/inner/%s' % ('all' if grp is None else grp[0])
        yield tag + '/struct', st('S', named(2, [PHT, ['NoEq']]), [dw(['PartialEq', 'Eq', 'Debug', 'Hash']), dw([skip_meta('skip_inner', grp)])], gen=g1), fail
        vs = [variant('A', 'Unnamed', unnamed(1, [PHT])), variant('B', 'Named', named(1, [['NoEq']]), a)]
        yield tag + '/enum', en('E', vs, [dw(['PartialEq', 'Eq', 'Debug', 'Hash'])], gen=g1), fail
    # a skipped field's type needs none of the skipped traits; an unskipped one does
    for s, fail in (('skip', False), (None, True)):
        for ts in (['Debug'], ['PartialEq'], ['Hash'], ['PartialEq', 'PartialOrd'], ['PartialEq', 'Eq', 'PartialOrd', 'Ord', 'Hash', 'Debug']):
            yield 'traitless/%s/%s' % (s or 'none', '+'.join(ts)), st('S', named(2, [PHT, ['Nil']], [[], sk(s)]), [dw(ts)], gen=g1), fail
    # Clone, Default are never skipped: a trait-less skipped field still breaks them
    yield 'traitless/skip/Clone', st('S', named(2, [PHT, ['Nil']], [[], sk('skip')]), [dw(['Clone', 'Debug'])], gen=g1), True
    yield 'traitless/skip/Default', st('S', named(2, [PHT, ['Nil']], [[], sk('skip')]), [dw(['Default', 'Debug'])], gen=g1), True
    # a field type that is Eq only under a STRONGER bound than the Eq impl carries (Eq/Ord need `P: Ord`): a plain entry `T` gives the
    # Eq impl `T: Eq` only, so the assertion must fail; the custom entry `T: Ord` gives every impl `T: Ord`, so it must compile
    g2 = generics([tparam('T'), tparam('U')])
    oe = ['OrdEq', '<', 'T', '>']
    for ts in (['PartialEq', 'Eq'], ['PartialEq', 'Eq', 'PartialOrd', 'Ord'], ['PartialEq', 'Eq', 'Hash', 'Debug'], ['PartialEq', 'Eq', 'PartialOrd', 'Ord', 'Hash', 'Debug', 'Clone']):
        for ln, bl, fail in (('T', ['T'], True), ('mixed', ['T', ('Pred', ['U', ':', 'Tr'])], True), ('mixed_rev', [('Pred', ['U', ':', 'Tr']), 'T'], True),
                             ('custom_ord', [('Pred', ['T', ':', 'Ord', '+', 'Clone', '+', '::', 'core', '::', 'hash', '::', 'Hash', '+', '::', 'core', '::', 'fmt', '::', 'Debug'])], False)):
            tag = 'eqbound/%s/%s' % (ln, '+'.join(ts))
            yield tag + '/struct', st('S', named(2, [oe, PHU]), [dw(ts, bl)], gen=g2), fail
            yield tag + '/enum', en('E', [variant('A', 'Unnamed', unnamed(1, [PHU])), variant('B', 'Named', named(1, [oe])), variant('C')], [dw(ts, bl)], gen=g2), fail
    # several fields whose types look alike (same outer type, different arguments / different module): each one needs its own assertion
    wt, wn = ['Wrap', '<', 'T', '>'], ['Wrap', '<', 'NoEq', '>']
    for tag, tys, fail in (('same_outer_bad_last', [wt, wn], True), ('same_outer_bad_first', [wn, wt], True), ('same_outer_ok', [wt, ['Wrap', '<', 'u8', '>']], False),
                           ('same_outer_bad_mid', [wt, wn, wt], True), ('module_prefix_bad', [['ma', '::', 'Foo'], ['mb', '::', 'Foo']], True),
                           ('module_prefix_ok', [['ma', '::', 'Foo'], ['ma', '::', 'Foo']], False), ('identical_bad', [wn, wn], True)):
        ts = ['PartialEq', 'Eq']
        yield 'eqdup/%s/struct' % tag, st('S', named(len(tys) + 2, tys + [PHT, PHU]), [dw(ts, ['T'])], gen=g2), fail
        yield 'eqdup/%s/tuple' % tag, st('S', unnamed(len(tys) + 2, tys + [PHT, PHU]), [dw(ts, ['T'])], 'Unnamed', gen=g2), fail
        yield 'eqdup/%s/enum' % tag, en('E', [variant('A', 'Unnamed', unnamed(2, [PHT, PHU])), variant('B', 'Named', named(len(tys), tys))], [dw(ts, ['T'])], gen=g2), fail
        yield 'eqdup/%s/enum_split' % tag, en('E', [variant('A', 'Unnamed', unnamed(2, [tys[0], PHT])), variant('B', 'Named', named(len(tys), tys[1:] + [PHU]))], [dw(ts, ['T'])], gen=g2), fail
    # union Clone only together with Copy of the union
    yield 'union/clone_only', un('Un', named(1, [PHT]), [dw(['Clone'])], gen=g1), True
    yield 'union/clone_T_only', un('Un', named(2, [PHT, PHU]), [dw(['Clone'], ['T'])], gen=g2), True
    yield 'union/clone_T__copy_T_2params', un('Un', named(2, [PHT, PHU]), [dw(['Clone'], ['T']), dw(['Copy'], ['T'])], gen=g2), False
    yield 'union/clone_copy_T_2params', un('Un', named(2, [PHT, PHU]), [dw(['Clone', 'Copy'], ['T'])], gen=g2), False
    yield 'union/clone_custom_only', un('Un', named(2, [PHT, PHU]), [dw(['Clone'], [('Pred', ['T', ':', 'Copy'])])], gen=g2), True
    yield 'union/clone_mixed_only', un('Un', named(2, [PHT, PHU]), [dw(['Clone'], ['T', ('Pred', ['U', ':', 'Tr'])])], gen=g2), True
    yield 'union/clone_copy', un('Un', named(1, [PHT]), [dw(['Clone', 'Copy'])], gen=g1), False
    yield 'union/clone__copy', un('Un', named(1, [PHT]), [dw(['Clone']), dw(['Copy'])], gen=g1), False
    yield 'union/clone_T__copy_T', un('Un', named(1, [PHT]), [dw(['Clone'], ['T']), dw(['Copy'], ['T'])], gen=g1), False
    yield 'union/clone__copy_T', un('Un', named(1, [PHT]), [dw(['Clone']), dw(['Copy'], ['T'])], gen=g1), True


def run_d2(cfg):
    cases = list(d2_items())
    ms = runner.run_model({cfg: [(c, it) for c, it, f in cases]})[cfg]
    src = prelude() + 'pub struct NoEq;\nimpl PartialEq for NoEq { fn eq(&self, _: &Self) -> bool { true } }\n' \
        'impl ::core::fmt::Debug for NoEq { fn fmt(&self, f: &mut ::core::fmt::Formatter<\'_>) -> ::core::fmt::Result { f.write_str("n") } }\n' \
        'impl ::core::hash::Hash for NoEq { fn hash<H: ::core::hash::Hasher>(&self, _: &mut H) {} }\n'
    src += 'pub struct OrdEq<K>(pub Vec<K>);\nimpl<K: PartialEq> PartialEq for OrdEq<K> { fn eq(&self, o: &Self) -> bool { self.0 == o.0 } }\nimpl<K: Ord> Eq for OrdEq<K> {}\n' \
        'impl<K: PartialOrd> PartialOrd for OrdEq<K> { fn partial_cmp(&self, o: &Self) -> Option<::core::cmp::Ordering> { self.0.partial_cmp(&o.0) } }\n' \
        'impl<K: Ord> Ord for OrdEq<K> { fn cmp(&self, o: &Self) -> ::core::cmp::Ordering { self.0.cmp(&o.0) } }\n' \
        'impl<K: ::core::hash::Hash> ::core::hash::Hash for OrdEq<K> { fn hash<H: ::core::hash::Hasher>(&self, h: &mut H) { self.0.hash(h) } }\n' \
        'impl<K: ::core::fmt::Debug> ::core::fmt::Debug for OrdEq<K> { fn fmt(&self, f: &mut ::core::fmt::Formatter<\'_>) -> ::core::fmt::Result { self.0.fmt(f) } }\n' \
        'impl<K: Clone> Clone for OrdEq<K> { fn clone(&self) -> Self { OrdEq(self.0.clone()) } }\n' \
        'pub struct Wrap<K>(pub K);\nimpl<K: PartialEq> PartialEq for Wrap<K> { fn eq(&self, o: &Self) -> bool { self.0 == o.0 } }\nimpl<K: Eq> Eq for Wrap<K> {}\n' \
        'pub mod ma { #[derive(PartialEq, Eq)] pub struct Foo; }\npub mod mb { #[derive(PartialEq)] pub struct Foo; }\n'
    ranges, n = [], src.count('\n')
    rejected = [c for c in cases if ms[c[0]]['status'] != 'ok']
    cases = [c for c in cases if ms[c[0]]['status'] == 'ok']
    for idx, (cid, it, fail) in enumerate(cases):
        text = 'pub mod n%d {\nuse super::*;\n%s\n}' % (idx, item_txt(it))
        lines = text.count('\n') + 1
        ranges.append((n + 1, n + lines, idx))
        src += text + '\n'
        n += lines
    src += 'fn main() {}\n'
    out, errs = cached('d2', cfg, src, False)
    by = attribute(errs, ranges)
    stats = dict(cfg=cfg, items=len(cases), rejected_by_the_macro=[c[0] + ': ' + str(ms[c[0]].get('err')) for c in rejected], must_fail=sum(1 for c in cases if c[2]), errors=len(errs))
    problems = []
    for idx, (cid, it, fail) in enumerate(cases):
        es = by.get(idx, [])
        if fail and not es:
            problems.append(dict(kind='solver', cfg=cfg, case='d2/' + cid, src=item_txt(it), why='compiles although a field type does not justify the impl', errors=[]))
        elif not fail and es:
            problems.append(dict(kind='solver', cfg=cfg, case='d2/' + cid, src=item_txt(it), why='does not compile although every unskipped field type supports the traits',
                                 errors=[(e['code'], e['message'][:160]) for e in es[:3]]))
        elif fail and any(e['code'] not in ('E0277', 'E0369', 'E0599', 'E0204') for e in es):
            problems.append(dict(kind='solver', cfg=cfg, case='d2/' + cid, src=item_txt(it), why='fails, but not with a missing-trait error',
                                 errors=[(e['code'], e['message'][:160]) for e in es[:3]]))
    if errs and not by:
        raise runner.Infra('solver probe (D2) failed outside the items: ' + repr(errs[:2]))
    return stats, problems


if __name__ == '__main__':
    cfg = sys.argv[1] if len(sys.argv) > 1 else 'default'
    which = sys.argv[2] if len(sys.argv) > 2 else 'd1'
    import corpus
    st_, pr = (run_d1(cfg, sys.argv[3] if len(sys.argv) > 3 else None, corpus_items(corpus.quick_corpus(1))) if which == 'd1' else run_d2(cfg))
    st_.pop('_samples', None)
    print(st_)
    for p in pr[:20]:
        print(p)
    print(len(pr), 'problems')
