"""Per-property configuration: which theorems, which correspondence slices, which oracle."""

ALL_CFGS = ['default', 'safe', 'nightly', 'zeroize', 'zeroize-on-drop']
STD_CFGS = ['default', 'safe', 'nightly']
Z_CFGS = ['zeroize', 'zeroize-on-drop']

CMP = {'PartialEq', 'PartialOrd', 'Ord'}

# traits whose impl BODY a property owns; 'header': owns headers of all impls; 'status': which
# accept/reject flips it owns ('reject->accept': model rejects, implementation accepts; ...)
PROPS = {
    'C01': dict(title='impls carry exactly the declared bounds', cfgs=ALL_CFGS, header=True, bodies=set(), extra=True),
    'C02': dict(title='accepted items yield compiling impls of exactly the requested traits', cfgs=ALL_CFGS, header=True,
                bodies='all', status={'accept->reject', 'reject->accept', 'impl_count'}, extra=True),
    'C03': dict(title='PartialEq is structural equality', cfgs=STD_CFGS, bodies={'PartialEq'}),
    'C04': dict(title='PartialOrd/Ord order by discriminant then fields', cfgs=STD_CFGS, bodies={'PartialOrd', 'Ord'}),
    'C05': dict(title='Eq/Ord/Hash contracts survive skip/incomparable', cfgs=STD_CFGS, bodies={'PartialEq', 'PartialOrd', 'Ord', 'Hash', 'Eq'},
                status={'reject->accept'}, status_filter='incomparable'),
    'C06': dict(title='skipped field invisible to exactly its group', cfgs=ALL_CFGS, bodies='all'),
    'C07': dict(title='incomparable never equal or ordered', cfgs=STD_CFGS, bodies={'PartialEq', 'PartialOrd'}),
    'C08': dict(title='Hash feeds variant and non-skipped fields', cfgs=STD_CFGS, bodies={'Hash'}),
    'C09': dict(title='clone() reproduces the value; Copy shortcut sound', cfgs=STD_CFGS, bodies={'Clone', 'Copy'}),
    'C10': dict(title='Debug matches the standard derive minus skipped fields', cfgs=STD_CFGS, bodies={'Debug'}),
    'C11': dict(title='default() builds the marked variant / struct', cfgs=STD_CFGS, bodies={'Default'}),
    'C12': dict(title='generated unsafe code is never UB; safe emits no unsafe', cfgs=['default', 'safe'], bodies=CMP),
    'C13': dict(title='feature flags change strategy, never results', cfgs=ALL_CFGS, bodies='all'),
    'C14': dict(title='expansion independent of caller scope and naming', cfgs=ALL_CFGS, header=True, bodies='all', extra=True, stage_a=True),
    'C15': dict(title='invalid attribute combinations are rejected', cfgs=ALL_CFGS, bodies=set(), status={'reject->accept'}),
    'C16': dict(title='failures are clean diagnostics: no panic, item stays defined', cfgs=ALL_CFGS, bodies=set(),
                status={'panic'}, stage_a=True),
    'C17': dict(title='Eq and union Clone only when field types justify', cfgs=STD_CFGS, bodies={'Eq', 'Clone'}),
    'C18': dict(title='zeroize() wipes non-skipped fields of the live variant', cfgs=Z_CFGS, bodies={'Zeroize'}),
    'C19': dict(title='dropping a ZeroizeOnDrop value zeroizes its fields', cfgs=Z_CFGS, bodies={'ZeroizeOnDrop'}, extra=True),
}


def owns(prop, dis):
    """does property `prop` own disagreement `dis` (a dict from tiea.compare_case + cfg + case id)?"""
    p = PROPS[prop]
    if dis['cfg'] not in p['cfgs']:
        return False
    k = dis['kind']
    if k == 'unsafe-under-safe':
        return prop == 'C12'
    if k == 'status':
        m, i = dis['model'].split(':')[0], dis['impl'].split(':')[0]
        if 'panic' in (m, i):
            flip = 'panic'
        elif m == 'ok':
            flip = 'accept->reject'
        else:
            flip = 'reject->accept'
        if flip == 'accept->reject' and flip not in p.get('status', ()):
            # the model - about which the theorems speak - accepts this item and gives it the impls the property describes; the real
            # macro refuses it: for this input the property's conclusion cannot hold (there is no `default()` / `clone()` to call).
            # Owned by every property one of whose traits the item requests; the item is the failing input.
            b = p.get('bodies')
            if not b:
                return False
            import re
            src = dis.get('src', '')
            return any(re.search(r'\b%s\b' % t, src) for t in (b if b != 'all' else ['derive_where']))
        if flip not in p.get('status', ()):
            return False
        f = p.get('status_filter')
        return f is None or f in dis.get('src', '')
    if k == 'impl_count':
        return 'impl_count' in p.get('status', ())
    if k == 'tokens':
        if dis['slice'] == 'header':
            return bool(p.get('header'))
        if dis['slice'] == 'extra':
            return bool(p.get('extra'))
        b = p.get('bodies')
        return b == 'all' or dis['trait'] in b
    if k in ('stageA', 'strip'):
        return bool(p.get('stage_a'))
    return False
