"""Markdown table of the seeded changes for DESIGN.md from seeded/*/meta.json and seeded/results*.json"""
import json
import os
import sys

V = os.path.dirname(os.path.dirname(os.path.abspath(__file__)))
res = {}
for f in sys.argv[1:]:
    p = os.path.join(V, 'seeded', f)
    if os.path.exists(p):
        res.update(json.load(open(p)))
print('| seed | what is needed for it to manifest | raised by (quick checks) | failing input exhibited by |')
print('|---|---|---|---|')
for sid in sorted(d for d in os.listdir(os.path.join(V, 'seeded')) if os.path.isdir(os.path.join(V, 'seeded', d))):
    m = json.load(open(os.path.join(V, 'seeded', sid, 'meta.json')))
    row = res.get(sid)
    if row and 'error' not in row:
        hit = [p for p in sorted(row) if row[p]['exit'] == 1]
        found = [p for p in sorted(row) if row[p].get('with_failing_input')]
        own = sid[:3]
        hs = ', '.join(('**%s**' % p) if p == own else p for p in hit) or '-'
        fs = ', '.join(('**%s**' % p) if p == own else p for p in found) or '-'
    else:
        hs = fs = '(own property, see meta.json)'
    print('| %s | %s | %s | %s |' % (sid, m.get('needs', '').replace('|', '\\|')[:260], hs, fs))
