"""Tie (A): expansion correspondence between the real macro and the Coq model."""
import sys, os, re, json, time
sys.path.insert(0, os.path.dirname(os.path.abspath(__file__)))
import runner, corpus
from items import item_txt, CFGS

CLASS_TABLE = [
    ('visited', r'was already applied to this item before'),
    ('path_unnecessary', r'^unnecessary path qualification'),
    ('crate_', r"the `crate` option has to be defined in it's own"),
    ('none', r'^no traits found to implement'),
    ('empty', r'^empty `derive_where` found'),
    ('use_case', r'^this can be handled by standard'),
    ('item_empty', r"doesn't support empty items"),
    ('union', r"aren't supported by unions"),
    ('option_trait', r"doesn't support this option"),
    ('option', r'^unknown option$'),
    ('options', r"doesn't support any options"),
    ('option_syntax', r'^unexpected option syntax'),
    ('option_empty', r'^empty attribute option found'),
    ('option_required', r'requires an option$'),
    ('option_duplicate', r'^duplicate `.*` option$'),
    ('option_enum_skip_inner', r"^enums don't support `skip_inner`"),
    ('option_skip_inner', r'^unexpected `skip` on a field when parent'),
    ('option_skip_empty', r'^no fields to skip'),
    ('option_skip_all', r'^unexpected constraint on `skip`'),
    ('option_skip_duplicate', r'^duplicate `.*` constraint on `skip`'),
    ('option_skip_no_trait', r'^no trait that can be skipped'),
    ('option_skip_trait', r"^trait to be skipped isn't being implemented"),
    ('skip_group', r'^unsupported skip group'),
    ('path', r'^expected path,'),
    ('trait_', r'^unsupported trait, expected one of'),
    ('trait_syntax', r'^unsupported trait syntax'),
    ('derive_where_delimiter', r'^expected `;` or `,'),
    ('generic', r'^only type predicates are supported'),
    ('generic_syntax', r'^expected type to bind to'),
    ('trait_duplicate', r'^duplicate trait(,| with the same bound)'),
    ('repr_unknown', r'^found unknown representation'),
    ('repr_discriminant_invalid', r'require a integer representation'),
    ('default', r'^`default` is only supported if'),
    ('default_missing', r'^required `default` option'),
    ('default_duplicate', r'^multiple `default` options'),
    ('incomparable', r'^`incomparable` is only supported if'),
    ('non_partial_incomparable', r'^`incomparable` is not supported if'),
    ('incomparable_on_item_and_variant', r'cannot be specified on both item and variant'),
    ('zeroize', r'^`Zeroize` option is only supported'),
    ('deprecated_zeroize_drop', r'is deprecated, use `ZeroizeOnDrop`'),
]
_CT = [(n, re.compile(p)) for n, p in CLASS_TABLE]


def classify(msg):
    """error class (constructor of src/error.rs) of a message, 'syn' for syn's own errors"""
    for n, p in _CT:
        if p.search(msg or ''):
            return n
    return 'syn'


def compare_case(m, i):
    """returns None if model result m and implementation result i agree, else a dict"""
    if i['status'] == 'unparsable':
        return dict(kind='generator', detail=i['msg'])
    if m['status'] != i['status']:
        return dict(kind='status', model=m['status'] + (':' + (m['err'] or '') if m['err'] else ''), impl=i['status'] + (':' + i['msg'] if i['msg'] else ''))
    if m['status'] == 'ok':
        if len(m['impls']) != len(i['impls']):
            return dict(kind='impl_count', model=len(m['impls']), impl=len(i['impls']))
        for k, (mi, ii) in enumerate(zip(m['impls'], i['impls'])):
            if mi['toks'] != ii:
                j = 0
                while j < min(len(mi['toks']), len(ii)) and mi['toks'][j] == ii[j]:
                    j += 1
                sl = 'header' if j < mi['hlen'] else 'body' if j < mi['hlen'] + 2 + mi['blen'] else 'extra'
                return dict(kind='tokens', impl_index=k, trait=mi['trait'], slice=sl, at=j,
                            model=' '.join(mi['toks'][max(0, j - 6):j + 12]), impl=' '.join(ii[max(0, j - 6):j + 12]))
    return None


def compare_stage_a(m, i):
    """stage A (attribute macro) and the stripped item; returns a list of disagreement dicts"""
    out = []
    if i.get('stageA') is None or m.get('stageA') is None:
        return out
    ms, mv = m['stageA']
    is_, iv = i['stageA']
    if ms != is_:
        out.append(dict(kind='stageA', what='status', model=ms + ':' + (mv if isinstance(mv, str) else ''), impl=is_ + ':' + (iv if isinstance(iv, str) else '')))
    elif ms == 'OK' and mv != iv:
        j = 0
        while j < min(len(mv), len(iv)) and mv[j] == iv[j]:
            j += 1
        out.append(dict(kind='stageA', what='tokens', at=j, model=' '.join(mv[max(0, j - 6):j + 10]), impl=' '.join(iv[max(0, j - 6):j + 10])))
    if m.get('strip') is not None and i.get('strip') is not None and m['strip'] != i['strip']:
        mv, iv = m['strip'], i['strip']
        j = 0
        while j < min(len(mv), len(iv)) and mv[j] == iv[j]:
            j += 1
        out.append(dict(kind='strip', what='tokens', at=j, model=' '.join(mv[max(0, j - 6):j + 10]), impl=' '.join(iv[max(0, j - 6):j + 10])))
    return out


if __name__ == '__main__':
    cfgs = sys.argv[1].split(',') if len(sys.argv) > 1 else ['default']
    cases = corpus.quick_corpus(1)
    if len(sys.argv) > 2:
        cases = [c for c in cases if re.search(sys.argv[2], c[0])]
    print(len(cases), 'cases')
    by = {c: cases for c in cfgs}
    t = time.time()
    mres = runner.run_model(by)
    print('model', time.time() - t)
    t = time.time()
    ires = runner.run_impl(by)
    print('impl', time.time() - t)
    bad = 0
    for c in cfgs:
        st = {}
        for cid, it in cases:
            d = compare_case(mres[c][cid], ires[c][cid])
            if d is None:
                sa = compare_stage_a(mres[c][cid], ires[c][cid])
                d = sa[0] if sa else None
            s = ires[c][cid]['status']
            st[s] = st.get(s, 0) + 1
            if d:
                bad += 1
                if bad <= 40:
                    print(c, cid, json.dumps(d, indent=1))
                    print('   ', item_txt(it))
        print(c, st)
    print('disagreements', bad)
