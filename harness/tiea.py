"""Tie (A): expansion correspondence between the real macro and the Coq model."""
import sys, os, re, json, time
sys.path.insert(0, os.path.dirname(os.path.abspath(__file__)))
import runner, corpus
from items import item_txt, CFGS

def compare_case(m, i):
    """returns None if model result m and implementation result i agree, else a dict"""
    if i['status'] == 'unparsable':
        return dict(kind='generator', detail=i['msg'])
    if m['status'] != i['status']:
        return dict(kind='status', model=m['status'] + (':' + (m['err'] or '') if m['err'] else ''), impl=i['status'] + (':' + i['msg'] if i['msg'] else ''))
    if m['status'] == 'ok':
        if len(m['impls']) != len(i['impls']):
            return dict(kind='impl_count', model=len(m['impls']), impl=len(i['impls']))
        for k, (mi, ii) in enumerate(zip(m['impls'], i['impls'])):
            if mi['toks'] != ii:
                j = 0
                while j < min(len(mi['toks']), len(ii)) and mi['toks'][j] == ii[j]:
                    j += 1
                sl = 'header' if j < mi['hlen'] else 'body' if j < mi['hlen'] + 2 + mi['blen'] else 'extra'
                return dict(kind='tokens', impl_index=k, trait=mi['trait'], slice=sl, at=j,
                            model=' '.join(mi['toks'][max(0, j - 6):j + 12]), impl=' '.join(ii[max(0, j - 6):j + 12]))
    return None

if __name__ == '__main__':
    cfgs = sys.argv[1].split(',') if len(sys.argv) > 1 else ['default']
    cases = corpus.quick_corpus(1)
    if len(sys.argv) > 2:
        cases = [c for c in cases if re.search(sys.argv[2], c[0])]
    print(len(cases), 'cases')
    by = {c: cases for c in cfgs}
    t = time.time()
    mres = runner.run_model(by)
    print('model', time.time() - t)
    t = time.time()
    ires = runner.run_impl(by)
    print('impl', time.time() - t)
    bad = 0
    for c in cfgs:
        st = {}
        for cid, it in cases:
            d = compare_case(mres[c][cid], ires[c][cid])
            s = ires[c][cid]['status']
            st[s] = st.get(s, 0) + 1
            if d:
                bad += 1
                if bad <= 40:
                    print(c, cid, json.dumps(d, indent=1))
                    print('   ', item_txt(it))
        print(c, st)
    print('disagreements', bad)
