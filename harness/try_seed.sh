#!/bin/bash
# try_seed.sh <seed-id> <prop>...: apply the seeded change to /repo, run the quick checks of the given properties, revert
s=$1; shift
export VERIF_EVIDENCE_DIR=/var/tmp/dw-seed-evidence VERIF_REPLAY_DIR=/var/tmp/dw-seed-replays
git -C /repo apply /verif/seeded/$s/patch.diff || exit 2
for p in "$@"; do
  out=$(cd /verif && ./dwv check $p 2>&1 | grep -v WARNING)
  n=$(echo "$out" | grep -c "^VIOLATION")
  f=$(echo "$out" | grep "^VIOLATION" | grep -vc "no-failing-input-found")
  nv=$(echo "$out" | grep -c "no verdict")
  echo "$s $p: violations=$n with_failing_input=$f no_verdict=$nv"
done
git -C /repo checkout -- .
