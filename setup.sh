#!/bin/sh
# Builds the framework from files on disk only: the Coq development (full .vo build,
# which checks every proof), the extracted model and its OCaml driver.
set -e
cd "$(dirname "$0")"
cd coq
coq_makefile -f _CoqProject -o Makefile.coq >/dev/null
timeout 3000 make -f Makefile.coq -j16
cd ../ocaml
ocamlfind ocamlopt -O2 -w -a -package str model.mli model.ml driver.ml -o model_driver
echo "setup ok"
